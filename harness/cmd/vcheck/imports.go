package main

// Every package that registers properties with eng.
import (
	_ "github.com/junioryono/godi/v4/verifh/conc"
	_ "github.com/junioryono/godi/v4/verifh/core"
	_ "github.com/junioryono/godi/v4/verifh/graphx"
	_ "github.com/junioryono/godi/v4/verifh/leak"
	_ "github.com/junioryono/godi/v4/verifh/regx"
	_ "github.com/junioryono/godi/v4/verifh/web"
)
