package main

// Every package that registers properties with eng.
import (
	_ "github.com/junioryono/godi/v4/verifh/graphx"
)
