//go:build !nocore

package main

import _ "github.com/junioryono/godi/v4/verifh/core"
