//go:build !noconc

package main

import _ "github.com/junioryono/godi/v4/verifh/conc"
