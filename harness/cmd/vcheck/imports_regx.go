//go:build !noregx

package main

import _ "github.com/junioryono/godi/v4/verifh/regx"
