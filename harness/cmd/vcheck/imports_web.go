//go:build !noweb

package main

import _ "github.com/junioryono/godi/v4/verifh/web"
