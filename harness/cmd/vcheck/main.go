// vcheck is both the driver and the worker of every check:
//
//	vcheck -prop C05 -tier quick            driver: spawns workers, aggregates, writes evidence
//	vcheck -worker -prop C05 ... -out f     worker: runs one shard (spawned by the driver)
//	vcheck -replay replays/C05-1-1.json     re-executes the recorded case in-process
package main

import (
	"encoding/json"
	"flag"
	"fmt"
	"os"
	"path/filepath"
	"runtime/debug"
	"strconv"
	"time"

	"github.com/junioryono/godi/v4/verifh/eng"
)

func main() {
	var (
		worker  = flag.Bool("worker", false, "run as worker")
		prop    = flag.String("prop", "", "property id")
		tier    = flag.String("tier", "quick", "quick|thorough")
		seed    = flag.Int64("seed", 1, "seed")
		shard   = flag.Int("shard", 0, "shard index")
		nshards = flag.Int("nshards", 1, "number of shards")
		from    = flag.Int("from", 0, "skip cases below this index")
		only    = flag.Int("only", -1, "run only this case index")
		out     = flag.String("out", "", "worker output stream")
		replay  = flag.String("replay", "", "replay file")
		verif   = flag.String("verif", "/verif", "verif dir")
		race    = flag.String("racebin", "", "path of the -race build of this binary")
		keep    = flag.Bool("keep", false, "keep work dir")
		list    = flag.Bool("list", false, "list properties")
	)
	flag.Parse()
	if *list {
		for _, id := range eng.IDs() {
			fmt.Println(id)
		}
		return
	}
	if s := os.Getenv("VERIF_SEED"); s != "" && !*worker && *replay == "" {
		if v, err := strconv.ParseInt(s, 10, 64); err == nil {
			*seed = v
		}
	}
	if t := os.Getenv("VERIF_TIER"); t != "" && !*worker && *replay == "" {
		if t == "quick" || t == "thorough" {
			*tier = t
		}
	}
	if *replay != "" {
		os.Exit(doReplay(*replay, *verif, *race))
	}
	if *worker {
		p := eng.Lookup(*prop)
		if p == nil {
			fmt.Fprintln(os.Stderr, "unknown property", *prop)
			os.Exit(2)
		}
		r, err := eng.NewReporter(*out)
		if err != nil {
			fmt.Fprintln(os.Stderr, err)
			os.Exit(2)
		}
		// a resolution that does not terminate must die quickly, not after eating 1 GB of stack
		debug.SetMaxStack(64 << 20)
		r.StartWatchdog(*prop, 30*time.Second)
		c := &eng.Ctx{Prop: *prop, Tier: *tier, Seed: *seed, Shard: *shard, NShards: *nshards, From: *from, Only: *only, R: r}
		p.Run(c)
		r.Finish()
		return
	}
	self, _ := os.Executable()
	rb := *race
	if rb == "" {
		rb = filepath.Join(filepath.Dir(self), "vcheck-race")
	}
	os.Exit(eng.Drive(eng.DriveOpts{Prop: *prop, Tier: *tier, Seed: *seed, VerifDir: *verif, PlainBin: self, RaceBin: rb, KeepWork: *keep}))
}

// doReplay re-runs the single recorded case and prints what the monitors say about it now.
func doReplay(path, verif, race string) int {
	bs, err := os.ReadFile(path)
	if err != nil {
		fmt.Println(err)
		return 2
	}
	var rp struct {
		Property string `json:"property"`
		Tier     string `json:"tier"`
		Seed     int64  `json:"seed"`
		NShards  int    `json:"nshards"`
		Case     int    `json:"case"`
		Sig      string `json:"sig"`
	}
	if err := json.Unmarshal(bs, &rp); err != nil {
		fmt.Println(err)
		return 2
	}
	p := eng.Lookup(rp.Property)
	if p == nil {
		fmt.Println("unknown property", rp.Property)
		return 2
	}
	if rp.Case < 0 {
		fmt.Println("this finding came from the race detector / stress and has no single deterministic case; re-run the check with the same VERIF_SEED:", rp.Seed)
		return 2
	}
	self, _ := os.Executable()
	bin := self
	if p.Race {
		if race == "" {
			race = filepath.Join(filepath.Dir(self), "vcheck-race")
		}
		bin = race
	}
	return eng.ReplayCase(bin, verif, rp.Property, rp.Tier, rp.Seed, rp.NShards, rp.Case, rp.Sig)
}
