//go:build !noleak

package main

import _ "github.com/junioryono/godi/v4/verifh/leak"
