//go:build !nographx

package main

import _ "github.com/junioryono/godi/v4/verifh/graphx"
