// gomut: a small source-level mutation tool (dev-only; used by tools/mutation.sh).
//
//	gomut -count file.go            number of mutation points
//	gomut -apply k file.go          prints the file with mutation k applied; the description goes to stderr
//
// Mutation operators: comparison / logical / arithmetic operator swaps, negated conditions,
// dropped statements (expression statements, assignments, inc/dec, defer, go, send), break <-> continue,
// dropped else branches, integer literals 0 <-> 1, "return nil" for a returned error variable.
package main

import (
	"flag"
	"fmt"
	"go/ast"
	"go/parser"
	"go/printer"
	"go/token"
	"os"
)

type mutation struct {
	desc  string
	apply func()
}

var swaps = map[token.Token]token.Token{
	token.EQL: token.NEQ, token.NEQ: token.EQL,
	token.LSS: token.LEQ, token.LEQ: token.LSS, token.GTR: token.GEQ, token.GEQ: token.GTR,
	token.LAND: token.LOR, token.LOR: token.LAND,
	token.ADD: token.SUB, token.SUB: token.ADD,
}

func collect(fset *token.FileSet, f *ast.File) []mutation {
	var ms []mutation
	pos := func(n ast.Node) string { return fset.Position(n.Pos()).String() }
	ast.Inspect(f, func(n ast.Node) bool {
		switch x := n.(type) {
		case *ast.BinaryExpr:
			if to, ok := swaps[x.Op]; ok {
				from := x.Op
				ms = append(ms, mutation{fmt.Sprintf("%s: operator %s -> %s", pos(x), from, to), func() { x.Op = to }})
			}
		case *ast.IfStmt:
			cond := x.Cond
			ms = append(ms, mutation{fmt.Sprintf("%s: negate if condition", pos(x)), func() {
				x.Cond = &ast.UnaryExpr{Op: token.NOT, X: &ast.ParenExpr{X: cond}}
			}})
			if x.Else != nil {
				ms = append(ms, mutation{fmt.Sprintf("%s: drop else branch", pos(x)), func() { x.Else = nil }})
			}
		case *ast.BlockStmt:
			for i, st := range x.List {
				i, st := i, st
				switch s := st.(type) {
				case *ast.ExprStmt, *ast.IncDecStmt, *ast.DeferStmt, *ast.GoStmt, *ast.SendStmt:
					ms = append(ms, mutation{fmt.Sprintf("%s: drop statement", pos(st)), func() { x.List[i] = &ast.EmptyStmt{Semicolon: st.Pos()} }})
				case *ast.AssignStmt:
					if s.Tok != token.DEFINE {
						ms = append(ms, mutation{fmt.Sprintf("%s: drop assignment", pos(st)), func() { x.List[i] = &ast.EmptyStmt{Semicolon: st.Pos()} }})
					}
				case *ast.BranchStmt:
					if s.Label == nil && (s.Tok == token.BREAK || s.Tok == token.CONTINUE) {
						to := token.CONTINUE
						if s.Tok == token.CONTINUE {
							to = token.BREAK
						}
						ms = append(ms, mutation{fmt.Sprintf("%s: %s -> %s", pos(st), s.Tok, to), func() { s.Tok = to }})
					}
				case *ast.ReturnStmt:
					// "return ..., err" -> "return ..., nil" when the last result is an identifier named err / setErr / firstErr
					if n := len(s.Results); n > 0 {
						if id, ok := s.Results[n-1].(*ast.Ident); ok && (id.Name == "err" || id.Name == "setErr" || id.Name == "firstErr") {
							ms = append(ms, mutation{fmt.Sprintf("%s: return nil instead of %s", pos(st), id.Name), func() { s.Results[n-1] = ast.NewIdent("nil") }})
						}
					}
				}
			}
		case *ast.BasicLit:
			if x.Kind == token.INT && (x.Value == "0" || x.Value == "1") {
				to := "1"
				if x.Value == "1" {
					to = "0"
				}
				from := x.Value
				ms = append(ms, mutation{fmt.Sprintf("%s: literal %s -> %s", pos(x), from, to), func() { x.Value = to }})
			}
		}
		return true
	})
	return ms
}

func main() {
	count := flag.Bool("count", false, "print the number of mutation points")
	apply := flag.Int("apply", -1, "apply mutation k and print the file")
	flag.Parse()
	if flag.NArg() != 1 {
		fmt.Fprintln(os.Stderr, "usage: gomut -count|-apply k file.go")
		os.Exit(2)
	}
	fset := token.NewFileSet()
	f, err := parser.ParseFile(fset, flag.Arg(0), nil, parser.ParseComments)
	if err != nil {
		fmt.Fprintln(os.Stderr, err)
		os.Exit(2)
	}
	ms := collect(fset, f)
	if *count {
		fmt.Println(len(ms))
		return
	}
	if *apply < 0 || *apply >= len(ms) {
		fmt.Fprintln(os.Stderr, "no such mutation")
		os.Exit(2)
	}
	fmt.Fprintln(os.Stderr, ms[*apply].desc)
	ms[*apply].apply()
	if err := printer.Fprint(os.Stdout, fset, f); err != nil {
		fmt.Fprintln(os.Stderr, err)
		os.Exit(2)
	}
}
