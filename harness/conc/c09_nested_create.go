package conc

import (
	"context"
	"errors"
	"fmt"
	"sync"
	"sync/atomic"
	"time"

	"github.com/junioryono/godi/v4"
	"github.com/junioryono/godi/v4/verifh/eng"
)

// A scope opened from inside a scope initializer, racing provider.Close.
//
// A scope initializer (scoped constructor without results) receives the scope being created and
// opens a short-lived child scope of it - a scope opened inside a constructor. While it is still
// running, another goroutine closes the provider. Whatever the container holds while user
// constructors run must not make the nested CreateScope, the outer CreateScope or provider.Close
// wait for each other: all three return (a scope, or the disposed error), nothing deadlocks.

type ncRes struct{ closed *atomic.Int32 }

func (r *ncRes) Close() error { r.closed.Add(1); return nil }

type ncWorld struct {
	armed    atomic.Bool // only the initializer of the scope created by the test nests (not its children's)
	reached  chan struct{}
	release  chan struct{}
	innerErr atomic.Value  // error of the nested CreateScope ("" = ok)
	singDone chan struct{} // closed when the disposable singleton has been closed by provider.Close
	once     sync.Once
	closed   atomic.Int32
}

var (
	ncMu  sync.Mutex
	ncCur *ncWorld
)

func ncGet() *ncWorld { ncMu.Lock(); defer ncMu.Unlock(); return ncCur }

type ncSingleton struct{ w *ncWorld }

func (s *ncSingleton) Close() error {
	s.w.once.Do(func() { close(s.w.singDone) })
	return nil
}

func ncNewSingleton() *ncSingleton { return &ncSingleton{ncGet()} }

func ncInit(s godi.Scope, _ *ncSingleton) {
	w := ncGet()
	if !w.armed.CompareAndSwap(true, false) {
		return
	}
	close(w.reached)
	<-w.release
	child, err := s.CreateScope(context.Background())
	if err != nil {
		w.innerErr.Store(err.Error())
		return
	}
	w.innerErr.Store("")
	_ = child.Close()
}

func runC09NestedCreate(c *eng.Ctx, next func() (int, bool)) { runNestedCreate(c, "C09", next) }

// runNestedCreate: the same executions judged for C09 (deadlock, documented errors) and for C13
// (an operation that overlaps a Close never hangs and reports the disposed error or completes).
func runNestedCreate(c *eng.Ctx, prop string, next func() (int, bool)) {
	for _, variant := range []string{"close-reaches-its-last-step-first", "close-starts-after-release"} {
		for rep := 0; rep < c.Pick(3, 10); rep++ {
			idx, mine := next()
			if !mine {
				continue
			}
			c.R.Begin(idx)
			ncCase(c, prop, idx, variant, rep)
		}
	}
}

func ncCase(c *eng.Ctx, prop string, idx int, variant string, rep int) {
	hang := "deadlock"
	if prop == "C13" {
		hang = "hang"
	}
	feat := "scope-opened-inside-a-scope-initializer-vs-provider-close:" + variant
	w := &ncWorld{reached: make(chan struct{}), release: make(chan struct{}), singDone: make(chan struct{})}
	ncMu.Lock()
	ncCur = w
	ncMu.Unlock()
	coll := godi.NewCollection()
	if err := coll.AddSingleton(ncNewSingleton); err != nil {
		panic("nested-create fixture: " + err.Error())
	}
	if err := coll.AddScoped(ncInit); err != nil {
		panic("nested-create fixture: " + err.Error())
	}
	prov, err := coll.Build()
	if err != nil {
		panic("nested-create fixture does not build: " + err.Error())
	}
	w.armed.Store(true)
	var outerErr, closeErr error
	var outer godi.Scope
	var wg sync.WaitGroup
	wg.Add(1)
	go func() { defer wg.Done(); outer, outerErr = prov.CreateScope(context.Background()) }()
	select {
	case <-w.reached:
	case <-time.After(20 * time.Second):
		c.R.Inconclusive(idx, "the scope initializer was not reached")
		c.R.Abandon(idx)
		return
	}
	startClose := func() {
		wg.Add(1)
		go func() { defer wg.Done(); closeErr = prov.Close() }()
	}
	if variant == "close-reaches-its-last-step-first" {
		// let provider.Close run as far as it can while the initializer is parked: past its
		// singletons (observable) and then a little further (steering)
		startClose()
		select {
		case <-w.singDone:
		case <-time.After(5 * time.Second):
		}
		time.Sleep(30 * time.Millisecond)
		close(w.release)
	} else {
		close(w.release)
		startClose()
	}
	done := make(chan struct{})
	go func() { wg.Wait(); close(done) }()
	if v := awaitOrDiagnose(done, 30*time.Second); !v.Done {
		if v.Deadlock {
			c.R.Violation(eng.Violation{Prop: prop, Clause: hang, Sig: prop + "/" + hang + ":" + feat + ":" + innermostGodiFn(v.Dump), Case: idx, CaseID: feat,
				Detail: fmt.Sprintf("%s: CreateScope (whose scope initializer opens a child scope) and provider.Close never returned; goroutines stuck inside godi:\n%s", feat, v.Dump)})
		} else {
			c.R.Inconclusive(idx, "nested-create case did not finish within the watchdog and no goroutine is provably stuck inside godi")
		}
		c.R.Abandon(idx)
		return
	}
	ok := func(err error) bool {
		return err == nil || errors.Is(err, godi.ErrScopeDisposed) || errors.Is(err, godi.ErrProviderDisposed)
	}
	if !ok(outerErr) {
		c.R.Violation(eng.Violation{Prop: prop, Clause: "undocumented-error", Sig: prop + "/undocumented-error:" + feat, Case: idx, CaseID: feat, Detail: fmt.Sprintf("%s: CreateScope returned %v", feat, outerErr)})
	}
	if closeErr != nil {
		c.R.Violation(eng.Violation{Prop: prop, Clause: "undocumented-error", Sig: prop + "/undocumented-error:" + feat + ":provider-close", Case: idx, CaseID: feat, Detail: fmt.Sprintf("%s: provider.Close returned %v", feat, closeErr)})
	}
	if outer != nil && outerErr == nil {
		_ = outer.Close()
	}
	c.R.Count("nested_create_cases", 1)
	c.R.End(idx, eng.Hash("nested-create", prop, variant, rep), true)
}
