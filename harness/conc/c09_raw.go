package conc

import (
	"context"
	"errors"
	"fmt"
	"sync"
	"sync/atomic"
	"time"

	"github.com/junioryono/godi/v4"
	"github.com/junioryono/godi/v4/verifh/core"
	"github.com/junioryono/godi/v4/verifh/eng"
)

// Raw race workload.
//
// The recorded workloads take the recorder's mutex around every operation and every constructor
// callback; those lock operations order the goroutines and hide from the race detector every
// pair of accesses that is not in flight at the very same moment. Here nothing of the harness
// synchronises: hand-written services without shared state, goroutines that call the public API
// in a tight loop behind one start barrier, provider.Close / scope.Close / context cancellation
// fired into the middle. Oracles: the race detector (reports are attributed by the driver), no
// escaping panic, every error one of the documented classes.

type rawA struct{ n int64 }
type rawB struct{ a *rawA }
type rawC struct{ b *rawB }
type rawT struct{ a *rawA }
type rawG struct{ i int }

var rawCount atomic.Int64

func (*rawB) Close() error { return nil }
func (*rawT) Close() error { return nil }

func rawNewA() *rawA         { return &rawA{rawCount.Add(1)} }
func rawNewB(a *rawA) *rawB  { return &rawB{a} }
func rawNewC(b *rawB) *rawC  { return &rawC{b} }
func rawNewT(a *rawA) *rawT  { return &rawT{a} }
func rawNewG1() *rawG        { return &rawG{1} }
func rawNewG2() *rawG        { return &rawG{2} }
func rawInit(s godi.Scope)   {}
func rawInit2(b *rawB) error { return nil }
func rawNewKeyed() *rawA     { return &rawA{-1} }

func runC09Raw(c *eng.Ctx, next func() (int, bool)) {
	rounds := c.Pick(400, 8000)
	perCase := 50
	for base := 0; base < rounds; base += perCase {
		idx, mine := next()
		if !mine {
			continue
		}
		c.R.Begin(idx)
		var calls, disposed, panics atomic.Int64
		var firstPanic atomic.Value
		var badErr atomic.Value
		for k := base; k < base+perCase; k++ {
			coll := godi.NewCollection()
			_ = coll.AddSingleton(rawNewA)
			_ = coll.AddSingleton(rawNewKeyed, godi.Name("k"))
			_ = coll.AddScoped(rawNewB)
			_ = coll.AddScoped(rawNewC)
			_ = coll.AddTransient(rawNewT)
			_ = coll.AddScoped(rawNewG1, godi.Group("g"))
			_ = coll.AddTransient(rawNewG2, godi.Group("g"))
			_ = coll.AddScoped(rawInit)
			_ = coll.AddScoped(rawInit2)
			prov, err := coll.Build()
			if err != nil {
				c.R.Inconclusive(idx, "raw race fixture does not build: "+err.Error())
				break
			}
			shared, _ := prov.CreateScope(context.Background())
			cctx, cancel := context.WithCancel(context.Background())
			cancellable, _ := prov.CreateScope(cctx)
			check := func(err error) {
				calls.Add(1)
				if err == nil {
					return
				}
				if errors.Is(err, godi.ErrScopeDisposed) || errors.Is(err, godi.ErrProviderDisposed) {
					disposed.Add(1)
					return
				}
				badErr.CompareAndSwap(nil, err.Error())
			}
			guard := func(what string, f func()) {
				defer func() {
					if p := recover(); p != nil {
						panics.Add(1)
						firstPanic.CompareAndSwap(nil, fmt.Sprintf("%s: %v", what, p))
					}
				}()
				f()
			}
			g := 6 + k%5
			start := make(chan struct{})
			var wg sync.WaitGroup
			for gi := 0; gi < g; gi++ {
				wg.Add(1)
				go func(gi int) {
					defer wg.Done()
					<-start
					for it := 0; it < 30; it++ {
						switch (gi + it) % 8 {
						case 0:
							guard("provider.Get", func() { _, err := godi.Resolve[*rawA](prov); check(err) })
						case 1:
							guard("provider.GetKeyed", func() { _, err := godi.ResolveKeyed[*rawA](prov, "k"); check(err) })
						case 2:
							guard("provider.GetGroup", func() { _, err := godi.ResolveGroup[*rawG](prov, "g"); check(err) })
						case 3:
							guard("provider.CreateScope", func() {
								s, err := prov.CreateScope(nil)
								check(err)
								if err == nil {
									_, e2 := godi.Resolve[*rawC](s)
									check(e2)
									_ = s.Close()
								}
							})
						case 4:
							guard("scope.Get", func() { _, err := godi.Resolve[*rawC](shared); check(err) })
						case 5:
							guard("scope.CreateScope", func() {
								if shared == nil {
									return
								}
								s, err := shared.CreateScope(nil)
								check(err)
								if err == nil {
									_, e2 := godi.Resolve[*rawT](s)
									check(e2)
									_ = s.Close()
								}
							})
						case 6:
							guard("cancellable.Get", func() {
								if cancellable != nil {
									_, err := godi.ResolveGroup[*rawG](cancellable, "g")
									check(err)
								}
							})
						case 7:
							guard("provider.Get(scoped)", func() { _, err := godi.Resolve[*rawB](prov); check(err) })
						}
					}
				}(gi)
			}
			wg.Add(1)
			go func() {
				defer wg.Done()
				<-start
				// fire the closes into the middle of the loops
				time.Sleep(time.Duration(k%7) * 15 * time.Microsecond)
				switch k % 3 {
				case 0:
					guard("provider.Close", func() { _ = prov.Close() })
				case 1:
					guard("scope.Close", func() {
						if shared != nil {
							_ = shared.Close()
						}
					})
					cancel()
					guard("provider.Close", func() { _ = prov.Close() })
				default:
					cancel()
					guard("provider.Close", func() { _ = prov.Close() })
				}
			}()
			close(start)
			done := make(chan struct{})
			go func() { wg.Wait(); close(done) }()
			if v := awaitOrDiagnose(done, 60*time.Second); !v.Done {
				if v.Deadlock {
					c.R.Violation(eng.Violation{Prop: "C09", Clause: "deadlock", Sig: "C09/deadlock:raw:" + innermostGodiFn(v.Dump), Case: idx, CaseID: "raw-race", Detail: "goroutines of the raw workload are stuck inside godi:\n" + v.Dump})
				} else {
					c.R.Inconclusive(idx, "raw race round did not finish within the watchdog")
				}
				c.R.Abandon(idx)
			}
			cancel()
			_ = prov.Close()
			c.R.Count("raw_race_rounds", 1)
		}
		if p := firstPanic.Load(); p != nil {
			c.R.Violation(eng.Violation{Prop: "C09", Clause: "panic", Sig: "C09/panic:raw-workload", Case: idx, CaseID: "raw-race", Detail: fmt.Sprintf("%d calls panicked in the raw concurrent workload; first: %v", panics.Load(), p)})
		}
		if e := badErr.Load(); e != nil {
			c.R.Violation(eng.Violation{Prop: "C09", Clause: "undocumented-error", Sig: "C09/undocumented-error:raw-workload", Case: idx, CaseID: "raw-race", Detail: fmt.Sprintf("a call of the raw concurrent workload returned an error that is neither nil nor one of the disposed errors: %v", core.TrimErr(errors.New(e.(string))))})
		}
		c.R.Count("raw_race_calls", calls.Load())
		c.R.Count("raw_race_disposed_results", disposed.Load())
		c.R.End(idx, eng.Hash("c09-raw", base), calls.Load() > 0 && disposed.Load() > 0)
	}
}
