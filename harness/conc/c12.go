package conc

import (
	"fmt"
	"math/rand"
	"runtime"
	"strings"
	"sync"
	"time"

	"github.com/junioryono/godi/v4/verifh/core"
	"github.com/junioryono/godi/v4/verifh/eng"
	"github.com/junioryono/godi/v4/verifh/rt"
)

func init() {
	eng.Register(&eng.Property{
		ID: "C12", Level: "fault_enumeration", Race: true,
		Rule: "cases are (registration set of disposables, scope tree, resolution history, subset F of owned instances whose Close returns an error, closing plan). For <=6 owned instances every subset F is enumerated (2^n), beyond that seeded subsets. Sequential plans close leaves, inner scopes and the provider and repeat every Close; concurrent plans let 2-8 goroutines call Close on the same scope/provider behind a barrier, optionally racing the context-cancel watcher. " +
			"Oracle: every owned instance gets exactly one close event whatever fails; a Close that disposed a subtree returns non-nil exactly when an instance of that subtree failed, and then errors.As(DisposalError) holds; every other Close (repeated, concurrent loser, after cancel) returns nil and triggers no close event. Non-trivial: >=1 failing instance; distinct = spec + F + plan hash.",
		Shards:        func(tier string) int { return 16 },
		Run:           runC12,
		NeedEvents:    []string{"close_calls", "close_events", "failing_instances", "concurrent_close_groups"},
		ShardTimeoutS: func(tier string) int { return 900 },
		Assumptions:   []string{"when a Close races the context watcher the watcher may be the one that disposes (its error is dropped by godi by design); then all explicit Close calls return nil"},
	})
}

type closeCall struct {
	group  int // > 0: member of a group of concurrent Close calls on one target
	scope  int // 0 = provider
	call   int64
	ret    int64
	err    error
	class  string
	closed []int64 // instances whose close event happened on this goroutine during the call
}

func runC12(c *eng.Ctx) {
	idxN := 0
	next := func() (int, bool) { i := idxN; idxN++; return i, c.Mine(i) }
	rt.SetNoise(100) // godi's internal yield points perturb the schedule of the concurrent Close groups
	defer func() { rt.SetNoise(0); c.R.Count("internal_yield_points_passed", rt.YieldCount()) }()
	runC12RootContext(c, next)
	runC12Reentrant(c, next)
	runC12DerivedContexts(c, next)
	runAgedProcess(c, "C12", next)
	runC12CreateVsClose(c, next)
	core.RunFuncDisposables(c, "C12", next)
	core.RunReadyValueCloseErrors(c, next)
	nCases := c.Pick(120, 3000)
	for k := 0; k < nCases; k++ {
		idx, mine := next()
		if !mine {
			continue
		}
		rng := core.CaseRng(c.Seed, "C12", idx)
		s, m := core.GenSpec(rng, core.GenOpts{Want: core.ClsOK, Specials: k%3 == 0, MaxTypes: 6})
		if s == nil {
			continue
		}
		c.R.Begin(idx)
		// baseline history (fault-free) to learn which disposables exist
		scriptSeed := rng.Int63()
		build := func(cfs []rt.CloseFault) *core.Run {
			r := core.NewRun(s, m, nil, cfs)
			// Close callbacks take a little while, so that a Close that (wrongly) runs concurrently
			// with its parent's cascade has a window to win
			r.Rec.SetHook(func(hp rt.HookPoint) {
				if hp.Where == "close" {
					time.Sleep(time.Duration(30+hp.Inst%5*40) * time.Microsecond)
				}
			})
			r.Build()
			if r.Built {
				srng := rand.New(rand.NewSource(scriptSeed))
				core.GenScript(srng, r, 2+int(scriptSeed%3), 6+int(scriptSeed%7), 0)
				// a fan of children whose contexts derive from the parent scope's own context
				// (sub-operations of a request), each owning instances
				if len(r.Scopes) > 1 && scriptSeed%2 == 0 {
					parent := 1 + srng.Intn(len(r.Scopes)-1)
					for i := 0; i < 3; i++ {
						ch := r.Do(core.Op{Kind: core.OpCreate, Scope: parent, CtxKind: 4 + i%2})
						if ch.NewScope > 0 {
							core.ProbeRegistered(r, ch.NewScope)
						}
					}
				}
			}
			return r
		}
		base := build(nil)
		if !base.Built {
			c.R.End(idx, eng.Hash("c12-unbuilt", s.Canon()), false)
			continue
		}
		base.Finish()
		bo := core.Digest(base)
		owned := core.OwnedDisposables(base, bo)
		n := len(owned)
		var subsets []uint64
		if n <= 6 {
			for f := uint64(0); f < 1<<uint(n); f++ {
				subsets = append(subsets, f)
			}
		} else {
			subsets = append(subsets, 0, (1<<uint(min(n, 63)))-1)
			for j := 0; j < c.Pick(6, 24); j++ {
				subsets = append(subsets, rng.Uint64()&((1<<uint(min(n, 63)))-1))
			}
		}
		var cnt, nt int64
		for si, f := range subsets {
			var cfs []rt.CloseFault
			failing := map[[3]int]bool{}
			for j, x := range owned {
				if j < 63 && f&(1<<uint(j)) != 0 {
					cf := rt.CloseFault{Ctor: x.Run.Ctor, Nth: x.Run.Nth, Out: x.Out}
					cfs = append(cfs, cf)
					failing[[3]int{cf.Ctor, cf.Nth, cf.Out}] = true
				}
			}
			concurrent := (si+k)%2 == 1
			r := build(cfs)
			fs := closePlan(c, r, rng, failing, concurrent)
			core.Report(c, "C12", idx, r, fs)
			cnt++
			if len(cfs) > 0 {
				nt++
			}
			c.R.Count("failing_instances", int64(len(cfs)))
			if c.R.WantSample() && len(cfs) > 0 && concurrent {
				c.R.Sample(core.SampleOf(r, map[string]any{"failing_close_of": len(cfs), "owned_disposables": n, "concurrent": concurrent}))
			}
		}
		c.R.AddEnumerated(cnt, nt)
		if n <= 6 {
			c.R.Count("exhaustive_subset_families", 1)
		}
		c.R.End(idx, eng.Hash("c12", s.Canon(), scriptSeed), false)
	}
}

// closePlan closes everything according to a plan and checks the C12 oracle.
func closePlan(c *eng.Ctx, r *core.Run, rng *rand.Rand, failing map[[3]int]bool, concurrent bool) []core.Finding {
	var fs []core.Finding
	if !r.Built {
		return nil
	}
	var mu sync.Mutex
	var calls []*closeCall
	groupNo := 0
	curGroup := 0
	doClose := func(scope int) *closeCall {
		cc := &closeCall{scope: scope, group: curGroup}
		var res core.OpResult
		if scope == 0 {
			res = r.Do(core.Op{Kind: core.OpCloseProvider})
		} else {
			res = r.Do(core.Op{Kind: core.OpClose, Scope: scope})
		}
		cc.call, cc.ret, cc.err, cc.class = res.Call, res.Ret, res.Err, res.Class
		if res.Class == "PANIC" {
			cc.class = "PANIC:" + fmtPanic(res.Panic)
		}
		mu.Lock()
		calls = append(calls, cc)
		mu.Unlock()
		c.R.Count("close_calls", 1)
		return cc
	}
	// order: some leaves / inner scopes first, then the provider
	var order []int
	for sc := len(r.Scopes) - 1; sc >= 1; sc-- {
		if rng.Intn(2) == 0 {
			order = append(order, sc)
		}
	}
	rng.Shuffle(len(order), func(i, j int) { order[i], order[j] = order[j], order[i] })
	order = append(order, 0)
	cancelRaced := map[int]bool{}
	// graceful-shutdown shape: cancel the caller contexts of some scopes and close the provider
	// right away (the watchers are still disposing when provider.Close runs)
	if concurrent && rng.Intn(3) == 0 {
		for sc := 1; sc < len(r.Scopes); sc++ {
			if h := r.Scopes[sc]; h.Cancel != nil && rng.Intn(2) == 0 {
				h.Cancel()
				cancelRaced[sc] = true
			}
		}
		order = []int{0}
		c.R.Count("cancel_then_provider_close_plans", 1)
	}
	for _, sc := range order {
		if !concurrent {
			doClose(sc)
			doClose(sc) // repeated: must be nil and close nothing
			continue
		}
		g := 2 + rng.Intn(7)
		start := make(chan struct{})
		var wg sync.WaitGroup
		groupNo++
		curGroup = groupNo
		for i := 0; i < g; i++ {
			wg.Add(1)
			go func() { defer wg.Done(); <-start; doClose(sc) }()
		}
		// optionally race the automatic close on context cancellation
		if sc > 0 && r.Scopes[sc].Cancel != nil && rng.Intn(2) == 0 {
			cancelRaced[sc] = true
			wg.Add(1)
			go func() { defer wg.Done(); <-start; r.Scopes[sc].Cancel(); runtime.Gosched() }()
		}
		done := make(chan struct{})
		go func() { wg.Wait(); close(done) }()
		close(start)
		if v := awaitOrDiagnose(done, 60*time.Second); !v.Done {
			if v.Deadlock {
				fs = append(fs, core.Finding{Clause: "deadlock", Sig: innermostGodiFn(v.Dump), Detail: "concurrent Close calls are stuck inside godi:\n" + v.Dump})
				core.Report(c, "C12", -2, r, fs)
			} else {
				c.R.Inconclusive(-2, "concurrent Close group did not finish within the watchdog")
			}
			c.R.Abandon(-2)
		}
		c.R.Count("concurrent_close_groups", 1)
		curGroup = 0
		doClose(sc) // afterwards: nil, nothing closed
	}
	o := core.Digest(r)
	m := r.Model
	c.R.Count("close_events", int64(len(o.CloseOrder)))
	// (1) exactly one close event per owned instance, whatever failed
	owned := core.OwnedDisposables(r, o)
	ownerOf := map[int64]core.Owned{}
	for _, x := range owned {
		ownerOf[x.ID] = x
		n := len(o.Closes[x.ID])
		if n != 1 {
			fs = append(fs, core.Finding{Clause: "close-count-under-errors", Sig: fmt.Sprintf("%s:closed-%d-times:concurrent=%v", m.Features(x.Reg), min(n, 2), concurrent), Detail: fmt.Sprintf("%s of %s was closed %d times (failing closes: %d of %d owned instances)", o.InstName(x.ID), m.Describe(x.Reg), n, len(failing), len(owned))})
		}
	}
	// (1b) Close is complete when it returns: every instance owned by the closed subtree has its
	// close event before the return of ANY Close call on that scope / an ancestor / the provider
	// (a caller that finds the scope already being closed waits for that Close to finish)
	subtreeOf := func(target int, owner int) bool {
		if target == 0 {
			return true // provider: everything
		}
		if owner < 0 {
			return false // singletons belong to the provider only
		}
		return r.AncestorOrSelf(target, owner) && target != 0
	}
	// of a group of concurrent calls only the one that returns last is held to this (the others
	// may be the callers that found the provider already closing; whether THEY wait is not stated)
	lastOfGroup := map[int]int64{}
	for _, cc := range calls {
		if cc.group > 0 && cc.ret > lastOfGroup[cc.group] {
			lastOfGroup[cc.group] = cc.ret
		}
	}
	for i, cc := range calls {
		if cc.ret == 0 || cc.class == "skipped" || strings.HasPrefix(cc.class, "PANIC") {
			continue
		}
		if cc.group > 0 && cc.ret != lastOfGroup[cc.group] {
			continue
		}
		// ... and only a call that no other closing activity on the same scope or an ancestor
		// overlaps: a Close that finds the scope already being closed (by another caller, by
		// the cascade of an ancestor's Close, by the context watcher) returns nil without
		// waiting for that disposal to finish - the statement asks for nil and "closes nothing
		// a second time", not for a completed disposal at that moment
		overlapped := cancelRaced[cc.scope] || ancestorCancelRaced(r, cc.scope, cancelRaced)
		for j, other := range calls {
			if j == i || other.ret == 0 {
				continue
			}
			if other.call < cc.ret && other.ret > cc.call && (other.scope == 0 || r.AncestorOrSelf(other.scope, cc.scope)) {
				overlapped = true
			}
		}
		if overlapped {
			continue
		}
		for _, x := range owned {
			if !subtreeOf(cc.scope, x.Owner) {
				continue
			}
			cls := o.Closes[x.ID]
			if len(cls) == 0 || cls[0].Seq > cc.ret {
				when := "never"
				if len(cls) > 0 {
					when = fmt.Sprintf("at seq %d", cls[0].Seq)
				}
				fs = append(fs, core.Finding{Clause: "close-returned-before-complete", Sig: ownerKind(cc.scope) + fmt.Sprintf(":concurrent=%v", concurrent), Detail: fmt.Sprintf("close call %d on %s returned at seq %d, but %s of %s (owned by that subtree) was closed %s", i, scopeName(cc.scope), cc.ret, o.InstName(x.ID), m.Describe(x.Reg), when)})
				break
			}
		}
	}
	// (2) per Close call: which instances did it dispose (close events inside its call/return window on any goroutine
	// for sequential plans; for concurrent groups the winner is the call with events on its own goroutine)
	// (only instances owned by the subtree of the scope the calls were made on: a Close of
	// ANOTHER scope that found it already being closed has returned nil at once, and the
	// disposal it did not wait for may still be running inside this window)
	failedIn := func(target int, lo, hi int64) (nFail, nClosed int) {
		for id, cls := range o.Closes {
			x, ok := ownerOf[id]
			if !ok || !subtreeOf(target, x.Owner) {
				continue
			}
			for _, cl := range cls {
				if cl.Seq > lo && cl.Seq < hi {
					nClosed++
					if failing[[3]int{x.Run.Ctor, x.Run.Nth, x.Out}] {
						nFail++
					}
				}
			}
		}
		return
	}
	if !concurrent {
		for i, cc := range calls {
			nFail, nClosed := failedIn(cc.scope, cc.call, cc.ret)
			where := fmt.Sprintf("close call %d on %s", i, scopeName(cc.scope))
			switch {
			case cc.class != "ok" && cc.class != "disposal":
				fs = append(fs, core.Finding{Clause: "close-returns-unexpected-error", Sig: cc.class, Detail: fmt.Sprintf("%s returned %s: %v", where, cc.class, core.TrimErr(cc.err))})
			case nFail > 0 && cc.err == nil:
				fs = append(fs, core.Finding{Clause: "disposal-error-lost", Sig: ownerKind(cc.scope), Detail: fmt.Sprintf("%s disposed %d instances of which %d failed, but returned nil", where, nClosed, nFail)})
			case nFail == 0 && cc.err != nil:
				fs = append(fs, core.Finding{Clause: "spurious-disposal-error", Sig: ownerKind(cc.scope), Detail: fmt.Sprintf("%s disposed %d instances, none failed, but it returned %v", where, nClosed, core.TrimErr(cc.err))})
			}
			if i%2 == 1 && (cc.err != nil || nClosed > 0) {
				fs = append(fs, core.Finding{Clause: "repeated-close-not-idempotent", Sig: ownerKind(cc.scope), Detail: fmt.Sprintf("repeated %s returned %v and closed %d instances", where, cc.err, nClosed)})
			}
		}
	} else {
		// group the calls per scope (in issue order): g concurrent ones + 1 afterwards
		per := map[int][]*closeCall{}
		for _, cc := range calls {
			per[cc.scope] = append(per[cc.scope], cc)
		}
		for sc, ccs := range per {
			lo, hi := ccs[0].call, ccs[0].ret
			nonNil := 0
			for _, cc := range ccs {
				if cc.call < lo {
					lo = cc.call
				}
				if cc.ret > hi {
					hi = cc.ret
				}
				if cc.err != nil {
					nonNil++
				}
				if cc.class != "ok" && cc.class != "disposal" {
					fs = append(fs, core.Finding{Clause: "close-returns-unexpected-error", Sig: cc.class, Detail: fmt.Sprintf("concurrent Close on %s returned %s: %v", scopeName(sc), cc.class, core.TrimErr(cc.err))})
				}
			}
			last := ccs[len(ccs)-1]
			// what THIS call disposed: close events on its own goroutine (another caller, or the
			// context watcher, may still be disposing while it returns nil)
			if nf, nc := 0, len(last.closed); last.err != nil || nc > 0 {
				fs = append(fs, core.Finding{Clause: "repeated-close-not-idempotent", Sig: ownerKind(sc) + ":after-concurrent", Detail: fmt.Sprintf("Close on %s after the concurrent group returned %v and closed %d instances (%d failing)", scopeName(sc), last.err, nc, nf)})
			}
			nFail, nClosed := failedIn(sc, lo, hi)
			if nonNil > 1 {
				fs = append(fs, core.Finding{Clause: "two-closes-report-errors", Sig: ownerKind(sc), Detail: fmt.Sprintf("%d of %d concurrent Close calls on %s returned an error; only the one that disposed may", nonNil, len(ccs)-1, scopeName(sc))})
			}
			if nFail > 0 && nonNil == 0 && !cancelRaced[sc] && !ancestorCancelRaced(r, sc, cancelRaced) && !subtreeCancelRaced(r, sc, cancelRaced) {
				fs = append(fs, core.Finding{Clause: "disposal-error-lost", Sig: ownerKind(sc) + ":concurrent", Detail: fmt.Sprintf("%d concurrent Close calls on %s disposed %d instances of which %d failed, but every call returned nil (no context cancellation was racing)", len(ccs)-1, scopeName(sc), nClosed, nFail)})
			}
			if nFail == 0 && nonNil > 0 {
				fs = append(fs, core.Finding{Clause: "spurious-disposal-error", Sig: ownerKind(sc) + ":concurrent", Detail: fmt.Sprintf("concurrent Close on %s: nothing failed in its window but %d calls returned an error", scopeName(sc), nonNil)})
			}
		}
	}
	return fs
}

// ancestorCancelRaced: a nil-context child is also closed by its ancestor's watcher.
func ancestorCancelRaced(r *core.Run, sc int, raced map[int]bool) bool {
	for s := sc; s > 0; s = r.Scopes[s].Parent {
		if raced[s] {
			return true
		}
	}
	return false
}

// subtreeCancelRaced: a cancelled scope inside the subtree may have been disposed by its watcher,
// which drops the disposal error by design.
func subtreeCancelRaced(r *core.Run, sc int, raced map[int]bool) bool {
	for x := range raced {
		if sc == 0 || r.AncestorOrSelf(sc, x) {
			return true
		}
	}
	return false
}

func scopeName(sc int) string {
	if sc == 0 {
		return "the provider"
	}
	return fmt.Sprintf("s%d", sc)
}

func ownerKind(sc int) string {
	if sc == 0 {
		return "provider"
	}
	return "scope"
}
