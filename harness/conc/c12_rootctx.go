package conc

import (
	"context"
	"errors"
	"fmt"
	"sync"
	"time"

	"github.com/junioryono/godi/v4"
	"github.com/junioryono/godi/v4/verifh/eng"
	"github.com/junioryono/godi/v4/verifh/rt"
)

// Scopes whose context derives from the provider's ROOT context.
//
// A child of the root scope created with a nil context, and a scope created by
// provider.CreateScope with the context a singleton got injected (or one derived from it), are
// scopes like any other for provider.Close: their instances are closed exactly once, and an error
// from one of their Close methods makes provider.Close return a disposal error. Nobody cancels
// any context in these histories; whatever the provider does to its own root context while it
// closes must not let a watcher dispose such a scope behind provider.Close's back and swallow
// the error.

type rcRes struct {
	id   int
	fail bool
	w    *rcWorld
}

type rcWorld struct {
	mu     sync.Mutex
	made   []*rcRes
	closed map[*rcRes]int
	failN  map[int]bool // creation index -> Close fails
	slow   time.Duration
}

type rcCloseErr struct{ id int }

func (e *rcCloseErr) Error() string { return fmt.Sprintf("rc close failure of instance %d", e.id) }

var (
	rcMu  sync.Mutex
	rcCur *rcWorld
)

func rcNew() *rcRes {
	rcMu.Lock()
	w := rcCur
	rcMu.Unlock()
	w.mu.Lock()
	defer w.mu.Unlock()
	x := &rcRes{id: len(w.made), w: w}
	x.fail = w.failN[x.id]
	w.made = append(w.made, x)
	return x
}

func (x *rcRes) Close() error {
	if x.w.slow > 0 && !x.fail {
		time.Sleep(x.w.slow)
	}
	x.w.mu.Lock()
	x.w.closed[x]++
	x.w.mu.Unlock()
	if x.fail {
		return &rcCloseErr{x.id}
	}
	return nil
}

type rcKey struct{}

func runC12RootContext(c *eng.Ctx, next func() (int, bool)) {
	kinds := []string{"root-scope-child-nil-ctx", "provider-scope-on-root-ctx", "provider-scope-on-ctx-derived-from-root-ctx", "root-scope-grandchild-nil-ctx", "mixed"}
	reps := c.Pick(3, 12)
	for ki, kind := range kinds {
		for failMask := 0; failMask < 4; failMask++ { // which of the two root-derived scopes has a failing Close
			for rep := 0; rep < reps; rep++ {
				idx, mine := next()
				if !mine {
					continue
				}
				c.R.Begin(idx)
				fs := rcCase(c, kind, failMask, rep)
				for _, f := range fs {
					c.R.Violation(eng.Violation{Prop: "C12", Clause: f[0], Sig: "C12/" + f[0] + ":scope-on-root-context:" + kind, Case: idx, CaseID: fmt.Sprintf("root-context-%d-%d-%d", ki, failMask, rep), Detail: f[1],
						Replay: map[string]any{"fixture": "root-context", "kind": kind, "fail_mask": failMask, "rep": rep}})
				}
				c.R.Count("root_context_cases", 1)
				c.R.End(idx, eng.Hash("c12-rootctx", kind, failMask, rep), failMask != 0)
			}
		}
	}
}

func rcCase(c *eng.Ctx, kind string, failMask, rep int) (fs [][2]string) {
	add := func(clause, format string, a ...any) {
		fs = append(fs, [2]string{clause, fmt.Sprintf("%s, failing Close in root-derived scopes %02b, repetition %d: ", kind, failMask, rep) + fmt.Sprintf(format, a...)})
	}
	defer func() {
		if p := recover(); p != nil {
			add("close-panics", "panic: %v", p)
		}
	}()
	w := &rcWorld{closed: map[*rcRes]int{}, failN: map[int]bool{}, slow: 300 * time.Microsecond}
	rcMu.Lock()
	rcCur = w
	rcMu.Unlock()
	coll := godi.NewCollection()
	if err := coll.AddScoped(rcNew); err != nil {
		panic("root-context fixture: " + err.Error())
	}
	prov, err := coll.Build()
	if err != nil {
		panic("root-context fixture does not build: " + err.Error())
	}
	root, e1 := godi.Resolve[godi.Scope](prov)
	rootCtx, e2 := godi.Resolve[context.Context](prov)
	if e1 != nil || e2 != nil {
		add("root-scope-unavailable", "Resolve[Scope]/Resolve[Context] on the provider: %v / %v", e1, e2)
		_ = prov.Close()
		return
	}
	use := func(s godi.Scope) {
		if _, err := godi.Resolve[*rcRes](s); err != nil {
			panic("root-context fixture: resolve: " + err.Error())
		}
	}
	// a few ordinary request scopes (own Background contexts) keep provider.Close busy
	for i := 0; i < 6; i++ {
		s, err := prov.CreateScope(context.Background())
		if err != nil {
			panic("root-context fixture: " + err.Error())
		}
		use(s)
	}
	mk := func(k string) godi.Scope {
		var s godi.Scope
		var err error
		switch k {
		case "root-scope-child-nil-ctx":
			s, err = root.CreateScope(nil)
		case "provider-scope-on-root-ctx":
			s, err = prov.CreateScope(rootCtx)
		case "provider-scope-on-ctx-derived-from-root-ctx":
			s, err = prov.CreateScope(context.WithValue(rootCtx, rcKey{}, 1))
		default: // grandchild
			var mid godi.Scope
			mid, err = root.CreateScope(nil)
			if err == nil {
				use(mid)
				s, err = mid.CreateScope(nil)
			}
		}
		if err != nil {
			panic("root-context fixture: CreateScope: " + err.Error())
		}
		return s
	}
	wantFail := 0
	for i := 0; i < 2; i++ {
		k := kind
		if kind == "mixed" {
			k = []string{"root-scope-child-nil-ctx", "provider-scope-on-ctx-derived-from-root-ctx"}[i]
		}
		s := mk(k)
		w.mu.Lock()
		if failMask&(1<<i) != 0 {
			w.failN[len(w.made)] = true // the next instance
			wantFail++
		}
		w.mu.Unlock()
		use(s)
	}
	// whatever happens to contexts inside provider.Close gets time to propagate before the
	// scopes are visited (steering only)
	if rt.YieldAvailable {
		rt.SetRawYield(func(point string) {
			if point == "provider.Close:scopes-detached" {
				time.Sleep(2 * time.Millisecond)
			}
		})
		defer rt.SetRawYield(nil)
	}
	cerr := prov.Close()
	w.mu.Lock()
	for _, x := range w.made {
		switch n := w.closed[x]; {
		case n == 0:
			add("not-closed", "instance %d was not closed by provider.Close", x.id)
		case n > 1:
			add("closed-twice", "instance %d was closed %d times", x.id, n)
		}
	}
	w.mu.Unlock()
	var de *godi.DisposalError
	switch {
	case wantFail > 0 && cerr == nil:
		add("close-error-swallowed", "%d Close method(s) in scopes below the provider returned an error, provider.Close returned nil", wantFail)
	case wantFail > 0 && !errors.As(cerr, &de):
		add("close-error-not-disposal", "provider.Close returned %T (%v), not a DisposalError", cerr, cerr)
	case wantFail == 0 && cerr != nil:
		add("close-error-spurious", "no Close method failed, provider.Close returned %v", cerr)
	}
	if again := prov.Close(); again != nil {
		add("second-close-not-nil", "the second provider.Close returned %v", again)
	}
	w.mu.Lock()
	for _, x := range w.made {
		if w.closed[x] > 1 {
			add("closed-twice", "instance %d was closed %d times after the second provider.Close", x.id, w.closed[x])
		}
	}
	w.mu.Unlock()
	return fs
}
