package conc

import (
	"fmt"
	"runtime"
	"sync"
	"time"

	"github.com/junioryono/godi/v4"
	"github.com/junioryono/godi/v4/verifh/core"
	"github.com/junioryono/godi/v4/verifh/eng"
	"github.com/junioryono/godi/v4/verifh/pool"
	"github.com/junioryono/godi/v4/verifh/rt"
)

// Concurrent resolutions behind a FAILING first construction.
//
// Three or more goroutines resolve the same scoped services on one scope while the first
// invocation(s) of their constructors fail and later ones take their time: waiters retry. Every
// individual call still has to return a result that respects the lifetime rules (one scoped
// instance per scope, whoever built it) or the constructor's error / panic class - never a
// second instance, an undocumented error, a panic or a hang.
func runC09FaultedConstruction(c *eng.Ctx, next func() (int, bool)) {
	spec := &core.Spec{Regs: []core.Reg{
		core.MkReg("Leaf_K0_a", godi.Scoped),
		core.MkReg("PosA_1_1", godi.Scoped), // K1(K0)
		core.MkReg("PosB_2_1", godi.Scoped), // K2(K0)
		core.MkReg("MR_S0S4", godi.Scoped),
		core.MkReg("Leaf_S1_a", godi.Scoped, core.WithGroup("g")),
	}}
	m := core.NewModel(spec)
	if m.Class != core.ClsOK {
		panic("harness fixture of runC09FaultedConstruction is not buildable: " + m.Class.String())
	}
	probes := []core.Op{{Kind: core.OpGet, Type: "K0"}, {Kind: core.OpGet, Type: "K1"}, {Kind: core.OpGet, Type: "K2"}, {Kind: core.OpGet, Type: "S0"}, {Kind: core.OpGet, Type: "S4"}, {Kind: core.OpGetGroup, Type: "S1", Group: "g"}}
	classes := map[string]bool{"ok": true, "ctor-error": true, "ctor-panic": true}
	rounds := c.Pick(90, 2400)
	for k := 0; k < rounds; k++ {
		idx, mine := next()
		if !mine {
			continue
		}
		c.R.Begin(idx)
		rng := core.CaseRng(c.Seed, "C09f", idx)
		var faults []rt.Fault
		for _, reg := range spec.Regs {
			if reg.Life != godi.Scoped {
				continue
			}
			kind := rt.FPanic
			if pool.Ctors[reg.Ctor].HasErr {
				kind = rt.FErr
			}
			faults = append(faults, rt.Fault{Ctor: reg.Ctor, Nth: 1, Kind: kind, PanicIdx: k, ErrIdx: k})
			if k%3 == 0 {
				faults = append(faults, rt.Fault{Ctor: reg.Ctor, Nth: 2, Kind: kind, PanicIdx: k + 1, ErrIdx: k + 1})
			}
		}
		r := core.NewRun(spec, m, faults, nil)
		r.Rec.SetHook(func(hp rt.HookPoint) {
			if hp.Where == "ctor" {
				runtime.Gosched()
				time.Sleep(time.Duration(120+(hp.Ctor+hp.Nth*37)%160) * time.Microsecond)
			}
		})
		r.Build()
		nt := false
		if r.Built {
			sc := r.Do(core.Op{Kind: core.OpCreate, Scope: 0, CtxKind: 1}).NewScope
			g := []int{3, 4, 6, 8, 12}[rng.Intn(5)]
			start := make(chan struct{})
			var wg sync.WaitGroup
			for gi := 0; gi < g; gi++ {
				ops := append([]core.Op{}, probes...)
				rng.Shuffle(len(ops), func(i, j int) { ops[i], ops[j] = ops[j], ops[i] })
				wg.Add(1)
				go func(ops []core.Op) {
					defer wg.Done()
					<-start
					for round := 0; round < 2; round++ {
						for _, op := range ops {
							op.Scope = sc
							r.Do(op)
						}
					}
				}(ops)
			}
			done := make(chan struct{})
			go func() { wg.Wait(); close(done) }()
			close(start)
			if v := awaitOrDiagnose(done, 60*time.Second); !v.Done {
				if v.Deadlock {
					c.R.Violation(eng.Violation{Prop: "C09", Clause: "deadlock", Sig: "C09/deadlock:failing-first-construction:" + innermostGodiFn(v.Dump), Case: idx, CaseID: "faulted-construction", Detail: "goroutines resolving scoped services behind a failing first construction are stuck inside godi:\n" + v.Dump})
				} else {
					c.R.Inconclusive(idx, "faulted-construction round did not finish within the watchdog")
				}
				c.R.Abandon(idx)
			}
			r.Rec.SetHook(nil)
			r.Finish()
			o := core.Digest(r)
			var fs []core.Finding
			for i := range r.Results {
				res := &r.Results[i]
				op := r.Ops[res.Op]
				if res.Class == "PANIC" {
					fs = append(fs, core.Finding{Clause: "panic", Sig: "failing-first-construction:" + panicSig(op, res.Panic), Detail: fmt.Sprintf("op%d %s panicked: %v", res.Op, op.String(), res.Panic)})
				} else if (op.Kind == core.OpGet || op.Kind == core.OpGetGroup) && !classes[res.Class] {
					fs = append(fs, core.Finding{Clause: "undocumented-error", Sig: "failing-first-construction:" + opKindName(op) + ":" + res.Class, Detail: fmt.Sprintf("op%d %s returned %s: %v", res.Op, op.String(), res.Class, core.TrimErr(res.Err))})
				}
			}
			for _, f := range MonC02(r, o) {
				if len(f.Clause) >= 11 && f.Clause[:11] == "initializer" {
					continue
				}
				f.Clause = "scoped-" + f.Clause
				f.Sig = "failing-first-construction:" + f.Sig
				fs = append(fs, f)
			}
			core.Report(c, "C09", idx, r, fs)
			c.R.Count("faulted_construction_rounds", 1)
			c.R.Count("api_calls", int64(len(r.Ops)))
			nt = true
		}
		c.R.End(idx, eng.Hash("c09-faulted", k), nt)
	}
}
