package conc

import (
	"context"
	"fmt"
	"sync"
	"sync/atomic"
	"time"

	"github.com/junioryono/godi/v4"
	"github.com/junioryono/godi/v4/verifh/eng"
)

// Close called again from inside the Close it belongs to.
//
// "Calling Close again ... returns nil and closes nothing a second time" also holds for the
// caller that cannot wait: a Close method of an instance that closes the scope it lives in (a
// request object that tears its request scope down), the parent scope that is closing it, or the
// provider whose Close is disposing it ("whoever notices first shuts everything down"). The
// nested call returns nil at once; the outer Close completes, every instance is closed once.

type reWorld struct {
	mu      sync.Mutex
	target  func() error // what the instance's Close calls
	innerN  atomic.Int32
	innerE  atomic.Value // non-nil error text of the nested call
	closes  atomic.Int32
	otherCl atomic.Int32
}

var (
	reMu  sync.Mutex
	reCur *reWorld
)

func reGet() *reWorld { reMu.Lock(); defer reMu.Unlock(); return reCur }

type reCloser struct {
	w  *reWorld
	sc godi.Scope
	p  godi.Provider
}

func (r *reCloser) Close() error {
	r.w.closes.Add(1)
	r.w.mu.Lock()
	f := r.w.target
	r.w.mu.Unlock()
	if f != nil {
		r.w.innerN.Add(1)
		if err := f(); err != nil {
			r.w.innerE.Store(err.Error())
		}
	}
	return nil
}

type reOther struct{ w *reWorld }

func (o *reOther) Close() error { o.w.otherCl.Add(1); return nil }

func reNewCloser(sc godi.Scope, p godi.Provider) *reCloser { return &reCloser{w: reGet(), sc: sc, p: p} }
func reNewOther() *reOther                                { return &reOther{reGet()} }

func runC12Reentrant(c *eng.Ctx, next func() (int, bool)) {
	variants := []string{
		"scoped-instance-closes-its-own-scope",
		"scoped-instance-closes-its-own-scope:closed-by-cancel",
		"scoped-instance-closes-its-own-scope:closed-by-parent",
		"scoped-instance-closes-the-parent-that-is-closing-it",
		"scoped-instance-closes-the-provider-that-is-closing-it",
		"singleton-closes-the-provider-that-is-closing-it",
	}
	for _, v := range variants {
		idx, mine := next()
		if !mine {
			continue
		}
		c.R.Begin(idx)
		reCase(c, idx, v)
	}
}

func reCase(c *eng.Ctx, idx int, variant string) {
	viol := func(clause, detail string) {
		c.R.Violation(eng.Violation{Prop: "C12", Clause: clause, Sig: "C12/" + clause + ":close-called-from-inside-a-close-method:" + variant, Case: idx, CaseID: "reentrant-close-" + variant,
			Detail: variant + ": " + detail, Replay: map[string]any{"fixture": "reentrant-close", "variant": variant}})
	}
	w := &reWorld{}
	reMu.Lock()
	reCur = w
	reMu.Unlock()
	coll := godi.NewCollection()
	must := func(err error) {
		if err != nil {
			panic("reentrant-close fixture: " + err.Error())
		}
	}
	if variant == "singleton-closes-the-provider-that-is-closing-it" {
		must(coll.AddSingleton(reNewCloser))
	} else {
		must(coll.AddScoped(reNewCloser))
	}
	must(coll.AddScoped(reNewOther))
	prov, err := coll.Build()
	must(err)
	ctx, cancel := context.WithCancel(context.Background())
	defer cancel()
	parent, err := prov.CreateScope(ctx)
	must(err)
	child, err := parent.CreateScope(nil)
	must(err)
	for _, s := range []godi.Scope{parent, child} {
		if _, err := godi.Resolve[*reOther](s); err != nil {
			must(err)
		}
	}
	var outer func() error
	wantClosers := 1
	switch variant {
	case "scoped-instance-closes-its-own-scope":
		_, err = godi.Resolve[*reCloser](child)
		w.target = child.Close
		outer = child.Close
	case "scoped-instance-closes-its-own-scope:closed-by-cancel":
		_, err = godi.Resolve[*reCloser](parent)
		w.target = parent.Close
		outer = func() error { cancel(); return nil }
	case "scoped-instance-closes-its-own-scope:closed-by-parent":
		_, err = godi.Resolve[*reCloser](child)
		w.target = child.Close
		outer = parent.Close
	case "scoped-instance-closes-the-parent-that-is-closing-it":
		_, err = godi.Resolve[*reCloser](child)
		w.target = parent.Close
		outer = parent.Close
	case "scoped-instance-closes-the-provider-that-is-closing-it":
		_, err = godi.Resolve[*reCloser](child)
		w.target = prov.Close
		outer = prov.Close
	default:
		w.target = prov.Close
		outer = prov.Close
	}
	must(err)
	done := make(chan error, 1)
	go func() { done <- outer() }()
	var outerErr error
	finished := make(chan struct{})
	go func() { outerErr = <-done; close(finished) }()
	if v := awaitOrDiagnose(finished, 20*time.Second); !v.Done {
		if v.Deadlock {
			c.R.Violation(eng.Violation{Prop: "C12", Clause: "hang", Sig: "C12/hang:close-called-from-inside-a-close-method:" + variant + ":" + innermostGodiFn(v.Dump), Case: idx, CaseID: "reentrant-close-" + variant,
				Detail: fmt.Sprintf("%s: the Close never returned; goroutines stuck inside godi:\n%s", variant, v.Dump), Replay: map[string]any{"fixture": "reentrant-close", "variant": variant}})
		} else {
			c.R.Inconclusive(idx, "re-entrant close case did not finish within the watchdog and no goroutine is provably stuck inside godi")
		}
		c.R.Abandon(idx)
		return
	}
	if variant == "scoped-instance-closes-its-own-scope:closed-by-cancel" {
		// the watcher goroutine closes the scope: bounded wait for the instance's Close
		deadline := time.Now().Add(10 * time.Second)
		for w.closes.Load() == 0 && time.Now().Before(deadline) {
			time.Sleep(2 * time.Millisecond)
		}
	}
	if outerErr != nil {
		viol("close-error-spurious", fmt.Sprintf("the outer Close returned %v although no Close method failed", outerErr))
	}
	if e, _ := w.innerE.Load().(string); e != "" {
		viol("second-close-not-nil", "the Close called from inside the Close method returned "+e)
	}
	if w.innerN.Load() != 1 {
		viol("not-closed", fmt.Sprintf("the instance's Close ran %d times", w.innerN.Load()))
	}
	_ = prov.Close()
	if n := w.closes.Load(); int(n) != wantClosers {
		viol("close-count", fmt.Sprintf("the instance that closes again from its Close method was closed %d times", n))
	}
	if n := w.otherCl.Load(); n != 2 {
		viol("close-count", fmt.Sprintf("the two other scoped instances were closed %d times in total (want 2)", n))
	}
	c.R.Count("reentrant_close_cases", 1)
	c.R.End(idx, eng.Hash("c12-reentrant", variant), true)
}
