package conc

import (
	"context"
	"errors"
	"fmt"
	"strings"
	"sync"
	"sync/atomic"
	"time"

	"github.com/junioryono/godi/v4"
	"github.com/junioryono/godi/v4/verifh/core"
	"github.com/junioryono/godi/v4/verifh/eng"
	"github.com/junioryono/godi/v4/verifh/rt"
)

// Close called again from inside the Close it belongs to.
//
// "Calling Close again ... returns nil and closes nothing a second time" also holds for the
// caller that cannot wait: a Close method of an instance that closes the scope it lives in (a
// request object that tears its request scope down), the parent scope that is closing it, or the
// provider whose Close is disposing it ("whoever notices first shuts everything down"). The
// nested call returns nil at once; the outer Close completes, every instance is closed once.

type reWorld struct {
	mu        sync.Mutex
	target    func() error // what the instance's Close calls
	innerN    atomic.Int32
	innerDone atomic.Int32 // 1: the nested Close has returned
	innerE    atomic.Value // non-nil error text of the nested call
	closes    atomic.Int32
	otherCl   atomic.Int32
	otherN    int      // reOther instances created so far (guarded by mu)
	order     []string // labels of the reOther instances in the order their Close ran (guarded by mu)
	label     string   // label handed to the next reOther (guarded by mu)
	failLabel string   // the reOther with this label fails to close (guarded by mu)
}

var (
	reMu  sync.Mutex
	reCur *reWorld
)

func reGet() *reWorld { reMu.Lock(); defer reMu.Unlock(); return reCur }

type reCloser struct {
	w  *reWorld
	sc godi.Scope
	p  godi.Provider
}

func (r *reCloser) Close() error {
	r.w.closes.Add(1)
	r.w.mu.Lock()
	f := r.w.target
	r.w.mu.Unlock()
	if f != nil {
		r.w.innerN.Add(1)
		if err := f(); err != nil {
			r.w.innerE.Store(err.Error())
		}
		r.w.innerDone.CompareAndSwap(0, 1)
	}
	return nil
}

type reOther struct {
	w     *reWorld
	label string
}

var errReOther = errors.New("reentrant-close fixture: this instance fails to close")

func (o *reOther) Close() error {
	o.w.otherCl.Add(1)
	o.w.mu.Lock()
	o.w.order = append(o.w.order, o.label)
	fail := o.w.failLabel != "" && o.w.failLabel == o.label
	o.w.mu.Unlock()
	if fail {
		return errReOther
	}
	return nil
}

func reNewCloser(sc godi.Scope, p godi.Provider) *reCloser {
	return &reCloser{w: reGet(), sc: sc, p: p}
}
func reNewOther() *reOther {
	w := reGet()
	w.mu.Lock()
	defer w.mu.Unlock()
	w.otherN++
	return &reOther{w: w, label: w.label}
}

func runC12Reentrant(c *eng.Ctx, next func() (int, bool)) {
	variants := []string{
		"scoped-instance-closes-its-own-scope",
		"scoped-instance-closes-its-own-scope:closed-by-cancel",
		"scoped-instance-closes-its-own-scope:closed-by-parent",
		"scoped-instance-closes-the-parent-that-is-closing-it",
		"scoped-instance-closes-the-provider-that-is-closing-it",
		"singleton-closes-the-provider-that-is-closing-it",
		// the scope of the instance is closed first - by its user, or by its context - and the
		// instance's Close then closes an ANCESTOR, whose cascade comes back to the scope that is
		// waiting for this very Close method
		"scoped-instance-closes-the-parent:own-scope-closed-directly",
		"scoped-instance-closes-the-provider:own-scope-closed-directly",
		"scoped-instance-closes-the-parent:own-scope-closed-by-cancel",
		"scoped-instance-closes-the-provider:own-scope-closed-by-cancel",
		"scoped-instance-closes-the-grandparent:own-scope-closed-directly",
		// the scope BETWEEN the instance's scope and the ancestor it closes is the one that is closed
		"scoped-instance-closes-the-grandparent:middle-scope-closed-directly",
		"scoped-instance-closes-the-provider-while-the-grandparent-chain:middle-scope-closed-directly",
		// ... and owns no instance with a Close method itself (a pure grouping scope)
		"scoped-instance-closes-the-grandparent:middle-scope-closed-directly:middle-scope-owns-nothing",
		"scoped-instance-closes-the-provider-while-the-grandparent-chain:middle-scope-closed-directly:middle-scope-owns-nothing",
		"scoped-instance-closes-the-grandparent:own-scope-closed-directly:middle-scope-owns-nothing",
		// ... and has TWO child scopes, each with such an instance: whichever the cascade reaches first
		// closes the ancestor while the other child has not been reached yet
		"scoped-instances-of-two-sibling-scopes-close-the-grandparent:middle-scope-closed-directly",
		"scoped-instances-of-two-sibling-scopes-close-the-provider-while-the-grandparent-chain:middle-scope-closed-directly",
		"scoped-instances-of-two-sibling-scopes-close-the-grandparent:grandparent-closed-directly",
		// the instance lives in a TOP-LEVEL scope (created by the provider, no parent scope) or in the
		// provider's root scope (closed through the handle Resolve[godi.Scope](provider) returns)
		"top-level-scope-instance-closes-the-provider:own-scope-closed-directly",
		"top-level-scope-instance-closes-the-provider:own-scope-closed-by-cancel",
		"root-scope-instance-closes-the-provider:root-scope-closed-through-its-handle",
		// another instance of the scope that is closed first fails to close: that scope's Close reports it,
		// although the instance was disposed by the ancestor's Close running inside it
		"scoped-instance-closes-the-parent:own-scope-closed-directly:another-instance-of-it-fails",
		"scoped-instance-closes-the-provider:own-scope-closed-directly:another-instance-of-it-fails",
	}
	for _, v := range variants {
		idx, mine := next()
		if !mine {
			continue
		}
		c.R.Begin(idx)
		reCase(c, "C12", idx, v)
	}
}

// runC13Reentrant: the hang clause of the re-entrant closes, for "an operation that overlaps a
// Close ... never hangs" (closing the provider from inside the Close of a scope it tracks).
func runC13Reentrant(c *eng.Ctx, next func() (int, bool)) {
	for _, v := range []string{
		"scoped-instance-closes-the-provider:own-scope-closed-directly",
		"top-level-scope-instance-closes-the-provider:own-scope-closed-directly",
		"top-level-scope-instance-closes-the-provider:own-scope-closed-by-cancel",
		"root-scope-instance-closes-the-provider:root-scope-closed-through-its-handle",
		"scoped-instance-closes-the-provider-while-the-grandparent-chain:middle-scope-closed-directly:middle-scope-owns-nothing",
		"scoped-instances-of-two-sibling-scopes-close-the-provider-while-the-grandparent-chain:middle-scope-closed-directly",
		// TWO goroutines: the child is being closed on one (its instance's Close is about to close the
		// provider) when another one starts closing the parent. Each Close waits for a scope the other
		// goroutine is closing (KNOWN_FINDINGS.txt: recorded, not repaired)
		reTwoGoroutines,
	} {
		idx, mine := next()
		if !mine {
			continue
		}
		c.R.Begin(idx)
		reCase(c, "C13", idx, v)
	}
}

const reTwoGoroutines = "scoped-instance-closes-the-provider:own-scope-closed-directly:while-another-goroutine-closes-the-parent"

func init() {
	// the same executions judged for C11: the other instance of the descendant scope is closed
	// before the instance of the ancestor, whoever runs the cascade
	core.C11ReentrantClose = func(c *eng.Ctx, next func() (int, bool)) {
		for _, v := range []string{
			"scoped-instance-closes-the-parent-that-is-closing-it",
			"scoped-instance-closes-the-parent:own-scope-closed-directly",
			"scoped-instance-closes-the-provider:own-scope-closed-directly",
			"scoped-instance-closes-the-grandparent:own-scope-closed-directly",
			"scoped-instance-closes-the-grandparent:middle-scope-closed-directly",
			"scoped-instance-closes-the-provider-while-the-grandparent-chain:middle-scope-closed-directly",
			"scoped-instance-closes-the-grandparent:middle-scope-closed-directly:middle-scope-owns-nothing",
			"scoped-instances-of-two-sibling-scopes-close-the-grandparent:middle-scope-closed-directly",
			"scoped-instances-of-two-sibling-scopes-close-the-provider-while-the-grandparent-chain:middle-scope-closed-directly",
			"scoped-instances-of-two-sibling-scopes-close-the-grandparent:grandparent-closed-directly",
		} {
			idx, mine := next()
			if !mine {
				continue
			}
			c.R.Begin(idx)
			reCase(c, "C11", idx, v)
		}
	}
	// ... and for C10: every instance is closed exactly once, none is left open because a Close
	// that re-entered an ancestor never came back
	core.C10ReentrantClose = func(c *eng.Ctx, next func() (int, bool)) {
		for _, v := range []string{
			"scoped-instance-closes-the-parent:own-scope-closed-directly",
			"scoped-instance-closes-the-provider:own-scope-closed-directly",
			"scoped-instance-closes-the-grandparent:middle-scope-closed-directly",
			"scoped-instance-closes-the-grandparent:middle-scope-closed-directly:middle-scope-owns-nothing",
			"scoped-instance-closes-the-provider-while-the-grandparent-chain:middle-scope-closed-directly:middle-scope-owns-nothing",
			"scoped-instance-closes-the-grandparent:own-scope-closed-directly:middle-scope-owns-nothing",
			"scoped-instances-of-two-sibling-scopes-close-the-grandparent:middle-scope-closed-directly",
		} {
			idx, mine := next()
			if !mine {
				continue
			}
			c.R.Begin(idx)
			reCase(c, "C10", idx, v)
		}
	}
}

func reCase(c *eng.Ctx, prop string, idx int, variant string) {
	viol := func(clause, detail string) {
		if (prop == "C11") != (clause == "descendant-instance-closed-after-ancestor-instance") || prop == "C13" {
			return // the order is C11's, a hang C12's and C13's, everything else C12's
		}
		if prop == "C10" && clause != "close-count" && clause != "not-closed" {
			return // C10 judges how often every instance was closed
		}
		c.R.Violation(eng.Violation{Prop: prop, Clause: clause, Sig: prop + "/" + clause + ":close-called-from-inside-a-close-method:" + variant, Case: idx, CaseID: "reentrant-close-" + variant,
			Detail: variant + ": " + detail, Replay: map[string]any{"fixture": "reentrant-close", "variant": variant}})
	}
	w := &reWorld{}
	reMu.Lock()
	reCur = w
	reMu.Unlock()
	coll := godi.NewCollection()
	must := func(err error) {
		if err != nil {
			panic("reentrant-close fixture: " + err.Error())
		}
	}
	if variant == "singleton-closes-the-provider-that-is-closing-it" {
		must(coll.AddSingleton(reNewCloser))
	} else {
		must(coll.AddScoped(reNewCloser))
	}
	must(coll.AddScoped(reNewOther))
	prov, err := coll.Build()
	must(err)
	ctx, cancel := context.WithCancel(context.Background())
	defer cancel()
	parent, err := prov.CreateScope(ctx)
	must(err)
	childCtx, cancelChild := context.WithCancel(context.Background())
	defer cancelChild()
	var mid godi.Scope = parent
	if strings.Contains(variant, "grandparent") {
		mid, err = parent.CreateScope(context.Background())
		must(err)
	}
	var child godi.Scope
	if strings.HasSuffix(variant, "own-scope-closed-by-cancel") || strings.HasSuffix(variant, "-closed-directly") {
		child, err = mid.CreateScope(childCtx)
	} else {
		child, err = mid.CreateScope(nil)
	}
	must(err)
	type lab = struct {
		sc    godi.Scope
		label string
	}
	labelled := []lab{{parent, "parent"}, {child, "child"}}
	if mid != parent && !strings.Contains(variant, "middle-scope-owns-nothing") {
		labelled = append(labelled[:1:1], lab{mid, "mid"}, labelled[1])
	}
	var child2 godi.Scope
	if strings.Contains(variant, "two-sibling-scopes") {
		child2, err = mid.CreateScope(context.Background())
		must(err)
		labelled = append(labelled, lab{child2, "child2"})
	}
	for _, s := range labelled {
		w.mu.Lock()
		w.label = s.label
		w.mu.Unlock()
		if _, err := godi.Resolve[*reOther](s.sc); err != nil {
			must(err)
		}
	}
	var outer func() error
	bound := 20 * time.Second
	byWatcher := false
	wantOuterErr := false
	wantClosers := 1
	switch variant {
	case "scoped-instance-closes-its-own-scope":
		_, err = godi.Resolve[*reCloser](child)
		w.target = child.Close
		outer = child.Close
	case "scoped-instance-closes-its-own-scope:closed-by-cancel":
		_, err = godi.Resolve[*reCloser](parent)
		w.target = parent.Close
		outer = func() error { cancel(); return nil }
	case "scoped-instance-closes-its-own-scope:closed-by-parent":
		_, err = godi.Resolve[*reCloser](child)
		w.target = child.Close
		outer = parent.Close
	case "scoped-instance-closes-the-parent-that-is-closing-it":
		_, err = godi.Resolve[*reCloser](child)
		w.target = parent.Close
		outer = parent.Close
	case "scoped-instance-closes-the-provider-that-is-closing-it":
		_, err = godi.Resolve[*reCloser](child)
		w.target = prov.Close
		outer = prov.Close
	case "scoped-instance-closes-the-parent:own-scope-closed-directly:another-instance-of-it-fails":
		_, err = godi.Resolve[*reCloser](child)
		w.target = func() error { _ = parent.Close(); return nil }
		outer = child.Close
		w.mu.Lock()
		w.failLabel = "child"
		w.mu.Unlock()
		wantOuterErr = true
	case "scoped-instance-closes-the-provider:own-scope-closed-directly:another-instance-of-it-fails":
		_, err = godi.Resolve[*reCloser](child)
		w.target = func() error { _ = prov.Close(); return nil }
		outer = child.Close
		w.mu.Lock()
		w.failLabel = "child"
		w.mu.Unlock()
		wantOuterErr = true
	case "scoped-instance-closes-the-parent:own-scope-closed-directly", "scoped-instance-closes-the-grandparent:own-scope-closed-directly":
		_, err = godi.Resolve[*reCloser](child)
		w.target = parent.Close
		outer = child.Close
	case "top-level-scope-instance-closes-the-provider:own-scope-closed-directly":
		_, err = godi.Resolve[*reCloser](parent)
		w.target = prov.Close
		outer = parent.Close
	case "top-level-scope-instance-closes-the-provider:own-scope-closed-by-cancel":
		_, err = godi.Resolve[*reCloser](parent)
		w.target = prov.Close
		outer = func() error { cancel(); return nil }
		byWatcher = true
	case "root-scope-instance-closes-the-provider:root-scope-closed-through-its-handle":
		var root godi.Scope
		if root, err = godi.Resolve[godi.Scope](prov); err == nil {
			_, err = godi.Resolve[*reCloser](prov)
			w.target = prov.Close
			outer = root.Close
		}
	case "scoped-instance-closes-the-grandparent:middle-scope-closed-directly", "scoped-instance-closes-the-grandparent:middle-scope-closed-directly:middle-scope-owns-nothing":
		_, err = godi.Resolve[*reCloser](child)
		w.target = parent.Close
		outer = mid.Close
	case "scoped-instance-closes-the-provider-while-the-grandparent-chain:middle-scope-closed-directly", "scoped-instance-closes-the-provider-while-the-grandparent-chain:middle-scope-closed-directly:middle-scope-owns-nothing":
		_, err = godi.Resolve[*reCloser](child)
		w.target = prov.Close
		outer = mid.Close
	case "scoped-instance-closes-the-grandparent:own-scope-closed-directly:middle-scope-owns-nothing":
		_, err = godi.Resolve[*reCloser](child)
		w.target = parent.Close
		outer = child.Close
	case "scoped-instances-of-two-sibling-scopes-close-the-grandparent:middle-scope-closed-directly",
		"scoped-instances-of-two-sibling-scopes-close-the-provider-while-the-grandparent-chain:middle-scope-closed-directly",
		"scoped-instances-of-two-sibling-scopes-close-the-grandparent:grandparent-closed-directly":
		if _, err = godi.Resolve[*reCloser](child); err == nil {
			_, err = godi.Resolve[*reCloser](child2)
		}
		w.target = parent.Close
		outer = mid.Close
		if strings.Contains(variant, "close-the-provider") {
			w.target = prov.Close
		}
		if strings.HasSuffix(variant, "grandparent-closed-directly") {
			outer = parent.Close
		}
		wantClosers = 2
	case "scoped-instance-closes-the-provider:own-scope-closed-directly":
		_, err = godi.Resolve[*reCloser](child)
		w.target = prov.Close
		outer = child.Close
	case reTwoGoroutines:
		_, err = godi.Resolve[*reCloser](child)
		inClose, flagged := make(chan struct{}), make(chan struct{})
		var g1 atomic.Int64
		var once sync.Once
		rt.SetRawYield(func(point string) {
			if point == "scope.Close:flagged" && rt.Goid() == g1.Load() {
				once.Do(func() { close(flagged) })
			}
		})
		defer rt.SetRawYield(nil)
		go func() {
			<-inClose
			g1.Store(rt.Goid())
			_ = parent.Close()
		}()
		w.target = func() error {
			close(inClose)
			select {
			case <-flagged: // the other goroutine's Close of the parent has begun
			case <-time.After(10 * time.Second):
			}
			return prov.Close()
		}
		outer = child.Close
		bound = 4 * time.Second
	case "scoped-instance-closes-the-parent:own-scope-closed-by-cancel":
		_, err = godi.Resolve[*reCloser](child)
		w.target = parent.Close
		outer = func() error { cancelChild(); return nil }
		byWatcher = true
	case "scoped-instance-closes-the-provider:own-scope-closed-by-cancel":
		_, err = godi.Resolve[*reCloser](child)
		w.target = prov.Close
		outer = func() error { cancelChild(); return nil }
		byWatcher = true
	case "singleton-closes-the-provider-that-is-closing-it":
		w.target = prov.Close
		outer = prov.Close
	default:
		panic("reentrant-close fixture: unknown variant " + variant)
	}
	must(err)
	done := make(chan error, 1)
	go func() { done <- outer() }()
	var outerErr error
	finished := make(chan struct{})
	go func() { outerErr = <-done; close(finished) }()
	if v := awaitOrDiagnose(finished, bound); !v.Done {
		if variant == reTwoGoroutines && v.Deadlock {
			c.R.Violation(eng.Violation{Prop: prop, Clause: "hang", Sig: prop + "/hang:close-called-from-inside-a-close-method:" + variant, Case: idx, CaseID: "reentrant-close-" + variant,
				Detail: fmt.Sprintf("%s: goroutine A closes the child scope; the Close method of its instance closes the provider; goroutine B has meanwhile begun to close the parent scope. The provider's Close (on A) waits for the parent, which B is closing; B's cascade waits for the child, which A is closing. Neither Close ever returns; goroutines stuck inside godi:\n%s", variant, v.Dump), Replay: map[string]any{"fixture": "reentrant-close", "variant": variant}})
		} else if prop == "C10" && v.Deadlock {
			c.R.Violation(eng.Violation{Prop: prop, Clause: "leaked", Sig: "C10/leaked:close-called-from-inside-a-close-method:" + variant, Case: idx, CaseID: "reentrant-close-" + variant,
				Detail: fmt.Sprintf("%s: the Close never returned, so %d of the %d instances with a Close method are never closed; goroutines stuck inside godi:\n%s", variant, len(labelled)+wantClosers-int(w.otherCl.Load())-int(w.closes.Load()), len(labelled)+wantClosers, v.Dump), Replay: map[string]any{"fixture": "reentrant-close", "variant": variant}})
		} else if prop != "C12" && prop != "C13" {
			c.R.Inconclusive(idx, "re-entrant close case did not finish (the hang is C12's to report): the close order cannot be judged")
		} else if v.Deadlock {
			c.R.Violation(eng.Violation{Prop: prop, Clause: "hang", Sig: prop + "/hang:close-called-from-inside-a-close-method:" + variant + ":" + innermostGodiFn(v.Dump), Case: idx, CaseID: "reentrant-close-" + variant,
				Detail: fmt.Sprintf("%s: the Close never returned; goroutines stuck inside godi:\n%s", variant, v.Dump), Replay: map[string]any{"fixture": "reentrant-close", "variant": variant}})
		} else {
			c.R.Inconclusive(idx, "re-entrant close case did not finish within the watchdog and no goroutine is provably stuck inside godi")
		}
		c.R.Abandon(idx)
		return
	}
	if variant == "scoped-instance-closes-its-own-scope:closed-by-cancel" {
		byWatcher = true
	}
	if byWatcher {
		// the watcher goroutine closes the scope: bounded wait until the nested Close has come
		// back to the instance's Close method (a watcher that never gets there is the hang)
		returned := make(chan struct{})
		go func() {
			for w.innerDone.Load() == 0 {
				time.Sleep(2 * time.Millisecond)
			}
			close(returned)
		}()
		if v := awaitOrDiagnose(returned, 20*time.Second); !v.Done {
			w.innerDone.Store(-1) // releases the poller
			if prop != "C12" && prop != "C13" {
				c.R.Inconclusive(idx, "re-entrant close case did not finish (the hang is C12's to report): the close order cannot be judged")
			} else if v.Deadlock {
				c.R.Violation(eng.Violation{Prop: prop, Clause: "hang", Sig: prop + "/hang:close-called-from-inside-a-close-method:" + variant + ":" + innermostGodiFn(v.Dump), Case: idx, CaseID: "reentrant-close-" + variant,
					Detail: fmt.Sprintf("%s: the Close called from the instance's Close method never returned; goroutines stuck inside godi:\n%s", variant, v.Dump), Replay: map[string]any{"fixture": "reentrant-close", "variant": variant}})
			} else {
				c.R.Inconclusive(idx, "re-entrant close case (closed by the context watcher) did not finish within the watchdog and no goroutine is provably stuck inside godi")
			}
			c.R.Abandon(idx)
			return
		}
	}
	if outerErr != nil && !wantOuterErr {
		viol("close-error-spurious", fmt.Sprintf("the outer Close returned %v although no Close method failed", outerErr))
	}
	if wantOuterErr && outerErr == nil {
		viol("disposal-error-lost", "the Close of the scope returned nil although one of the scope's own instances failed to close (it was disposed by the ancestor's Close that one of its Close methods had started)")
	}
	if e, _ := w.innerE.Load().(string); e != "" {
		viol("second-close-not-nil", "the Close called from inside the Close method returned "+e)
	}
	if int(w.innerN.Load()) != wantClosers {
		viol("not-closed", fmt.Sprintf("the Close of the %d instance(s) that close an ancestor ran %d times", wantClosers, w.innerN.Load()))
	}
	_ = prov.Close()
	w.mu.Lock()
	order := append([]string(nil), w.order...)
	w.mu.Unlock()
	depth := map[string]int{"parent": 0, "mid": 1, "child": 2, "child2": 2}
	if !strings.Contains(variant, "closes-its-own-scope") {
		for i := 1; i < len(order); i++ {
			if depth[order[i]] > depth[order[i-1]] {
				viol("descendant-instance-closed-after-ancestor-instance", fmt.Sprintf("the instance of an ancestor scope was closed while an instance of a descendant scope was still open (close order %v)", order))
				break
			}
		}
	}
	if n := w.closes.Load(); int(n) != wantClosers {
		viol("close-count", fmt.Sprintf("the instance that closes again from its Close method was closed %d times", n))
	}
	if n := w.otherCl.Load(); int(n) != len(labelled) {
		viol("close-count", fmt.Sprintf("the %d other scoped instances were closed %d times in total", len(labelled), n))
	}
	c.R.Count("reentrant_close_cases", 1)
	c.R.End(idx, eng.Hash("c12-reentrant", variant), true)
}
