package conc

import (
	"fmt"
	"runtime"
	"sort"
	"sync"
	"time"

	"github.com/anishathalye/porcupine"
	"github.com/junioryono/godi/v4"
	"github.com/junioryono/godi/v4/verifh/core"
	"github.com/junioryono/godi/v4/verifh/eng"
	"github.com/junioryono/godi/v4/verifh/pool"
	"github.com/junioryono/godi/v4/verifh/rt"
)

// MonC02 checks the scoped-lifetime rules over one run.
func MonC02(r *core.Run, o *core.Obs) []core.Finding {
	var fs []core.Finding
	if !r.Built {
		return nil
	}
	m := r.Model
	// (1) at most one successful construction per (scoped registration, scope)
	perScope := map[[2]int][]*core.CtorRun{}
	for _, run := range o.Runs {
		if run.Reg < 0 || m.Regs[run.Reg].Life != godi.Scoped || run.ExitSeq == 0 {
			continue
		}
		perScope[[2]int{run.Reg, run.Scope}] = append(perScope[[2]int{run.Reg, run.Scope}], run)
	}
	for k, runs := range perScope {
		ri := &m.Regs[k[0]]
		if k[1] < 0 {
			continue
		}
		if len(runs) > 1 && !ri.Void {
			fs = append(fs, core.Finding{Clause: "two-constructions-in-one-scope", Sig: m.Features(k[0]), Detail: fmt.Sprintf("scoped %s was successfully constructed %d times in scope s%d (ops %s)", m.Describe(k[0]), len(runs), k[1], opsOf(runs))})
		}
	}
	// (2) one instance per scope for every observation; (3) never shared between scopes
	type key struct{ reg, out, scope int }
	seen := map[key]map[int64]bool{}
	scopesOf := map[int64]map[int]bool{}
	for _, d := range o.Deliveries {
		p, ok := o.Produced[d.Inst]
		if !ok || p.Reg < 0 || p.Value || m.Regs[p.Reg].Life != godi.Scoped {
			continue
		}
		sc := d.Scope // argument deliveries carry the scope their consumer was constructed in
		if sc < 0 {
			continue
		}
		k := key{p.Reg, p.Out, sc}
		if seen[k] == nil {
			seen[k] = map[int64]bool{}
		}
		seen[k][d.Inst] = true
		if scopesOf[d.Inst] == nil {
			scopesOf[d.Inst] = map[int]bool{}
		}
		scopesOf[d.Inst][sc] = true
	}
	for k, ids := range seen {
		if len(ids) > 1 {
			var names []string
			for id := range ids {
				names = append(names, o.InstName(id))
			}
			sort.Strings(names)
			fs = append(fs, core.Finding{Clause: "two-instances-in-one-scope", Sig: m.Features(k.reg), Detail: fmt.Sprintf("scope s%d handed out %d different instances of scoped %s (output %d): %v", k.scope, len(ids), m.Describe(k.reg), k.out, names)})
		}
	}
	for id, scs := range scopesOf {
		if len(scs) > 1 {
			var ss []int
			for s := range scs {
				ss = append(ss, s)
			}
			sort.Ints(ss)
			p := o.Produced[id]
			fs = append(fs, core.Finding{Clause: "instance-shared-between-scopes", Sig: m.Features(p.Reg), Detail: fmt.Sprintf("%s of scoped %s was observed in scopes %v", o.InstName(id), m.Describe(p.Reg), ss)})
		}
	}
	// (2b) the caller's view: every direct resolution of one scoped IDENTITY (type, key) in one
	// scope returns the same instance - whichever registration produced it
	type idk struct {
		scope    int
		typ, key string
	}
	got := map[idk]map[int64]bool{}
	for i := range r.Results {
		res := &r.Results[i]
		if res.Op >= len(r.Ops) {
			continue
		}
		op := r.Ops[res.Op]
		if op.Kind != core.OpGet || res.Class != "ok" || len(res.Insts) != 1 || res.Insts[0] == nil {
			continue
		}
		p, ok := m.Services[core.IdentKey{Type: op.Type, Key: op.Key}]
		if !ok || m.Regs[p.Reg].Life != godi.Scoped || m.Regs[p.Reg].Meta == nil {
			continue
		}
		k := idk{op.Scope, op.Type, op.Key}
		if got[k] == nil {
			got[k] = map[int64]bool{}
		}
		got[k][res.Insts[0].ID] = true
	}
	for k, ids := range got {
		if len(ids) > 1 {
			var names []string
			for id := range ids {
				names = append(names, o.InstName(id))
			}
			sort.Strings(names)
			p := m.Services[core.IdentKey{Type: k.typ, Key: k.key}]
			fs = append(fs, core.Finding{Clause: "two-instances-in-one-scope", Sig: m.Features(p.Reg) + ":by-identity", Detail: fmt.Sprintf("scope s%d returned %d different instances for the scoped identity (%s,%q) registered by %s: %v", k.scope, len(ids), k.typ, k.key, m.Describe(p.Reg), names)})
		}
	}
	// (4) initializers: exactly once per created scope, while it is being created
	created := map[int]int{0: 0} // scope id -> creating op (root scope: Build = op 0)
	for i := range r.Results {
		if r.Results[i].NewScope > 0 {
			created[r.Results[i].NewScope] = r.Results[i].Op
		}
	}
	for i := range m.Regs {
		ri := &m.Regs[i]
		if !m.Accepted(i) || !ri.Void || ri.Life != godi.Scoped {
			continue
		}
		count := map[int]int{}
		for _, run := range o.RunsByReg[i] {
			if run.ExitSeq == 0 {
				continue
			}
			count[run.Scope]++
			if want, ok := created[run.Scope]; ok && run.Op != want {
				fs = append(fs, core.Finding{Clause: "initializer-ran-late", Sig: "", Detail: fmt.Sprintf("initializer %s of scope s%d ran during op%d, not while the scope was being created (op%d)", m.Describe(i), run.Scope, run.Op, want)})
			}
		}
		for sc := range created {
			if count[sc] != 1 {
				fs = append(fs, core.Finding{Clause: "initializer-count", Sig: fmt.Sprintf("ran-%d-times", count[sc]), Detail: fmt.Sprintf("initializer %s ran %d times for scope s%d (want exactly once, when the scope is created)", m.Describe(i), count[sc], sc)})
			}
		}
	}
	return fs
}

func opsOf(runs []*core.CtorRun) string {
	s := ""
	for i, r := range runs {
		if i > 0 {
			s += ","
		}
		s += fmt.Sprintf("op%d", r.Op)
	}
	return s
}

func init() {
	eng.Register(&eng.Property{
		ID: "C02", Level: "exploration", Race: true,
		Rule: "three workloads on the -race build: (a) seeded random buildable sets with a scope-tree/resolution history (sequential): per (scoped registration, scope) at most one successful construction, one instance for every observation inside the scope (direct, keyed, group, injected), no instance observed in two scopes, initializers exactly once per scope creation; " +
			"(b) the cache-miss window: k goroutines resolve one scoped identity (directly, through a dependent, through a group) on one scope behind a barrier while the constructor yields, 200/5000 rounds; (c) the deterministic schedule 'G1 parked inside the constructor, G2 resolves the same identity, G1 resumes'. " +
			"(d) initializers registered under a name: resolved by key and as a dependency of a scoped service, sequentially and from 2-8 goroutines, in the root scope, two scopes and a child scope - still exactly one run per scope. The per-(scope,identity) histories of (b) are also checked with porcupine against a set-once register. Non-trivial: >=1 scoped registration observed >=2 times in one scope; distinct = spec/workload hash.",
		Shards:        func(tier string) int { return 16 },
		Run:           runC02,
		NeedEvents:    []string{"scoped_observations", "window_rounds", "parked_schedules", "porcupine_histories", "named_initializer_cases"},
		ShardTimeoutS: func(tier string) int { return 900 },
		Assumptions:   []string{"a failed construction yields no instance and may be retried (only successful constructions are counted)", "instance values registered as scoped are excluded from the never-shared clause"},
	})
}

// setOnceModel: the scoped cache of one (scope, identity): reads return the first written id.
type regIn struct {
	Scope int
	Ident string
}

var setOnceModel = porcupine.Model{
	Partition: func(h []porcupine.Operation) [][]porcupine.Operation {
		parts := map[regIn][]porcupine.Operation{}
		var order []regIn
		for _, op := range h {
			k := op.Input.(regIn)
			if _, ok := parts[k]; !ok {
				order = append(order, k)
			}
			parts[k] = append(parts[k], op)
		}
		var out [][]porcupine.Operation
		for _, k := range order {
			out = append(out, parts[k])
		}
		return out
	},
	Init: func() any { return int64(0) },
	Step: func(state, input, output any) (bool, any) {
		st := state.(int64)
		got := output.(int64)
		if got == 0 { // failed resolution: no effect
			return true, st
		}
		if st == 0 {
			return true, got
		}
		return got == st, st
	},
	Equal: func(a, b any) bool { return a.(int64) == b.(int64) },
}

func runC02(c *eng.Ctx) {
	idxN := 0
	next := func() (int, bool) { i := idxN; idxN++; return i, c.Mine(i) }
	finish := func(idx int, r *core.Run, kind string, extra map[string]any) {
		o := core.Digest(r)
		core.Report(c, "C02", idx, r, MonC02(r, o))
		n := 0
		per := map[[2]int]int{}
		for _, d := range o.Deliveries {
			if p, ok := o.Produced[d.Inst]; ok && p.Reg >= 0 && !p.Value && r.Model.Regs[p.Reg].Life == godi.Scoped {
				n++
				per[[2]int{p.Reg, d.Scope}]++
			}
		}
		nt := false
		for _, v := range per {
			if v >= 2 {
				nt = true
			}
		}
		c.R.Count("scoped_observations", int64(n))
		c.R.Count("ctor_invocations", int64(len(o.Runs)))
		c.R.Count("api_calls", int64(len(r.Ops)))
		if c.R.WantSample() && nt {
			c.R.Sample(core.SampleOf(r, extra))
		}
		c.R.End(idx, eng.Hash("c02", kind, r.Spec.Canon(), len(r.Ops), extra["variant"]), nt && r.Built)
	}
	// (a0) directed: one alias of a scoped multi-identity registration replaced by another scoped
	// registration ("Remove, then add the mock"); the replaced identity is resolved before AND
	// after the constructor of the original registration has run in that scope
	rmReg := func(t, key string) core.Reg { return core.Reg{Remove: true, RmType: t, RmKey: key, Tail: true} }
	directed := []struct {
		spec  *core.Spec
		first core.Op // resolved first, then everything, then again
	}{
		{&core.Spec{Regs: []core.Reg{core.MkReg("Leaf_K0_a", godi.Scoped, core.WithAs("IK0", "IA")), rmReg("IA", ""), core.MkReg("Leaf_K1_a", godi.Scoped, core.WithAs("IA"))}}, core.Op{Kind: core.OpGet, Type: "IA"}},
		{&core.Spec{Regs: []core.Reg{core.MkReg("MR_K0K1", godi.Scoped), rmReg("K1", ""), core.MkReg("Leaf_K1_b", godi.Scoped)}}, core.Op{Kind: core.OpGet, Type: "K1"}},
		{&core.Spec{Regs: []core.Reg{core.MkReg("OutN_K0K1", godi.Scoped), rmReg("K0", "k"), core.MkReg("Leaf_K0_b", godi.Scoped, core.WithName("k"))}}, core.Op{Kind: core.OpGet, Type: "K0", Key: "k"}},
		// group members that are aliases of one instance: the group of the SECOND alias is resolved repeatedly
		{&core.Spec{Regs: []core.Reg{core.MkReg("Leaf_K0_a", godi.Scoped, core.WithAs("IK0", "IA"), core.WithGroup("g")), core.MkReg("Leaf_K1_a", godi.Scoped, core.WithAs("IA", "IK1"), core.WithGroup("g"))}}, core.Op{Kind: core.OpGetGroup, Type: "IA", Group: "g"}},
		{&core.Spec{Regs: []core.Reg{core.MkReg("MR_K1K1", godi.Scoped, core.WithGroup("h")), core.MkReg("InU_0_2_Group", godi.Scoped)}}, core.Op{Kind: core.OpGetGroup, Type: "K1", Group: "h"}},
		{&core.Spec{Regs: []core.Reg{core.MkReg("Leaf_S3_a", godi.Scoped, core.WithAs("IS3", "IB"), core.WithName("k")), rmReg("IB", "k"), core.MkReg("Leaf_S2_a", godi.Scoped, core.WithAs("IB"), core.WithName("k"))}}, core.Op{Kind: core.OpGet, Type: "IB", Key: "k"}},
	}
	for di, d := range directed {
		idx, mine := next()
		if !mine {
			continue
		}
		m := core.NewModel(d.spec)
		if m.Class != core.ClsOK {
			panic(fmt.Sprintf("harness fixture %d of C02 (a0) is not buildable: %s", di, m.Class))
		}
		c.R.Begin(idx)
		r := core.NewRun(d.spec, m, nil, nil)
		r.Build()
		if r.Built {
			for _, parent := range []int{0, 0} {
				sc := r.Do(core.Op{Kind: core.OpCreate, Scope: parent, CtxKind: 1}).NewScope
				op := d.first
				op.Scope = sc
				r.Do(op)
				core.ProbeRegistered(r, sc)
				r.Do(op)
				core.ProbeRegisteredReverse(r, sc)
				r.Do(op)
			}
			// the provider's own root scope too
			op := d.first
			op.Scope = 0
			r.Do(op)
			core.ProbeRegistered(r, 0)
			r.Do(op)
			r.Finish()
		}
		finish(idx, r, "directed-replaced-alias", map[string]any{"kind": "directed-replaced-alias", "variant": di})
	}
	// (a1) constructors one output of which is nil on the first invocation (retry must not replace what the scope serves)
	core.RunPartialOutputs(c, "C02", next)
	// (a2) every special constructor form as a scoped service (plus, less often, the other lifetimes)
	for fi, ss := range core.FormSpecs() {
		if l := ss.FormLifetime(); l != godi.Scoped && fi%4 != 0 {
			continue
		}
		idx, mine := next()
		if !mine {
			continue
		}
		c.R.Begin(idx)
		c.R.Count("form_specs", 1)
		r := core.NewRun(ss.Spec, core.NewModel(ss.Spec), nil, nil)
		r.Build()
		if r.Built {
			a := r.Do(core.Op{Kind: core.OpCreate, Scope: 0, CtxKind: 1})
			b := r.Do(core.Op{Kind: core.OpCreate, Scope: a.NewScope, CtxKind: 0})
			core.ProbeRegistered(r, b.NewScope)
			core.ProbeRegisteredReverse(r, b.NewScope)
			core.ProbeRegistered(r, a.NewScope)
			core.ProbeRegistered(r, 0)
			core.ProbeRegistered(r, a.NewScope)
			r.Finish()
		}
		finish(idx, r, "form", map[string]any{"kind": "form", "variant": ss.Consumer})
	}
	// (a) sequential random
	nSeq := c.Pick(600, 20000)
	for k := 0; k < nSeq; k++ {
		idx, mine := next()
		if !mine {
			continue
		}
		rng := core.CaseRng(c.Seed, "C02", idx)
		lifes := []godi.Lifetime{godi.Scoped, godi.Scoped, godi.Singleton, godi.Transient}
		full := k%6 == 5
		s, m := core.GenSpec(rng, core.GenOpts{Want: core.ClsOK, Specials: true, Values: k%5 == 0, Lifetimes: lifes, MultiAlias: full || k%4 == 1, Removes: k%4 == 1})
		if s == nil {
			continue
		}
		c.R.Begin(idx)
		r := core.NewRun(s, m, nil, nil)
		r.Build()
		if r.Built {
			core.GenScript(rng, r, 2+rng.Intn(4), 8+rng.Intn(14), 6)
			a := r.Do(core.Op{Kind: core.OpCreate, Scope: 0, CtxKind: 1})
			b := r.Do(core.Op{Kind: core.OpCreate, Scope: a.NewScope, CtxKind: 0})
			core.ProbeRegistered(r, b.NewScope)
			core.ProbeForeignKeys(r, b.NewScope)
			core.ProbeRegistered(r, b.NewScope)
			core.ProbeRegistered(r, a.NewScope)
			core.ProbeRegistered(r, 0)
			r.Finish()
		}
		finish(idx, r, "sequential", map[string]any{"kind": "sequential"})
	}
	// fixtures for the window workloads: scoped K0 reached directly, through a scoped dependent,
	// through a transient dependent and through a group member
	fixtures := []struct {
		name  string
		spec  *core.Spec
		probe []core.Op
	}{
		{"direct+dependents", &core.Spec{Regs: []core.Reg{
			core.MkReg("Leaf_K0_a", godi.Scoped),
			core.MkReg("PosA_1_1", godi.Scoped),
			core.MkReg("PosB_2_1", godi.Transient),
			core.MkReg("PosA_3_3", godi.Scoped),
		}}, []core.Op{{Kind: core.OpGet, Type: "K0"}, {Kind: core.OpGet, Type: "K1"}, {Kind: core.OpGet, Type: "K2"}, {Kind: core.OpGet, Type: "K3"}, {Kind: core.OpGet, Type: "K0", Generic: true}}},
		{"keyed+alias+group", &core.Spec{Regs: []core.Reg{
			core.MkReg("Leaf_K0_a", godi.Scoped, core.WithName("k")),
			core.MkReg("Leaf_K1_a", godi.Scoped, core.WithAs("IK1")),
			core.MkReg("Leaf_K2_a", godi.Scoped, core.WithGroup("g")),
			core.MkReg("Leaf_K2_b", godi.Scoped, core.WithGroup("g")),
			core.MkReg("InU_3_4_Group", godi.Scoped),
			core.MkReg("InU_3_2_Iface", godi.Transient, core.WithName("k2")),
		}}, []core.Op{{Kind: core.OpGet, Type: "K0", Key: "k"}, {Kind: core.OpGet, Type: "IK1"}, {Kind: core.OpGetGroup, Type: "K2", Group: "g"}, {Kind: core.OpGet, Type: "K3"}, {Kind: core.OpGet, Type: "K3", Key: "k2"}}},
		{"multi-output", &core.Spec{Regs: []core.Reg{
			core.MkReg("MR_K0K1", godi.Scoped),
			core.MkReg("OutS_S1S5", godi.Scoped),
			core.MkReg("PosA_2_3", godi.Scoped),
		}}, []core.Op{{Kind: core.OpGet, Type: "K0"}, {Kind: core.OpGet, Type: "K1"}, {Kind: core.OpGet, Type: "K2"}, {Kind: core.OpGet, Type: "S1"}, {Kind: core.OpGet, Type: "S5"}}},
		// multi-output constructors whose FIRST output is a group member (result-object field with a
		// group tag; multi-return registered with Group): the outputs still come from one invocation
		{"multi-output-first-output-grouped", &core.Spec{Regs: []core.Reg{
			core.MkReg("OutG_K0K1", godi.Scoped),
			core.MkReg("MR_S0S4", godi.Scoped, core.WithGroup("h")),
			core.MkReg("Leaf_K0_a", godi.Scoped, core.WithGroup("g")),
		}}, []core.Op{{Kind: core.OpGetGroup, Type: "K0", Group: "g"}, {Kind: core.OpGet, Type: "K1"}, {Kind: core.OpGetGroup, Type: "S0", Group: "h"}, {Kind: core.OpGetGroup, Type: "S4", Group: "h"}, {Kind: core.OpGet, Type: "K1", Generic: true}}},
		// one constructor registered under SEVERAL aliases (plain and keyed): goroutines that ask for
		// different aliases of it at the same moment still get the one instance of the one invocation
		{"several-aliases", &core.Spec{Regs: []core.Reg{
			core.MkReg("Leaf_K0_a", godi.Scoped, core.WithAs("IK0", "IA")),
			core.MkReg("Leaf_S3_a", godi.Scoped, core.WithAs("IS3", "IB"), core.WithName("k")),
		}}, []core.Op{{Kind: core.OpGet, Type: "IK0"}, {Kind: core.OpGet, Type: "IA"}, {Kind: core.OpGet, Type: "IS3", Key: "k"}, {Kind: core.OpGet, Type: "IB", Key: "k"}, {Kind: core.OpGet, Type: "IA", Generic: true}}},
	}
	// drop fixtures the model does not consider buildable (keeps the fixture list honest)
	var fx []int
	for i := range fixtures {
		if core.NewModel(fixtures[i].spec).Class == core.ClsOK {
			fx = append(fx, i)
		}
	}
	// (b) cache-miss window (godi's internal yield points perturb the schedule from here on)
	rt.SetNoise(120)
	defer func() { rt.SetNoise(0); c.R.Count("internal_yield_points_passed", rt.YieldCount()) }()
	rounds := c.Pick(200, 5000)
	for k := 0; k < rounds; k++ {
		idx, mine := next()
		if !mine {
			continue
		}
		f := fixtures[fx[k%len(fx)]]
		rng := core.CaseRng(c.Seed, "C02w", idx)
		c.R.Begin(idx)
		m := core.NewModel(f.spec)
		// a third of the rounds: the first invocation(s) of the scoped constructors fail while
		// other goroutines are already queued behind them ("a failed construction yields no
		// instance and may be retried" — the retry must still be the only construction)
		var faults []rt.Fault
		faulted := k%3 == 2
		if faulted {
			for i, reg := range f.spec.Regs {
				if reg.Life != godi.Scoped || i%2 == 1 && k%2 == 0 {
					continue
				}
				kind := rt.FPanic
				if pool.Ctors[reg.Ctor].HasErr {
					kind = rt.FErr
				}
				faults = append(faults, rt.Fault{Ctor: reg.Ctor, Nth: 1, Kind: kind})
				if k%5 == 0 {
					faults = append(faults, rt.Fault{Ctor: reg.Ctor, Nth: 2, Kind: kind})
				}
			}
			c.R.Count("window_rounds_with_failing_first_construction", 1)
		}
		r := core.NewRun(f.spec, m, faults, nil)
		// constructors yield so that several goroutines sit in the miss window
		r.Rec.SetHook(func(hp rt.HookPoint) {
			if hp.Where == "ctor" {
				runtime.Gosched()
				if faulted {
					time.Sleep(time.Duration(150+hp.Ctor%100) * time.Microsecond)
				} else if hp.Nth%2 == 0 {
					time.Sleep(time.Duration(20+hp.Ctor%50) * time.Microsecond)
				}
			}
		})
		r.Build()
		var hist []porcupine.Operation
		var hmu sync.Mutex
		if r.Built {
			// every fourth round: the goroutines are spread over three sibling scopes, so the same
			// constructors run concurrently in DIFFERENT scopes (nothing may leak across)
			scopes := []int{r.Do(core.Op{Kind: core.OpCreate, Scope: 0, CtxKind: 1}).NewScope}
			if k%4 == 1 {
				scopes = append(scopes, r.Do(core.Op{Kind: core.OpCreate, Scope: 0, CtxKind: 1}).NewScope, r.Do(core.Op{Kind: core.OpCreate, Scope: scopes[0], CtxKind: 0}).NewScope)
				c.R.Count("window_rounds_across_scopes", 1)
			}
			g := []int{2, 4, 8, 16}[rng.Intn(4)]
			start := make(chan struct{})
			var wg sync.WaitGroup
			for gi := 0; gi < g; gi++ {
				ops := make([]core.Op, len(f.probe))
				copy(ops, f.probe)
				rng.Shuffle(len(ops), func(i, j int) { ops[i], ops[j] = ops[j], ops[i] })
				sc := scopes[gi%len(scopes)]
				wg.Add(1)
				go func(gi int, ops []core.Op) {
					defer wg.Done()
					<-start
					for _, op := range ops {
						op.Scope = sc
						res := r.Do(op)
						if res.Class == "ok" && (res.IsNil || (op.Kind == core.OpGet && (len(res.Insts) != 1 || res.Insts[0] == nil))) {
							c.R.Violation(eng.Violation{Prop: "C02", Clause: "nil-result-without-error", Sig: "C02/nil-result-without-error:" + f.name, Case: idx, CaseID: f.name, Detail: fmt.Sprintf("%s returned no instance and no error while other goroutines were constructing the same scoped service", op.String())})
						}
						if op.Kind == core.OpGet {
							var id int64
							if res.Class == "ok" && len(res.Insts) == 1 && res.Insts[0] != nil {
								id = res.Insts[0].ID
							}
							hmu.Lock()
							hist = append(hist, porcupine.Operation{ClientId: gi, Input: regIn{sc, op.Type + "/" + op.Key}, Call: res.Call, Output: id, Return: res.Ret})
							hmu.Unlock()
						}
					}
				}(gi, ops)
			}
			done := make(chan struct{})
			go func() { wg.Wait(); close(done) }()
			close(start)
			if v := awaitOrDiagnose(done, 60*time.Second); !v.Done {
				if v.Deadlock {
					c.R.Violation(eng.Violation{Prop: "C02", Clause: "deadlock", Sig: "C02/deadlock:" + innermostGodiFn(v.Dump), Case: idx, CaseID: f.name, Detail: "goroutines resolving one scoped service concurrently are stuck inside godi:\n" + v.Dump})
				} else {
					c.R.Inconclusive(idx, "window round did not finish within the watchdog and no goroutine is provably stuck inside godi")
				}
				c.R.Abandon(idx)
			}
			r.Finish()
			c.R.Count("window_rounds", 1)
			c.R.Count("window_goroutines", int64(g))
			res, _ := porcupine.CheckOperationsVerbose(setOnceModel, hist, 20*time.Second)
			c.R.Count("porcupine_histories", 1)
			c.R.Count("porcupine_ops", int64(len(hist)))
			switch res {
			case porcupine.Illegal:
				c.R.Violation(eng.Violation{Prop: "C02", Clause: "scoped-cache-not-linearizable", Sig: "C02/scoped-cache-not-linearizable:" + f.name, Case: idx, CaseID: f.name, Detail: fmt.Sprintf("the recorded history of concurrent resolutions of scoped identities in one scope is not linearizable against a set-once register (%d operations, %d goroutines)", len(hist), g)})
			case porcupine.Unknown:
				c.R.Inconclusive(idx, "porcupine timed out")
			}
		}
		finish(idx, r, "window:"+f.name, map[string]any{"kind": "cache-miss-window", "fixture": f.name, "variant": k})
	}
	// (c) deterministic: G1 parked inside the constructor of the scoped service, G2 resolves
	// the same identity (directly or through a dependent), G1 resumes
	scheds := c.Pick(60, 600)
	for k := 0; k < scheds; k++ {
		idx, mine := next()
		if !mine {
			continue
		}
		f := fixtures[fx[k%len(fx)]]
		c.R.Begin(idx)
		m := core.NewModel(f.spec)
		r := core.NewRun(f.spec, m, nil, nil)
		r.Build()
		if r.Built {
			sc := r.Do(core.Op{Kind: core.OpCreate, Scope: 0, CtxKind: 1}).NewScope
			first := f.probe[k%len(f.probe)]
			second := f.probe[(k/len(f.probe))%len(f.probe)]
			first.Scope, second.Scope = sc, sc
			// park the first constructor invocation that the first op triggers in this scope
			gate := NewGate(func(hp rt.HookPoint) bool { return hp.Where == "ctor" })
			r.Rec.SetHook(gate.Hook)
			var wg sync.WaitGroup
			wg.Add(1)
			go func() { defer wg.Done(); r.Do(first) }()
			parked := gate.WaitReached(20 * time.Second)
			wg.Add(1)
			g2done := make(chan struct{})
			go func() { defer wg.Done(); defer close(g2done); r.Do(second) }()
			// G2 either completes (it needed nothing G1 is building) or blocks behind G1;
			// the grace period only steers the schedule, it is never a verdict
			select {
			case <-g2done:
			case <-time.After(30 * time.Millisecond):
			}
			gate.Release()
			done := make(chan struct{})
			go func() { wg.Wait(); close(done) }()
			if v := awaitOrDiagnose(done, 60*time.Second); !v.Done {
				if v.Deadlock {
					c.R.Violation(eng.Violation{Prop: "C02", Clause: "deadlock", Sig: "C02/deadlock:" + innermostGodiFn(v.Dump), Case: idx, CaseID: f.name, Detail: "parked-constructor schedule: goroutines stuck inside godi:\n" + v.Dump})
				} else {
					c.R.Inconclusive(idx, "parked schedule did not finish within the watchdog")
				}
				c.R.Abandon(idx)
			}
			r.Rec.SetHook(nil)
			// both resolve everything again: must agree with what they got
			for _, op := range f.probe {
				op.Scope = sc
				r.Do(op)
			}
			r.Finish()
			if parked {
				c.R.Count("parked_schedules", 1)
			}
		}
		finish(idx, r, "parked:"+f.name, map[string]any{"kind": "parked-constructor", "fixture": f.name, "variant": k})
	}
	// (d) initializers registered under a name (addressable by key / usable as a dependency)
	runC02NamedInitializers(c, next)
	runC02BuildTimeScope(c, next)
	runC02BackgroundDuringCreation(c, next)
	runC02TwoScopesOneConstructor(c, next)
	// scoped registrations whose constructors are distinct function values sharing code (closures of
	// one literal, method values, MakeFunc; variadic ones among them): the scope's instance of each
	// registration is the output of ITS constructor, which ran once
	if idx, mine := next(); mine {
		c.R.Begin(idx)
		fs, n := core.RunFuncKinds("scoped")
		for _, f := range fs {
			c.R.Violation(eng.Violation{Prop: "C02", Clause: "two-constructions-in-one-scope", Sig: "C02/two-constructions-in-one-scope:scoped:function-value-kind:" + f.Case, Case: idx, CaseID: "funckind-" + f.Case,
				Detail: "scoped registrations whose constructors share code: the slot of one registration was filled by another registration's constructor (which thereby ran more than once for the scope, while the registration's own never ran): " + f.Detail})
		}
		c.R.Count("function_value_kind_resolutions", int64(n))
		c.R.End(idx, eng.Hash("c02-funckinds"), n > 0)
	}
	// several resolutions of one scoped service in flight when the scope is closed
	runWaiters(c, "C02", next)
}
