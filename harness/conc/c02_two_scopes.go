package conc

import (
	"fmt"
	"sync"
	"sync/atomic"
	"time"

	"github.com/junioryono/godi/v4"
	"github.com/junioryono/godi/v4/verifh/eng"
)

// Two scopes construct the SAME scoped service at the same time. The service takes two plain
// parameters; the constructor of the second one waits until both scopes have resolved their
// first (steering: a barrier with a fallback), so both constructions sit between "first argument
// resolved" and "constructor called". "As a dependency of anything resolved in that scope ...
// one and the same instance" and "two different scopes never share a scoped instance": each
// handler holds the session of ITS scope.

type tsSession struct{ id int32 }
type tsAudit struct{ id int32 }
type tsHandler struct {
	s *tsSession
	a *tsAudit
}
type tsHandlerIn struct {
	godi.In
	S *tsSession
	A *tsAudit
}
type tsHandler2 struct {
	s *tsSession
	a *tsAudit
}

func runC02TwoScopesOneConstructor(c *eng.Ctx, next func() (int, bool)) {
	rounds := c.Pick(8, 40)
	for k := 0; k < rounds; k++ {
		idx, mine := next()
		if !mine {
			continue
		}
		c.R.Begin(idx)
		door := []string{"plain-parameters", "parameter-object"}[k%2]
		layout := []string{"siblings", "root-and-child", "parent-and-child"}[k%3]
		feat := door + ":" + layout
		viol := func(clause, detail string) {
			c.R.Violation(eng.Violation{Prop: "C02", Clause: clause, Sig: "C02/" + clause + ":two-scopes-construct-one-service-at-once:" + feat, Case: idx, CaseID: fmt.Sprintf("two-scopes-one-constructor-%d", k), Detail: feat + ": " + detail,
				Replay: map[string]any{"fixture": "two-scopes-one-constructor", "variant": k}})
		}
		func() {
			defer func() {
				if p := recover(); p != nil {
					viol("panic", fmt.Sprintf("panic: %v", p))
				}
			}()
			var sessions, audits atomic.Int32
			var armed atomic.Bool
			both := make(chan struct{})
			var once sync.Once
			coll := godi.NewCollection()
			errs := []error{
				coll.AddScoped(func() *tsSession {
					n := sessions.Add(1)
					if armed.Load() && n >= 2 {
						once.Do(func() { close(both) })
					}
					return &tsSession{n}
				}),
				coll.AddScoped(func() *tsAudit {
					if armed.Load() {
						select {
						case <-both: // both scopes have their first argument
						case <-time.After(2 * time.Second): // steering only
						}
					}
					return &tsAudit{audits.Add(1)}
				}),
				coll.AddScoped(func(s *tsSession, a *tsAudit) *tsHandler { return &tsHandler{s, a} }),
				coll.AddScoped(func(in tsHandlerIn) *tsHandler2 { return &tsHandler2{in.S, in.A} }),
			}
			for _, e := range errs {
				if e != nil {
					panic("two-scopes fixture: " + e.Error())
				}
			}
			prov, err := coll.Build()
			if err != nil {
				panic("two-scopes fixture does not build: " + err.Error())
			}
			defer prov.Close()
			var s1, s2 godi.Provider
			switch layout {
			case "siblings":
				a, _ := prov.CreateScope(nil)
				b, _ := prov.CreateScope(nil)
				s1, s2 = a, b
			case "root-and-child":
				b, _ := prov.CreateScope(nil)
				s1, s2 = prov, b
			default:
				a, _ := prov.CreateScope(nil)
				b, _ := a.CreateScope(nil)
				s1, s2 = a, b
			}
			sessions.Store(0)
			armed.Store(true)
			type got struct {
				hs, own *tsSession
				ha, oa  *tsAudit
				err     error
			}
			res := make([]got, 2)
			var wg sync.WaitGroup
			for i, sc := range []godi.Provider{s1, s2} {
				wg.Add(1)
				go func(i int, sc godi.Provider) {
					defer wg.Done()
					var g got
					if door == "plain-parameters" {
						h, err := godi.Resolve[*tsHandler](sc)
						if err != nil {
							g.err = err
						} else {
							g.hs, g.ha = h.s, h.a
						}
					} else {
						h, err := godi.Resolve[*tsHandler2](sc)
						if err != nil {
							g.err = err
						} else {
							g.hs, g.ha = h.s, h.a
						}
					}
					if g.err == nil {
						g.own, _ = godi.Resolve[*tsSession](sc)
						g.oa, _ = godi.Resolve[*tsAudit](sc)
					}
					res[i] = g
				}(i, sc)
			}
			done := make(chan struct{})
			go func() { wg.Wait(); close(done) }()
			if v := awaitOrDiagnose(done, 30*time.Second); !v.Done {
				c.R.Inconclusive(idx, "two-scopes case did not finish within the watchdog")
				c.R.Abandon(idx)
				return
			}
			for i, g := range res {
				if g.err != nil {
					viol("resolution-failed", fmt.Sprintf("scope %d: %v", i+1, g.err))
					return
				}
				if g.hs != g.own || g.ha != g.oa {
					viol("dependency-of-another-scope", fmt.Sprintf("scope %d: the handler was constructed with session #%d / audit #%d, the scope's own are #%d / #%d", i+1, g.hs.id, g.ha.id, g.own.id, g.oa.id))
				}
			}
			if res[0].hs == res[1].hs || res[0].ha == res[1].ha {
				viol("instance-shared-across-scopes", "the handlers of two different scopes hold one and the same scoped instance")
			}
			c.R.Count("two_scopes_one_constructor_rounds", 1)
		}()
		c.R.End(idx, eng.Hash("c02-two-scopes", k), true)
	}
}
