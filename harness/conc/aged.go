package conc

import (
	"context"
	"fmt"
	"sync"
	"sync/atomic"
	"time"

	"github.com/junioryono/godi/v4"
	"github.com/junioryono/godi/v4/verifh/core"
	"github.com/junioryono/godi/v4/verifh/eng"
)

// An aged process: more than a million goroutines have been started (every CreateScope starts
// one, every request has one - a server gets there within hours).
//
// After that, the same thing as always: a child scope is being closed on goroutine A - one of
// its Close methods is still running - when goroutine B closes the parent scope / the provider.
// A and B are started back to back (neighbouring goroutine ids, as a scope's and its child's
// context watchers have, or two requests arriving together). B's Close does not go on to the
// parent's own instances, nor to the singletons, before the child's instance has finished
// closing, and nothing of the child is disposed by two goroutines at once.

var agedOnce sync.Once

// ageProcess starts (and lets finish) enough goroutines for ids to have seven digits.
func ageProcess() {
	agedOnce.Do(func() {
		const total, batch = 1_060_000, 2000
		var wg sync.WaitGroup
		for done := 0; done < total; done += batch {
			wg.Add(batch)
			for i := 0; i < batch; i++ {
				go wg.Done()
			}
			wg.Wait()
		}
	})
}

type agPool struct{ w *agWorld }
type agSession struct{ w *agWorld }
type agTx struct{ w *agWorld }

type agWorld struct {
	mu      sync.Mutex
	log     []string
	entered chan struct{}
	release chan struct{}
	inTx    atomic.Int32
	overlap atomic.Int32 // something was closed while tx.Close was running
}

var (
	agMu  sync.Mutex
	agCur *agWorld
)

func agGet() *agWorld { agMu.Lock(); defer agMu.Unlock(); return agCur }

func (w *agWorld) note(s string) {
	if w.inTx.Load() != 0 {
		w.overlap.Add(1)
	}
	w.mu.Lock()
	w.log = append(w.log, s)
	w.mu.Unlock()
}

func (p *agPool) Close() error    { p.w.note("pool"); return nil }
func (s *agSession) Close() error { s.w.note("session"); return nil }
func (t *agTx) Close() error {
	t.w.mu.Lock()
	t.w.log = append(t.w.log, "tx:begin")
	t.w.mu.Unlock()
	t.w.inTx.Store(1)
	close(t.w.entered)
	<-t.w.release
	t.w.inTx.Store(0)
	t.w.mu.Lock()
	t.w.log = append(t.w.log, "tx:end")
	t.w.mu.Unlock()
	return nil
}

func runAgedProcess(c *eng.Ctx, prop string, next func() (int, bool)) {
	for _, closer := range []string{"parent.Close", "provider.Close"} {
		idx, mine := next()
		if !mine {
			continue
		}
		c.R.Begin(idx)
		ageProcess()
		viol := func(clause, detail string) {
			c.R.Violation(eng.Violation{Prop: prop, Clause: clause, Sig: prop + "/" + clause + ":aged-process:child-being-closed-elsewhere:" + closer, Case: idx, CaseID: "aged-process-" + closer,
				Detail: closer + " while the child scope is being closed on a goroutine with a neighbouring id (> 1,000,000 goroutines started before): " + detail, Replay: map[string]any{"fixture": "aged-process", "closer": closer}})
		}
		rounds := c.Pick(24, 96)
		reported := false
		for round := 0; round < rounds && !reported; round++ {
			w := &agWorld{entered: make(chan struct{}), release: make(chan struct{})}
			agMu.Lock()
			agCur = w
			agMu.Unlock()
			coll := godi.NewCollection()
			must := func(err error) {
				if err != nil {
					panic("aged-process fixture: " + err.Error())
				}
			}
			must(coll.AddSingleton(func() *agPool { return &agPool{agGet()} }))
			must(coll.AddScoped(func(*agPool) *agSession { return &agSession{agGet()} }))
			must(coll.AddScoped(func(*agPool) *agTx { return &agTx{agGet()} }))
			prov, err := coll.Build()
			must(err)
			parent, err := prov.CreateScope(context.Background())
			must(err)
			child, err := parent.CreateScope(context.Background())
			must(err)
			_, err = godi.Resolve[*agSession](parent)
			must(err)
			_, err = godi.Resolve[*agTx](child)
			must(err)
			// A and B are created back to back and parked; then A goes first
			goA, goB := make(chan struct{}), make(chan struct{})
			var wg sync.WaitGroup
			wg.Add(2)
			go func() { defer wg.Done(); <-goA; _ = child.Close() }()
			go func() {
				defer wg.Done()
				<-goB
				if closer == "parent.Close" {
					_ = parent.Close()
				} else {
					_ = prov.Close()
				}
			}()
			close(goA)
			select {
			case <-w.entered:
			case <-time.After(20 * time.Second):
				c.R.Inconclusive(idx, "the child's Close did not reach the instance within the bound")
				close(w.release)
				close(goB)
				wg.Wait()
				reported = true
				continue
			}
			close(goB)
			bDone := make(chan struct{})
			go func() { wg.Wait(); close(bDone) }()
			// steering only: give B the time to get as far as it can while tx.Close is running
			select {
			case <-bDone:
			case <-time.After(30 * time.Millisecond):
			}
			close(w.release)
			if v := awaitOrDiagnose(bDone, 30*time.Second); !v.Done {
				c.R.Inconclusive(idx, "aged-process round did not finish within the watchdog")
				reported = true
				continue
			}
			_ = prov.Close()
			if n := w.overlap.Load(); n > 0 {
				w.mu.Lock()
				log := append([]string(nil), w.log...)
				w.mu.Unlock()
				viol("closed-while-descendant-instance-is-closing", fmt.Sprintf("round %d: %d Close method(s) of the parent scope / the provider ran while the child's tx.Close was still running (close log %v)", round, n, log))
				reported = true
			}
			c.R.Count("aged_process_rounds", 1)
		}
		c.R.End(idx, eng.Hash("aged-process", prop, closer), true)
	}
}

func init() {
	core.C11AgedProcess = func(c *eng.Ctx, next func() (int, bool)) { runAgedProcess(c, "C11", next) }
}
