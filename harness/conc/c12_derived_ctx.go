package conc

import (
	"context"
	"errors"
	"fmt"
	"sync/atomic"
	"time"

	"github.com/junioryono/godi/v4"
	"github.com/junioryono/godi/v4/verifh/core"
	"github.com/junioryono/godi/v4/verifh/eng"
)

// Scopes whose context was derived from ANOTHER scope's context (scope.Context() is the context
// that carries the scope; code that gets it passed along and opens a scope of its own with it -
// from the provider, or from the common parent - creates such a sibling).
//
// Closing the first scope cancels its context, which wakes the second one's context watcher;
// that watcher then closes the second scope while the provider's (or the parent's) Close is
// still at work. The second scope is in the subtree of that Close: "returns a disposal error
// exactly when at least one of them (anywhere in its subtree) failed" - what the watcher's Close
// reports to nobody must not get lost - and every instance is closed exactly once.

type dcRes struct {
	fail   bool
	slow   time.Duration
	closes atomic.Int32
}

var errDc = errors.New("derived-context fixture: this instance fails to close")

func (r *dcRes) Close() error {
	r.closes.Add(1)
	if r.slow > 0 {
		time.Sleep(r.slow)
	}
	if r.fail {
		return errDc
	}
	return nil
}

func runC12DerivedContexts(c *eng.Ctx, next func() (int, bool)) {
	shapes := []string{"top-level-siblings", "child-siblings", "chain-of-three", "top-level-siblings:nothing-fails", "child-of-the-first:under-the-provider",
		// a GRANDCHILD on an uncle's context: A > B1, B2; G under B2 created with B1's context (and, so
		// that the order in which A closes its children does not matter, G' under B1 with B2's)
		"grandchildren-on-their-uncles-contexts",
		// scopes opened from the provider's ROOT scope (the Scope a singleton constructor receives,
		// Resolve[godi.Scope](provider)): children of the root scope, still in provider.Close's subtree
		"root-scope-child-on-the-context-of-a-top-level-scope", "root-scope-children-siblings", "top-level-scope-on-the-context-of-a-root-scope-child"}
	reps := c.Pick(10, 40)
	for _, shape := range shapes {
		for rep := 0; rep < reps; rep++ {
			idx, mine := next()
			if !mine {
				continue
			}
			c.R.Begin(idx)
			viol := func(clause, detail string) {
				c.R.Violation(eng.Violation{Prop: "C12", Clause: clause, Sig: "C12/" + clause + ":scope-on-a-context-derived-from-another-scope:" + shape, Case: idx, CaseID: fmt.Sprintf("derived-context-%s-%d", shape, rep),
					Detail: shape + ": " + detail, Replay: map[string]any{"fixture": "derived-contexts", "shape": shape, "rep": rep}})
			}
			func() {
				defer func() {
					if p := recover(); p != nil {
						viol("close-panics", fmt.Sprintf("panic: %v", p))
					}
				}()
				var made []*dcRes
				coll := godi.NewCollection()
				if err := coll.AddScoped(func() *dcRes { r := &dcRes{}; made = append(made, r); return r }); err != nil {
					panic("derived-context fixture: " + err.Error())
				}
				prov, err := coll.Build()
				if err != nil {
					panic("derived-context fixture does not build: " + err.Error())
				}
				must := func(s godi.Scope, err error) godi.Scope {
					if err != nil {
						panic("derived-context fixture: CreateScope: " + err.Error())
					}
					return s
				}
				res := func(s godi.Scope) *dcRes {
					r, err := godi.Resolve[*dcRes](s)
					if err != nil {
						panic("derived-context fixture: resolve: " + err.Error())
					}
					return r
				}
				var closeIt func() error
				var failing, failing2 *dcRes
				what := "provider.Close"
				switch shape {
				case "top-level-siblings", "top-level-siblings:nothing-fails":
					a := must(prov.CreateScope(context.Background()))
					b := must(prov.CreateScope(a.Context()))
					res(a).slow = 2 * time.Millisecond
					failing = res(b)
					closeIt = prov.Close
				case "child-siblings":
					parent := must(prov.CreateScope(context.Background()))
					c1 := must(parent.CreateScope(context.Background()))
					c2 := must(parent.CreateScope(c1.Context()))
					res(parent)
					res(c1).slow = 2 * time.Millisecond
					failing = res(c2)
					closeIt, what = parent.Close, "parent.Close"
				case "chain-of-three":
					a := must(prov.CreateScope(context.Background()))
					b := must(prov.CreateScope(a.Context()))
					d := must(prov.CreateScope(b.Context()))
					res(a).slow = time.Millisecond
					res(b).slow = time.Millisecond
					failing = res(d)
					closeIt = prov.Close
				case "grandchildren-on-their-uncles-contexts":
					a := must(prov.CreateScope(context.Background()))
					b1 := must(a.CreateScope(context.Background()))
					b2 := must(a.CreateScope(context.Background()))
					g2 := must(b2.CreateScope(b1.Context()))
					g1 := must(b1.CreateScope(b2.Context()))
					res(a)
					res(b1).slow = 2 * time.Millisecond
					res(b2).slow = 2 * time.Millisecond
					failing = res(g2)
					also := res(g1)
					also.fail = true
					failing2 = also
					closeIt, what = a.Close, "grandparent.Close"
				case "root-scope-child-on-the-context-of-a-top-level-scope":
					root, rerr := godi.Resolve[godi.Scope](prov)
					if rerr != nil {
						panic("derived-context fixture: root scope: " + rerr.Error())
					}
					a := must(prov.CreateScope(context.Background()))
					rc := must(root.CreateScope(a.Context()))
					res(a).slow = 2 * time.Millisecond
					failing = res(rc)
					closeIt = prov.Close
				case "root-scope-children-siblings":
					root, rerr := godi.Resolve[godi.Scope](prov)
					if rerr != nil {
						panic("derived-context fixture: root scope: " + rerr.Error())
					}
					rc1 := must(root.CreateScope(context.Background()))
					rc2 := must(root.CreateScope(rc1.Context()))
					res(rc1).slow = 2 * time.Millisecond
					failing = res(rc2)
					closeIt = prov.Close
				case "top-level-scope-on-the-context-of-a-root-scope-child":
					root, rerr := godi.Resolve[godi.Scope](prov)
					if rerr != nil {
						panic("derived-context fixture: root scope: " + rerr.Error())
					}
					rc := must(root.CreateScope(context.Background()))
					b := must(prov.CreateScope(rc.Context()))
					res(rc).slow = 2 * time.Millisecond
					failing = res(b)
					closeIt = prov.Close
				case "child-of-the-first:under-the-provider":
					a := must(prov.CreateScope(context.Background()))
					a1 := must(a.CreateScope(context.Background()))
					b := must(prov.CreateScope(a1.Context()))
					res(a).slow = time.Millisecond
					res(a1).slow = time.Millisecond
					failing = res(b)
					closeIt = prov.Close
				}
				if shape != "top-level-siblings:nothing-fails" {
					failing.fail = true
				}
				done := make(chan error, 1)
				go func() { done <- closeIt() }()
				var cerr error
				fin := make(chan struct{})
				go func() { cerr = <-done; close(fin) }()
				if v := awaitOrDiagnose(fin, 20*time.Second); !v.Done {
					c.R.Inconclusive(idx, "derived-context case did not finish within the watchdog")
					c.R.Abandon(idx)
					return
				}
				failedDuring := failing.fail && failing.closes.Load() > 0
				if failing2 != nil && cerr != nil {
					// two instances failed: the aggregate lists both (flattened)
					if n := countLeafErrors(cerr, errDc); n < 2 {
						viol("disposal-error-lost", fmt.Sprintf("%s reports %d of the 2 Close failures in its subtree (both grandchildren own a failing instance; each one's context derives from the OTHER child's): %v", what, n, cerr))
					}
				}
				switch {
				case failedDuring && cerr == nil:
					viol("disposal-error-lost", fmt.Sprintf("%s returned nil although an instance of a scope in its subtree failed to close while it ran (the scope's context was derived from a sibling's, so the sibling's Close woke its context watcher)", what))
				case cerr != nil && !failing.fail:
					viol("close-error-spurious", fmt.Sprintf("%s returned %v although no Close method fails", what, cerr))
				case cerr != nil && !core.AsEither[godi.DisposalError](cerr):
					viol("close-error-not-a-disposal-error", fmt.Sprintf("%s returned %v", what, cerr))
				}
				if err := closeIt(); err != nil {
					viol("second-close-not-nil", fmt.Sprintf("%s called again returned %v", what, err))
				}
				_ = prov.Close()
				for i, r := range made {
					if n := r.closes.Load(); n != 1 {
						viol("close-count", fmt.Sprintf("instance %d of %d was closed %d times", i, len(made), n))
					}
				}
				c.R.Count("derived_context_cases", 1)
				if failedDuring {
					c.R.Count("derived_context_failures_during_the_close", 1)
				}
			}()
			c.R.End(idx, eng.Hash("c12-derived-ctx", shape, rep), true)
		}
	}
}

// countLeafErrors counts how often target is reachable in the error tree (Unwrap() error,
// Unwrap() []error and godi.DisposalError's list).
func countLeafErrors(err error, target error) int {
	if err == nil {
		return 0
	}
	if err == target {
		return 1
	}
	n := 0
	switch x := err.(type) {
	case *godi.DisposalError:
		for _, e := range x.Errors {
			n += countLeafErrors(e, target)
		}
		return n
	case godi.DisposalError:
		for _, e := range x.Errors {
			n += countLeafErrors(e, target)
		}
		return n
	case interface{ Unwrap() []error }:
		for _, e := range x.Unwrap() {
			n += countLeafErrors(e, target)
		}
		return n
	case interface{ Unwrap() error }:
		return countLeafErrors(x.Unwrap(), target)
	}
	return 0
}
