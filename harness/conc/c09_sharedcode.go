package conc

import (
	"fmt"
	"runtime"
	"sync"
	"time"

	"github.com/junioryono/godi/v4"
	"github.com/junioryono/godi/v4/verifh/eng"
)

// Services built by function values that share one code pointer (closures of one literal,
// method values): resolved concurrently they must still be produced by their own function
// value, and the race detector must stay silent on godi's constructor-analysis cache.

type scProduct struct{ Tag int }
type scDep struct{ n int }

func newSCDep() *scDep {
	runtime.Gosched()
	time.Sleep(20 * time.Microsecond)
	return &scDep{}
}

//go:noinline
func mkSCClosure(tag int) func(*scDep) *scProduct {
	return func(*scDep) *scProduct { return &scProduct{Tag: tag} }
}

type scRecv struct{ tag int }

func (r *scRecv) New(*scDep) *scProduct { return &scProduct{Tag: r.tag} }

func runC09SharedCode(c *eng.Ctx, next func() (int, bool)) {
	rounds := c.Pick(40, 600)
	for k := 0; k < rounds; k++ {
		idx, mine := next()
		if !mine {
			continue
		}
		c.R.Begin(idx)
		kind := []string{"closures", "method-values"}[k%2]
		life := []godi.Lifetime{godi.Scoped, godi.Transient}[(k/2)%2]
		const n = 4
		coll := godi.NewCollection()
		_ = coll.AddTransient(newSCDep)
		for i := 0; i < n; i++ {
			var fn any
			if kind == "closures" {
				fn = mkSCClosure(i)
			} else {
				fn = (&scRecv{i}).New
			}
			if life == godi.Scoped {
				_ = coll.AddScoped(fn, godi.Name(fmt.Sprintf("n%d", i)))
			} else {
				_ = coll.AddTransient(fn, godi.Name(fmt.Sprintf("n%d", i)))
			}
		}
		prov, err := coll.Build()
		if err != nil {
			c.R.Violation(eng.Violation{Prop: "C09", Clause: "shared-code-build", Sig: "C09/shared-code-build:" + kind, Case: idx, CaseID: kind, Detail: "Build failed: " + err.Error()})
			c.R.End(idx, eng.Hash("c09-sc", kind, life, k), false)
			continue
		}
		var mu sync.Mutex
		wrong := 0
		detail := ""
		var wg sync.WaitGroup
		start := make(chan struct{})
		for g := 0; g < 8; g++ {
			wg.Add(1)
			go func(g int) {
				defer wg.Done()
				sc, err := prov.CreateScope(nil)
				if err != nil {
					return
				}
				defer sc.Close()
				<-start
				for rep := 0; rep < 6; rep++ {
					i := (g + rep) % n
					v, err := godi.ResolveKeyed[*scProduct](sc, fmt.Sprintf("n%d", i))
					c.R.Count("shared_code_resolutions", 1)
					if err != nil || v == nil || v.Tag != i {
						mu.Lock()
						wrong++
						if detail == "" {
							detail = fmt.Sprintf("service registered with function value %d: got %+v, err %v", i, v, err)
						}
						mu.Unlock()
					}
				}
			}(g)
		}
		close(start)
		wg.Wait()
		_ = prov.Close()
		if wrong > 0 {
			c.R.Violation(eng.Violation{Prop: "C09", Clause: "wrong-constructor-under-concurrency", Sig: "C09/wrong-constructor-under-concurrency:" + kind + ":" + map[godi.Lifetime]string{godi.Scoped: "scoped", godi.Transient: "transient"}[life], Case: idx, CaseID: kind,
				Detail: fmt.Sprintf("%d of 48 concurrent resolutions of services whose constructors share one code pointer (%s) were produced by another registration's function value; first: %s", wrong, kind, detail)})
		}
		c.R.End(idx, eng.Hash("c09-sc", kind, life, k), true)
	}
}
