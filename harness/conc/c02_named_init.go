package conc

import (
	"context"
	"fmt"
	"reflect"
	"sort"
	"sync"

	"github.com/junioryono/godi/v4"
	"github.com/junioryono/godi/v4/verifh/eng"
)

// Initializers that can be addressed.
//
// A constructor that returns nothing (or only an error) is registered under the type struct{}
// with a generated key nobody can name - unless it is given a Name. Then it is an ordinary
// identity: a scoped service may take it as an ordering dependency (`Ready struct{} `name:"x"``)
// and callers may resolve it by key. The clause "initializer functions that return nothing run
// exactly once, when the scope is created" must survive that: neither the dependency nor a
// keyed resolution, from one goroutine or many, may run the initializer of a scope again.

type niWorld struct {
	mu    sync.Mutex
	runs  map[string]map[string]int // initializer -> scope id -> runs
	boots int
	repos int
}

var (
	niMu  sync.Mutex
	niCur *niWorld
)

func niHit(init, scope string) {
	niMu.Lock()
	w := niCur
	niMu.Unlock()
	if w == nil {
		return
	}
	w.mu.Lock()
	if w.runs[init] == nil {
		w.runs[init] = map[string]int{}
	}
	w.runs[init][scope]++
	w.mu.Unlock()
}

func niWarmup(s godi.Scope)      { niHit("warmup", s.ID()) }
func niCheck(s godi.Scope) error { niHit("check", s.ID()); return nil }
func niAnon(s godi.Scope)        { niHit("anonymous", s.ID()) }
func niBoot() {
	niMu.Lock()
	w := niCur
	niMu.Unlock()
	if w != nil {
		w.mu.Lock()
		w.boots++
		w.mu.Unlock()
	}
}

// an initializer that takes another (named) initializer as an ordering dependency
// niWorker is a singleton that opens a scope of its own while the provider is being built, and
// keeps it: a scope like any other (its initializers run once).
type niWorker struct{ sc godi.Scope }

func niNewWorker(p godi.Provider) *niWorker {
	sc, err := p.CreateScope(context.Background())
	if err != nil {
		return &niWorker{}
	}
	return &niWorker{sc}
}

type niAfterIn struct {
	godi.In
	Ready struct{} `name:"warmup"`
	Scope godi.Scope
}

func niAfter(in niAfterIn) { niHit("after-warmup", in.Scope.ID()) }

type niRepo struct{ n int }
type niRepoIn struct {
	godi.In
	Ready struct{} `name:"warmup"`
	Check struct{} `name:"check"`
}

func niNewRepo(in niRepoIn) *niRepo {
	niMu.Lock()
	w := niCur
	niMu.Unlock()
	w.mu.Lock()
	w.repos++
	n := w.repos
	w.mu.Unlock()
	return &niRepo{n}
}

type niSvc struct{ r *niRepo }
type niSvcIn struct {
	godi.In
	Repo *niRepo
	Boot struct{} `name:"boot"`
}

func niNewSvc(in niSvcIn) *niSvc { return &niSvc{in.Repo} }

var unitT = reflect.TypeOf(struct{}{})

func runC02NamedInitializers(c *eng.Ctx, next func() (int, bool)) {
	variants := c.Pick(6, 48)
	for k := 0; k < variants; k++ {
		idx, mine := next()
		if !mine {
			continue
		}
		c.R.Begin(idx)
		goroutines := 2 + 3*(k%3)
		order := k % 2 // which registration comes first
		viol := func(clause, feat, detail string) {
			c.R.Violation(eng.Violation{Prop: "C02", Clause: clause, Sig: "C02/" + clause + ":" + feat, Case: idx, CaseID: fmt.Sprintf("named-initializers-%d", k), Detail: detail,
				Replay: map[string]any{"fixture": "named-initializers", "variant": k}})
		}
		w := &niWorld{runs: map[string]map[string]int{}}
		niMu.Lock()
		niCur = w
		niMu.Unlock()
		func() {
			defer func() {
				if p := recover(); p != nil {
					viol("panic", "named-initializers", fmt.Sprintf("panic: %v", p))
				}
			}()
			coll := godi.NewCollection()
			regs := []func() error{
				func() error { return coll.AddScoped(niAfter) },
				func() error { return coll.AddScoped(niWarmup, godi.Name("warmup")) },
				func() error { return coll.AddScoped(niCheck, godi.Name("check")) },
				func() error { return coll.AddScoped(niAnon) },
				func() error { return coll.AddSingleton(niBoot, godi.Name("boot")) },
				func() error { return coll.AddScoped(niNewRepo) },
				func() error { return coll.AddScoped(niNewSvc) },
			}
			if k%3 != 0 {
				regs = append(regs, func() error { return coll.AddSingleton(niNewWorker) })
			}
			if order == 1 {
				for i, j := 0, len(regs)-1; i < j; i, j = i+1, j-1 {
					regs[i], regs[j] = regs[j], regs[i]
				}
			}
			for _, add := range regs {
				if err := add(); err != nil {
					c.R.Inconclusive(idx, "fixture registration refused: "+err.Error())
					return
				}
			}
			prov, err := coll.Build()
			if err != nil {
				c.R.Inconclusive(idx, "fixture does not build: "+err.Error())
				return
			}
			defer prov.Close()
			scopes := []godi.Provider{prov}
			s1, e1 := prov.CreateScope(nil)
			s2, e2 := prov.CreateScope(nil)
			if e1 != nil || e2 != nil {
				c.R.Inconclusive(idx, "scope creation failed")
				return
			}
			c1, e3 := s1.CreateScope(nil)
			if e3 != nil {
				c.R.Inconclusive(idx, "child scope creation failed")
				return
			}
			scopes = append(scopes, s1, s2, c1)
			if k%3 != 0 {
				wk, werr := godi.Resolve[*niWorker](prov)
				if werr != nil || wk.sc == nil {
					c.R.Inconclusive(idx, "the singleton could not open its scope during Build")
					return
				}
				scopes = append(scopes, wk.sc)
				c.R.Count("named_initializer_cases_with_a_scope_opened_during_build", 1)
			}
			created := len(scopes)
			use := func(sc godi.Provider) {
				_, _ = godi.Resolve[*niSvc](sc)
				_, _ = godi.Resolve[*niRepo](sc)
				_, _ = sc.GetKeyed(unitT, "warmup")
				_, _ = sc.GetKeyed(unitT, "check")
				_, _ = sc.GetKeyed(unitT, "boot")
			}
			// sequential first (variants 0..), then concurrent behind a barrier
			for _, sc := range scopes {
				if k%4 != 3 {
					use(sc)
					use(sc)
				}
				var wg sync.WaitGroup
				start := make(chan struct{})
				for g := 0; g < goroutines; g++ {
					wg.Add(1)
					go func() { defer wg.Done(); <-start; use(sc) }()
				}
				close(start)
				wg.Wait()
				c.R.Count("named_initializer_resolutions", int64(5*(goroutines+2)))
			}
			// the collection is edited while the provider lives on (the next deployment is being
			// prepared): a built provider is unaffected - one more scope of it runs every
			// initializer once, like the ones before
			if k%2 == 0 {
				coll.RemoveKeyed(unitT, "check")
				if k%4 == 0 {
					_ = coll.AddScoped(niCheck, godi.Name("check2"))
				}
				if s3, e := prov.CreateScope(nil); e == nil {
					scopes = append(scopes, s3)
					created++
					use(s3)
					use(s3)
					c.R.Count("named_initializer_scopes_after_collection_edit", 1)
				} else {
					viol("scope-creation-failed", "after-collection-edit", fmt.Sprintf("CreateScope on a live provider failed after its collection was edited: %v", e))
				}
			}
			w.mu.Lock()
			defer w.mu.Unlock()
			for _, init := range []string{"warmup", "check", "anonymous", "after-warmup"} {
				per := w.runs[init]
				var bad []string
				for id, n := range per {
					if n != 1 {
						bad = append(bad, fmt.Sprintf("scope %s: %d runs", id, n))
					}
				}
				sort.Strings(bad)
				if len(bad) > 0 {
					viol("initializer-count", "addressable-initializer:"+init, fmt.Sprintf("initializer %q must run exactly once per scope, when the scope is created; after keyed resolutions and resolutions of a dependent service: %v", init, bad))
				}
				if len(per) != created {
					viol("initializer-count", "addressable-initializer:"+init+":scopes", fmt.Sprintf("initializer %q ran in %d scopes, %d scopes exist (root, 3 created after Build, and in some variants one opened by a singleton constructor during Build)", init, len(per), created))
				}
			}
			if w.boots != 1 {
				viol("initializer-count", "addressable-initializer:singleton", fmt.Sprintf("the singleton initializer ran %d times (want once, at Build)", w.boots))
			}
			if w.repos != created {
				viol("two-constructions-in-one-scope", "scoped:depends-on-named-initializer", fmt.Sprintf("the scoped service that depends on the initializers was constructed %d times in %d scopes", w.repos, created))
			}
			c.R.Count("named_initializer_cases", 1)
		}()
		niMu.Lock()
		niCur = nil
		niMu.Unlock()
		c.R.End(idx, eng.Hash("c02-named-init", k), true)
	}
}
