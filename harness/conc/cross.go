package conc

import (
	"fmt"
	"reflect"
	"runtime"
	"sync"
	"time"

	"github.com/junioryono/godi/v4"
	"github.com/junioryono/godi/v4/verifh/core"
	"github.com/junioryono/godi/v4/verifh/eng"
	"github.com/junioryono/godi/v4/verifh/pool"
	"github.com/junioryono/godi/v4/verifh/rt"
)

// Concurrent sections of properties whose main workload is sequential: the same oracles,
// applied to histories in which one constructor runs at the same time in several scopes (or
// several goroutines of one scope). Installed into package core through hook variables.

func init() {
	core.C03Concurrent = runC03Concurrent
	core.C18Concurrent = runC18Concurrent
	core.C15Concurrent = runC15Concurrent
	core.C11ResolveRace = runC11ResolveRace
}

// spread runs `per` repetitions of the probe ops from g goroutines spread over the scopes.
func spread(r *core.Run, scopes []int, g, per int, probe []core.Op) bool {
	start := make(chan struct{})
	var wg sync.WaitGroup
	for gi := 0; gi < g; gi++ {
		sc := scopes[gi%len(scopes)]
		wg.Add(1)
		go func(gi, sc int) {
			defer wg.Done()
			<-start
			for rep := 0; rep < per; rep++ {
				for i := range probe {
					op := probe[(i+gi)%len(probe)]
					op.Scope = sc
					r.Do(op)
				}
			}
		}(gi, sc)
	}
	done := make(chan struct{})
	go func() { wg.Wait(); close(done) }()
	close(start)
	return awaitOrDiagnose(done, 60*time.Second).Done
}

func slowCtors(r *core.Run) {
	r.Rec.SetHook(func(hp rt.HookPoint) {
		if hp.Where == "ctor" {
			runtime.Gosched()
			time.Sleep(time.Duration(30+(hp.Ctor+hp.Nth)%7*25) * time.Microsecond)
		}
	})
}

// ---- C03: transients injected into consumers that are constructed concurrently --------

func runC03Concurrent(c *eng.Ctx, next func() (int, bool)) {
	rt.SetNoise(100)
	defer rt.SetNoise(0)
	spec := &core.Spec{Regs: []core.Reg{
		core.MkReg("Leaf_K1_a", godi.Transient),
		core.MkReg("Twice_K0", godi.Transient),  // K0(K1, K1)
		core.MkReg("PosB_2_3", godi.Scoped),     // K2(K0, K1)
		core.MkReg("Leaf_S0_a", godi.Transient), // S0
		core.MkReg("Leaf_S5_a", godi.Transient), // S5
		core.MkReg("Twice_S4", godi.Scoped),     // S4(S0, S0, S5)
		core.MkReg("PosB_3_7", godi.Scoped),     // K3(K0, K1, K2)
	}}
	m := core.NewModel(spec)
	if m.Class != core.ClsOK {
		return
	}
	probe := []core.Op{{Kind: core.OpGet, Type: "K0"}, {Kind: core.OpGet, Type: "K2"}, {Kind: core.OpGet, Type: "S4"}, {Kind: core.OpGet, Type: "K3"}}
	rounds := c.Pick(40, 600)
	for k := 0; k < rounds; k++ {
		idx, mine := next()
		if !mine {
			continue
		}
		c.R.Begin(idx)
		r := core.NewRun(spec, m, nil, nil)
		slowCtors(r)
		r.Build()
		ok := true
		if r.Built {
			var scopes []int
			for i := 0; i < 3; i++ {
				scopes = append(scopes, r.Do(core.Op{Kind: core.OpCreate, Scope: 0, CtxKind: 1}).NewScope)
			}
			ok = spread(r, scopes, 6+k%6, 2, probe)
			r.Rec.SetHook(nil)
			if !ok {
				c.R.Inconclusive(idx, "concurrent C03 round did not finish within the watchdog")
				c.R.Abandon(idx)
			}
			r.Finish()
		}
		o := core.Digest(r)
		core.Report(c, "C03", idx, r, core.MonC03(r, o))
		n := 0
		for _, d := range o.Deliveries {
			if p, okp := o.Produced[d.Inst]; okp && p.Reg >= 0 && m.Regs[p.Reg].Life == godi.Transient {
				n++
			}
		}
		c.R.Count("transient_deliveries", int64(n))
		c.R.Count("transient_deliveries_concurrent", int64(n))
		c.R.Count("ctor_invocations", int64(len(o.Runs)))
		c.R.End(idx, eng.Hash("c03-conc", k), r.Built && n > 1)
	}
}

// ---- C18: built-ins injected while the same constructor runs in other scopes -----------

func runC18Concurrent(c *eng.Ctx, next func() (int, bool)) {
	rt.SetNoise(100)
	defer rt.SetNoise(0)
	spec := &core.Spec{Regs: []core.Reg{
		core.MkReg("Leaf_K0_a", godi.Transient),
		core.MkReg("BIdep_S6", godi.Transient), // S6(Scope, K0, Context)
		core.MkReg("BIpos_K2", godi.Scoped),    // K2(Scope, Provider, Context)
		core.MkReg("BIin_K3", godi.Transient),  // K3(In{Scope, Provider, Context})
	}}
	m := core.NewModel(spec)
	if m.Class != core.ClsOK {
		return
	}
	probe := []core.Op{{Kind: core.OpGet, Type: "S6"}, {Kind: core.OpGet, Type: "K2"}, {Kind: core.OpGet, Type: "K3"}, {Kind: core.OpGet, Type: "S6", Generic: true}}
	rounds := c.Pick(30, 500)
	for k := 0; k < rounds; k++ {
		idx, mine := next()
		if !mine {
			continue
		}
		c.R.Begin(idx)
		r := core.NewRun(spec, m, nil, nil)
		r.Rec.KeepVals = true
		slowCtors(r)
		r.Build()
		var fs []core.Finding
		checked := 0
		if r.Built {
			var scopes []int
			parent := 0
			for i := 0; i < 4; i++ {
				sc := r.Do(core.Op{Kind: core.OpCreate, Scope: parent, CtxKind: []int{1, 0, 3, 5}[i]}).NewScope
				scopes = append(scopes, sc)
				if i == 0 {
					parent = sc
				}
			}
			if !spread(r, scopes, 8, 3, probe) {
				c.R.Inconclusive(idx, "concurrent C18 round did not finish within the watchdog")
				c.R.Abandon(idx)
			}
			r.Rec.SetHook(nil)
			rootScope, _ := r.Prov.Get(pool.T("Scope"))
			rootCtx, _ := r.Prov.Get(pool.T("Context"))
			o := core.Digest(r)
			fs, checked, _ = core.CheckBuiltinArgs(r, o, rootScope, rootCtx)
			for i := range fs {
				fs[i].Sig += ":concurrent-across-scopes"
			}
			r.Finish()
		}
		core.Report(c, "C18", idx, r, fs)
		c.R.Count("builtin_args_checked", int64(checked))
		c.R.Count("builtin_args_checked_concurrent", int64(checked))
		c.R.End(idx, eng.Hash("c18-conc", k), checked > 0)
	}
}

// ---- C15: a failing scoped construction while other goroutines are queued behind it ------

func runC15Concurrent(c *eng.Ctx, next func() (int, bool)) {
	rt.SetNoise(100)
	defer rt.SetNoise(0)
	spec := &core.Spec{Regs: []core.Reg{
		core.MkReg("Leaf_K0_a", godi.Scoped),   // K0 (may fail: error result)
		core.MkReg("PosA_1_1", godi.Scoped),    // K1(K0)
		core.MkReg("PosB_2_1", godi.Transient), // K2(K0)   -- lifetime conflict? K2 transient <- K0 scoped
	}}
	// transient may not depend on scoped: use a scoped consumer instead
	spec.Regs[2] = core.MkReg("PosB_2_1", godi.Scoped)
	m := core.NewModel(spec)
	if m.Class != core.ClsOK {
		return
	}
	k0 := spec.Regs[0].Ctor
	probe := []core.Op{{Kind: core.OpGet, Type: "K0"}, {Kind: core.OpGet, Type: "K1"}, {Kind: core.OpGet, Type: "K2"}}
	rounds := c.Pick(60, 800)
	for k := 0; k < rounds; k++ {
		idx, mine := next()
		if !mine {
			continue
		}
		c.R.Begin(idx)
		kind := rt.FErr
		if k%2 == 1 {
			kind = rt.FPanic
		}
		pidx := k % len(rt.PanicVals)
		faults := []rt.Fault{{Ctor: k0, Nth: 1, Kind: kind, PanicIdx: pidx}}
		if k%3 == 0 {
			faults = append(faults, rt.Fault{Ctor: k0, Nth: 2, Kind: kind, PanicIdx: pidx})
		}
		r := core.NewRun(spec, m, faults, nil)
		r.Rec.SetHook(func(hp rt.HookPoint) {
			if hp.Where == "ctor" && hp.Ctor == k0 {
				time.Sleep(300 * time.Microsecond) // others queue behind the failing construction
			}
		})
		r.Build()
		var fs []core.Finding
		if r.Built {
			sc := r.Do(core.Op{Kind: core.OpCreate, Scope: 0, CtxKind: 1}).NewScope
			if !spread(r, []int{sc}, 6, 1, probe) {
				c.R.Inconclusive(idx, "concurrent C15 round did not finish within the watchdog")
				c.R.Abandon(idx)
			}
			r.Rec.SetHook(nil)
			for i := range r.Results {
				res := &r.Results[i]
				op := r.Ops[res.Op]
				if op.Kind != core.OpGet {
					continue
				}
				c.R.Count("concurrent_fault_resolutions", 1)
				where := fmt.Sprintf("op%d %s (the first %d construction(s) of the scoped K0 were made to fail while 6 goroutines resolve it and its dependents)", res.Op, op.String(), len(faults))
				switch res.Class {
				case "ok":
					if len(res.Insts) != 1 || res.Insts[0] == nil {
						fs = append(fs, core.Finding{Clause: "nil-result-without-error", Sig: "waiter-behind-failing-construction", Detail: where + ": returned no instance and no error"})
					}
				case "ctor-error":
					if kind != rt.FErr {
						fs = append(fs, core.Finding{Clause: "wrong-error-class", Sig: "ctor-error-for-panic", Detail: where + ": classified as constructor error although the constructor panicked"})
					}
				case "ctor-panic":
					var pe *godi.ConstructorPanicError
					var got any
					if asPanic(res.Err, &pe) {
						got = pe.Panic
					}
					if kind != rt.FPanic || !reflect.DeepEqual(got, rt.PanicVals[pidx]) {
						fs = append(fs, core.Finding{Clause: "foreign-panic-reported", Sig: "waiter-behind-failing-construction", Detail: fmt.Sprintf("%s: reported a constructor panic with value %v (%T), which is not the injected failure (%v)", where, got, got, core.TrimErr(res.Err))})
					}
				case "PANIC":
					fs = append(fs, core.Finding{Clause: "api-call-panics", Sig: "concurrent-fault", Detail: fmt.Sprintf("%s panicked: %v", where, res.Panic)})
				default:
					fs = append(fs, core.Finding{Clause: "unclassifiable-failure", Sig: "concurrent-fault:" + res.Class, Detail: fmt.Sprintf("%s: returned %s: %v", where, res.Class, core.TrimErr(res.Err))})
				}
			}
			// afterwards the service is constructible: a retry behaves like a first attempt
			for _, op := range probe {
				op.Scope = sc
				if res := r.Do(op); res.Class != "ok" {
					fs = append(fs, core.Finding{Clause: "retry-differs", Sig: "concurrent-fault:" + res.Class, Detail: fmt.Sprintf("after the faulted round, %s still fails: %s %v", op.String(), res.Class, core.TrimErr(res.Err))})
				}
			}
			r.Finish()
		}
		core.Report(c, "C15", idx, r, fs)
		c.R.End(idx, eng.Hash("c15-conc", k), r.Built)
	}
}

func asPanic(err error, target **godi.ConstructorPanicError) bool {
	for e := err; e != nil; {
		switch v := e.(type) {
		case *godi.ConstructorPanicError:
			*target = v
			return true
		case godi.ConstructorPanicError:
			*target = &v
			return true
		}
		u, ok := e.(interface{ Unwrap() error })
		if !ok {
			return false
		}
		e = u.Unwrap()
	}
	return false
}

// ---- C11: first resolutions of a dependency and its dependent race inside one scope ------

func runC11ResolveRace(c *eng.Ctx, next func() (int, bool)) {
	rt.SetNoise(100)
	defer rt.SetNoise(0)
	spec := &core.Spec{Regs: []core.Reg{
		core.MkReg("Leaf_K0_a", godi.Scoped),    // B
		core.MkReg("PosA_1_1", godi.Scoped),     // A(B)
		core.MkReg("PosA_2_3", godi.Scoped),     // C(B, A)
		core.MkReg("Leaf_S0_a", godi.Transient), // disposable noise (contends the disposal list)
	}}
	m := core.NewModel(spec)
	if m.Class != core.ClsOK {
		return
	}
	blocks := c.Pick(32, 128)
	per := c.Pick(400, 1500)
	for b := 0; b < blocks; b++ {
		idx, mine := next()
		if !mine {
			continue
		}
		c.R.Begin(idx)
		var pairs int64
		for it := 0; it < per; it++ {
			r := core.NewRun(spec, m, nil, nil)
			r.Build()
			if !r.Built {
				break
			}
			sc := r.Do(core.Op{Kind: core.OpCreate, Scope: 0, CtxKind: 1}).NewScope
			start := make(chan struct{})
			var wg sync.WaitGroup
			launch := func(spin int, ops ...core.Op) {
				wg.Add(1)
				go func() {
					defer wg.Done()
					<-start
					for i := 0; i < spin; i++ {
						runtime.Gosched()
					}
					for _, op := range ops {
						op.Scope = sc
						r.Do(op)
					}
				}()
			}
			launch(0, core.Op{Kind: core.OpGet, Type: "K0"})
			launch(it%3, core.Op{Kind: core.OpGet, Type: "K1"})
			launch(it%4, core.Op{Kind: core.OpGet, Type: "K2"})
			launch(0, core.Op{Kind: core.OpGet, Type: "K1"})
			for n := 0; n < 6; n++ {
				launch(0, core.Op{Kind: core.OpGet, Type: "S0"}, core.Op{Kind: core.OpGet, Type: "S0"}, core.Op{Kind: core.OpGet, Type: "S0"})
			}
			close(start)
			wg.Wait()
			r.Do(core.Op{Kind: core.OpClose, Scope: sc})
			r.Finish()
			o := core.Digest(r)
			all, np := core.MonC11Exported(r, o)
			pairs += int64(np)
			// creation order of INDEPENDENT instances built by different goroutines is ambiguous;
			// what the statement protects is the dependency relation
			var fs []core.Finding
			for _, f := range all {
				if f.Clause == "dependency-closed-before-dependent" {
					f.Clause = "resolve-race-" + f.Clause
					f.Sig = "first-resolutions-race"
					fs = append(fs, f)
				}
			}
			if len(fs) > 0 {
				core.Report(c, "C11", idx, r, fs)
				break
			}
		}
		c.R.Count("resolve_race_iterations", int64(per))
		c.R.Count("ordered_pairs_checked", pairs)
		c.R.AddEnumerated(int64(per), int64(per))
		c.R.End(idx, eng.Hash("c11-rr", b), false)
	}
}
