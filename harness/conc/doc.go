// Package conc — see /verif/DESIGN.md.
package conc
