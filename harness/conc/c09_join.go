package conc

import (
	"context"
	"errors"
	"fmt"
	"sync"
	"time"

	"github.com/junioryono/godi/v4"
	"github.com/junioryono/godi/v4/verifh/eng"
)

// A Close method that joins a worker which is resolving from the scope being closed.
//
// A pool-like scoped service owns a worker goroutine; its Close waits until the worker has ended.
// The worker is in the middle of resolving another disposable service from the same scope when
// the scope is closed. The resolution overlaps the Close: it returns the disposed error (or its
// result), the worker ends, the pool's Close returns, the scope's Close returns. Nothing in the
// container may make the in-flight resolution wait for the Close that is waiting for it.

type jnWorld struct {
	inCtor       chan struct{}
	closeEnter   chan struct{}
	workerDone   chan struct{}
	once1, once2 sync.Once
	jobClosed    int
	mu           sync.Mutex
}

var (
	jnMu  sync.Mutex
	jnCur *jnWorld
)

func jnGet() *jnWorld { jnMu.Lock(); defer jnMu.Unlock(); return jnCur }

type jnPool struct{ w *jnWorld }

func (p *jnPool) Close() error {
	p.w.once2.Do(func() { close(p.w.closeEnter) })
	select {
	case <-p.w.workerDone:
	case <-time.After(25 * time.Second): // the watchdog of the case fires first
	}
	return nil
}

type jnJob struct{ w *jnWorld }

func (j *jnJob) Close() error { j.w.mu.Lock(); j.w.jobClosed++; j.w.mu.Unlock(); return nil }

func jnNewPool() *jnPool { return &jnPool{jnGet()} }
func jnNewJob() *jnJob {
	w := jnGet()
	w.once1.Do(func() { close(w.inCtor) })
	select {
	case <-w.closeEnter:
	case <-time.After(25 * time.Second):
	}
	return &jnJob{w}
}

func runC09Join(c *eng.Ctx, next func() (int, bool)) { runJoin(c, "C09", next) }

// runJoin: prop C09 reports a deadlock, prop C13 the same situation as a hang of operations that overlap a Close.
func runJoin(c *eng.Ctx, prop string, next func() (int, bool)) {
	for _, life := range []godi.Lifetime{godi.Scoped, godi.Transient} {
		for _, how := range []string{"scope-close", "parent-close", "provider-close", "context-cancel"} {
			idx, mine := next()
			if !mine {
				continue
			}
			c.R.Begin(idx)
			jnCase(c, prop, idx, life, how)
		}
	}
}

func jnCase(c *eng.Ctx, prop string, idx int, life godi.Lifetime, how string) {
	hang := map[string]string{"C09": "deadlock", "C13": "hang"}[prop]
	feat := fmt.Sprintf("close-method-joins-a-worker-that-is-resolving:%s-job:%s", map[godi.Lifetime]string{godi.Scoped: "scoped", godi.Transient: "transient"}[life], how)
	w := &jnWorld{inCtor: make(chan struct{}), closeEnter: make(chan struct{}), workerDone: make(chan struct{})}
	jnMu.Lock()
	jnCur = w
	jnMu.Unlock()
	coll := godi.NewCollection()
	must := func(err error) {
		if err != nil {
			panic("join fixture: " + err.Error())
		}
	}
	must(coll.AddScoped(jnNewPool))
	if life == godi.Scoped {
		must(coll.AddScoped(jnNewJob))
	} else {
		must(coll.AddTransient(jnNewJob))
	}
	prov, err := coll.Build()
	must(err)
	ctx, cancel := context.WithCancel(context.Background())
	defer cancel()
	parent, err := prov.CreateScope(ctx)
	must(err)
	sc, err := parent.CreateScope(nil)
	must(err)
	_, err = godi.Resolve[*jnPool](sc)
	must(err)
	var jobErr error
	var wg sync.WaitGroup
	wg.Add(1)
	go func() {
		defer wg.Done()
		defer close(w.workerDone)
		_, jobErr = godi.Resolve[*jnJob](sc)
	}()
	select {
	case <-w.inCtor:
	case <-time.After(20 * time.Second):
		c.R.Inconclusive(idx, "join fixture: the job constructor was not reached")
		c.R.Abandon(idx)
		return
	}
	var closeErr error
	wg.Add(1)
	go func() {
		defer wg.Done()
		switch how {
		case "scope-close":
			closeErr = sc.Close()
		case "parent-close":
			closeErr = parent.Close()
		case "provider-close":
			closeErr = prov.Close()
		default:
			cancel()
			<-w.closeEnter // the watcher goroutine does the closing
		}
	}()
	done := make(chan struct{})
	go func() { wg.Wait(); close(done) }()
	if v := awaitOrDiagnose(done, 15*time.Second); !v.Done {
		if v.Deadlock {
			c.R.Violation(eng.Violation{Prop: prop, Clause: hang, Sig: prop + "/" + hang + ":" + feat + ":" + innermostGodiFn(v.Dump), Case: idx, CaseID: feat,
				Detail: fmt.Sprintf("%s: the in-flight resolution and the Close never returned; goroutines stuck inside godi:\n%s", feat, v.Dump)})
		} else {
			c.R.Inconclusive(idx, "join case did not finish within the watchdog and no goroutine is provably stuck inside godi")
		}
		c.R.Abandon(idx)
		return
	}
	if jobErr != nil && !errors.Is(jobErr, godi.ErrScopeDisposed) && !errors.Is(jobErr, godi.ErrProviderDisposed) {
		c.R.Violation(eng.Violation{Prop: prop, Clause: "overlap-unexpected-error", Sig: prop + "/overlap-unexpected-error:" + feat, Case: idx, CaseID: feat, Detail: fmt.Sprintf("%s: the resolution that overlapped the Close returned %v", feat, jobErr)})
	}
	if closeErr != nil {
		c.R.Violation(eng.Violation{Prop: prop, Clause: "closer-unexpected-error", Sig: prop + "/closer-unexpected-error:" + feat + ":close", Case: idx, CaseID: feat, Detail: fmt.Sprintf("%s: Close returned %v", feat, closeErr)})
	}
	_ = prov.Close()
	w.mu.Lock()
	n := w.jobClosed
	w.mu.Unlock()
	if n != 1 {
		c.R.Violation(eng.Violation{Prop: prop, Clause: "overlap-conservation", Sig: prop + "/overlap-conservation:" + feat, Case: idx, CaseID: feat, Detail: fmt.Sprintf("%s: the job constructed during the Close was closed %d times by the end", feat, n)})
	}
	c.R.Count("join_cases", 1)
	c.R.End(idx, eng.Hash("join", prop, feat), true)
}
