// Package conc holds the concurrency monitors (C02 C09 C12 C13): stress under the race
// detector, controlled interleavings at the points where godi calls user code, and
// porcupine linearizability checks of the recorded histories.
package conc

import (
	"fmt"
	"sync"
	"time"

	"github.com/junioryono/godi/v4/verifh/eng"
	"github.com/junioryono/godi/v4/verifh/rt"
)

// Gate pauses the first goroutine that reaches a matching user-code point.
type Gate struct {
	Match   func(rt.HookPoint) bool
	reached chan rt.HookPoint
	release chan struct{}
	mu      sync.Mutex
	used    bool
}

// NewGate creates a gate for the given predicate.
func NewGate(match func(rt.HookPoint) bool) *Gate {
	return &Gate{Match: match, reached: make(chan rt.HookPoint, 1), release: make(chan struct{})}
}

// Hook is installed as rt.Recorder.Hook.
func (g *Gate) Hook(hp rt.HookPoint) {
	if !g.Match(hp) {
		return
	}
	g.mu.Lock()
	if g.used {
		g.mu.Unlock()
		return
	}
	g.used = true
	g.mu.Unlock()
	g.reached <- hp
	<-g.release
}

// WaitReached waits (bounded) until a goroutine is parked in the gate.
func (g *Gate) WaitReached(d time.Duration) bool {
	select {
	case <-g.reached:
		return true
	case <-time.After(d):
		return false
	}
}

// Release lets the parked goroutine (or any later arrival) continue.
func (g *Gate) Release() {
	g.mu.Lock()
	g.used = true
	g.mu.Unlock()
	select {
	case <-g.release:
	default:
		close(g.release)
	}
}

// thin aliases: the hang diagnosis lives in eng (shared with the sequential engines)
type hangVerdict = eng.HangVerdict

func awaitOrDiagnose(done <-chan struct{}, bound time.Duration) hangVerdict {
	return eng.AwaitOrDiagnose(done, bound)
}

func innermostGodiFn(dump string) string { return eng.InnermostGodiFn(dump) }

func fmtPanic(p any) string { return fmt.Sprintf("%v", p) }
