// Package conc holds the concurrency monitors (C02 C09 C12 C13): stress under the race
// detector, controlled interleavings at the points where godi calls user code, and
// porcupine linearizability checks of the recorded histories.
package conc

import (
	"fmt"
	"runtime"
	"strings"
	"sync"
	"time"

	"github.com/junioryono/godi/v4/verifh/rt"
)

// Gate pauses the first goroutine that reaches a matching user-code point.
type Gate struct {
	Match   func(rt.HookPoint) bool
	reached chan rt.HookPoint
	release chan struct{}
	mu      sync.Mutex
	used    bool
}

// NewGate creates a gate for the given predicate.
func NewGate(match func(rt.HookPoint) bool) *Gate {
	return &Gate{Match: match, reached: make(chan rt.HookPoint, 1), release: make(chan struct{})}
}

// Hook is installed as rt.Recorder.Hook.
func (g *Gate) Hook(hp rt.HookPoint) {
	if !g.Match(hp) {
		return
	}
	g.mu.Lock()
	if g.used {
		g.mu.Unlock()
		return
	}
	g.used = true
	g.mu.Unlock()
	g.reached <- hp
	<-g.release
}

// WaitReached waits (bounded) until a goroutine is parked in the gate.
func (g *Gate) WaitReached(d time.Duration) bool {
	select {
	case <-g.reached:
		return true
	case <-time.After(d):
		return false
	}
}

// Release lets the parked goroutine (or any later arrival) continue.
func (g *Gate) Release() {
	g.mu.Lock()
	g.used = true
	g.mu.Unlock()
	select {
	case <-g.release:
	default:
		close(g.release)
	}
}

// hangVerdict is returned by awaitOrDiagnose.
type hangVerdict struct {
	Done     bool
	Deadlock bool   // goroutines stuck inside godi in two samples 2 s apart
	Dump     string // goroutine dump (stuck goroutines only)
}

// awaitOrDiagnose waits for done with a generous wall-clock bound. The bound firing is never
// a verdict by itself: only goroutines that sit in a lock/channel wait with a godi frame on
// their stack, identically in two samples, are reported as a deadlock; anything else is
// inconclusive.
func awaitOrDiagnose(done <-chan struct{}, bound time.Duration) hangVerdict {
	select {
	case <-done:
		return hangVerdict{Done: true}
	case <-time.After(bound):
	}
	first := stuckInGodi()
	select {
	case <-done:
		return hangVerdict{Done: true}
	case <-time.After(2 * time.Second):
	}
	second := stuckInGodi()
	var both []string
	for id, blk := range second {
		if _, ok := first[id]; ok {
			both = append(both, blk)
		}
	}
	if len(both) > 0 {
		return hangVerdict{Deadlock: true, Dump: strings.Join(both, "\n\n")}
	}
	return hangVerdict{}
}

func stuckInGodi() map[string]string {
	buf := make([]byte, 1<<20)
	n := runtime.Stack(buf, true)
	out := map[string]string{}
	for _, blk := range strings.Split(string(buf[:n]), "\n\n") {
		head, _, _ := strings.Cut(blk, "\n")
		if !strings.HasPrefix(head, "goroutine ") {
			continue
		}
		waiting := strings.Contains(head, "semacquire") || strings.Contains(head, "sync.Mutex") || strings.Contains(head, "sync.RWMutex") || strings.Contains(head, "chan receive") || strings.Contains(head, "chan send") || strings.Contains(head, "select") || strings.Contains(head, "sync.Cond") || strings.Contains(head, "sync.WaitGroup")
		if !waiting {
			continue
		}
		godiFrame := false
		for _, ln := range strings.Split(blk, "\n") {
			if strings.HasPrefix(ln, "github.com/junioryono/godi/v4.") || strings.HasPrefix(ln, "github.com/junioryono/godi/v4/internal/") {
				godiFrame = true
				break
			}
		}
		if !godiFrame {
			continue
		}
		id := strings.Fields(head)[1]
		if len(blk) > 2500 {
			blk = blk[:2500] + "\n…"
		}
		out[id] = blk
	}
	return out
}

// innermostGodiFn extracts the innermost godi function of a dump block (for signatures).
func innermostGodiFn(dump string) string {
	for _, ln := range strings.Split(dump, "\n") {
		if strings.HasPrefix(ln, "github.com/junioryono/godi/v4.") {
			fn := strings.TrimPrefix(ln, "github.com/junioryono/godi/v4.")
			if i := strings.Index(fn, "("); i > 0 && !strings.HasPrefix(fn, "(") {
				fn = fn[:i]
			} else if strings.HasPrefix(fn, "(") {
				// method: (*scope).Close(...)
				if j := strings.Index(fn[1:], "("); j > 0 {
					fn = fn[:j+1]
				}
			}
			return fn
		}
	}
	return "unknown"
}

func fmtPanic(p any) string { return fmt.Sprintf("%v", p) }
