package conc

import (
	"context"
	"errors"
	"fmt"

	"github.com/junioryono/godi/v4"
	"github.com/junioryono/godi/v4/verifh/core"
	"github.com/junioryono/godi/v4/verifh/eng"
	"github.com/junioryono/godi/v4/verifh/pool"
	"github.com/junioryono/godi/v4/verifh/rt"
)

// The provider's own root scope used as a godi.Scope.
//
// Resolving godi.Scope from the provider yields the root scope. It is a Scope like any other:
// scopes created from it are its descendants, and closing it - directly, not through
// provider.Close - closes them ("closing a scope closes all its descendants"); afterwards they
// and the root scope refuse Get and CreateScope with the disposed error.
func runC13RootScope(c *eng.Ctx, next func() (int, bool)) {
	for variant := 0; variant < 4; variant++ {
		idx, mine := next()
		if !mine {
			continue
		}
		c.R.Begin(idx)
		spec := c13Fixture()
		m := core.NewModel(spec)
		r := core.NewRun(spec, m, nil, nil)
		r.Build()
		if !r.Built {
			c.R.End(idx, eng.Hash("c13root-unbuilt"), false)
			continue
		}
		var fs []core.Finding
		add := func(clause, sig, format string, a ...any) {
			fs = append(fs, core.Finding{Clause: clause, Sig: sig, Detail: fmt.Sprintf("root scope obtained with Resolve[godi.Scope](provider), variant %d: ", variant) + fmt.Sprintf(format, a...)})
		}
		func() {
			defer func() {
				if p := recover(); p != nil {
					add("overlap-panic", "root-scope-handle", "panic: %v", p)
				}
			}()
			root, err := godi.Resolve[godi.Scope](r.Prov)
			if err != nil || root == nil {
				add("root-scope-unavailable", "root-scope-handle", "Resolve[godi.Scope](provider) = %v, %v", root, err)
				return
			}
			mk := func(parent godi.Scope, own bool) godi.Scope {
				var ctx context.Context
				if own {
					ctx = context.Background()
				}
				s, err := parent.CreateScope(ctx)
				if err != nil {
					return nil
				}
				return s
			}
			c1 := mk(root, variant&1 == 0)
			c2 := mk(root, variant&1 != 0)
			var gc godi.Scope
			if c1 != nil {
				gc = mk(c1, variant&2 != 0)
			}
			type held struct {
				name string
				sc   godi.Scope
				inst *rt.Inst
			}
			var hs []held
			for _, h := range []held{{"child of the root scope", c1, nil}, {"second child of the root scope", c2, nil}, {"grandchild", gc, nil}} {
				if h.sc == nil {
					add("scope-creation-fails", "root-scope-handle", "CreateScope for the %s failed", h.name)
					continue
				}
				if v, err := h.sc.Get(pool.T("S2")); err == nil { // scoped disposable of the fixture
					h.inst = rt.InstOf(v)
				}
				hs = append(hs, h)
			}
			// close the ROOT SCOPE itself (the provider stays open)
			_ = root.Close()
			for _, h := range hs {
				_, gerr := h.sc.Get(pool.T("S2"))
				if gerr == nil || !(errors.Is(gerr, godi.ErrScopeDisposed) || errors.Is(gerr, godi.ErrProviderDisposed)) {
					add("descendant-survives-close", "root-scope-closed:get", "after root.Close() returned, Get on the %s returned %v", h.name, gerr)
				}
				if ch, cerr := h.sc.CreateScope(nil); cerr == nil {
					add("descendant-survives-close", "root-scope-closed:create-scope", "after root.Close() returned, CreateScope on the %s succeeded", h.name)
					if ch != nil {
						_ = ch.Close()
					}
				}
				if h.sc.Context().Err() == nil {
					add("descendant-survives-close", "root-scope-closed:context", "after root.Close() returned, the context of the %s is not cancelled", h.name)
				}
				if h.inst != nil && h.inst.Closed() != 1 {
					add("descendant-survives-close", "root-scope-closed:instances", "after root.Close() returned, the scoped instance of the %s has %d Close events", h.name, h.inst.Closed())
				}
				c.R.Count("post_close_probes", 4)
			}
			if _, gerr := root.Get(pool.T("S2")); gerr == nil {
				add("use-after-close-accepted", "root-scope", "Get on the closed root scope succeeded")
			}
		}()
		r.Finish()
		core.Report(c, "C13", idx, r, fs)
		c.R.Count("root_scope_handle_cases", 1)
		c.R.End(idx, eng.Hash("c13root", variant), true)
	}
}
