package conc

import (
	"errors"
	"fmt"
	"reflect"
	"sync"
	"time"

	"github.com/junioryono/godi/v4"
	"github.com/junioryono/godi/v4/verifh/core"
	"github.com/junioryono/godi/v4/verifh/eng"
	"github.com/junioryono/godi/v4/verifh/rt"
)

// An ancestor's Close overlapping a Close of one of its descendants that is still in flight.
//
// closer1 closes a middle scope (directly, or its context watcher does after a cancel) and is
// parked inside the j-th disposable Close it performs - at that moment some of the middle
// scope's own children have not been reached yet. closer2 then closes an ancestor (or the
// provider). "Closing a scope closes all its descendants": once closer2's call has RETURNED,
// every scope below it must refuse use - whether closer2 closed it itself or had to wait for
// closer1. The probe happens at the return of closer2, while closer1 may still be parked.
func runC13CloseVsClose(c *eng.Ctx, next func() (int, bool)) {
	spec := c13Fixture()
	m := core.NewModel(spec)
	if m.Class != core.ClsOK {
		return
	}
	type variant struct {
		midCtx, gcCtx int    // context kinds of the middle scope and of its children
		closer2       string // parent | provider
		viaCancel     bool
	}
	var vs []variant
	for _, gcCtx := range []int{1, 0, 3} { // own background context / inherited / request-like
		for _, c2 := range []string{"parent", "provider"} {
			vs = append(vs, variant{1, gcCtx, c2, false})
			vs = append(vs, variant{2, gcCtx, c2, true})
		}
	}
	reps := c.Pick(1, 3)
	for rep := 0; rep < reps; rep++ {
		for _, v := range vs {
			for j := 1; j <= 4; j++ {
				idx, mine := next()
				if !mine {
					continue
				}
				c.R.Begin(idx)
				closeVsCloseDescendants(c, idx, spec, m, v.midCtx, v.gcCtx, v.closer2, v.viaCancel, j)
			}
		}
	}
}

var scopeIface = reflect.TypeOf((*godi.Scope)(nil)).Elem()

func closeVsCloseDescendants(c *eng.Ctx, idx int, spec *core.Spec, m *core.Model, midCtx, gcCtx int, closer2 string, viaCancel bool, j int) {
	feat := fmt.Sprintf("%s-vs-in-flight-%s-of-descendant", closer2, map[bool]string{false: "close", true: "cancel"}[viaCancel])
	r := core.NewRun(spec, m, nil, nil)
	r.Build()
	if !r.Built {
		c.R.End(idx, eng.Hash("c13cc-unbuilt"), false)
		return
	}
	par := r.Do(core.Op{Kind: core.OpCreate, Scope: 0, CtxKind: 1}).NewScope
	mid := r.Do(core.Op{Kind: core.OpCreate, Scope: par, CtxKind: midCtx}).NewScope
	var gcs []int
	for i := 0; i < 3; i++ {
		gcs = append(gcs, r.Do(core.Op{Kind: core.OpCreate, Scope: mid, CtxKind: gcCtx}).NewScope)
	}
	ggc := r.Do(core.Op{Kind: core.OpCreate, Scope: gcs[0], CtxKind: gcCtx}).NewScope
	all := append(append([]int{}, gcs...), ggc, mid)
	for _, sc := range all {
		core.ProbeRegistered(r, sc)
	}
	var g1 int64 = -1
	var gmu sync.Mutex
	n := 0
	gate := NewGate(func(hp rt.HookPoint) bool {
		if hp.Where != "close" {
			return false
		}
		gmu.Lock()
		defer gmu.Unlock()
		if g1 == -1 {
			g1 = hp.G
		}
		if hp.G != g1 {
			return false
		}
		n++
		return n == j
	})
	r.Rec.SetHook(gate.Hook)
	var wg sync.WaitGroup
	wg.Add(1)
	go func() {
		defer wg.Done()
		if viaCancel {
			r.Do(core.Op{Kind: core.OpCancel, Scope: mid})
		} else {
			r.Do(core.Op{Kind: core.OpClose, Scope: mid})
		}
	}()
	parked := gate.WaitReached(10 * time.Second)
	op2 := core.Op{Kind: core.OpCloseProvider}
	if closer2 == "parent" {
		op2 = core.Op{Kind: core.OpClose, Scope: par}
	}
	c2done := make(chan struct{})
	wg.Add(1)
	go func() { defer wg.Done(); defer close(c2done); r.Do(op2) }()
	early := false
	select {
	case <-c2done:
		early = true // returned although closer1 is still parked inside a Close of the subtree
	case <-time.After(80 * time.Millisecond):
	}
	var fs []core.Finding
	probe := func(when string) {
		// closer2 has returned: everything below it must refuse use
		for _, sc := range all {
			h := r.ScopeHandle(sc)
			if h == nil || h.S == nil {
				continue
			}
			_, gerr := h.S.Get(scopeIface)
			child, cerr := h.S.CreateScope(nil)
			if cerr == nil && child != nil {
				_ = child.Close()
			}
			role := "middle scope"
			switch {
			case sc == ggc:
				role = "great-grandchild"
			case sc != mid:
				role = "grandchild"
			}
			if gerr == nil || (!errors.Is(gerr, godi.ErrScopeDisposed) && !errors.Is(gerr, godi.ErrProviderDisposed)) {
				fs = append(fs, core.Finding{Clause: "descendant-survives-close", Sig: feat + ":get", Detail: fmt.Sprintf("%s (%s, closer1 parked in its disposable Close #%d, context kinds %d/%d): %s.Close has returned but Get on the %s s%d returned %v", feat, when, j, midCtx, gcCtx, closer2, role, sc, gerr)})
			}
			if cerr == nil {
				fs = append(fs, core.Finding{Clause: "descendant-survives-close", Sig: feat + ":create-scope", Detail: fmt.Sprintf("%s (%s, closer1 parked in its disposable Close #%d, context kinds %d/%d): %s.Close has returned but CreateScope on the %s s%d succeeded", feat, when, j, midCtx, gcCtx, closer2, role, sc)})
			}
			c.R.Count("post_close_probes", 2)
		}
	}
	if early && parked {
		probe("probed while closer1 was still parked")
		c.R.Count("closer2_returned_while_closer1_parked", 1)
	}
	gate.Release()
	done := make(chan struct{})
	go func() { wg.Wait(); close(done) }()
	if v := awaitOrDiagnose(done, 60*time.Second); !v.Done {
		if v.Deadlock {
			c.R.Violation(eng.Violation{Prop: "C13", Clause: "hang", Sig: "C13/hang:" + feat + ":" + innermostGodiFn(v.Dump), Case: idx, CaseID: feat, Detail: "overlapping Close calls never returned; goroutines stuck inside godi:\n" + v.Dump})
		} else {
			c.R.Inconclusive(idx, "close-vs-close did not finish within the watchdog")
		}
		c.R.Abandon(idx)
	}
	r.Rec.SetHook(nil)
	if !early {
		probe("probed after both calls returned")
		c.R.Count("closer2_waited_for_closer1", 1)
	}
	if !r.Poisoned {
		r.Finish()
	}
	core.Report(c, "C13", idx, r, fs)
	c.R.Count("close_vs_close_descendant_overlaps", 1)
	c.R.End(idx, eng.Hash("c13cc", feat, midCtx, gcCtx, j), parked)
}
