package conc

import (
	"fmt"
	"sync"
	"sync/atomic"
	"time"

	"github.com/junioryono/godi/v4/verifh/core"
	"github.com/junioryono/godi/v4/verifh/eng"
	"github.com/junioryono/godi/v4/verifh/rt"
)

// Several resolutions of ONE scoped service in flight when the scope is closed.
//
// The first resolver is parked inside the service's constructor (user code), `extra` further
// resolvers of the same service are started (whatever the container does to serialise them -
// today they queue on a per-service lock), then the scope / its ancestor / the provider is
// closed or the context cancelled, then the constructor is released. Every one of the
// resolutions overlaps the Close: each returns a normal result or the disposed error, none
// panics, none hangs; afterwards the scope refuses use.
func runC13Waiters(c *eng.Ctx, next func() (int, bool)) { runWaiters(c, "C13", next) }

// runWaiters: prop C13 judges every resolver of the overlap; prop C02 only whether two of them
// came back with different instances of the scoped service (with or without a Close method).
func runWaiters(c *eng.Ctx, prop string, next func() (int, bool)) {
	for _, sc := range overlapScenarios() {
		if sc.op.Kind != core.OpGet || (sc.op.Type != "K3" && sc.op.Type != "S2" && sc.op.Type != "S7" && sc.op.Key != "q") {
			continue
		}
		for _, extra := range []int{2, 3} {
			idx, mine := next()
			if !mine {
				continue
			}
			c.R.Begin(idx)
			waitersOnce(c, prop, idx, sc, extra)
		}
	}
}

func waitersOnce(c *eng.Ctx, prop string, idx int, sc overlapScenario, extra int) {
	// dry run first (the recorder created last is the one constructors report to): the first
	// resolver is parked in the LAST constructor it runs, the requested service's own
	dry, _, dleaf := c13Setup(sc)
	if !dry.Built {
		c.R.End(idx, eng.Hash("c13w-unbuilt", sc.name), false)
		return
	}
	before := len(core.Digest(dry).Runs)
	dop := sc.op
	dop.Scope = dleaf
	dry.Do(dop)
	points := len(core.Digest(dry).Runs) - before
	dry.Finish()
	if points == 0 {
		c.R.End(idx, eng.Hash("c13w-nopoints", sc.name), false)
		return
	}
	r, anc, leaf := c13Setup(sc)
	op := sc.op
	op.Scope = leaf
	closer := sc.closerOp(anc, leaf)
	feat := fmt.Sprintf("%s|%d-more-resolvers-of-the-same-service-waiting", sc.name, extra)
	var firstG int64 = -1
	var gmu sync.Mutex
	var arrived atomic.Int64
	count := 0
	gate := NewGate(func(hp rt.HookPoint) bool {
		gmu.Lock()
		defer gmu.Unlock()
		if hp.Where == "yield:scope.resolve:scoped-cache-miss" && hp.G != firstG {
			arrived.Add(1) // another resolver is about to queue behind the parked construction
		}
		if hp.Where != "ctor" || hp.G != firstG {
			return false
		}
		count++
		return count == points
	})
	r.Rec.SetHook(gate.Hook)
	res := make([]core.OpResult, extra+1)
	var wg sync.WaitGroup
	wg.Add(1)
	go func() {
		defer wg.Done()
		gmu.Lock()
		firstG = rt.Goid()
		gmu.Unlock()
		res[0] = r.Do(op)
	}()
	reached := gate.WaitReached(20 * time.Second)
	for i := 1; i <= extra; i++ {
		wg.Add(1)
		go func(i int) { defer wg.Done(); res[i] = r.Do(op) }(i)
	}
	// steering: let the extra resolvers reach whatever they wait on (bounded; a resolver that
	// comes late merely sees the closed scope, which is a legal outcome)
	for w := 0; w < 2500 && arrived.Load() < int64(extra); w++ {
		time.Sleep(2 * time.Millisecond)
	}
	time.Sleep(10 * time.Millisecond)
	if arrived.Load() >= int64(extra) {
		c.R.Count("waiter_overlaps_all_queued", 1)
	}
	var clRes core.OpResult
	closerDone := make(chan struct{})
	wg.Add(1)
	go func() { defer wg.Done(); defer close(closerDone); clRes = r.Do(closer) }()
	select {
	case <-closerDone:
	case <-time.After(50 * time.Millisecond):
	}
	gate.Release()
	done := make(chan struct{})
	go func() { wg.Wait(); close(done) }()
	if v := awaitOrDiagnose(done, 60*time.Second); !v.Done {
		if v.Deadlock && prop == "C13" {
			c.R.Violation(eng.Violation{Prop: "C13", Clause: "hang", Sig: "C13/hang:" + feat + ":" + innermostGodiFn(v.Dump), Case: idx, CaseID: feat, Detail: fmt.Sprintf("%s: resolutions that overlapped the Close never returned; goroutines stuck inside godi:\n%s", feat, v.Dump)})
		} else {
			c.R.Inconclusive(idx, "waiters overlap did not finish within the watchdog and no goroutine is provably stuck inside godi")
		}
		c.R.Abandon(idx)
		return
	}
	r.Rec.SetHook(nil)
	var fs []core.Finding
	okClasses := map[string]bool{"ok": true, "scope-disposed": true, "provider-disposed": true}
	for i, x := range res {
		if x.Class == "PANIC" {
			fs = append(fs, core.Finding{Clause: "overlap-panic", Sig: feat, Detail: fmt.Sprintf("%s: resolver %d panicked: %v", feat, i, x.Panic)})
		} else if !okClasses[x.Class] {
			fs = append(fs, core.Finding{Clause: "overlap-unexpected-error", Sig: feat + ":" + x.Class, Detail: fmt.Sprintf("%s: resolver %d returned %s (%v): neither a normal result nor the disposed error", feat, i, x.Class, core.TrimErr(x.Err))})
		}
		c.R.Count("op_result_"+x.Class, 1)
	}
	if clRes.Class == "PANIC" {
		fs = append(fs, core.Finding{Clause: "overlap-panic", Sig: feat + ":closer", Detail: fmt.Sprintf("%s: the closing call panicked: %v", feat, clRes.Panic)})
	}
	// all resolutions that returned an instance returned the same one (C02 inside the overlap)
	var inst int64
	for i, x := range res {
		if x.Class == "ok" && len(x.Insts) == 1 && x.Insts[0] != nil {
			if inst == 0 {
				inst = x.Insts[0].ID
			} else if inst != x.Insts[0].ID {
				clause := "half-initialised-result"
				if prop == "C02" {
					clause = "two-instances-in-one-scope"
				}
				fs = append(fs, core.Finding{Clause: clause, Sig: feat + ":two-instances", Detail: fmt.Sprintf("%s: resolver %d got another instance of the scoped service than an earlier resolver of the same overlap", feat, i)})
			}
		}
	}
	if !r.Poisoned {
		if sc.closer == "cancel" {
			awaitDisposed(r, leaf)
		}
		if post := r.Do(core.Op{Kind: core.OpGet, Scope: leaf, Type: "S2"}); post.Class != "scope-disposed" {
			fs = append(fs, core.Finding{Clause: "use-after-close-accepted", Sig: feat + ":" + post.Class, Detail: fmt.Sprintf("%s: after the closing call returned, Get on the closed scope returned %s", feat, post.Class)})
		}
		r.Finish()
		o := core.Digest(r)
		for _, x := range core.OwnedDisposables(r, o) {
			if n := len(o.Closes[x.ID]); n != 1 {
				fs = append(fs, core.Finding{Clause: "overlap-conservation", Sig: fmt.Sprintf("%s:closed-%d-times", feat, min(n, 2)), Detail: fmt.Sprintf("%s: %s of %s was closed %d times by the end of the history", feat, o.InstName(x.ID), r.Model.Describe(x.Reg), n)})
			}
		}
	}
	if prop != "C13" {
		var own []core.Finding
		for _, f := range fs {
			if f.Clause == "two-instances-in-one-scope" {
				own = append(own, f)
			}
		}
		fs = own
	}
	core.Report(c, prop, idx, r, fs)
	c.R.Count("waiter_overlaps", 1)
	c.R.End(idx, eng.Hash("c13-waiters", feat), reached)
}
