package conc

import (
	"fmt"
	"math/rand"
	"os"
	"runtime"
	"sort"
	"strings"
	"sync"
	"time"

	"github.com/junioryono/godi/v4"
	"github.com/junioryono/godi/v4/verifh/core"
	"github.com/junioryono/godi/v4/verifh/eng"
	"github.com/junioryono/godi/v4/verifh/rt"
)

func init() {
	eng.Register(&eng.Property{
		ID: "C09", Level: "exploration", Race: true,
		Rule: "three engines on the -race build. (1) stress: k in {4,8,16} goroutines x 20-60 seeded operations each (Get/GetKeyed/GetGroup/generic Resolve on shared and private scopes, CreateScope, child CreateScope, Close, context cancel, a mid-run or final provider.Close) over one provider, constructors and Close methods yielding; " +
			"(2) controlled interleavings: programs of 2-3 goroutines x <=3 operations where every constructor / Close callback and operation boundary is a scheduling point and a seeded scheduler decides who runs next (a goroutine that cannot reach its next point is recorded as blocked inside godi and another is activated); (3) the call/return history of every small execution is checked with porcupine against the scope-tree model. " +
			"Monitors: race-detector reports with the access in godi code, recovered panics per call, deadlock evidence (goroutines stuck in godi in two samples), every return is a lifetime-respecting result or one of the documented errors, singleton/scoped/transient rules over the same log, and exactly-once disposal at the end. Non-trivial: operations of >=2 goroutines overlapped in logical time; distinct = program hash / schedule trace.",
		Shards:        func(tier string) int { return 16 },
		Run:           runC09,
		NeedEvents:    []string{"stress_programs", "stress_ops", "schedules", "distinct_schedule_traces", "porcupine_histories", "overlapping_op_pairs", "shared_code_resolutions"},
		ShardTimeoutS: func(tier string) int { return 1200 },
		Assumptions: []string{"interleavings inside godi's critical sections are sampled by real parallelism under the race detector, not enumerated",
			"documented errors for concurrent use: service-not-found, scope-disposed, provider-disposed"},
	})
}

var documentedClasses = map[string]bool{"ok": true, "not-found": true, "scope-disposed": true, "provider-disposed": true, "skipped": true, "disposal": true}

// monConcurrent applies the lifetime rules and the per-call validity check to a concurrent run.
func monConcurrent(r *core.Run, o *core.Obs) []core.Finding {
	var fs []core.Finding
	m := r.Model
	for i := range r.Results {
		res := &r.Results[i]
		op := r.Ops[res.Op]
		if res.Class == "PANIC" {
			fs = append(fs, core.Finding{Clause: "panic", Sig: panicSig(op, res.Panic), Detail: fmt.Sprintf("op%d %s panicked: %v", res.Op, op.String(), res.Panic)})
			continue
		}
		if res.Class == "pending" {
			continue
		}
		if !documentedClasses[res.Class] {
			fs = append(fs, core.Finding{Clause: "undocumented-error", Sig: opKindName(op) + ":" + res.Class, Detail: fmt.Sprintf("op%d %s returned %s: %v", res.Op, op.String(), res.Class, core.TrimErr(res.Err))})
		}
		if res.Class == "not-found" && (op.Kind == core.OpGet) {
			if _, ok := m.Lookup(op.Type, op.Key); ok {
				fs = append(fs, core.Finding{Clause: "registered-identity-not-found", Sig: opKindName(op), Detail: fmt.Sprintf("op%d %s: the identity is registered but the call returned service-not-found: %v", res.Op, op.String(), core.TrimErr(res.Err))})
			}
		}
	}
	// singleton: one construction, one instance
	for i := range m.Regs {
		if !m.Accepted(i) || m.Regs[i].Life != godi.Singleton || m.Regs[i].Meta == nil {
			continue
		}
		if n := len(o.RunsByReg[i]); n != 1 {
			fs = append(fs, core.Finding{Clause: "singleton-ctor-count", Sig: m.Features(i), Detail: fmt.Sprintf("singleton %s constructed %d times", m.Describe(i), n)})
		}
	}
	// transient: never handed out twice
	count := map[int64]int{}
	for _, d := range o.Deliveries {
		if p, ok := o.Produced[d.Inst]; ok && p.Reg >= 0 && !p.Value && m.Regs[p.Reg].Life == godi.Transient {
			count[d.Inst]++
		}
	}
	for id, n := range count {
		if n > 1 {
			p := o.Produced[id]
			fs = append(fs, core.Finding{Clause: "transient-handed-out-twice", Sig: m.Features(p.Reg), Detail: fmt.Sprintf("%s of transient %s was delivered %d times", o.InstName(id), m.Describe(p.Reg), n)})
		}
	}
	// scoped rules — over what happened before the scope's close began: a construction that
	// finishes after its scope was closed is disposed on the spot and never part of the scope
	for _, f := range MonC02(r, beforeClose(r, o)) {
		if strings.HasPrefix(f.Clause, "initializer") {
			continue // initializer accounting needs the creating op to finish; C02 covers it sequentially
		}
		f.Clause = "scoped-" + f.Clause
		fs = append(fs, f)
	}
	// singleton identity through every observation
	for _, f := range core.MonC01(r, o) {
		if f.Clause == "identity" {
			f.Clause = "singleton-identity"
			fs = append(fs, f)
		}
	}
	// closed means closed (real-time rule)
	fs = append(fs, postCloseUse(r)...)
	// exactly-once disposal by the end
	if !r.Poisoned && r.Scopes[0].Closed {
		for _, x := range core.OwnedDisposables(r, o) {
			if n := len(o.Closes[x.ID]); n != 1 {
				fs = append(fs, core.Finding{Clause: "disposal-count", Sig: fmt.Sprintf("%s:closed-%d-times", core.LifeName(m.Regs[x.Reg].Life), min(n, 2)), Detail: fmt.Sprintf("%s of %s was closed %d times by the end of the concurrent history (constructed in op%d %s)", o.InstName(x.ID), m.Describe(x.Reg), n, x.Run.Op, r.Ops[maxInt(x.Run.Op, 0)].String())})
			}
		}
	}
	return fs
}

func maxInt(a, b int) int {
	if a > b {
		return a
	}
	return b
}

func panicSig(op core.Op, p any) string {
	msg := fmt.Sprintf("%v", p)
	cls := "other"
	switch {
	case strings.Contains(msg, "nil map"):
		cls = "nil-map-write"
	case strings.Contains(msg, "nil pointer"):
		cls = "nil-pointer"
	case strings.Contains(msg, "concurrent map"):
		cls = "concurrent-map"
	case strings.Contains(msg, "index out of range"):
		cls = "index-out-of-range"
	}
	return opKindName(op) + ":" + cls
}

// overlappingPairs counts pairs of operations issued by different goroutines whose
// call/return intervals intersect (the non-triviality rule).
func overlappingPairs(r *core.Run, client map[int]int) int {
	type iv struct {
		c         int
		call, ret int64
	}
	var ivs []iv
	for i := range r.Results {
		res := &r.Results[i]
		if res.Call == 0 || res.Ret == 0 {
			continue
		}
		ivs = append(ivs, iv{client[res.Op], res.Call, res.Ret})
	}
	sort.Slice(ivs, func(i, j int) bool { return ivs[i].call < ivs[j].call })
	n := 0
	for i := range ivs {
		for j := i + 1; j < len(ivs) && ivs[j].call < ivs[i].ret; j++ {
			if ivs[j].c != ivs[i].c {
				n++
			}
		}
		if n > 1_000_000 {
			break
		}
	}
	return n
}

// stressSpec: a fixed family of buildable specs with every lifetime, groups, keys, aliases,
// initializers and disposables; plus random ones.
func stressSpec(rng *rand.Rand, k int) (*core.Spec, *core.Model) {
	if k%3 == 0 {
		s := c13Spec(true)
		s.Regs = append(s.Regs, core.MkReg("Leaf_S3_a", godi.Singleton, core.WithAs("IS3")), core.MkReg("InU_3_1_Opt", godi.Transient, core.WithName("k2")))
		if m := core.NewModel(s); m.Class == core.ClsOK {
			return s, m
		}
	}
	if k%3 == 1 {
		// multi-output constructors, also with a grouped first output, in every lifetime
		s := &core.Spec{Regs: []core.Reg{
			core.MkReg("OutG_K0K1", godi.Scoped),
			core.MkReg("MR_S0S4", godi.Scoped, core.WithGroup("h")),
			core.MkReg("Leaf_K0_a", godi.Transient, core.WithGroup("g")),
			core.MkReg("PosA_2_2", godi.Scoped), // K2(K1)
			core.MkReg("Leaf_K0_b", godi.Singleton),
			core.MkReg("OutS_S1S5", godi.Singleton), // S1,S5 (K0)
			core.MkReg("MR_K0S0", godi.Transient, core.WithName("t")),
		}}
		m := core.NewModel(s)
		if m.Class != core.ClsOK {
			panic("harness fixture of C09 (multi-output stress spec) is not buildable: " + m.Class.String())
		}
		if k%2 == 1 {
			return s, m
		}
	}
	return core.GenSpec(rng, core.GenOpts{Want: core.ClsOK, Specials: k%2 == 0, MaxTypes: 7, OutGroup: k%4 == 0, MultiOpt: k%4 == 0, MultiAlias: k%4 == 2})
}

func runC09(c *eng.Ctx) {
	idxN := 0
	next := func() (int, bool) { i := idxN; idxN++; return i, c.Mine(i) }
	// godi's internal yield points (build tag verif) perturb the schedule between its critical sections
	rt.SetNoise(120)
	defer func() { rt.SetNoise(0); c.R.Count("internal_yield_points_passed", rt.YieldCount()) }()
	runC09Stress(c, next)
	runC09Sched(c, next)
	runC09SharedCode(c, next)
	runC09FaultedConstruction(c, next)
	runC09Raw(c, next)
	runC09ClosePanic(c, next)
	runC09NestedCreate(c, next)
	runC09Join(c, next)
	runRootHandle(c, "C09", next)
	runAgedProcess(c, "C09", next)
}

func runC09Stress(c *eng.Ctx, next func() (int, bool)) {
	n := c.Pick(300, 6000)
	for k := 0; k < n; k++ {
		idx, mine := next()
		if !mine {
			continue
		}
		rng := core.CaseRng(c.Seed, "C09", idx)
		s, m := stressSpec(rng, k)
		if s == nil {
			continue
		}
		c.R.Begin(idx)
		r := core.NewRun(s, m, nil, nil)
		r.Rec.SetHook(func(hp rt.HookPoint) {
			switch (hp.Nth + hp.Ctor) % 5 {
			case 0:
				runtime.Gosched()
			case 1:
				time.Sleep(time.Duration(5+hp.Ctor%40) * time.Microsecond)
			}
		})
		r.Build()
		if !r.Built {
			c.R.End(idx, eng.Hash("c09-unbuilt", s.Canon()), false)
			continue
		}
		small := k%4 == 3 // small programs are also checked with porcupine
		g := []int{4, 8, 16}[rng.Intn(3)]
		opsPer := 20 + rng.Intn(41)
		if small {
			g, opsPer = 2+rng.Intn(3), 3+rng.Intn(5)
		}
		// shared scopes
		shared := []int{0}
		for i := 0; i < 1+rng.Intn(3); i++ {
			res := r.Do(core.Op{Kind: core.OpCreate, Scope: shared[rng.Intn(len(shared))], CtxKind: rng.Intn(6)})
			if res.NewScope > 0 {
				shared = append(shared, res.NewScope)
			}
		}
		var idents []core.Op
		for ik := range m.Services {
			idents = append(idents, core.Op{Kind: core.OpGet, Type: ik.Type, Key: ik.Key})
		}
		for gk := range m.Groups {
			idents = append(idents, core.Op{Kind: core.OpGetGroup, Type: gk.Type, Group: gk.Group})
		}
		sort.Slice(idents, func(i, j int) bool {
			return idents[i].Type+"/"+idents[i].Key+"/"+idents[i].Group < idents[j].Type+"/"+idents[j].Key+"/"+idents[j].Group
		})
		idents = append(idents, core.Op{Kind: core.OpGet, Type: "S7", Key: "k2"}, core.Op{Kind: core.OpGet, Type: "Scope"}, core.Op{Kind: core.OpGet, Type: "Context"})
		closer := -1
		if rng.Intn(10) < 3 {
			closer = rng.Intn(g) // this goroutine closes the provider mid-run
		}
		client := map[int]int{}
		var cmu sync.Mutex
		start := make(chan struct{})
		var wg sync.WaitGroup
		for gi := 0; gi < g; gi++ {
			seed := rng.Int63()
			wg.Add(1)
			go func(gi int, seed int64) {
				defer wg.Done()
				grng := rand.New(rand.NewSource(seed))
				own := []int{}
				closeAt := -1
				if gi == closer {
					closeAt = opsPer/2 + grng.Intn(opsPer/2+1)
				}
				<-start
				do := func(op core.Op) core.OpResult {
					res := r.Do(op)
					cmu.Lock()
					client[res.Op] = gi + 1
					cmu.Unlock()
					return res
				}
				for i := 0; i < opsPer; i++ {
					if i == closeAt {
						do(core.Op{Kind: core.OpCloseProvider})
						continue
					}
					pickScope := func() int {
						if len(own) > 0 && grng.Intn(2) == 0 {
							return own[grng.Intn(len(own))]
						}
						return shared[grng.Intn(len(shared))]
					}
					switch x := grng.Intn(100); {
					case x < 62:
						op := idents[grng.Intn(len(idents))]
						op.Scope = pickScope()
						op.Generic = grng.Intn(4) == 0
						do(op)
					case x < 78:
						res := do(core.Op{Kind: core.OpCreate, Scope: pickScope(), CtxKind: grng.Intn(6)})
						if res.NewScope > 0 {
							own = append(own, res.NewScope)
						}
					case x < 90:
						if len(own) > 0 {
							sc := own[grng.Intn(len(own))]
							if h := r.ScopeHandle(sc); h != nil && h.Cancel != nil && grng.Intn(3) == 0 {
								do(core.Op{Kind: core.OpCancel, Scope: sc})
							} else {
								do(core.Op{Kind: core.OpClose, Scope: sc})
							}
						}
					case x < 94:
						if sc := shared[grng.Intn(len(shared))]; sc != 0 {
							do(core.Op{Kind: core.OpClose, Scope: sc})
						}
					default:
						runtime.Gosched()
					}
				}
			}(gi, seed)
		}
		done := make(chan struct{})
		go func() { wg.Wait(); close(done) }()
		close(start)
		if v := awaitOrDiagnose(done, 90*time.Second); !v.Done {
			if v.Deadlock {
				c.R.Violation(eng.Violation{Prop: "C09", Clause: "deadlock", Sig: "C09/deadlock:" + innermostGodiFn(v.Dump), Case: idx, CaseID: fmt.Sprintf("stress-%d", idx), Detail: fmt.Sprintf("stress program (%d goroutines x %d ops) did not finish; goroutines stuck inside godi in two samples 2 s apart:\n%s", g, opsPer, v.Dump)})
			} else {
				c.R.Inconclusive(idx, "stress program did not finish within the watchdog; no goroutine provably stuck inside godi")
			}
			c.R.Abandon(idx)
		}
		r.Rec.SetHook(nil)
		if !r.Poisoned {
			r.Finish()
		}
		o := core.Digest(r)
		fs := monConcurrent(r, o)
		pairs := overlappingPairs(r, client)
		c.R.Count("overlapping_op_pairs", int64(pairs))
		c.R.Count("stress_programs", 1)
		c.R.Count("stress_ops", int64(len(r.Ops)))
		c.R.Count("ctor_invocations", int64(len(o.Runs)))
		c.R.Count("close_events", int64(len(o.CloseOrder)))
		for i := range r.Results {
			c.R.Count("result_"+r.Results[i].Class, 1)
		}
		if small && !r.Poisoned {
			h := historyOf(r, func(op int) int { return client[op] })
			c.R.Count("porcupine_histories", 1)
			switch verdict, trace := checkLinearizable(h); verdict {
			case "illegal":
				fs = append(fs, core.Finding{Clause: "history-not-linearizable", Sig: "stress-small", Detail: "the recorded history is not linearizable against the scope-tree model:\n" + trace})
			case "unknown":
				c.R.Inconclusive(idx, "porcupine timed out")
			}
		}
		core.Report(c, "C09", idx, r, fs)
		if c.R.WantSample() && small {
			c.R.Sample(core.SampleOf(r, map[string]any{"kind": "stress", "goroutines": g, "ops_per_goroutine": opsPer, "overlapping_pairs": pairs}))
		}
		c.R.End(idx, eng.Hash("c09-stress", s.Canon(), g, opsPer, idx), pairs > 0)
	}
}

// ---- controlled interleavings ---------------------------------------------------------

// tokenSched lets exactly one program goroutine run at a time; every user-code callback and
// operation boundary is a yield point where a seeded choice decides who continues.
type tokenSched struct {
	mu      sync.Mutex
	rng     *rand.Rand
	turn    map[int64]chan struct{} // goid -> grant channel
	state   map[int64]string        // goid -> "waiting" (parked at a yield point) | "running" | "done" | "blocked"
	names   map[int64]int
	trace   []string
	report  chan int64 // a goroutine arrived at a yield point / finished
	blocked int
	free    bool // the scheduler has stopped: every further yield point passes through
}

func newTokenSched(rng *rand.Rand) *tokenSched {
	return &tokenSched{rng: rng, turn: map[int64]chan struct{}{}, state: map[int64]string{}, names: map[int64]int{}, report: make(chan int64, 64)}
}

// register is called by a program goroutine before it starts; it parks until granted.
func (t *tokenSched) register(name int) {
	g := rt.Goid()
	ch := make(chan struct{}, 1)
	t.mu.Lock()
	t.turn[g] = ch
	t.names[g] = name
	t.state[g] = "waiting"
	t.mu.Unlock()
	t.report <- g
	<-ch
}

// yield is called at every scheduling point by registered goroutines (others pass through).
func (t *tokenSched) yield(point string) {
	g := rt.Goid()
	t.mu.Lock()
	ch, ok := t.turn[g]
	if !ok || t.free {
		t.mu.Unlock()
		return
	}
	t.state[g] = "waiting"
	t.trace = append(t.trace, fmt.Sprintf("g%d@%s", t.names[g], point))
	t.mu.Unlock()
	t.report <- g
	<-ch
}

func (t *tokenSched) finish() {
	g := rt.Goid()
	t.mu.Lock()
	t.state[g] = "done"
	t.mu.Unlock()
	t.report <- g
}

// run drives the schedule until every goroutine is done; grace is how long the scheduler
// waits for the running goroutine to reach its next point before activating another one.
// It returns false when nothing can make progress (every live goroutine blocked).
func (t *tokenSched) run(n int, grace time.Duration, total time.Duration) bool {
	deadline := time.After(total)
	// wait for all registrations
	for reg := 0; reg < n; reg++ {
		select {
		case <-t.report:
		case <-deadline:
			return false
		}
	}
	running := int64(-1)
	for {
		t.mu.Lock()
		var waiting []int64
		live := 0
		for g, st := range t.state {
			if st != "done" {
				live++
			}
			if st == "waiting" {
				waiting = append(waiting, g)
			}
		}
		t.mu.Unlock()
		if live == 0 {
			return true
		}
		if running == -1 {
			if len(waiting) == 0 {
				// everything live is blocked inside godi: wait for a report or give up
				select {
				case <-t.report:
					continue
				case <-time.After(5 * time.Second):
					return false
				case <-deadline:
					return false
				}
			}
			sort.Slice(waiting, func(i, j int) bool { return t.names[waiting[i]] < t.names[waiting[j]] })
			pick := waiting[t.rng.Intn(len(waiting))]
			t.mu.Lock()
			t.state[pick] = "running"
			t.trace = append(t.trace, fmt.Sprintf("->g%d", t.names[pick]))
			ch := t.turn[pick]
			t.mu.Unlock()
			running = pick
			ch <- struct{}{}
		}
		select {
		case g := <-t.report:
			if g == running {
				running = -1
			}
			// a previously blocked goroutine arrived at a point: it is "waiting" now
		case <-time.After(grace):
			// the running goroutine is blocked inside godi (waiting for something a parked
			// goroutine holds): record it and activate another one
			t.mu.Lock()
			t.state[running] = "blocked"
			t.trace = append(t.trace, fmt.Sprintf("g%d:blocked", t.names[running]))
			t.blocked++
			t.mu.Unlock()
			running = -1
		case <-deadline:
			return false
		}
	}
}

func runC09Sched(c *eng.Ctx, next func() (int, bool)) {
	n := c.Pick(400, 20000)
	traces := map[string]bool{}
	programs := schedPrograms()
	for k := 0; k < n; k++ {
		idx, mine := next()
		if !mine {
			continue
		}
		rng := core.CaseRng(c.Seed, "C09s", idx)
		prog := programs[k%len(programs)]
		c.R.Begin(idx)
		s := c13Spec(prog.withInit)
		m := core.NewModel(s)
		r := core.NewRun(s, m, nil, nil)
		r.Build()
		if !r.Built {
			c.R.End(idx, eng.Hash("c09s-unbuilt"), false)
			continue
		}
		a := r.Do(core.Op{Kind: core.OpCreate, Scope: 0, CtxKind: 2}).NewScope
		b := r.Do(core.Op{Kind: core.OpCreate, Scope: a, CtxKind: 0}).NewScope
		scopeOf := map[string]int{"root": 0, "anc": a, "leaf": b}
		ts := newTokenSched(rng)
		r.Rec.SetHook(func(hp rt.HookPoint) { ts.yield(hp.Where) })
		client := map[int]int{}
		var cmu sync.Mutex
		var wg sync.WaitGroup
		for gi, ops := range prog.threads {
			wg.Add(1)
			go func(gi int, ops []schedOp) {
				defer wg.Done()
				ts.register(gi + 1)
				for _, so := range ops {
					op := so.op
					op.Scope = scopeOf[so.on]
					res := r.Do(op)
					cmu.Lock()
					client[res.Op] = gi + 1
					cmu.Unlock()
					ts.yield("op-end")
				}
				ts.finish()
			}(gi, ops)
		}
		ok := ts.run(len(prog.threads), 40*time.Millisecond, 60*time.Second)
		done := make(chan struct{})
		go func() { wg.Wait(); close(done) }()
		// the scheduler has stopped (schedule complete, or nothing could make progress within its
		// bounds - a goroutine that the machine left unscheduled for seconds looks like that too):
		// from here on every yield point passes through, and whoever is parked is released, so that
		// only goroutines that are really stuck inside godi stay behind
		ts.mu.Lock()
		ts.free = true
		for g, ch := range ts.turn {
			if ts.state[g] != "done" {
				select {
				case ch <- struct{}{}:
				default:
				}
			}
		}
		ts.mu.Unlock()
		if !ok {
			c.R.Count("controlled_schedules_released_early", 1)
		}
		r.Rec.SetHook(nil)
		if v := awaitOrDiagnose(done, 30*time.Second); !v.Done {
			if v.Deadlock {
				c.R.Violation(eng.Violation{Prop: "C09", Clause: "deadlock", Sig: "C09/deadlock:" + innermostGodiFn(v.Dump), Case: idx, CaseID: prog.name, Detail: fmt.Sprintf("program %s under schedule %s: goroutines stuck inside godi:\n%s", prog.name, strings.Join(ts.trace, " "), v.Dump)})
			} else {
				if os.Getenv("VERIF_DEBUG_DUMP") != "" {
					buf := make([]byte, 1<<21)
					n := runtime.Stack(buf, true)
					_ = os.WriteFile(fmt.Sprintf("/tmp/c09-inconclusive-%d.txt", idx), append([]byte(prog.name+" "+strings.Join(ts.trace, " ")+"\n\n"), buf[:n]...), 0o644)
				}
				c.R.Inconclusive(idx, "controlled schedule did not finish within the watchdog")
			}
			c.R.Abandon(idx)
		}
		if !r.Poisoned {
			r.Finish()
		}
		o := core.Digest(r)
		fs := monConcurrent(r, o)
		if !r.Poisoned {
			h := historyOf(r, func(op int) int { return client[op] })
			c.R.Count("porcupine_histories", 1)
			switch verdict, trace := checkLinearizable(h); verdict {
			case "illegal":
				fs = append(fs, core.Finding{Clause: "history-not-linearizable", Sig: "sched:" + prog.name, Detail: fmt.Sprintf("program %s, schedule %s: history not linearizable against the scope-tree model:\n%s", prog.name, strings.Join(ts.trace, " "), trace)})
			case "unknown":
				c.R.Inconclusive(idx, "porcupine timed out")
			}
		}
		core.Report(c, "C09", idx, r, fs)
		tr := prog.name + ":" + strings.Join(ts.trace, " ")
		c.R.Count("schedules", 1)
		c.R.Count("sched_blocked_inside_godi", int64(ts.blocked))
		if !traces[tr] {
			traces[tr] = true
			c.R.Count("distinct_schedule_traces", 1)
		}
		pairs := overlappingPairs(r, client)
		c.R.Count("overlapping_op_pairs", int64(pairs))
		if c.R.WantSample() && pairs > 0 {
			c.R.Sample(core.SampleOf(r, map[string]any{"kind": "controlled-schedule", "program": prog.name, "schedule": strings.Join(ts.trace, " ")}))
		}
		c.R.End(idx, eng.Hash("c09-sched", tr), pairs > 0)
	}
}

type schedOp struct {
	op core.Op
	on string // root | anc | leaf
}

type schedProgram struct {
	name     string
	withInit bool
	threads  [][]schedOp
}

func schedPrograms() []schedProgram {
	get := func(t, on string) schedOp { return schedOp{core.Op{Kind: core.OpGet, Type: t}, on} }
	grp := func(on string) schedOp { return schedOp{core.Op{Kind: core.OpGetGroup, Type: "S0", Group: "g"}, on} }
	create := func(on string, ctx int) schedOp { return schedOp{core.Op{Kind: core.OpCreate, CtxKind: ctx}, on} }
	closeOp := func(on string) schedOp { return schedOp{core.Op{Kind: core.OpClose}, on} }
	cancel := func(on string) schedOp { return schedOp{core.Op{Kind: core.OpCancel}, on} }
	closeProv := schedOp{core.Op{Kind: core.OpCloseProvider}, "root"}
	return []schedProgram{
		{"same-scoped-twice", false, [][]schedOp{{get("K3", "leaf"), get("S2", "leaf")}, {get("K3", "leaf"), get("S2", "leaf")}}},
		{"scoped-vs-close", false, [][]schedOp{{get("K3", "leaf"), get("K2", "leaf")}, {closeOp("leaf")}}},
		{"group-vs-ancestor-close", false, [][]schedOp{{grp("leaf"), get("S2", "leaf")}, {closeOp("anc")}}},
		{"create-vs-close", true, [][]schedOp{{create("leaf", 0), get("K3", "leaf")}, {closeOp("leaf")}}},
		{"create-vs-provider-close", true, [][]schedOp{{create("root", 1), get("K2", "anc")}, {closeProv}}},
		{"three-way", true, [][]schedOp{{get("K3", "leaf"), create("leaf", 2)}, {get("K3", "leaf"), closeOp("anc")}, {grp("anc"), closeProv}}},
		{"cancel-vs-resolve", false, [][]schedOp{{get("K3", "leaf"), get("K3", "anc")}, {cancel("anc")}}},
		{"double-close", false, [][]schedOp{{get("K3", "leaf"), closeOp("leaf")}, {get("S2", "leaf"), closeOp("leaf")}, {closeOp("anc")}}},
		{"provider-get-vs-close", false, [][]schedOp{{get("K3", "root"), get("K2", "root")}, {closeProv}, {get("S2", "root")}}},
	}
}

// beforeClose returns a copy of the digest restricted, per scope, to the constructor runs
// and deliveries that completed before the first Close / cancel / provider.Close affecting
// that scope was called.
func beforeClose(r *core.Run, o *core.Obs) *core.Obs {
	closeStart := map[int]int64{} // scope -> call seq of the first closing op
	note := func(scope int, seq int64) {
		if cur, ok := closeStart[scope]; !ok || seq < cur {
			closeStart[scope] = seq
		}
	}
	for i := range r.Results {
		res := &r.Results[i]
		op := r.Ops[res.Op]
		if res.Call == 0 {
			continue
		}
		switch op.Kind {
		case core.OpCloseProvider:
			for sc := range r.Scopes {
				note(sc, res.Call)
			}
		case core.OpClose, core.OpCancel:
			for sc := 1; sc < len(r.Scopes); sc++ {
				for a := sc; a > 0; a = r.Scopes[a].Parent {
					if a == op.Scope {
						note(sc, res.Call)
						break
					}
				}
			}
		}
	}
	alive := func(scope int, seq int64) bool {
		cs, ok := closeStart[scope]
		return !ok || seq < cs
	}
	f := &core.Obs{Events: o.Events, RunsByReg: map[int][]*core.CtorRun{}, Produced: o.Produced, Closes: o.Closes, CloseOrder: o.CloseOrder, Decoys: o.Decoys, OpCall: o.OpCall, OpRet: o.OpRet}
	keep := map[*core.CtorRun]bool{}
	for _, run := range o.Runs {
		if run.ExitSeq != 0 && run.Scope >= 0 && !alive(run.Scope, run.ExitSeq) {
			continue
		}
		keep[run] = true
		f.Runs = append(f.Runs, run)
		f.RunsByReg[run.Reg] = append(f.RunsByReg[run.Reg], run)
	}
	keptAt := map[[2]int]bool{}
	for run := range keep {
		keptAt[[2]int{run.Reg, run.Nth}] = true
	}
	for _, d := range o.Deliveries {
		sc := d.Scope
		if !d.Direct && !keptAt[[2]int{d.Consumer, d.RunNth}] {
			continue // its consumer finished after the scope's close began
		}
		if sc >= 0 && !alive(sc, d.Seq) {
			continue
		}
		if p, ok := o.Produced[d.Inst]; ok && p.Run != nil && !keep[p.Run] {
			continue
		}
		f.Deliveries = append(f.Deliveries, d)
	}
	return f
}
