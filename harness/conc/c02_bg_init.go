package conc

import (
	"fmt"
	"sync"
	"time"

	"github.com/junioryono/godi/v4"
	"github.com/junioryono/godi/v4/verifh/eng"
	"github.com/junioryono/godi/v4/verifh/rt"
)

// A scope is reachable while it is being created: every initializer (and every constructor run
// for one) may take godi.Scope and hand it to a goroutine. Here the first initializer of a scope
// starts a background job that resolves, from that half-built scope, a scoped service with an
// ordering dependency on a NAMED initializer which the creation loop has not reached yet. The
// job is held inside that initializer until the creating goroutine arrives at it (seen at the
// container's own instrumentation point, or - if the container runs it again - by the second
// entry). "Initializer functions run exactly once, when the scope is created ... however many
// goroutines resolve concurrently": one run per scope, and one construction of the dependent
// service.

type bgWorld struct {
	mu       sync.Mutex
	armed    bool
	creator  int64
	scope    string
	runs     map[string]int // scope id -> runs of "migrate"
	jobs     map[string]int // scope id -> constructions of the job
	entered  chan struct{}
	release  chan struct{}
	jobDone  chan struct{}
	relOnce  sync.Once
	entOnce  sync.Once
	fallback int
	overlap  bool
}

var (
	bgMu  sync.Mutex
	bgCur *bgWorld
)

func bgWorldNow() *bgWorld {
	bgMu.Lock()
	defer bgMu.Unlock()
	return bgCur
}

type bgJob struct{ n int }
type bgJobIn struct {
	godi.In
	Migrated struct{} `name:"migrate"`
	Scope    godi.Scope
}

func bgNewJob(in bgJobIn) *bgJob {
	w := bgWorldNow()
	if w == nil {
		return &bgJob{}
	}
	w.mu.Lock()
	defer w.mu.Unlock()
	w.jobs[in.Scope.ID()]++
	return &bgJob{w.jobs[in.Scope.ID()]}
}

func bgStart(s godi.Scope) {
	w := bgWorldNow()
	if w == nil {
		return
	}
	w.mu.Lock()
	armed := w.armed
	w.armed = false
	if armed {
		w.creator = rt.Goid()
		w.scope = s.ID()
	}
	w.mu.Unlock()
	if !armed {
		return
	}
	go func() {
		defer close(w.jobDone)
		_, _ = godi.Resolve[*bgJob](s)
	}()
	select {
	case <-w.entered:
	case <-w.jobDone: // the named initializer had run already (it was registered first)
	case <-time.After(5 * time.Second):
		w.mu.Lock()
		w.fallback++
		w.mu.Unlock()
	}
}

func bgMigrate(s godi.Scope) {
	w := bgWorldNow()
	if w == nil {
		return
	}
	w.mu.Lock()
	w.runs[s.ID()]++
	n := w.runs[s.ID()]
	mine := s.ID() == w.scope && w.scope != ""
	byJob := rt.Goid() != w.creator
	w.mu.Unlock()
	if !mine {
		return
	}
	if n >= 2 {
		w.relOnce.Do(func() { close(w.release) })
		return
	}
	if byJob {
		w.entOnce.Do(func() { close(w.entered) })
		select {
		case <-w.release:
			w.mu.Lock()
			w.overlap = true
			w.mu.Unlock()
		case <-time.After(5 * time.Second):
			w.mu.Lock()
			w.fallback++
			w.mu.Unlock()
		}
	}
}

func runC02BackgroundDuringCreation(c *eng.Ctx, next func() (int, bool)) {
	variants := c.Pick(6, 36)
	for k := 0; k < variants; k++ {
		idx, mine := next()
		if !mine {
			continue
		}
		c.R.Begin(idx)
		child := k%2 == 1
		reversed := k%3 == 2 // control: the named initializer is registered (and run) first
		feat := "provider.CreateScope"
		if child {
			feat = "scope.CreateScope"
		}
		viol := func(clause, sig, detail string) {
			c.R.Violation(eng.Violation{Prop: "C02", Clause: clause, Sig: "C02/" + clause + ":" + sig, Case: idx, CaseID: fmt.Sprintf("background-during-creation-%d", k), Detail: detail,
				Replay: map[string]any{"fixture": "background-during-creation", "variant": k}})
		}
		w := &bgWorld{runs: map[string]int{}, jobs: map[string]int{}, entered: make(chan struct{}), release: make(chan struct{}), jobDone: make(chan struct{})}
		bgMu.Lock()
		bgCur = w
		bgMu.Unlock()
		rt.SetRawYield(func(point string) {
			if point != "scope.resolve:scoped-cache-miss" {
				return
			}
			select {
			case <-w.entered:
			default:
				return
			}
			w.mu.Lock()
			isCreator := rt.Goid() == w.creator
			w.mu.Unlock()
			if isCreator {
				w.relOnce.Do(func() { close(w.release) })
			}
		})
		func() {
			defer func() {
				if p := recover(); p != nil {
					viol("panic", "background-during-creation", fmt.Sprintf("panic: %v", p))
				}
			}()
			coll := godi.NewCollection()
			regs := []func() error{
				func() error { return coll.AddScoped(bgStart) },
				func() error { return coll.AddScoped(bgMigrate, godi.Name("migrate")) },
				func() error { return coll.AddScoped(bgNewJob) },
			}
			if reversed {
				regs[0], regs[1] = regs[1], regs[0]
			}
			for _, add := range regs {
				if err := add(); err != nil {
					c.R.Inconclusive(idx, "fixture registration refused: "+err.Error())
					return
				}
			}
			prov, err := coll.Build()
			if err != nil {
				c.R.Inconclusive(idx, "fixture does not build: "+err.Error())
				return
			}
			defer prov.Close()
			var parent godi.Provider = prov
			if child {
				p, err := prov.CreateScope(nil)
				if err != nil {
					c.R.Inconclusive(idx, "scope creation failed")
					return
				}
				parent = p
			}
			w.mu.Lock()
			w.armed = true
			w.mu.Unlock()
			done := make(chan struct{})
			var sc godi.Scope
			var cerr error
			go func() { defer close(done); sc, cerr = parent.CreateScope(nil) }()
			if v := awaitOrDiagnose(done, 60*time.Second); !v.Done {
				c.R.Inconclusive(idx, "scope creation with a background job did not finish within the watchdog")
				c.R.Abandon(idx)
				return
			}
			if cerr != nil {
				viol("scope-creation-failed", "background-job-during-creation:"+feat, fmt.Sprintf("%s failed although every initializer succeeded: %v", feat, cerr))
				return
			}
			select {
			case <-w.jobDone:
			case <-time.After(30 * time.Second):
				c.R.Inconclusive(idx, "the background job did not finish")
				return
			}
			j1, e1 := godi.Resolve[*bgJob](sc)
			j2, e2 := godi.Resolve[*bgJob](sc)
			_, _ = sc.GetKeyed(unitT, "migrate")
			w.mu.Lock()
			defer w.mu.Unlock()
			id := sc.ID()
			if w.fallback > 0 {
				c.R.Count("background_during_creation_steering_fallbacks", int64(w.fallback))
			}
			if w.overlap {
				c.R.Count("background_during_creation_overlaps", 1)
			}
			if n := w.runs[id]; n != 1 {
				viol("initializer-count", "addressable-initializer:migrate:resolved-by-a-goroutine-started-during-scope-creation:"+feat,
					fmt.Sprintf("%s: the first initializer of the scope started a goroutine that resolved a service depending on the named initializer \"migrate\" while the scope was still being created; \"migrate\" ran %d times for scope %s (want exactly once)", feat, n, id))
			}
			if e1 != nil || e2 != nil || j1 != j2 || w.jobs[id] != 1 {
				viol("two-constructions-in-one-scope", "scoped:resolved-by-a-goroutine-started-during-scope-creation:"+feat,
					fmt.Sprintf("%s: the scoped service resolved by the background job was constructed %d times for scope %s (resolutions afterwards: %v %v, same instance: %v)", feat, w.jobs[id], id, e1, e2, j1 == j2))
			}
			c.R.Count("background_during_creation_cases", 1)
		}()
		rt.SetRawYield(nil)
		bgMu.Lock()
		bgCur = nil
		bgMu.Unlock()
		c.R.End(idx, eng.Hash("c02-bg-creation", k), true)
	}
}
