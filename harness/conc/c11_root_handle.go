package conc

import (
	"context"
	"fmt"
	"sync"
	"time"

	"github.com/junioryono/godi/v4"
	"github.com/junioryono/godi/v4/verifh/core"
	"github.com/junioryono/godi/v4/verifh/eng"
)

// The provider's root scope has a second door: Resolve[godi.Scope](provider) (or a godi.Scope
// parameter of a singleton) hands out the root scope itself, Close method included.
//
//	two-goroutines   goroutine A closes the root scope through that handle and is inside the Close
//	                 method of a root-scoped instance (which received a singleton) when goroutine B
//	                 calls provider.Close: the singleton is not disposed while the instance that
//	                 holds it is still closing ("every scope before any singleton").
//	re-entrant       root.Close() runs supervisor.Close(), which closes the provider: the older
//	                 root-scoped worker is closed before the singleton it received.

type rhPool struct{ w *rhWorld }
type rhSession struct {
	w    *rhWorld
	pool *rhPool
	name string
}
type rhSupervisor struct {
	w *rhWorld
	p godi.Provider
}

type rhWorld struct {
	mu      sync.Mutex
	log     []string
	entered chan struct{}
	release chan struct{}
	block   bool
}

var (
	rhMu  sync.Mutex
	rhCur *rhWorld
)

func rhGet() *rhWorld { rhMu.Lock(); defer rhMu.Unlock(); return rhCur }

func (w *rhWorld) note(s string) { w.mu.Lock(); w.log = append(w.log, s); w.mu.Unlock() }

func (p *rhPool) Close() error { p.w.note("pool"); return nil }
func (s *rhSession) Close() error {
	s.w.note(s.name + ":begin")
	if s.w.block {
		close(s.w.entered)
		<-s.w.release
	}
	s.w.note(s.name + ":end")
	return nil
}
func (s *rhSupervisor) Close() error {
	s.w.note("supervisor:begin")
	_ = s.p.Close()
	s.w.note("supervisor:end")
	return nil
}

func rhNewPool() *rhPool                            { return &rhPool{rhGet()} }
func rhNewSession(p *rhPool) *rhSession             { return &rhSession{rhGet(), p, "session"} }
func rhNewSupervisor(p godi.Provider) *rhSupervisor { return &rhSupervisor{rhGet(), p} }

func runRootHandle(c *eng.Ctx, prop string, next func() (int, bool)) {
	variants := []string{"two-goroutines", "re-entrant"}
	if prop == "C09" {
		variants = variants[:1]
	}
	for _, variant := range variants {
		idx, mine := next()
		if !mine {
			continue
		}
		c.R.Begin(idx)
		viol := func(clause, detail string) {
			c.R.Violation(eng.Violation{Prop: prop, Clause: clause, Sig: prop + "/" + clause + ":root-scope-closed-through-its-handle:" + variant, Case: idx, CaseID: "root-handle-" + variant,
				Detail: variant + ": " + detail, Replay: map[string]any{"fixture": "root-scope-handle", "variant": variant}})
		}
		w := &rhWorld{entered: make(chan struct{}), release: make(chan struct{}), block: variant == "two-goroutines"}
		rhMu.Lock()
		rhCur = w
		rhMu.Unlock()
		must := func(err error) {
			if err != nil {
				panic("root-handle fixture: " + err.Error())
			}
		}
		coll := godi.NewCollection()
		must(coll.AddSingleton(rhNewPool))
		must(coll.AddScoped(rhNewSession))
		must(coll.AddScoped(rhNewSupervisor))
		prov, err := coll.Build()
		must(err)
		root, err := godi.Resolve[godi.Scope](prov)
		must(err)
		_, err = godi.Resolve[*rhSession](prov) // lives in the root scope, holds the pool
		must(err)
		var wg sync.WaitGroup
		if variant == "two-goroutines" {
			wg.Add(1)
			go func() { defer wg.Done(); _ = root.Close() }()
			select {
			case <-w.entered:
			case <-time.After(20 * time.Second):
				c.R.Inconclusive(idx, "the root scope's Close did not reach the instance within the bound")
				close(w.release)
				c.R.Abandon(idx)
				continue
			}
			wg.Add(1)
			provDone := make(chan struct{})
			go func() { defer wg.Done(); defer close(provDone); _ = prov.Close() }()
			// steering only: give provider.Close the time to get as far as it can
			select {
			case <-provDone:
			case <-time.After(150 * time.Millisecond):
			}
			close(w.release)
		} else {
			_, err = godi.Resolve[*rhSupervisor](prov) // created after the session: closed first
			must(err)
			wg.Add(1)
			go func() { defer wg.Done(); _ = root.Close() }()
		}
		done := make(chan struct{})
		go func() { wg.Wait(); close(done) }()
		if v := awaitOrDiagnose(done, 30*time.Second); !v.Done {
			c.R.Inconclusive(idx, "root-handle case did not finish within the watchdog (a hang here is C12's / C13's to report)")
			c.R.Abandon(idx)
			continue
		}
		_ = prov.Close()
		w.mu.Lock()
		log := append([]string(nil), w.log...)
		w.mu.Unlock()
		pos := map[string]int{}
		for i, e := range log {
			if _, dup := pos[e]; !dup {
				pos[e] = i
			}
		}
		pi, okP := pos["pool"]
		se, okS := pos["session:end"]
		switch {
		case !okP || !okS:
			if prop == "C11" {
				viol("close-missing", fmt.Sprintf("close log %v: the session / the pool was never closed", log))
			}
		case pi < se:
			viol("singleton-closed-before-root-scope-instance", fmt.Sprintf("the singleton pool was disposed while the root-scoped session that holds it was still open / closing (close log %v)", log))
		}
		c.R.Count("root_handle_cases", 1)
		c.R.End(idx, eng.Hash("root-handle", prop, variant), true)
	}
}

func init() {
	core.C11RootHandle = func(c *eng.Ctx, next func() (int, bool)) {
		runRootHandle(c, "C11", next)
		runRootHandleChildren(c, "C11", next)
	}
}

// runRootHandleChildren: scopes created ON the root scope handle (root.CreateScope, and a scope
// below that one) are its descendants like the children of any other scope: closing the root
// scope through its handle disposes them - deepest first - before the root scope disposes its
// own instances (C11), and afterwards they report the disposed error (C13).
func runRootHandleChildren(c *eng.Ctx, prop string, next func() (int, bool)) {
	for _, ctxKind := range []string{"nil-context", "own-context"} {
		idx, mine := next()
		if !mine {
			continue
		}
		c.R.Begin(idx)
		viol := func(clause, detail string) {
			c.R.Violation(eng.Violation{Prop: prop, Clause: clause, Sig: prop + "/" + clause + ":scopes-created-on-the-root-scope-handle:" + ctxKind, Case: idx, CaseID: "root-handle-children-" + ctxKind,
				Detail: ctxKind + ": " + detail, Replay: map[string]any{"fixture": "root-scope-handle-children", "context": ctxKind}})
		}
		func() {
			defer func() {
				if p := recover(); p != nil {
					viol("panic", fmt.Sprintf("panic: %v", p))
				}
			}()
			w := &rhWorld{entered: make(chan struct{}), release: make(chan struct{})}
			rhMu.Lock()
			rhCur = w
			rhMu.Unlock()
			var mu sync.Mutex
			n := 0
			coll := godi.NewCollection()
			if err := coll.AddSingleton(rhNewPool); err != nil {
				panic(err)
			}
			if err := coll.AddScoped(func(p *rhPool) *rhSession {
				mu.Lock()
				defer mu.Unlock()
				n++
				return &rhSession{rhGet(), p, fmt.Sprintf("s%d", n)}
			}); err != nil {
				panic(err)
			}
			prov, err := coll.Build()
			if err != nil {
				panic(err)
			}
			root, err := godi.Resolve[godi.Scope](prov)
			if err != nil {
				panic(err)
			}
			mk := func(parent godi.Scope) godi.Scope {
				var s godi.Scope
				var err error
				if ctxKind == "nil-context" {
					s, err = parent.CreateScope(nil)
				} else {
					s, err = parent.CreateScope(context.Background())
				}
				if err != nil {
					panic(err)
				}
				return s
			}
			child := mk(root)
			grand := mk(child)
			for _, s := range []godi.Scope{root, child, grand} { // s1 in the root scope, s2, s3 below
				if _, err := godi.Resolve[*rhSession](s); err != nil {
					panic(err)
				}
			}
			done := make(chan struct{})
			go func() { defer close(done); _ = root.Close() }()
			if v := awaitOrDiagnose(done, 30*time.Second); !v.Done {
				c.R.Inconclusive(idx, "closing the root scope handle did not finish within the watchdog")
				c.R.Abandon(idx)
				return
			}
			w.mu.Lock()
			log := append([]string(nil), w.log...)
			w.mu.Unlock()
			var ends []string
			for _, e := range log {
				if len(e) > 4 && e[len(e)-4:] == ":end" {
					ends = append(ends, e[:len(e)-4])
				}
			}
			if prop == "C11" {
				if got := fmt.Sprint(ends); got != "[s3 s2 s1]" {
					viol("descendant-instance-closed-after-ancestor-instance", fmt.Sprintf("root.Close() (the handle Resolve[godi.Scope](provider) returns) disposed %v; the root scope owns s1, a scope created on it owns s2 and a scope below that one s3: want [s3 s2 s1], all of them, descendants first", ends))
				}
			} else {
				for name, s := range map[string]godi.Scope{"the scope created on the root scope handle": child, "its child": grand} {
					if _, err := godi.Resolve[*rhSession](s); err == nil {
						viol("descendant-survives-close", name+" still resolves after root.Close() has returned")
					}
				}
			}
			_ = prov.Close()
			c.R.Count("root_handle_children_cases", 1)
		}()
		c.R.End(idx, eng.Hash("root-handle-children", prop, ctxKind), true)
	}
}
