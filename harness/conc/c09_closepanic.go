package conc

import (
	"fmt"
	"sync"
	"time"

	"github.com/junioryono/godi/v4"
	"github.com/junioryono/godi/v4/verifh/core"
	"github.com/junioryono/godi/v4/verifh/eng"
	"github.com/junioryono/godi/v4/verifh/pool"
	"github.com/junioryono/godi/v4/verifh/rt"
)

// A Close method that panics.
//
// A panic out of a user's Close (recovered further up, e.g. by a recovery middleware that sits
// outside the scope middleware) is a bug in user code - what it does to the instances is not
// judged here. What is judged is the container's own liveness: every other closer of that scope
// (a concurrent Close, the context watcher, the parent's Close, provider.Close), concurrent or
// later, still returns - no goroutine is left waiting for a Close that will never finish.
func runC09ClosePanic(c *eng.Ctx, next func() (int, bool)) {
	spec := &core.Spec{Regs: []core.Reg{
		core.MkReg("Leaf_K0_a", godi.Singleton),
		core.MkReg("Leaf_K1_a", godi.Scoped),
		core.MkReg("PosB_2_2", godi.Scoped), // K2(K1)
		core.MkReg("Leaf_S0_a", godi.Transient),
	}}
	m := core.NewModel(spec)
	if m.Class != core.ClsOK {
		panic("harness fixture of runC09ClosePanic is not buildable: " + m.Class.String())
	}
	victims := []string{"Leaf_K1_a", "PosB_2_2", "Leaf_S0_a"}
	for vi, victim := range victims {
		for _, where := range []string{"leaf", "child-of-closed-parent", "top-level-vs-provider"} {
			for _, concurrent := range []bool{false, true} {
				idx, mine := next()
				if !mine {
					continue
				}
				c.R.Begin(idx)
				feat := fmt.Sprintf("%s:%s:concurrent=%v", where, []string{"scoped-leaf", "scoped-dependent", "transient"}[vi], concurrent)
				r := core.NewRun(spec, m, nil, []rt.CloseFault{{Ctor: pool.ByName(victim).ID, Nth: 2, Out: 0, Panic: true}}) // invocation 1 belongs to the warm-up scope
				r.Build()
				if !r.Built {
					c.R.End(idx, eng.Hash("c09-closepanic-unbuilt"), false)
					continue
				}
				warm := r.Do(core.Op{Kind: core.OpCreate, Scope: 0, CtxKind: 1}).NewScope
				core.ProbeRegistered(r, warm)
				r.Do(core.Op{Kind: core.OpClose, Scope: warm})
				parent := r.Do(core.Op{Kind: core.OpCreate, Scope: 0, CtxKind: 2}).NewScope
				target := parent
				if where != "top-level-vs-provider" {
					target = r.Do(core.Op{Kind: core.OpCreate, Scope: parent, CtxKind: 0}).NewScope
				}
				core.ProbeRegistered(r, target)
				// closer 1 panics inside the victim's Close (recovered by the executor)
				closer1 := core.Op{Kind: core.OpClose, Scope: target}
				others := []core.Op{{Kind: core.OpClose, Scope: target}}
				switch where {
				case "child-of-closed-parent":
					others = append(others, core.Op{Kind: core.OpClose, Scope: parent})
				case "top-level-vs-provider":
					// the cancel wakes godi's watcher goroutine, which closes the scope: only after
					// closer 1 has taken the Close (and panicked) - a user Close that panics on the
					// watcher goroutine has nobody to recover it and would end the process, which
					// is the user code's doing, not the container's
					if !concurrent {
						others = append(others, core.Op{Kind: core.OpCancel, Scope: parent})
					}
				}
				others = append(others, core.Op{Kind: core.OpCloseProvider})
				var wg sync.WaitGroup
				run := func(op core.Op) { defer wg.Done(); r.Do(op) }
				if concurrent {
					wg.Add(1 + len(others))
					go run(closer1)
					for _, op := range others {
						go run(op)
					}
				} else {
					wg.Add(1)
					go run(closer1)
					wg.Wait()
					wg.Add(len(others))
					go func() {
						for _, op := range others {
							run(op)
						}
					}()
				}
				done := make(chan struct{})
				go func() { wg.Wait(); close(done) }()
				panicked := false
				if v := awaitOrDiagnose(done, 20*time.Second); !v.Done {
					if v.Deadlock {
						c.R.Violation(eng.Violation{Prop: "C09", Clause: "deadlock", Sig: "C09/deadlock:after-panicking-Close:" + innermostGodiFn(v.Dump), Case: idx, CaseID: "close-panic-" + feat,
							Detail: fmt.Sprintf("a Disposable panicked inside scope.Close (%s); the other closers of that scope / its parent / the provider never returned:\n%s", feat, v.Dump)})
					} else {
						c.R.Inconclusive(idx, "close-panic case did not finish within the watchdog")
					}
					c.R.Abandon(idx)
				} else {
					for i := range r.Results {
						if r.Results[i].Class == "PANIC" {
							panicked = true
						}
					}
				}
				c.R.Count("close_panic_cases", 1)
				if panicked {
					c.R.Count("close_panics_observed", 1)
				}
				c.R.End(idx, eng.Hash("c09-closepanic", feat), panicked)
			}
		}
	}
}
