package conc

import (
	"context"
	"fmt"
	"sort"
	"sync"

	"github.com/junioryono/godi/v4"
	"github.com/junioryono/godi/v4/verifh/eng"
)

// A scope that is created while Build is still running.
//
// A singleton constructor that takes the Provider may open a scope of its own - a background
// worker's long-lived scope, a warm-up pass - and keep it. It is a scope like any other:
// "initializer functions that return nothing run exactly once, when the scope is created".

type bsWorld struct {
	mu   sync.Mutex
	runs map[string]int // scope id -> runs of the initializer
}

var (
	bsMu  sync.Mutex
	bsCur *bsWorld
)

func bsGet() *bsWorld { bsMu.Lock(); defer bsMu.Unlock(); return bsCur }

type bsWorker struct {
	sc  godi.Scope
	err error
}

func bsNewWorker(p godi.Provider) *bsWorker {
	sc, err := p.CreateScope(context.Background())
	return &bsWorker{sc, err}
}

func bsInit(sc godi.Scope) {
	w := bsGet()
	w.mu.Lock()
	w.runs[sc.ID()]++
	w.mu.Unlock()
}

func runC02BuildTimeScope(c *eng.Ctx, next func() (int, bool)) {
	for k := 0; k < 2; k++ {
		idx, mine := next()
		if !mine {
			continue
		}
		c.R.Begin(idx)
		feat := []string{"initializer-registered-first", "worker-registered-first"}[k]
		viol := func(clause, detail string) {
			c.R.Violation(eng.Violation{Prop: "C02", Clause: clause, Sig: "C02/" + clause + ":scope-created-by-a-singleton-constructor-during-Build:" + feat, Case: idx, CaseID: "build-time-scope-" + feat, Detail: detail,
				Replay: map[string]any{"fixture": "c02-build-time-scope", "variant": feat}})
		}
		w := &bsWorld{runs: map[string]int{}}
		bsMu.Lock()
		bsCur = w
		bsMu.Unlock()
		func() {
			defer func() {
				if p := recover(); p != nil {
					viol("panic", fmt.Sprintf("panic: %v", p))
				}
			}()
			coll := godi.NewCollection()
			adds := []func() error{
				func() error { return coll.AddScoped(bsInit) },
				func() error { return coll.AddSingleton(bsNewWorker) },
			}
			if k == 1 {
				adds[0], adds[1] = adds[1], adds[0]
			}
			for _, add := range adds {
				if err := add(); err != nil {
					panic("c02 build-time scope fixture: registration refused: " + err.Error())
				}
			}
			prov, err := coll.Build()
			if err != nil {
				c.R.Inconclusive(idx, "fixture does not build: "+err.Error())
				return
			}
			defer prov.Close()
			worker, err := godi.Resolve[*bsWorker](prov)
			if err != nil || worker.err != nil || worker.sc == nil {
				c.R.Inconclusive(idx, fmt.Sprintf("the singleton constructor could not create its scope during Build: %v / %v", err, worker))
				return
			}
			later, err := prov.CreateScope(nil)
			if err != nil {
				panic("c02 build-time scope fixture: CreateScope: " + err.Error())
			}
			// both scopes are in use afterwards
			_, e1 := godi.Resolve[*bsWorker](worker.sc)
			_, e2 := godi.Resolve[*bsWorker](later)
			if e1 != nil || e2 != nil {
				viol("registered-identity-fails", fmt.Sprintf("resolving the singleton from the scopes: %v / %v", e1, e2))
			}
			rootID := ""
			if root, err := godi.Resolve[godi.Scope](prov); err == nil {
				rootID = root.ID()
			}
			w.mu.Lock()
			defer w.mu.Unlock()
			var bad []string
			for _, s := range []struct {
				name string
				id   string
			}{{"the scope created during Build", worker.sc.ID()}, {"a scope created after Build", later.ID()}, {"the root scope", rootID}} {
				if s.id == "" {
					continue
				}
				if n := w.runs[s.id]; n != 1 {
					bad = append(bad, fmt.Sprintf("%s: %d runs", s.name, n))
				}
			}
			sort.Strings(bad)
			if len(bad) > 0 {
				viol("initializer-count", fmt.Sprintf("AddScoped(func(godi.Scope){...}) must run exactly once per scope, when the scope is created: %v", bad))
			}
			c.R.Count("build_time_scope_cases", 1)
		}()
		c.R.End(idx, eng.Hash("c02-build-time-scope", k), true)
	}
}
