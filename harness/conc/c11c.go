package conc

import (
	"fmt"
	"sync"
	"time"

	"github.com/junioryono/godi/v4"
	"github.com/junioryono/godi/v4/verifh/core"
	"github.com/junioryono/godi/v4/verifh/eng"
	"github.com/junioryono/godi/v4/verifh/rt"
)

func init() { core.C11Concurrent = runC11Concurrent }

// runC11Concurrent: closer1 (leaf.Close, or the leaf's context watcher after a cancel) is parked
// inside the j-th disposable Close it performs; closer2 (parent.Close / grandparent.Close /
// provider.Close) is issued from another goroutine; then closer1 is released. The C11 order
// rules (descendants completely before the ancestor's own instances, every scope before any
// singleton, reverse creation order per owner) must hold over the recorded sequence numbers.
func runC11Concurrent(c *eng.Ctx, next func() (int, bool)) {
	spec := &core.Spec{Regs: []core.Reg{
		core.MkReg("Leaf_K0_a", godi.Singleton),
		core.MkReg("PosA_1_1", godi.Singleton),                    // K1(K0)
		core.MkReg("PosB_2_3", godi.Scoped),                       // K2(K0,K1)
		core.MkReg("PosA_3_4", godi.Scoped),                       // K3(K2)
		core.MkReg("Leaf_S0_a", godi.Transient),                   // transient disposable
		core.MkReg("Leaf_S1_a", godi.Scoped, core.WithGroup("g")), // group members
		core.MkReg("Leaf_S1_b", godi.Scoped, core.WithGroup("g")),
	}}
	m := core.NewModel(spec)
	if m.Class != core.ClsOK {
		return
	}
	closers2 := []string{"parent", "grandparent", "provider"}
	leafCtx := []int{1, 0, 5, 2} // own background / inherited / derived+cancellable / cancellable
	reps := c.Pick(1, 4)
	for rep := 0; rep < reps; rep++ {
		for _, lc := range leafCtx {
			for _, c2 := range closers2 {
				for _, viaCancel := range []bool{false, true} {
					if viaCancel && (lc == 0 || lc == 1) {
						continue // no caller-owned cancel function
					}
					// number of disposable closes the leaf performs: K2, K3, S0, S1a, S1b = 5
					for j := 1; j <= 5; j++ {
						idx, mine := next()
						if !mine {
							continue
						}
						c.R.Begin(idx)
						closeVsClose(c, idx, spec, m, lc, c2, viaCancel, j, 3)
					}
					if c2 == "provider" {
						// the scope being closed is a top-level scope: nothing but the provider's own
						// bookkeeping makes provider.Close wait for it
						for j := 1; j <= 5; j++ {
							idx, mine := next()
							if !mine {
								continue
							}
							c.R.Begin(idx)
							closeVsClose(c, idx, spec, m, lc, c2, viaCancel, j, 1)
						}
					}
				}
			}
		}
	}
}

func closeVsClose(c *eng.Ctx, idx int, spec *core.Spec, m *core.Model, leafCtx int, closer2 string, viaCancel bool, j int, depth int) {
	r := core.NewRun(spec, m, nil, nil)
	r.Build()
	if !r.Built {
		c.R.End(idx, eng.Hash("c11c-unbuilt"), false)
		return
	}
	var gp, par, leaf int
	if depth == 1 {
		// a sibling keeps the provider's scope list non-trivial
		gp = r.Do(core.Op{Kind: core.OpCreate, Scope: 0, CtxKind: 2}).NewScope
		par = gp
		leaf = r.Do(core.Op{Kind: core.OpCreate, Scope: 0, CtxKind: leafCtx}).NewScope
		for _, sc := range []int{leaf, gp, 0} {
			core.ProbeRegistered(r, sc)
		}
	} else {
		gp = r.Do(core.Op{Kind: core.OpCreate, Scope: 0, CtxKind: 2}).NewScope
		par = r.Do(core.Op{Kind: core.OpCreate, Scope: gp, CtxKind: 0}).NewScope
		leaf = r.Do(core.Op{Kind: core.OpCreate, Scope: par, CtxKind: leafCtx}).NewScope
		for _, sc := range []int{leaf, par, gp, 0} {
			core.ProbeRegistered(r, sc)
		}
	}
	var leafG int64 = -1
	var gmu sync.Mutex
	n := 0
	gate := NewGate(func(hp rt.HookPoint) bool {
		if hp.Where != "close" {
			return false
		}
		gmu.Lock()
		defer gmu.Unlock()
		// the first goroutine that closes anything is closer1 (the leaf's Close or its watcher)
		if leafG == -1 {
			leafG = hp.G
		}
		if hp.G != leafG {
			return false
		}
		n++
		return n == j
	})
	r.Rec.SetHook(gate.Hook)
	var wg sync.WaitGroup
	wg.Add(1)
	go func() {
		defer wg.Done()
		if viaCancel {
			r.Do(core.Op{Kind: core.OpCancel, Scope: leaf})
		} else {
			r.Do(core.Op{Kind: core.OpClose, Scope: leaf})
		}
	}()
	parked := gate.WaitReached(10 * time.Second)
	op2 := core.Op{Kind: core.OpCloseProvider}
	switch closer2 {
	case "parent":
		op2 = core.Op{Kind: core.OpClose, Scope: par}
	case "grandparent":
		op2 = core.Op{Kind: core.OpClose, Scope: gp}
	}
	c2done := make(chan struct{})
	wg.Add(1)
	go func() { defer wg.Done(); defer close(c2done); r.Do(op2) }()
	select { // closer2 has to wait for the leaf; the grace period only steers the schedule
	case <-c2done:
	case <-time.After(60 * time.Millisecond):
	}
	gate.Release()
	done := make(chan struct{})
	go func() { wg.Wait(); close(done) }()
	feat := fmt.Sprintf("leaf-%s-vs-%s", map[bool]string{false: "close", true: "cancel"}[viaCancel], closer2)
	if depth == 1 {
		feat = fmt.Sprintf("top-level-scope-%s-vs-provider", map[bool]string{false: "close", true: "cancel"}[viaCancel])
	}
	if v := awaitOrDiagnose(done, 60*time.Second); !v.Done {
		if v.Deadlock {
			c.R.Violation(eng.Violation{Prop: "C11", Clause: "hang", Sig: "C11/hang:" + feat + ":" + innermostGodiFn(v.Dump), Case: idx, CaseID: feat, Detail: "overlapping Close calls never returned; goroutines stuck inside godi:\n" + v.Dump})
		} else {
			c.R.Inconclusive(idx, "close-vs-close did not finish within the watchdog")
		}
		c.R.Abandon(idx)
	}
	r.Rec.SetHook(nil)
	if viaCancel {
		awaitDisposed(r, leaf)
	}
	if !r.Poisoned {
		r.Finish()
	}
	o := core.Digest(r)
	fs, pairs := core.MonC11Exported(r, o)
	for i := range fs {
		fs[i].Clause = "overlap-" + fs[i].Clause
		fs[i].Sig = feat
		fs[i].Detail = fmt.Sprintf("%s, leaf context kind %d, closer1 parked in its disposable Close #%d: %s", feat, leafCtx, j, fs[i].Detail)
	}
	core.Report(c, "C11", idx, r, fs)
	c.R.Count("close_vs_close_overlaps", 1)
	c.R.Count("ordered_pairs_checked", int64(pairs))
	c.R.Count("close_events", int64(len(o.CloseOrder)))
	if c.R.WantSample() && parked && j == 2 {
		c.R.Sample(core.SampleOf(r, map[string]any{"kind": "close-vs-close", "scenario": feat, "leaf_ctx": leafCtx, "parked_at_close": j}))
	}
	c.R.End(idx, eng.Hash("c11c", feat, leafCtx, j, depth), parked && pairs >= 2)
}
