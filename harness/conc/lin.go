package conc

import (
	"fmt"
	"sort"
	"strings"
	"time"

	"github.com/anishathalye/porcupine"
	"github.com/junioryono/godi/v4"
	"github.com/junioryono/godi/v4/verifh/core"
)

// linIn / linOut are the abstract operation of the scope-tree model (DESIGN.md §3.x).
type linIn struct {
	Kind   core.OpKind
	Scope  int // target scope (0 = provider / root scope)
	Ident  string
	Life   int // 0 unregistered, 1 singleton, 2 scoped, 3 transient, 4 group/builtin (any ok result)
	Client int
}

type linOut struct {
	Class    string // ok | scope-disposed | provider-disposed | not-found | other
	ID       int64
	NewScope int
}

type scopeSt struct {
	open   bool
	parent int
}

// linState is an immutable value: every step copies what it changes.
type linState struct {
	provOpen bool
	scopes   map[int]scopeSt
	cache    map[string]int64 // "scope/ident" (scoped) and "S/ident" (singleton) -> instance id
}

func (s *linState) clone() *linState {
	n := &linState{provOpen: s.provOpen, scopes: make(map[int]scopeSt, len(s.scopes)+1), cache: make(map[string]int64, len(s.cache)+1)}
	for k, v := range s.scopes {
		n.scopes[k] = v
	}
	for k, v := range s.cache {
		n.cache[k] = v
	}
	return n
}

func (s *linState) isOpen(scope int) bool {
	if !s.provOpen {
		return false
	}
	if scope == 0 {
		return true
	}
	st, ok := s.scopes[scope]
	return ok && st.open
}

func (s *linState) key() string {
	var parts []string
	for k, v := range s.scopes {
		parts = append(parts, fmt.Sprintf("s%d:%v:%d", k, v.open, v.parent))
	}
	for k, v := range s.cache {
		parts = append(parts, fmt.Sprintf("c%s=%d", k, v))
	}
	sort.Strings(parts)
	return fmt.Sprintf("%v|%s", s.provOpen, strings.Join(parts, ","))
}

// scopeTreeModel: a Close is not atomic with respect to operations on OTHER handles (godi
// marks the target disposed and then closes descendants / the provider's scopes one by one),
// so its linearization point only moves the affected scopes to "closing": from then on an
// operation on them may complete normally or report the disposed error. What must never
// happen — and is what this model refutes — is a disposed error on a scope that no close has
// reached, a service-not-found for a registered identity, or two different instances of one
// scoped / singleton identity. "Closed means closed" after the closing call RETURNED is a
// real-time rule and is checked separately (postCloseUse).
var scopeTreeModel = porcupine.Model{
	Init: func() any { return &linState{provOpen: true, scopes: map[int]scopeSt{}, cache: map[string]int64{}} },
	Step: func(state, input, output any) (bool, any) {
		st := state.(*linState)
		in := input.(linIn)
		out := output.(linOut)
		isDisposed := out.Class == "scope-disposed" || out.Class == "provider-disposed"
		closing := !st.isOpen(in.Scope)
		switch in.Kind {
		case core.OpCreate:
			if isDisposed {
				return closing, st
			}
			if out.Class != "ok" {
				return false, st
			}
			n := st.clone()
			n.scopes[out.NewScope] = scopeSt{open: !closing, parent: in.Scope}
			return true, n
		case core.OpGet, core.OpGetGroup:
			if isDisposed {
				return closing, st
			}
			switch in.Life {
			case 0:
				return out.Class == "not-found", st
			case 1, 2:
				if out.Class != "ok" {
					return false, st
				}
				k := fmt.Sprintf("%d/%s", in.Scope, in.Ident)
				if in.Life == 1 {
					k = "S/" + in.Ident
				}
				if cur, ok := st.cache[k]; ok {
					return cur == out.ID, st
				}
				n := st.clone()
				n.cache[k] = out.ID
				return true, n
			default:
				return out.Class == "ok", st
			}
		case core.OpClose, core.OpCancel:
			n := st.clone()
			closeTree(n, in.Scope)
			return true, n
		case core.OpCloseProvider:
			n := st.clone()
			n.provOpen = false
			for k, v := range n.scopes {
				v.open = false
				n.scopes[k] = v
			}
			return true, n
		}
		return true, st
	},
	Equal: func(a, b any) bool { return a.(*linState).key() == b.(*linState).key() },
	DescribeOperation: func(input, output any) string {
		in := input.(linIn)
		out := output.(linOut)
		return fmt.Sprintf("%v(s%d %s) -> %s #%d s%d", in.Kind, in.Scope, in.Ident, out.Class, out.ID, out.NewScope)
	},
}

func closeTree(st *linState, scope int) {
	if v, ok := st.scopes[scope]; ok {
		v.open = false
		st.scopes[scope] = v
	}
	for k, v := range st.scopes {
		if v.parent == scope && v.open {
			closeTree(st, k)
		}
	}
}

// historyOf converts the executed operations of a run into a porcupine history.
// client maps op index -> goroutine/client id (ops of one client must not overlap).
func historyOf(r *core.Run, client func(op int) int) []porcupine.Operation {
	var h []porcupine.Operation
	m := r.Model
	for i := range r.Results {
		res := &r.Results[i]
		op := r.Ops[res.Op]
		if op.Kind == core.OpBuild || res.Class == "skipped" || res.Class == "pending" || res.Call == 0 {
			continue
		}
		in := linIn{Kind: op.Kind, Scope: op.Scope, Client: client(res.Op)}
		out := linOut{Class: res.Class, NewScope: res.NewScope}
		switch op.Kind {
		case core.OpGet:
			in.Ident = op.Type + "/" + op.Key
			if p, ok := m.Lookup(op.Type, op.Key); ok {
				switch m.Regs[p.Reg].Life {
				case godi.Singleton:
					in.Life = 1
				case godi.Scoped:
					in.Life = 2
				default:
					in.Life = 3
				}
				if m.Regs[p.Reg].Meta == nil {
					in.Life = 3 // instance values: any ok result
				}
			} else if op.Key == "" && (op.Type == "Scope" || op.Type == "Provider" || op.Type == "Context") {
				in.Life = 4
			}
			if len(res.Insts) == 1 && res.Insts[0] != nil {
				out.ID = res.Insts[0].ID
			}
		case core.OpGetGroup:
			in.Ident = op.Type + "//" + op.Group
			in.Life = 4
		}
		if res.Class == "PANIC" {
			out.Class = "other"
		}
		ret := res.Ret
		if ret == 0 {
			ret = 1 << 60 // still open at the end of the history
		}
		h = append(h, porcupine.Operation{ClientId: in.Client, Input: in, Call: res.Call, Output: out, Return: ret})
	}
	return h
}

// checkLinearizable runs porcupine; it returns "" (ok), "illegal" or "unknown".
func checkLinearizable(h []porcupine.Operation) (string, string) {
	res, info := porcupine.CheckOperationsVerbose(scopeTreeModel, h, 30*time.Second)
	switch res {
	case porcupine.Ok:
		return "", ""
	case porcupine.Unknown:
		return "unknown", ""
	}
	_ = info
	var lines []string
	sort.Slice(h, func(i, j int) bool { return h[i].Call < h[j].Call })
	for _, op := range h {
		lines = append(lines, fmt.Sprintf("  client %d [%d,%d] %s", op.ClientId, op.Call, op.Return, scopeTreeModel.DescribeOperation(op.Input, op.Output)))
	}
	return "illegal", strings.Join(lines, "\n")
}

// postCloseUse is the real-time half of "closed means closed": an operation on scope t that
// was CALLED after a closing call affecting t had RETURNED must not succeed.
func postCloseUse(r *core.Run) []core.Finding {
	var fs []core.Finding
	type closer struct {
		kind  core.OpKind
		scope int
		call  int64
		ret   int64
		op    int
	}
	var closers []closer
	for i := range r.Results {
		res := &r.Results[i]
		op := r.Ops[res.Op]
		if res.Ret == 0 || res.Class == "PANIC" || res.Class == "skipped" || res.Class == "cancel-not-closed" {
			continue
		}
		switch op.Kind {
		case core.OpClose, core.OpCancel, core.OpCloseProvider:
			closers = append(closers, closer{op.Kind, op.Scope, res.Call, res.Ret, res.Op})
		}
	}
	affects := func(c closer, t int) bool {
		if c.kind == core.OpCloseProvider {
			return true
		}
		if c.kind == core.OpCancel {
			// the awaited effect of a cancellation is that the cancelled scope itself refuses use;
			// its descendants are closed by the same watcher goroutine, but asynchronously
			return t == c.scope
		}
		for a := t; a > 0; a = r.ScopeHandle(a).Parent {
			if a == c.scope {
				return true
			}
		}
		return false
	}
	for i := range r.Results {
		res := &r.Results[i]
		op := r.Ops[res.Op]
		if res.Class != "ok" || res.Call == 0 {
			continue
		}
		if op.Kind != core.OpGet && op.Kind != core.OpGetGroup && op.Kind != core.OpCreate {
			continue
		}
		// (a) a closing call on this very scope has returned: the scope refuses use, whoever
		// performs the disposal. (b) a closing call on an ancestor / the provider has returned AND
		// no closing call affecting this scope that was issued before this operation is still
		// running: the call that performs the cascade has returned, so the descendants are closed.
		// (A Close that finds the scope already being closed by another goroutine may return
		// before that goroutine has reached the descendants; the statement promises nothing
		// about them at that moment.)
		var hit *closer
		inFlight := false
		for k := range closers {
			c := &closers[k]
			if c.kind == core.OpCancel && c.call < res.Call && c.scope != op.Scope {
				// a cancelled ancestor: its watcher goroutine closes the descendants
				// asynchronously, and a Close that meets that watcher does not wait for it
				for a := r.ScopeHandle(op.Scope).Parent; a > 0; a = r.ScopeHandle(a).Parent {
					if a == c.scope {
						inFlight = true
					}
				}
			}
			if !affects(*c, op.Scope) {
				continue
			}
			if c.call < res.Call && c.ret > res.Call {
				inFlight = true
			}
			if c.ret < res.Call && (hit == nil || c.scope == op.Scope) {
				hit = c
			}
		}
		if hit != nil && (hit.scope == op.Scope && hit.kind != core.OpCloseProvider || !inFlight) {
			c := hit
			how := "Close"
			if c.kind == core.OpCancel {
				how = "context cancellation (awaited)"
			} else if c.kind == core.OpCloseProvider {
				how = "provider.Close"
			}
			fs = append(fs, core.Finding{Clause: "use-after-close-accepted", Sig: opKindName(op) + ":after-" + strings.ReplaceAll(how, " ", "-"), Detail: fmt.Sprintf("op%d %s succeeded although op%d (%s affecting that scope) had already returned (seq %d < %d)", res.Op, op.String(), c.op, how, c.ret, res.Call)})
		}
	}
	return fs
}
