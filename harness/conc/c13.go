package conc

import (
	"errors"
	"fmt"
	"runtime"
	"strings"
	"sync"
	"time"

	"github.com/junioryono/godi/v4"
	"github.com/junioryono/godi/v4/verifh/core"
	"github.com/junioryono/godi/v4/verifh/eng"
	"github.com/junioryono/godi/v4/verifh/pool"
	"github.com/junioryono/godi/v4/verifh/rt"
)

func init() {
	eng.Register(&eng.Property{
		ID: "C13", Level: "exploration", Race: true,
		Rule: "(a) sequential histories over seeded sets and scope trees: after Close returned on a scope (directly, through an ancestor, through provider.Close, or by cancelling its context with a bounded wait) every Get*/CreateScope on it and on every descendant must report ErrScopeDisposed, provider operations ErrProviderDisposed. " +
			"(b) overlaps, exhaustive over pause points: for op in {Get scoped, Get transient with dependencies, GetGroup, GetKeyed, CreateScope with initializers, child CreateScope} x closer in {scope.Close, ancestor.Close, provider.Close, context cancel}: the op is parked at each of its user-code callbacks j, the closer runs to completion, the op resumes; and the mirror image (closer parked inside each disposable's Close, the op runs), and the sandwich (op parked in a constructor, closer parked inside a disposable's Close after the disposal list was drained, op released first). " +
			"(c) close vs close: a middle scope's Close (or its context watcher) is parked inside each of its first disposable Closes while an ancestor / the provider is closed from another goroutine; when that second call returns - even while the first is still parked - every scope of the subtree (own, inherited and request-like contexts) must refuse Get and CreateScope. " +
			"Oracle: the op returns normally or with the disposed error, never a recovered panic, never a hang (deadlock = goroutines stuck in godi in two samples); a returned scope/instance is usable or consistently disposed; at the end every container-created disposable was closed exactly once; the history is linearizable against the scope-tree model (porcupine). Non-trivial: the op really overlapped the closer (gate reached); distinct = scenario x pause point.",
		Shards:        func(tier string) int { return 16 },
		Run:           runC13,
		NeedEvents:    []string{"sequential_post_close_ops", "overlap_pause_points", "mirror_pause_points", "sandwich_pause_points", "porcupine_histories", "cancel_awaits", "close_vs_close_descendant_overlaps", "post_close_probes"},
		ShardTimeoutS: func(tier string) int { return 900 },
	})
}

// overlap fixtures: every lifetime, dependencies, groups, initializers
func c13Fixture() *core.Spec {
	return &core.Spec{Regs: []core.Reg{
		core.MkReg("Leaf_K0_a", godi.Singleton),
		core.MkReg("PosB_1_1", godi.Transient),                    // K1(K0)
		core.MkReg("PosB_2_3", godi.Transient),                    // K2(K0,K1)
		core.MkReg("PosA_3_6", godi.Scoped),                       // K3(K1,K2)
		core.MkReg("Leaf_S0_a", godi.Scoped, core.WithGroup("g")), // group members
		core.MkReg("Leaf_S0_b", godi.Transient, core.WithGroup("g")),
		core.MkReg("Leaf_S1_a", godi.Transient, core.WithName("k")),
		core.MkReg("Leaf_S2_a", godi.Scoped),
		// services that need no disposal, wired through optional parameter-object fields
		core.MkReg("Leaf_S5_a", godi.Transient),
		core.MkReg("Leaf_S6_a", godi.Transient),
		core.MkReg("Leaf_S5_b", godi.Scoped, core.WithName("q")), // a scoped leaf without a Close method
		// one disposable instance under two identities (aliases): handed over once, disposed once
		core.MkReg("Leaf_S2_b", godi.Scoped, core.WithAs("IS2", "IA"), core.WithName("m")),
		core.MkReg("Leaf_S1_b", godi.Transient, core.WithAs("IS1", "IB"), core.WithName("m")),
		core.MkReg("InOptAfter_S7", godi.Scoped),    // S7(S5, S6 optional)
		core.MkReg("InOptAfter_S4", godi.Transient), // S4(S5, S6 optional)
		// instance values (no constructor: only the container's own yield points can park their resolution)
		{Ctor: -1, Value: "S3", Life: godi.Scoped, Name: "v"},
		{Ctor: -1, Value: "S3", Life: godi.Transient, Name: "w"},
	}}
}

func c13Spec(withInit bool) *core.Spec {
	s := c13Fixture()
	if withInit {
		s.Regs = append(s.Regs, core.MkReg("VoidK1", godi.Scoped), core.MkReg("ErrOnlyK2K3", godi.Scoped))
	}
	return s
}

type overlapScenario struct {
	name     string
	withInit bool
	op       core.Op // Scope filled in: "leaf"
	onParent bool    // op issued on the parent (CreateScope child)
	closer   string  // leaf-close | ancestor-close | provider-close | cancel
}

func overlapScenarios() []overlapScenario {
	ops := []struct {
		name     string
		op       core.Op
		withInit bool
	}{
		{"get-scoped-chain", core.Op{Kind: core.OpGet, Type: "K3"}, false},
		{"get-transient-chain", core.Op{Kind: core.OpGet, Type: "K2"}, false},
		{"get-group", core.Op{Kind: core.OpGetGroup, Type: "S0", Group: "g"}, false},
		{"get-keyed-transient", core.Op{Kind: core.OpGet, Type: "S1", Key: "k"}, false},
		{"get-scoped-leaf", core.Op{Kind: core.OpGet, Type: "S2"}, false},
		{"get-scoped-instance-value", core.Op{Kind: core.OpGet, Type: "S3", Key: "v"}, false},
		{"get-transient-instance-value", core.Op{Kind: core.OpGet, Type: "S3", Key: "w"}, false},
		{"get-scoped-with-optional-fields", core.Op{Kind: core.OpGet, Type: "S7"}, false},
		{"get-scoped-leaf-without-close-method", core.Op{Kind: core.OpGet, Type: "S5", Key: "q"}, false},
		{"get-scoped-with-two-aliases", core.Op{Kind: core.OpGet, Type: "IS2", Key: "m"}, false},
		{"get-transient-with-two-aliases", core.Op{Kind: core.OpGet, Type: "IB", Key: "m"}, false},
		{"get-transient-with-optional-fields", core.Op{Kind: core.OpGet, Type: "S4"}, false},
		{"create-child-with-initializers", core.Op{Kind: core.OpCreate, CtxKind: 0}, true},
		{"create-child-own-ctx", core.Op{Kind: core.OpCreate, CtxKind: 2}, true},
	}
	closers := []string{"leaf-close", "ancestor-close", "provider-close", "cancel"}
	var out []overlapScenario
	for _, o := range ops {
		for _, cl := range closers {
			out = append(out, overlapScenario{name: o.name + "|" + cl, withInit: o.withInit, op: o.op, closer: cl})
		}
	}
	// CreateScope directly on the provider racing provider.Close
	out = append(out, overlapScenario{name: "provider-create-scope|provider-close", withInit: true, op: core.Op{Kind: core.OpCreate, CtxKind: 1}, onParent: true, closer: "provider-close"})
	return out
}

// setup builds provider -> s1 (ctx2, cancellable) -> s2 (nil ctx) and returns ids.
func c13Setup(sc overlapScenario) (*core.Run, int, int) {
	s := c13Spec(sc.withInit)
	m := core.NewModel(s)
	if m.Class != core.ClsOK {
		panic("harness fixture c13Spec is not buildable: " + m.Class.String())
	}
	r := core.NewRun(s, m, nil, nil)
	r.Build()
	if !r.Built {
		return r, 0, 0
	}
	a := r.Do(core.Op{Kind: core.OpCreate, Scope: 0, CtxKind: 2})
	b := r.Do(core.Op{Kind: core.OpCreate, Scope: a.NewScope, CtxKind: 0})
	return r, a.NewScope, b.NewScope
}

func (sc overlapScenario) closerOp(anc, leaf int) core.Op {
	switch sc.closer {
	case "leaf-close":
		return core.Op{Kind: core.OpClose, Scope: leaf}
	case "ancestor-close":
		return core.Op{Kind: core.OpClose, Scope: anc}
	case "provider-close":
		return core.Op{Kind: core.OpCloseProvider}
	default:
		return core.Op{Kind: core.OpCancel, Scope: anc} // cancel the ancestor's caller context (leaf has a nil context: derived)
	}
}

func runC13(c *eng.Ctx) {
	idxN := 0
	next := func() (int, bool) { i := idxN; idxN++; return i, c.Mine(i) }
	runC13Sequential(c, next)
	runC13CloseVsClose(c, next)
	runC13RootScope(c, next)
	runC13Waiters(c, next)
	runC13Reentrant(c, next)
	runNestedCreate(c, "C13", next)
	runRootHandleChildren(c, "C13", next)
	if core.C13Web != nil {
		core.C13Web(c, next)
	}
	runJoin(c, "C13", next)
	// (b) overlaps
	reps := c.Pick(1, 6)
	for _, sc := range overlapScenarios() {
		for rep := 0; rep < reps; rep++ {
			// dry run: count the callback points of the op
			dry, anc, leaf := c13Setup(sc)
			if !dry.Built {
				continue
			}
			op := sc.op
			op.Scope = leaf
			if sc.onParent {
				op.Scope = 0
			}
			before := len(core.Digest(dry).Runs)
			dry.Do(op)
			points := len(core.Digest(dry).Runs) - before
			dry.Finish()
			for j := 1; j <= points; j++ {
				idx, mine := next()
				if !mine {
					continue
				}
				c.R.Begin(idx)
				overlapOnce(c, idx, sc, anc, leaf, j, false)
			}
			// sandwich: the op finishes constructing while the closer is inside a disposable's Close
			if !(sc.op.Kind == core.OpGet && (sc.op.Type == "K3" || sc.op.Type == "S2")) { // those are pre-resolved below (cache hits)
				for j := 1; j <= points; j++ {
					idx, mine := next()
					if !mine {
						continue
					}
					c.R.Begin(idx)
					sandwichOnce(c, "C13", idx, sc, j)
				}
				if sc.closer == "ancestor-close" || sc.closer == "provider-close" {
					for j := 1; j <= points; j++ {
						idx, mine := next()
						if !mine {
							continue
						}
						c.R.Begin(idx)
						sandwichVariant(c, "C13", idx, sc, j, true)
					}
				}
			}
			// mirror: closer parked inside the j-th disposable Close, op runs
			dry2, anc2, leaf2 := c13Setup(sc)
			core.ProbeRegistered(dry2, leaf2)
			core.ProbeRegistered(dry2, anc2)
			dry2.Do(sc.closerOp(anc2, leaf2))
			closes := len(core.Digest(dry2).CloseOrder)
			dry2.Finish()
			for j := 1; j <= closes; j++ {
				idx, mine := next()
				if !mine {
					continue
				}
				c.R.Begin(idx)
				overlapOnce(c, idx, sc, anc, leaf, j, true)
			}
			if rt.YieldAvailable {
				// the same two schedules at godi's INTERNAL yield points (between its critical sections)
				nOp, nCl := countYields(sc, false), countYields(sc, true)
				for j := 1; j <= nOp; j++ {
					idx, mine := next()
					if !mine {
						continue
					}
					c.R.Begin(idx)
					overlapAt(c, idx, sc, anc, leaf, j, false, true)
					c.R.Count("internal_pause_points_op", 1)
				}
				for j := 1; j <= nCl; j++ {
					idx, mine := next()
					if !mine {
						continue
					}
					c.R.Begin(idx)
					overlapAt(c, idx, sc, anc, leaf, j, true, true)
					c.R.Count("internal_pause_points_closer", 1)
				}
			}
		}
	}
}

// halfInitialised lists the services constructed by operation opIdx that received no instance in
// a slot bound to exactly one registered service.
func halfInitialised(r *core.Run, opIdx int, feat string) []core.Finding {
	var fs []core.Finding
	o := core.Digest(r)
	for _, run := range o.Runs {
		if run.Op != opIdx || run.Reg < 0 || run.ExitSeq == 0 {
			continue
		}
		binds := r.Model.Regs[run.Reg].Binds
		for k, a := range run.Args {
			if k >= len(binds) || binds[k].Kind != core.BindSingle {
				continue
			}
			if a.Kind != 'i' {
				fs = append(fs, core.Finding{Clause: "half-initialised-result", Sig: feat + ":" + binds[k].Dep.Form.String(), Detail: fmt.Sprintf("%s: the operation returned a normal result, but %s was constructed during it without its dependency %s (slot %d, %s), which is registered", feat, r.Model.Describe(run.Reg), binds[k].Dep.Target, k, binds[k].Dep.Form)})
			}
		}
	}
	return fs
}

func init() { core.C11CreateVsClose = runC11CreateVsClose }

// runC12CreateVsClose: the same overlaps (provider.Close included) judged for C12: every instance
// that exists by the end was closed exactly once, whoever owned it.
func runC12CreateVsClose(c *eng.Ctx, next func() (int, bool)) {
	for _, sc := range overlapScenarios() {
		if sc.op.Kind != core.OpCreate || sc.closer == "cancel" {
			continue
		}
		dry, anc, leaf := c13Setup(sc)
		if !dry.Built {
			continue
		}
		op := sc.op
		op.Scope = leaf
		if sc.onParent {
			op.Scope = 0
		}
		before := len(core.Digest(dry).Runs)
		dry.Do(op)
		points := len(core.Digest(dry).Runs) - before
		dry.Finish()
		for j := 1; j <= points; j++ {
			idx, mine := next()
			if !mine {
				continue
			}
			c.R.Begin(idx)
			overlapAtFor(c, "C12", idx, sc, anc, leaf, j, false, false)
		}
		if rt.YieldAvailable {
			for j, n := 1, countYields(sc, false); j <= n; j++ {
				idx, mine := next()
				if !mine {
					continue
				}
				c.R.Begin(idx)
				overlapAtFor(c, "C12", idx, sc, anc, leaf, j, false, true)
			}
		}
	}
}

// runC11CreateVsClose: CreateScope on a scope that owns disposable instances, parked at every
// user-code callback and every internal yield point it passes, while that scope / its parent /
// the provider is closed; judged by the C11 order rules over the complete history.
func runC11CreateVsClose(c *eng.Ctx, next func() (int, bool)) {
	for _, sc := range overlapScenarios() {
		// provider.Close cannot know a scope whose creation is still in flight: what such a scope's
		// initializers built is disposed when the creation fails, after the singletons. C11 is
		// stated over histories, not schedules, so that overlap is not judged here (C10 and C13
		// judge it: closed exactly once, disposed error)
		if sc.op.Kind != core.OpCreate || sc.closer == "cancel" || sc.closer == "provider-close" {
			continue
		}
		dry, anc, leaf := c13Setup(sc)
		if !dry.Built {
			continue
		}
		op := sc.op
		op.Scope = leaf
		if sc.onParent {
			op.Scope = 0
		}
		before := len(core.Digest(dry).Runs)
		dry.Do(op)
		points := len(core.Digest(dry).Runs) - before
		dry.Finish()
		for j := 1; j <= points; j++ {
			idx, mine := next()
			if !mine {
				continue
			}
			c.R.Begin(idx)
			overlapAtFor(c, "C11", idx, sc, anc, leaf, j, false, false)
		}
		if rt.YieldAvailable {
			for j, n := 1, countYields(sc, false); j <= n; j++ {
				idx, mine := next()
				if !mine {
					continue
				}
				c.R.Begin(idx)
				overlapAtFor(c, "C11", idx, sc, anc, leaf, j, false, true)
			}
		}
	}
}

// overlapOnce executes one (scenario, pause point) pair.
func overlapOnce(c *eng.Ctx, idx int, sc overlapScenario, a, b int, j int, mirror bool) {
	overlapAt(c, idx, sc, a, b, j, mirror, false)
}

// overlapAt with internal=true parks the first operation at the j-th INTERNAL yield point it
// passes (godi's instrumentation points between critical sections, build tag verif) instead of
// at a user-code callback.
func overlapAt(c *eng.Ctx, idx int, sc overlapScenario, a, b int, j int, mirror bool, internal bool) {
	overlapAtFor(c, "C13", idx, sc, a, b, j, mirror, internal)
}

// overlapAtFor with prop "C11" runs the same schedule but judges the DISPOSAL ORDER of the whole
// history (MonC11) instead of C13's clauses: the scope on which the overlapped CreateScope was
// issued owns disposable instances, a child that is returned alive gets instances of its own,
// and at the end of the history no instance of a descendant may have been closed after an
// instance of its ancestor.
func overlapAtFor(c *eng.Ctx, prop string, idx int, sc overlapScenario, _, _ int, j int, mirror bool, internal bool) {
	r, anc, leaf := c13Setup(sc)
	if !r.Built {
		c.R.End(idx, eng.Hash("c13-unbuilt", sc.name), false)
		return
	}
	op := sc.op
	op.Scope = leaf
	if sc.onParent {
		op.Scope = 0
	}
	closer := sc.closerOp(anc, leaf)
	if mirror || prop == "C11" {
		// make sure there is something to dispose
		core.ProbeRegistered(r, leaf)
		core.ProbeRegistered(r, anc)
	}
	var gate *Gate
	count := 0
	var cmu sync.Mutex
	where := "ctor"
	if mirror {
		where = "close"
	}
	var firstG int64 = -1
	pausedAt := ""
	gate = NewGate(func(hp rt.HookPoint) bool {
		cmu.Lock()
		defer cmu.Unlock()
		if internal {
			if !strings.HasPrefix(hp.Where, "yield:") {
				return false
			}
			if mirror {
				// the closing cascade may run on godi's watcher goroutine (cancel): any Close point counts
				if !strings.Contains(hp.Where, ".Close:") {
					return false
				}
			} else if hp.G != firstG {
				return false
			}
		} else if hp.Where != where {
			return false
		}
		count++
		if count == j {
			pausedAt = hp.Where
		}
		return count == j
	})
	r.Rec.SetHook(gate.Hook)
	first, second := op, closer
	if mirror {
		first, second = closer, op
	}
	var firstRes, secondRes core.OpResult
	var wg sync.WaitGroup
	wg.Add(1)
	go func() {
		defer wg.Done()
		cmu.Lock()
		firstG = rt.Goid()
		cmu.Unlock()
		firstRes = r.Do(first)
	}()
	reached := gate.WaitReached(20 * time.Second)
	secondDone := make(chan struct{})
	wg.Add(1)
	go func() { defer wg.Done(); defer close(secondDone); secondRes = r.Do(second) }()
	// the second operation runs to completion if it can; if it has to wait for the parked
	// one (a Close waiting for an in-flight Close, a resolution waiting for a construction)
	// the grace period ends the wait: it steers the schedule and is never a verdict
	select {
	case <-secondDone:
	case <-time.After(50 * time.Millisecond):
	}
	gate.Release()
	done := make(chan struct{})
	go func() { wg.Wait(); close(done) }()
	feat := sc.name
	if mirror {
		feat += "|closer-parked"
	} else {
		feat += "|op-parked"
	}
	if internal {
		cmu.Lock()
		feat += "-at-" + strings.TrimPrefix(pausedAt, "yield:")
		cmu.Unlock()
	}
	if v := awaitOrDiagnose(done, 60*time.Second); !v.Done && prop != "C13" {
		c.R.Inconclusive(idx, "overlap did not finish within the watchdog (judged by C13)")
		c.R.Abandon(idx)
		r.Rec.SetHook(nil)
		return
	} else if !v.Done {
		if v.Deadlock {
			c.R.Violation(eng.Violation{Prop: "C13", Clause: "hang", Sig: "C13/hang:" + feat + ":" + innermostGodiFn(v.Dump), Case: idx, CaseID: feat, Detail: fmt.Sprintf("%s, pause point %d: operations never returned; goroutines stuck inside godi:\n%s", feat, j, v.Dump)})
		} else {
			c.R.Inconclusive(idx, "overlap did not finish within the watchdog and no goroutine is provably stuck inside godi")
		}
		c.R.Abandon(idx)
	}
	r.Rec.SetHook(nil)
	opRes, clRes := firstRes, secondRes
	if mirror {
		opRes, clRes = secondRes, firstRes
	}
	if prop == "C12" {
		// what a scope creation that loses the race with a Close had already built (its
		// initializers' instances) is closed all the same, exactly once, by the end
		var fs []core.Finding
		if !r.Poisoned {
			if op.Kind == core.OpCreate && opRes.Class == "ok" && opRes.NewScope > 0 {
				r.Do(core.Op{Kind: core.OpClose, Scope: opRes.NewScope})
			}
			r.Finish()
			o := core.Digest(r)
			for _, x := range core.OwnedDisposables(r, o) {
				if n := len(o.Closes[x.ID]); n != 1 {
					fs = append(fs, core.Finding{Clause: "close-count-under-overlap", Sig: fmt.Sprintf("%s:closed-%d-times:%s", feat, min(n, 2), core.LifeName(r.Model.Regs[x.Reg].Life)), Detail: fmt.Sprintf("%s, pause point %d: %s of %s (constructed in op%d) was closed %d times by the end of the history: what a scope creation overlapping a Close had built belongs to nobody's Close", feat, j, o.InstName(x.ID), r.Model.Describe(x.Reg), x.Run.Op, n)})
				}
			}
		}
		core.Report(c, "C12", idx, r, fs)
		c.R.Count("create_vs_close_overlaps", 1)
		c.R.Count("op_result_"+opRes.Class, 1)
		c.R.End(idx, eng.Hash("c12-create-vs-close", feat, j), reached)
		return
	}
	if prop == "C11" {
		if !r.Poisoned && op.Kind == core.OpCreate && opRes.Class == "ok" && opRes.NewScope > 0 {
			// a child that came back alive: give it disposable instances of its own
			core.ProbeRegistered(r, opRes.NewScope)
			c.R.Count("overlapped_create_returned_scope", 1)
		}
		var fs []core.Finding
		pairs := 0
		if !r.Poisoned {
			r.Finish()
			fs, pairs = core.MonC11Exported(r, core.Digest(r))
			for i := range fs {
				fs[i].Sig = strings.TrimSuffix(fs[i].Sig+":"+feat, ":")
			}
		}
		core.Report(c, "C11", idx, r, fs)
		c.R.Count("create_vs_close_overlaps", 1)
		c.R.Count("order_pairs_checked", int64(pairs))
		c.R.Count("op_result_"+opRes.Class, 1)
		_ = clRes
		c.R.End(idx, eng.Hash("c11-create-vs-close", feat, j), reached)
		return
	}
	var fs []core.Finding
	okClasses := map[string]bool{"ok": true, "scope-disposed": true, "provider-disposed": true}
	if opRes.Class == "PANIC" {
		fs = append(fs, core.Finding{Clause: "overlap-panic", Sig: feat, Detail: fmt.Sprintf("%s, pause point %d: %s panicked: %v", feat, j, op.String(), opRes.Panic)})
	} else if !okClasses[opRes.Class] {
		fs = append(fs, core.Finding{Clause: "overlap-unexpected-error", Sig: feat + ":" + opRes.Class, Detail: fmt.Sprintf("%s, pause point %d: %s returned %s (%v): neither a normal result nor the disposed error", feat, j, op.String(), opRes.Class, core.TrimErr(opRes.Err))})
	}
	if clRes.Class == "PANIC" {
		fs = append(fs, core.Finding{Clause: "overlap-panic", Sig: feat + ":closer", Detail: fmt.Sprintf("%s, pause point %d: the closing call panicked: %v", feat, j, clRes.Panic)})
	} else if clRes.Class != "ok" && clRes.Class != "disposal" {
		fs = append(fs, core.Finding{Clause: "closer-unexpected-error", Sig: feat + ":" + clRes.Class, Detail: fmt.Sprintf("%s, pause point %d: the closing call returned %s (%v)", feat, j, clRes.Class, core.TrimErr(clRes.Err))})
	}
	// a resolution that came back with a normal result built its services completely: every
	// dependency slot that is bound to a registered service received an instance (a disposed
	// error met on the way must fail the resolution, not be taken for "optional and absent")
	if !r.Poisoned && op.Kind != core.OpCreate && opRes.Class == "ok" {
		fs = append(fs, halfInitialised(r, opRes.Op, feat)...)
		if op.Kind == core.OpGet && opRes.IsNil {
			fs = append(fs, core.Finding{Clause: "half-initialised-result", Sig: feat + ":nil-value-without-error", Detail: fmt.Sprintf("%s, pause point %d: %s returned no error and no instance", feat, j, op.String())})
		}
	}
	// a scope that was returned normally by a CreateScope overlapping the Close of its parent
	// (or of an ancestor / the provider) is a descendant of a closed scope once both calls have
	// returned: it must refuse use ("closing a scope closes all its descendants")
	if !r.Poisoned && op.Kind == core.OpCreate && opRes.Class == "ok" && opRes.NewScope > 0 {
		if sc.closer == "cancel" {
			awaitDisposed(r, opRes.NewScope)
		}
		g := r.Do(core.Op{Kind: core.OpGet, Scope: opRes.NewScope, Type: "S2"})
		if g.Class == "ok" {
			fs = append(fs, core.Finding{Clause: "descendant-survives-close", Sig: feat, Detail: fmt.Sprintf("%s, pause point %d: the scope returned by the overlapping CreateScope still resolves services although the closing call on its ancestor has returned", feat, j)})
		} else if !okClasses[g.Class] {
			fs = append(fs, core.Finding{Clause: "half-initialised-scope", Sig: feat + ":" + g.Class, Detail: fmt.Sprintf("%s, pause point %d: the scope returned by the overlapping CreateScope answers Get with %s (%v)", feat, j, g.Class, g.Panic)})
		}
		if cl := r.Do(core.Op{Kind: core.OpClose, Scope: opRes.NewScope}); cl.Class == "PANIC" {
			fs = append(fs, core.Finding{Clause: "half-initialised-scope", Sig: feat + ":close-panics", Detail: fmt.Sprintf("%s, pause point %d: closing the scope returned by the overlapping CreateScope panics: %v", feat, j, cl.Panic)})
		}
	}
	// after the closer returned the target is closed: later use must report disposed
	if !r.Poisoned {
		tgt := leaf
		want := "scope-disposed"
		if sc.closer == "cancel" {
			// the cancelled scope is closed by its watcher goroutine; its descendants follow
			// (bounded wait, only the watcher has to run)
			if !awaitDisposed(r, leaf) {
				fs = append(fs, core.Finding{Clause: "cancel-does-not-close-descendant", Sig: feat, Detail: fmt.Sprintf("%s, pause point %d: the descendant of the cancelled scope was not disposed within the bounded wait", feat, j)})
			}
		}
		post := r.Do(core.Op{Kind: core.OpGet, Scope: tgt, Type: "S2"})
		if post.Class != want {
			fs = append(fs, core.Finding{Clause: "use-after-close-accepted", Sig: feat + ":" + post.Class, Detail: fmt.Sprintf("%s, pause point %d: after the closing call returned, Get on the closed scope returned %s", feat, j, post.Class)})
		}
		if pc := r.Do(core.Op{Kind: core.OpCreate, Scope: tgt, CtxKind: 1}); pc.Class != want {
			fs = append(fs, core.Finding{Clause: "use-after-close-accepted", Sig: feat + ":create:" + pc.Class, Detail: fmt.Sprintf("%s, pause point %d: after the closing call returned, CreateScope on the closed scope returned %s", feat, j, pc.Class)})
		}
	}
	if !r.Poisoned {
		r.Finish()
		o := core.Digest(r)
		// conservation: exactly one close event per container-created disposable by the end
		for _, x := range core.OwnedDisposables(r, o) {
			if n := len(o.Closes[x.ID]); n != 1 {
				fs = append(fs, core.Finding{Clause: "overlap-conservation", Sig: fmt.Sprintf("%s:closed-%d-times:%s", feat, min(n, 2), core.LifeName(r.Model.Regs[x.Reg].Life)), Detail: fmt.Sprintf("%s, pause point %d: %s of %s was closed %d times by the end of the history (constructed in op%d)", feat, j, o.InstName(x.ID), r.Model.Describe(x.Reg), n, x.Run.Op)})
			}
		}
		// linearizability of the history
		clientOf := map[int]int{firstRes.Op: 1, secondRes.Op: 2}
		h := historyOf(r, func(op int) int { return clientOf[op] })
		c.R.Count("porcupine_histories", 1)
		switch verdict, trace := checkLinearizable(h); verdict {
		case "illegal":
			fs = append(fs, core.Finding{Clause: "history-not-linearizable", Sig: feat, Detail: fmt.Sprintf("%s, pause point %d: the recorded history is not linearizable against the scope-tree model:\n%s", feat, j, trace)})
		case "unknown":
			c.R.Inconclusive(idx, "porcupine timed out")
		}
	}
	core.Report(c, "C13", idx, r, fs)
	if mirror {
		c.R.Count("mirror_pause_points", 1)
	} else {
		c.R.Count("overlap_pause_points", 1)
	}
	c.R.Count("op_result_"+opRes.Class, 1)
	if c.R.WantSample() && reached && j > 1 {
		c.R.Sample(core.SampleOf(r, map[string]any{"scenario": feat, "pause_point": j, "op_result": opRes.Class, "closer_result": clRes.Class}))
	}
	c.R.End(idx, eng.Hash("c13", feat, j), reached)
}

func runC13Sequential(c *eng.Ctx, next func() (int, bool)) {
	n := c.Pick(300, 8000)
	for k := 0; k < n; k++ {
		idx, mine := next()
		if !mine {
			continue
		}
		rng := core.CaseRng(c.Seed, "C13", idx)
		s, m := core.GenSpec(rng, core.GenOpts{Want: core.ClsOK, Specials: k%3 == 0})
		if s == nil {
			continue
		}
		c.R.Begin(idx)
		// every fourth history: the Close methods of the instances fail, so that the Close calls
		// below return disposal errors - closed still means closed, and a second Close returns
		var cfs []rt.CloseFault
		failing := k%4 == 1
		if failing {
			for _, reg := range s.Regs {
				if reg.Ctor < 0 || reg.Remove {
					continue
				}
				for nth := 1; nth <= 6; nth++ {
					for out := 0; out < len(pool.Ctors[reg.Ctor].Outs); out++ {
						cfs = append(cfs, rt.CloseFault{Ctor: reg.Ctor, Nth: nth, Out: out})
					}
				}
			}
			c.R.Count("sequential_histories_with_failing_close_methods", 1)
		}
		r := core.NewRun(s, m, nil, cfs)
		r.Build()
		var fs []core.Finding
		if r.Built {
			core.GenScript(rng, r, 3+rng.Intn(5), 6+rng.Intn(8), 0)
			// close scopes in random ways, then probe them and every descendant
			nScopes := len(r.Scopes)
			closedBy := map[int]string{}
			for round := 0; round < 3 && nScopes > 1; round++ {
				sc := 1 + rng.Intn(nScopes-1)
				how := "close"
				var res core.OpResult
				if r.Scopes[sc].Cancel != nil && rng.Intn(2) == 0 {
					how = "cancel"
					res = r.Do(core.Op{Kind: core.OpCancel, Scope: sc})
					c.R.Count("cancel_awaits", 1)
					if res.Class == "cancel-not-closed" {
						fs = append(fs, core.Finding{Clause: "cancel-does-not-close", Sig: "", Detail: fmt.Sprintf("s%d was not disposed within the bounded wait after its caller context was cancelled", sc)})
					}
				} else {
					res = r.Do(core.Op{Kind: core.OpClose, Scope: sc})
					if failing {
						if again := r.Do(core.Op{Kind: core.OpClose, Scope: sc}); again.Class != "ok" {
							fs = append(fs, core.Finding{Clause: "second-close-not-nil", Sig: again.Class, Detail: fmt.Sprintf("the second Close of s%d (whose first Close returned %s) returned %s: %v", sc, res.Class, again.Class, core.TrimErr(again.Err))})
						}
					}
				}
				for d := 1; d < nScopes; d++ {
					for a := d; a > 0; a = r.Scopes[a].Parent {
						if a == sc {
							if _, ok := closedBy[d]; !ok {
								closedBy[d] = how
							}
							if how == "cancel" && !awaitDisposed(r, d) {
								fs = append(fs, core.Finding{Clause: "cancel-does-not-close-descendant", Sig: "sequential", Detail: fmt.Sprintf("s%d (descendant of the cancelled s%d) was not disposed within the bounded wait", d, sc)})
							}
						}
					}
				}
			}
			probe := func(sc int, want, how string) {
				ops := []core.Op{{Kind: core.OpGet, Scope: sc, Type: "K0"}, {Kind: core.OpGet, Scope: sc, Type: "S1", Key: "k"}, {Kind: core.OpGetGroup, Scope: sc, Type: "S0", Group: "g"}, {Kind: core.OpCreate, Scope: sc, CtxKind: 1}, {Kind: core.OpGet, Scope: sc, Type: "Scope"}, {Kind: core.OpGet, Scope: sc, Type: "K1", Generic: true}}
				for _, op := range ops {
					res := r.Do(op)
					c.R.Count("sequential_post_close_ops", 1)
					if res.Class != want && res.Class != "skipped" {
						fs = append(fs, core.Finding{Clause: "use-after-close-accepted", Sig: how + ":" + opKindName(op) + ":" + res.Class, Detail: fmt.Sprintf("after %s, %s returned %s (want %s)", how, op.String(), res.Class, want)})
					}
				}
			}
			for d, how := range closedBy {
				probe(d, "scope-disposed", "scope closed by "+how)
			}
			r.Do(core.Op{Kind: core.OpCloseProvider})
			for d := 1; d < nScopes; d++ {
				probe(d, "scope-disposed", "provider.Close")
			}
			probe(0, "provider-disposed", "provider.Close (provider ops)")
			r.Finish()
		}
		core.Report(c, "C13", idx, r, fs)
		if c.R.WantSample() && k%50 == 0 {
			c.R.Sample(core.SampleOf(r, map[string]any{"kind": "sequential"}))
		}
		c.R.End(idx, eng.Hash("c13-seq", s.Canon(), len(r.Ops)), r.Built)
	}
}

func opKindName(op core.Op) string {
	switch op.Kind {
	case core.OpCreate:
		return "CreateScope"
	case core.OpGetGroup:
		return "GetGroup"
	}
	if op.Key != "" {
		return "GetKeyed"
	}
	if op.Generic {
		return "Resolve"
	}
	return "Get"
}

// awaitDisposed polls (bounded) until the scope refuses a built-in resolution with the
// disposed error. Only godi's watcher goroutine has to run for this to become true.
func awaitDisposed(r *core.Run, scope int) bool {
	h := r.Scopes[scope]
	if h == nil || h.S == nil {
		return true
	}
	for i := 0; i < 20000; i++ {
		if _, err := h.S.Get(pool.T("Scope")); errors.Is(err, godi.ErrScopeDisposed) {
			return true
		}
		runtime.Gosched()
		if i > 10 {
			time.Sleep(100 * time.Microsecond)
		}
	}
	return false
}

// sandwichOnce: the op is parked inside its j-th constructor callback, the closer is started
// and parked inside the first disposable Close it performs (i.e. the scope is flagged
// disposed and its disposal list already drained), the op is released and finishes
// constructing in the middle of that Close, then the closer is released.
func sandwichOnce(c *eng.Ctx, prop string, idx int, sc overlapScenario, j int) {
	sandwichVariant(c, prop, idx, sc, j, false)
}

// sandwichVariant with onAncestor: the op runs on the ANCESTOR scope while the closer - the
// ancestor's own Close (or the provider's) - is parked inside a disposable Close of the
// ancestor's CHILD: the ancestor is flagged disposed but has not yet drained its own disposal
// list when the op finishes constructing.
func sandwichVariant(c *eng.Ctx, prop string, idx int, sc overlapScenario, j int, onAncestor bool) {
	r, anc, leaf := c13Setup(sc)
	if !r.Built {
		c.R.End(idx, eng.Hash("c13-unbuilt", sc.name), false)
		return
	}
	op := sc.op
	op.Scope = leaf
	if sc.onParent {
		op.Scope = 0
	}
	closer := sc.closerOp(anc, leaf)
	if onAncestor {
		op.Scope = anc
		if sc.closer != "provider-close" {
			closer = core.Op{Kind: core.OpClose, Scope: anc}
		}
	}
	// the scopes own disposables before the overlap starts, so that the closer has Close
	// callbacks to be parked in
	for _, t := range []string{"S2", "K3"} {
		r.Do(core.Op{Kind: core.OpGet, Scope: leaf, Type: t})
		r.Do(core.Op{Kind: core.OpGet, Scope: anc, Type: t})
	}
	var opG int64 = -1
	var gmu sync.Mutex
	ctorCount := 0
	gateOp := NewGate(func(hp rt.HookPoint) bool {
		gmu.Lock()
		defer gmu.Unlock()
		if hp.Where != "ctor" || hp.G != opG {
			return false
		}
		ctorCount++
		return ctorCount == j
	})
	gateClose := NewGate(func(hp rt.HookPoint) bool {
		gmu.Lock()
		defer gmu.Unlock()
		return hp.Where == "close" && hp.G != opG
	})
	r.Rec.SetHook(func(hp rt.HookPoint) { gateOp.Hook(hp); gateClose.Hook(hp) })
	var opRes, clRes core.OpResult
	var wg sync.WaitGroup
	wg.Add(1)
	opDone := make(chan struct{})
	go func() {
		defer wg.Done()
		defer close(opDone)
		gmu.Lock()
		opG = rt.Goid()
		gmu.Unlock()
		opRes = r.Do(op)
	}()
	reached := gateOp.WaitReached(5 * time.Second)
	wg.Add(1)
	go func() { defer wg.Done(); clRes = r.Do(closer) }()
	closerParked := gateClose.WaitReached(2 * time.Second)
	gateOp.Release()
	select {
	case <-opDone:
	case <-time.After(2 * time.Second): // steering only
	}
	gateClose.Release()
	done := make(chan struct{})
	go func() { wg.Wait(); close(done) }()
	feat := sc.name + "|op-finishes-inside-close"
	if onAncestor {
		feat = sc.name + "|op-on-ancestor-finishes-while-its-close-is-inside-a-child"
	}
	if v := awaitOrDiagnose(done, 60*time.Second); !v.Done {
		if v.Deadlock {
			c.R.Violation(eng.Violation{Prop: prop, Clause: "hang", Sig: prop + "/hang:" + feat + ":" + innermostGodiFn(v.Dump), Case: idx, CaseID: feat, Detail: fmt.Sprintf("%s, pause point %d: operations never returned; goroutines stuck inside godi:\n%s", feat, j, v.Dump)})
		} else {
			c.R.Inconclusive(idx, "sandwich overlap did not finish within the watchdog")
		}
		c.R.Abandon(idx)
	}
	r.Rec.SetHook(nil)
	var fs []core.Finding
	okClasses := map[string]bool{"ok": true, "scope-disposed": true, "provider-disposed": true}
	if opRes.Class == "PANIC" {
		fs = append(fs, core.Finding{Clause: "overlap-panic", Sig: feat, Detail: fmt.Sprintf("%s, pause point %d: %s panicked: %v", feat, j, op.String(), opRes.Panic)})
	} else if !okClasses[opRes.Class] {
		fs = append(fs, core.Finding{Clause: "overlap-unexpected-error", Sig: feat + ":" + opRes.Class, Detail: fmt.Sprintf("%s, pause point %d: %s returned %s (%v)", feat, j, op.String(), opRes.Class, core.TrimErr(opRes.Err))})
	}
	if clRes.Class == "PANIC" {
		fs = append(fs, core.Finding{Clause: "overlap-panic", Sig: feat + ":closer", Detail: fmt.Sprintf("%s, pause point %d: the closing call panicked: %v", feat, j, clRes.Panic)})
	}
	if !r.Poisoned && op.Kind == core.OpCreate && opRes.Class == "ok" && opRes.NewScope > 0 && sc.closer != "cancel" && clRes.Class != "PANIC" && clRes.Ret > 0 {
		// the closing call has returned: the scope that the overlapping CreateScope handed out is a
		// descendant of a closed scope - the cascade closed it, or the creation would have had to fail
		c.R.Count("scopes_handed_out_by_a_create_overlapping_the_cascade", 1)
		for _, probe := range []core.Op{{Kind: core.OpGet, Scope: opRes.NewScope, Type: "S2"}, {Kind: core.OpCreate, Scope: opRes.NewScope, CtxKind: 1}} {
			if pr := r.Do(probe); pr.Class == "ok" {
				fs = append(fs, core.Finding{Clause: "open-descendant-after-close", Sig: feat + ":" + map[bool]string{true: "CreateScope", false: "Get"}[probe.Kind == core.OpCreate], Detail: fmt.Sprintf("%s, pause point %d: %s returned a scope while the closing call was inside its cascade (parked in a disposable's Close); after the closing call returned that scope still accepts %s", feat, j, op.String(), probe.String())})
				if probe.Kind == core.OpCreate && pr.NewScope > 0 {
					r.Do(core.Op{Kind: core.OpClose, Scope: pr.NewScope})
				}
			}
		}
	}
	if !r.Poisoned && op.Kind == core.OpCreate && opRes.Class == "ok" && opRes.NewScope > 0 {
		if cl := r.Do(core.Op{Kind: core.OpClose, Scope: opRes.NewScope}); cl.Class == "PANIC" {
			fs = append(fs, core.Finding{Clause: "half-initialised-scope", Sig: feat + ":close-panics", Detail: fmt.Sprintf("%s, pause point %d: closing the scope returned by the overlapping CreateScope panics: %v", feat, j, cl.Panic)})
		}
	}
	if !r.Poisoned {
		if sc.closer == "cancel" {
			awaitDisposed(r, leaf)
		}
		r.Finish()
		o := core.Digest(r)
		for _, x := range core.OwnedDisposables(r, o) {
			if n := len(o.Closes[x.ID]); n != 1 {
				fs = append(fs, core.Finding{Clause: "overlap-conservation", Sig: fmt.Sprintf("%s:closed-%d-times:%s", feat, min(n, 2), core.LifeName(r.Model.Regs[x.Reg].Life)), Detail: fmt.Sprintf("%s, pause point %d: %s of %s was closed %d times by the end of the history (constructed in op%d; op result %s)", feat, j, o.InstName(x.ID), r.Model.Describe(x.Reg), n, x.Run.Op, opRes.Class)})
			}
		}
	}
	core.Report(c, prop, idx, r, fs)
	if reached && closerParked {
		c.R.Count("sandwich_pause_points", 1)
	}
	c.R.Count("op_result_"+opRes.Class, 1)
	c.R.End(idx, eng.Hash("c13-sandwich", feat, j, onAncestor), reached && closerParked)
}

func init() { core.C10Overlap = runC10Overlap }

// runC10Overlap drives the "construction overlaps a concurrent Close" clause of C10 with the
// sandwich schedule (an instance finishes constructing while its scope's Close is inside
// another disposable's Close): by the end of the history it must have been closed exactly once.
func runC10Overlap(c *eng.Ctx, next func() (int, bool)) {
	for _, sc := range overlapScenarios() {
		if sc.op.Kind == core.OpGet && (sc.op.Type == "K3" || sc.op.Type == "S2") {
			continue
		}
		dry, _, leaf := c13Setup(sc)
		if !dry.Built {
			continue
		}
		op := sc.op
		op.Scope = leaf
		if sc.onParent {
			op.Scope = 0
		}
		before := len(core.Digest(dry).Runs)
		dry.Do(op)
		points := len(core.Digest(dry).Runs) - before
		dry.Finish()
		for j := 1; j <= points; j++ {
			idx, mine := next()
			if !mine {
				continue
			}
			c.R.Begin(idx)
			sandwichOnce(c, "C10", idx, sc, j)
			c.R.Count("overlap_with_close_executions", 1)
		}
		if sc.op.Kind != core.OpCreate && (sc.closer == "ancestor-close" || sc.closer == "provider-close") {
			for j := 1; j <= points; j++ {
				idx, mine := next()
				if !mine {
					continue
				}
				c.R.Begin(idx)
				sandwichVariant(c, "C10", idx, sc, j, true)
				c.R.Count("overlap_with_close_executions", 1)
				c.R.Count("overlap_on_ancestor_executions", 1)
			}
		}
	}
}

// countYields runs the scenario's op (or its closer) alone and counts the internal yield
// points it passes (Close points only for the closer, whichever goroutine executes them).
func countYields(sc overlapScenario, closer bool) int {
	r, anc, leaf := c13Setup(sc)
	if !r.Built {
		return 0
	}
	op := sc.op
	op.Scope = leaf
	if sc.onParent {
		op.Scope = 0
	}
	if closer {
		core.ProbeRegistered(r, leaf)
		core.ProbeRegistered(r, anc)
		op = sc.closerOp(anc, leaf)
	}
	me := rt.Goid()
	n := 0
	var mu sync.Mutex
	r.Rec.SetHook(func(hp rt.HookPoint) {
		if !strings.HasPrefix(hp.Where, "yield:") {
			return
		}
		if closer {
			if !strings.Contains(hp.Where, ".Close:") {
				return
			}
		} else if hp.G != me {
			return
		}
		mu.Lock()
		n++
		mu.Unlock()
	})
	r.Do(op)
	if closer && sc.closer == "cancel" {
		awaitDisposed(r, leaf)
	}
	r.Rec.SetHook(nil)
	r.Finish()
	mu.Lock()
	defer mu.Unlock()
	return n
}
