package eng

import (
	"fmt"
	"os"
	"os/exec"
	"path/filepath"
)

// ReplayCase re-executes one case in a child worker and prints the monitors' verdict.
func ReplayCase(bin, verif, prop, tier string, seed int64, nshards, idx int, wantSig string) int {
	work := filepath.Join(verif, ".work", fmt.Sprintf("replay-%s-%d", prop, os.Getpid()))
	_ = os.MkdirAll(work, 0o755)
	defer os.RemoveAll(work)
	out := filepath.Join(work, "replay.jsonl")
	if nshards < 1 {
		nshards = 1
	}
	cmd := exec.Command(bin, "-worker", "-prop", prop, "-tier", tier, "-seed", fmt.Sprint(seed), "-shard", "0", "-nshards", fmt.Sprint(nshards), "-only", fmt.Sprint(idx), "-out", out)
	cmd.Env = append(os.Environ(), "GORACE=halt_on_error=0 log_path="+filepath.Join(work, "race"), "VERIF_WORKDIR="+work)
	cmd.Stdout = os.Stdout
	cmd.Stderr = os.Stderr
	werr := cmd.Run()
	_, done, viols, inc, _, lastBegun, lastEnded := readStream(out)
	races := parseRaceLogs(filepath.Join(work, "race"))
	fmt.Printf("replay %s case %d: worker=%v finished=%v violations=%d inconclusive=%d races=%d\n", prop, idx, werr, done, len(viols), len(inc), len(races))
	rc := 0
	for _, v := range viols {
		fmt.Printf("  clause=%s sig=%s\n  %s\n", v.Clause, v.Sig, v.Detail)
		rc = 1
	}
	if !done && lastBegun >= 0 && lastBegun != lastEnded {
		fmt.Printf("  worker crashed inside case %d\n", lastBegun)
		rc = 1
	}
	for _, b := range races {
		fmt.Println(b.text)
		rc = 1
	}
	if rc == 1 {
		fmt.Printf("VIOLATION property=%s replay=(replayed; wanted sig %s)\n", prop, wantSig)
	}
	return rc
}
