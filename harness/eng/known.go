package eng

import (
	"bufio"
	"os"
	"strings"
)

// KnownFindings holds the open findings listed in /verif/KNOWN_FINDINGS.txt. Only lines
// starting with "KNOWN-FINDING:" suppress anything; "fixed:" lines are documentation.
type KnownFindings struct {
	open map[string]string // property + "\x00" + sig -> description
}

// LoadKnownFindings parses the file (missing file = no findings). It is never written at run time.
func LoadKnownFindings(path string) *KnownFindings {
	k := &KnownFindings{open: map[string]string{}}
	f, err := os.Open(path)
	if err != nil {
		return k
	}
	defer f.Close()
	sc := bufio.NewScanner(f)
	sc.Buffer(make([]byte, 1<<16), 1<<22)
	for sc.Scan() {
		ln := strings.TrimSpace(sc.Text())
		if !strings.HasPrefix(ln, "KNOWN-FINDING:") {
			continue
		}
		body := strings.TrimSpace(strings.TrimPrefix(ln, "KNOWN-FINDING:"))
		desc := ""
		if i := strings.Index(body, "::"); i >= 0 {
			desc = strings.TrimSpace(body[i+2:])
			body = strings.TrimSpace(body[:i])
		}
		var prop, sig string
		for _, f := range strings.Fields(body) {
			switch {
			case strings.HasPrefix(f, "property="):
				prop = strings.TrimPrefix(f, "property=")
			case strings.HasPrefix(f, "sig="):
				sig = strings.TrimPrefix(f, "sig=")
			}
		}
		if prop != "" && sig != "" {
			k.open[prop+"\x00"+sig] = desc
		}
	}
	return k
}

// Match reports whether (property, sig) is a listed open finding.
func (k *KnownFindings) Match(prop, sig string) (string, bool) {
	d, ok := k.open[prop+"\x00"+sig]
	return d, ok
}
