// Package eng is the shared runtime-monitoring framework: property registry, the worker-side
// reporter (journal + verdict stream), and the driver that fans shards out over child
// processes, classifies crashes / race reports, matches KNOWN_FINDINGS and writes evidence.
package eng

import (
	"encoding/json"
	"fmt"
	"hash/fnv"
	"os"
	"sort"
	"sync"
	"time"
)

// Property describes one checkable property. Run executes the cases of one shard inside a
// worker process; everything it learns goes through the Reporter.
type Property struct {
	ID    string
	Level string // exploration | fault_enumeration
	Race  bool   // worker must be the -race build
	Rule  string // how cases are generated and what makes one non-trivial
	// Shards returns how many worker processes the tier is split into.
	Shards func(tier string) int
	Run    func(c *Ctx)
	// Assumptions recorded in evidence.
	Assumptions []string
	// NeedEvents lists counter keys that must be > 0 for the run to count as an observation.
	NeedEvents []string
	// ShardTimeoutS is the wall-clock watchdog per shard (inconclusive when it fires).
	ShardTimeoutS func(tier string) int
}

var registry = map[string]*Property{}

// Register adds a property to the registry (called from init functions).
func Register(p *Property) {
	if _, dup := registry[p.ID]; dup {
		panic("duplicate property " + p.ID)
	}
	registry[p.ID] = p
}

// Lookup returns the property or nil.
func Lookup(id string) *Property { return registry[id] }

// IDs returns all registered ids, sorted.
func IDs() []string {
	var ids []string
	for id := range registry {
		ids = append(ids, id)
	}
	sort.Strings(ids)
	return ids
}

// Ctx is what a property's Run receives inside a worker.
type Ctx struct {
	Prop    string
	Tier    string // quick | thorough
	Seed    int64
	Shard   int
	NShards int
	From    int // skip cases with index < From (restart after a crash)
	Only    int // when >= 0 run only this case index (replay)
	R       *Reporter
}

// Thorough reports whether the tier is the thorough one.
func (c *Ctx) Thorough() bool { return c.Tier == "thorough" }

// Pick returns q for the quick tier and t for the thorough tier.
func (c *Ctx) Pick(q, t int) int {
	if c.Thorough() {
		return t
	}
	return q
}

// Mine reports whether the case with the given global index belongs to this shard and is
// not excluded by From/Only.
func (c *Ctx) Mine(idx int) bool {
	if c.Only >= 0 {
		return idx == c.Only
	}
	if idx < c.From {
		return false
	}
	return idx%c.NShards == c.Shard
}

// Violation is one refutation of a property clause observed by a monitor.
type Violation struct {
	Prop   string `json:"prop"`
	Clause string `json:"clause"`
	// Sig is the stable signature used for KNOWN_FINDINGS matching: clause + outcome class +
	// canonical features of the failing input; never ids, addresses, messages or line numbers.
	Sig    string `json:"sig"`
	Case   int    `json:"case"`
	CaseID string `json:"case_id"`
	Detail string `json:"detail"`
	Replay any    `json:"replay,omitempty"`
}

// record kinds in the worker's output stream (P = partial summary delta, S = final delta)
type rec struct {
	K string `json:"k"` // B (begin) E (end) V (violation) I (inconclusive) S (summary) N (note)
	I int    `json:"i,omitempty"`
	// E
	H  string `json:"h,omitempty"`
	NT bool   `json:"nt,omitempty"`
	// V
	V *Violation `json:"v,omitempty"`
	// I / N
	Msg string `json:"msg,omitempty"`
	// S
	Sum *Summary `json:"sum,omitempty"`
}

// Summary is emitted once at the end of a worker run.
type Summary struct {
	Cases      int                   `json:"cases"`
	Counters   map[string]int64      `json:"counters"`
	Hashes     []string              `json:"hashes"` // distinct non-trivial case hashes
	Samples    []any                 `json:"samples"`
	Exhaustive map[string]Exhaustive `json:"exhaustive,omitempty"`
	// ExtraCases / ExtraDistinct count cases enumerated inside a journaled block (distinct by
	// construction, too many to ship one hash each).
	ExtraCases    int64 `json:"extra_cases,omitempty"`
	ExtraDistinct int64 `json:"extra_distinct,omitempty"`
}

// Exhaustive describes a finite sub-space that a run enumerates completely.
type Exhaustive struct {
	Size int  `json:"size"`
	Done int  `json:"done"`
	Full bool `json:"full"`
}

// Reporter is the worker-side sink. It is safe for concurrent use.
type Reporter struct {
	mu         sync.Mutex
	f          *os.File
	enc        *json.Encoder
	cases      int
	counters   map[string]int64
	hashes     map[string]struct{}
	samples    []any
	maxSamples int
	exh        map[string]Exhaustive
	cur        int
	viol       int
	xCases     int64
	xDistinct  int64
	sinceFlush int
	shipped    int
	curSince   time.Time
	curOpen    bool
}

// NewReporter writes the record stream to path (created/truncated... appended when restart).
func NewReporter(path string) (*Reporter, error) {
	f, err := os.OpenFile(path, os.O_CREATE|os.O_WRONLY|os.O_APPEND, 0o644)
	if err != nil {
		return nil, err
	}
	return &Reporter{f: f, enc: json.NewEncoder(f), counters: map[string]int64{}, hashes: map[string]struct{}{}, maxSamples: 4, exh: map[string]Exhaustive{}, cur: -1}, nil
}

func (r *Reporter) write(x rec) {
	_ = r.enc.Encode(x)
}

// Begin journals the case index before it is executed.
func (r *Reporter) Begin(idx int) {
	r.mu.Lock()
	r.cur = idx
	r.curSince = time.Now()
	r.curOpen = true
	r.write(rec{K: "B", I: idx})
	r.mu.Unlock()
}

// End closes the case; hash identifies the canonical case, nontrivial says whether it
// satisfies the property's non-triviality rule.
func (r *Reporter) End(idx int, hash string, nontrivial bool) {
	r.mu.Lock()
	r.cases++
	if nontrivial {
		r.hashes[hash] = struct{}{}
	}
	r.write(rec{K: "E", I: idx})
	r.curOpen = false
	r.sinceFlush++
	if r.sinceFlush >= 128 {
		r.sinceFlush = 0
		r.flushLocked("P")
	}
	r.mu.Unlock()
}

// Violation records a violation (kept in the stream immediately, so it survives a crash).
func (r *Reporter) Violation(v Violation) {
	r.mu.Lock()
	if v.Case == 0 && r.cur >= 0 {
		v.Case = r.cur
	}
	r.viol++
	if r.viol <= 200 { // cap stream size; the count is still exact
		r.write(rec{K: "V", V: &v})
	}
	r.counters["violations_raw"]++
	r.mu.Unlock()
}

// Inconclusive records a case that could not be decided.
func (r *Reporter) Inconclusive(idx int, why string) {
	r.mu.Lock()
	r.counters["inconclusive"]++
	r.write(rec{K: "I", I: idx, Msg: why})
	r.mu.Unlock()
}

// Abandon marks the current case as finished-by-abandonment (a goroutine is stuck inside the
// system under test, so this process cannot go on), flushes what was observed and exits; the
// driver restarts the shard after this case without counting a crash.
func (r *Reporter) Abandon(idx int) {
	r.mu.Lock()
	r.cases++
	r.write(rec{K: "A", I: idx})
	r.flushLocked("P")
	_ = r.f.Sync()
	r.mu.Unlock()
	os.Exit(4)
}

// Note writes a free-text note into the stream.
func (r *Reporter) Note(msg string) {
	r.mu.Lock()
	r.write(rec{K: "N", Msg: msg})
	r.mu.Unlock()
}

// Count adds n to a named event counter.
func (r *Reporter) Count(key string, n int64) {
	r.mu.Lock()
	r.counters[key] += n
	r.mu.Unlock()
}

// Sample keeps the first few samples offered.
func (r *Reporter) Sample(v any) {
	r.mu.Lock()
	if len(r.samples)+r.shipped < r.maxSamples {
		r.samples = append(r.samples, v)
	}
	r.mu.Unlock()
}

// WantSample reports whether another sample would be kept (avoid building it otherwise).
func (r *Reporter) WantSample() bool {
	r.mu.Lock()
	defer r.mu.Unlock()
	return len(r.samples)+r.shipped < r.maxSamples
}

// ExhaustiveProgress records progress inside a completely enumerated sub-space.
func (r *Reporter) ExhaustiveProgress(name string, size, done int) {
	r.mu.Lock()
	e := r.exh[name]
	e.Size = size
	e.Done += done
	r.exh[name] = e
	r.mu.Unlock()
}

// AddEnumerated counts cases executed inside the current journaled block: n executed, of
// which d are non-trivial (and distinct by construction of the enumeration).
func (r *Reporter) AddEnumerated(n, d int64) {
	r.mu.Lock()
	r.xCases += n
	r.xDistinct += d
	r.mu.Unlock()
}

// flushLocked emits the accumulated counters/hashes/samples as a delta record and resets them,
// so that what a worker observed survives a later crash of the same process.
func (r *Reporter) flushLocked(kind string) {
	hs := make([]string, 0, len(r.hashes))
	for h := range r.hashes {
		hs = append(hs, h)
	}
	sort.Strings(hs)
	r.write(rec{K: kind, Sum: &Summary{Cases: r.cases, Counters: r.counters, Hashes: hs, Samples: r.samples, Exhaustive: r.exh, ExtraCases: r.xCases, ExtraDistinct: r.xDistinct}})
	r.cases = 0
	r.counters = map[string]int64{}
	r.hashes = map[string]struct{}{}
	r.shipped += len(r.samples)
	r.samples = nil
	r.exh = map[string]Exhaustive{}
	r.xCases, r.xDistinct = 0, 0
}

// Finish emits the final summary record.
func (r *Reporter) Finish() {
	r.mu.Lock()
	r.flushLocked("S")
	_ = r.f.Sync()
	_ = r.f.Close()
	r.mu.Unlock()
}

// Hash returns a short stable hash of the given parts.
func Hash(parts ...any) string {
	h := fnv.New64a()
	for _, p := range parts {
		fmt.Fprintf(h, "%v\x00", p)
	}
	return fmt.Sprintf("%016x", h.Sum64())
}
