package eng

import (
	"runtime"
	"strings"
	"time"
)

// HangVerdict is returned by AwaitOrDiagnose.
type HangVerdict struct {
	Done     bool
	Deadlock bool   // goroutines stuck inside godi in two samples 2 s apart
	Dump     string // goroutine dump (stuck goroutines only)
}

// AwaitOrDiagnose waits for done with a generous wall-clock bound. The bound firing is never
// a verdict by itself: only goroutines that sit in a lock/channel wait with a godi frame on
// their stack, identically in two samples, are reported as a deadlock; anything else is
// inconclusive.
func AwaitOrDiagnose(done <-chan struct{}, bound time.Duration) HangVerdict {
	select {
	case <-done:
		return HangVerdict{Done: true}
	case <-time.After(bound):
	}
	first := stuckInGodi()
	select {
	case <-done:
		return HangVerdict{Done: true}
	case <-time.After(2 * time.Second):
	}
	second := stuckInGodi()
	var both []string
	for id, blk := range second {
		if _, ok := first[id]; ok {
			both = append(both, blk)
		}
	}
	if len(both) > 0 {
		return HangVerdict{Deadlock: true, Dump: strings.Join(both, "\n\n")}
	}
	return HangVerdict{}
}

func stuckInGodi() map[string]string {
	buf := make([]byte, 1<<20)
	n := runtime.Stack(buf, true)
	out := map[string]string{}
	for _, blk := range strings.Split(string(buf[:n]), "\n\n") {
		head, _, _ := strings.Cut(blk, "\n")
		if !strings.HasPrefix(head, "goroutine ") {
			continue
		}
		waiting := strings.Contains(head, "semacquire") || strings.Contains(head, "sync.Mutex") || strings.Contains(head, "sync.RWMutex") || strings.Contains(head, "chan receive") || strings.Contains(head, "chan send") || strings.Contains(head, "select") || strings.Contains(head, "sync.Cond") || strings.Contains(head, "sync.WaitGroup")
		if !waiting {
			continue
		}
		godiFrame := false
		for _, ln := range strings.Split(blk, "\n") {
			if strings.HasPrefix(ln, "github.com/junioryono/godi/v4.") || strings.HasPrefix(ln, "github.com/junioryono/godi/v4/internal/") {
				godiFrame = true
				break
			}
		}
		// godi's own context-watcher goroutines park in <-ctx.Done() for as long as their scope is
		// open; only a goroutine that the harness started (harness frame below the godi frame) and
		// that is parked inside godi counts as stuck
		harnessFrame := strings.Contains(blk, "\ngithub.com/junioryono/godi/v4/verifh/")
		if !godiFrame || !harnessFrame {
			continue
		}
		id := strings.Fields(head)[1]
		if len(blk) > 2500 {
			blk = blk[:2500] + "\n…"
		}
		out[id] = blk
	}
	return out
}

// InnermostGodiFn extracts the innermost godi function of a dump block (for signatures).
func InnermostGodiFn(dump string) string {
	for _, ln := range strings.Split(dump, "\n") {
		if strings.HasPrefix(ln, "github.com/junioryono/godi/v4.") {
			fn := strings.TrimPrefix(ln, "github.com/junioryono/godi/v4.")
			if i := strings.Index(fn, "("); i > 0 && !strings.HasPrefix(fn, "(") {
				fn = fn[:i]
			} else if strings.HasPrefix(fn, "(") {
				// method: (*scope).Close(...)
				if j := strings.Index(fn[1:], "("); j > 0 {
					fn = fn[:j+1]
				}
			}
			return fn
		}
	}
	return "unknown"
}

// StartWatchdog watches the worker's own progress: when the case that is currently journaled
// has been running for longer than bound, the goroutine dump decides. Harness goroutines parked
// inside godi (lock / channel wait), identically in two samples 2 s apart and still in the same
// case, are a non-termination violation of the property (the worker abandons the case and the
// driver restarts the shard after it). A case that is merely slow is left alone; the driver's
// shard timeout is the backstop (inconclusive).
func (r *Reporter) StartWatchdog(prop string, bound time.Duration) {
	go func() {
		for {
			time.Sleep(time.Second)
			r.mu.Lock()
			cur, since, open := r.cur, r.curSince, r.curOpen
			r.mu.Unlock()
			if !open || time.Since(since) < bound {
				continue
			}
			first := stuckInGodi()
			if len(first) == 0 {
				continue
			}
			time.Sleep(2 * time.Second)
			second := stuckInGodi()
			r.mu.Lock()
			same := r.cur == cur && r.curOpen
			r.mu.Unlock()
			if !same {
				continue
			}
			var both []string
			for id, blk := range second {
				if _, ok := first[id]; ok {
					both = append(both, blk)
				}
			}
			if len(both) == 0 {
				continue
			}
			dump := strings.Join(both, "\n\n")
			r.Violation(Violation{Prop: prop, Clause: "operation-never-returns", Sig: prop + "/operation-never-returns:" + InnermostGodiFn(dump), Case: cur, CaseID: "watchdog",
				Detail: "an operation on the container has not returned; harness goroutines are parked inside godi in two samples 2 s apart:\n" + dump})
			r.Abandon(cur)
		}
	}()
}
