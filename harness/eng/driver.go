package eng

import (
	"bufio"
	"bytes"
	"encoding/json"
	"fmt"
	"os"
	"os/exec"
	"path/filepath"
	"regexp"
	"sort"
	"strings"
	"sync"
	"syscall"
	"time"
)

// DriveOpts configures a driver run.
type DriveOpts struct {
	Prop       string
	Tier       string
	Seed       int64
	VerifDir   string // /verif
	PlainBin   string // worker binary (plain build)
	RaceBin    string // worker binary (-race build)
	MaxProcs   int
	KeepWork   bool
	MaxRestart int
}

type shardResult struct {
	shard     int
	sum       *Summary // merged over restarts
	viols     []Violation
	inconcl   []string
	notes     []string
	crashes   int
	timedOut  bool
	raceBlks  []raceBlock
	stderrTl  string
	exitNotes []string
}

type raceBlock struct {
	text    string
	godiFns [2][]string // godi frames per stack (innermost first)
	allFns  [2][]string
}

// Drive runs the property, prints the verdict lines and returns the process exit code.
func Drive(o DriveOpts) int {
	p := Lookup(o.Prop)
	if p == nil {
		fmt.Printf("unknown property %q (have %v)\n", o.Prop, IDs())
		return 2
	}
	start := time.Now()
	n := 1
	if p.Shards != nil {
		n = p.Shards(o.Tier)
	}
	if n < 1 {
		n = 1
	}
	if o.MaxProcs <= 0 {
		o.MaxProcs = 16
	}
	if o.MaxRestart <= 0 {
		o.MaxRestart = 25
	}
	work := filepath.Join(o.VerifDir, ".work", fmt.Sprintf("%s-%s-%d", o.Prop, o.Tier, os.Getpid()))
	_ = os.RemoveAll(work)
	if err := os.MkdirAll(work, 0o755); err != nil {
		fmt.Println("cannot create work dir:", err)
		return 2
	}
	if !o.KeepWork {
		defer os.RemoveAll(work)
	}
	bin := o.PlainBin
	if p.Race {
		bin = o.RaceBin
	}
	timeout := 600
	if p.ShardTimeoutS != nil {
		timeout = p.ShardTimeoutS(o.Tier)
	}

	results := make([]*shardResult, n)
	sem := make(chan struct{}, o.MaxProcs)
	var wg sync.WaitGroup
	for i := 0; i < n; i++ {
		wg.Add(1)
		go func(i int) {
			defer wg.Done()
			sem <- struct{}{}
			defer func() { <-sem }()
			results[i] = runShard(o, p, bin, work, i, n, timeout)
		}(i)
	}
	wg.Wait()

	// aggregate
	agg := &Summary{Counters: map[string]int64{}, Exhaustive: map[string]Exhaustive{}}
	hashes := map[string]struct{}{}
	var viols []Violation
	var inconcl, notes []string
	crashes, timeouts := 0, 0
	workerFault := false
	var races []raceBlock
	for _, r := range results {
		if r == nil {
			continue
		}
		if r.sum != nil {
			agg.Cases += r.sum.Cases
			agg.ExtraCases += r.sum.ExtraCases
			agg.ExtraDistinct += r.sum.ExtraDistinct
			for k, v := range r.sum.Counters {
				agg.Counters[k] += v
			}
			for _, h := range r.sum.Hashes {
				hashes[h] = struct{}{}
			}
			for _, s := range r.sum.Samples {
				if len(agg.Samples) < 5 {
					agg.Samples = append(agg.Samples, s)
				}
			}
			for k, e := range r.sum.Exhaustive {
				a := agg.Exhaustive[k]
				a.Size = e.Size
				a.Done += e.Done
				agg.Exhaustive[k] = a
			}
		}
		viols = append(viols, r.viols...)
		inconcl = append(inconcl, r.inconcl...)
		notes = append(notes, r.notes...)
		notes = append(notes, r.exitNotes...)
		for _, n := range r.exitNotes {
			// a worker that dies outside a journaled case is a fault of the harness itself
			fmt.Println("HARNESS-FAULT:", trimTo(n, 1500))
			workerFault = true
		}
		crashes += r.crashes
		if r.timedOut {
			timeouts++
		}
		races = append(races, r.raceBlks...)
	}
	for k, e := range agg.Exhaustive {
		e.Full = e.Size > 0 && e.Done >= e.Size
		agg.Exhaustive[k] = e
	}

	// race reports -> violations (godi) or harness faults
	harnessFault := false
	raceSigs := map[string]int{}
	for _, b := range races {
		// a race is godi's when at least one of the two conflicting accesses happens in godi code
		// (innermost frame); two accesses in harness/user code reached through godi are a
		// harness fault (the monitor's own state must be race-free)
		inner := func(fns []string) bool {
			for _, fn := range fns { // innermost first; skip standard-library frames (runtime.mapassign, sync/atomic, reflect …)
				seg := fn
				if i := strings.Index(seg, "/"); i >= 0 {
					seg = seg[:i]
				}
				if !strings.Contains(seg, ".") || strings.HasPrefix(fn, "runtime.") || strings.HasPrefix(fn, "sync.") || strings.HasPrefix(fn, "reflect.") {
					continue
				}
				return isGodiFn(fn)
			}
			return false
		}
		if !inner(b.allFns[0]) && !inner(b.allFns[1]) {
			harnessFault = true
			fmt.Println("HARNESS-RACE (both conflicting accesses are outside godi):")
			fmt.Println(b.text)
			continue
		}
		sig := raceSig(o.Prop, b)
		raceSigs[sig]++
		if raceSigs[sig] == 1 {
			viols = append(viols, Violation{Prop: o.Prop, Clause: "data-race", Sig: sig, Case: -1, CaseID: "race-detector", Detail: trimTo(b.text, 6000)})
		}
	}
	agg.Counters["race_reports_raw"] = int64(len(races))
	agg.Counters["race_reports_dedup"] = int64(len(raceSigs))

	// known findings
	kf := LoadKnownFindings(filepath.Join(o.VerifDir, "KNOWN_FINDINGS.txt"))
	type group struct {
		v Violation
		n int
	}
	bySig := map[string]*group{}
	var order []string
	for _, v := range viols {
		g := bySig[v.Sig]
		if g == nil {
			g = &group{v: v}
			bySig[v.Sig] = g
			order = append(order, v.Sig)
		}
		g.n++
	}
	sort.Strings(order)
	newViol := 0
	knownSeen := 0
	replayDir := filepath.Join(o.VerifDir, "replays")
	if stale, _ := filepath.Glob(filepath.Join(replayDir, fmt.Sprintf("%s-%d-*.json", o.Prop, o.Seed))); len(stale) > 0 {
		for _, f := range stale {
			_ = os.Remove(f)
		}
	}
	for _, sig := range order {
		g := bySig[sig]
		if what, ok := kf.Match(o.Prop, sig); ok {
			knownSeen++
			fmt.Printf("KNOWN-FINDING: property=%s sig=%s (%d occurrence(s)) :: %s\n", o.Prop, sig, g.n, what)
			continue
		}
		newViol++
		_ = os.MkdirAll(replayDir, 0o755)
		path := filepath.Join(replayDir, fmt.Sprintf("%s-%d-%d.json", o.Prop, o.Seed, newViol))
		rp := map[string]any{"property": o.Prop, "tier": o.Tier, "seed": o.Seed, "nshards": n, "case": g.v.Case, "sig": sig, "clause": g.v.Clause, "case_id": g.v.CaseID, "detail": g.v.Detail, "occurrences": g.n, "witness": g.v.Replay}
		bs, _ := json.MarshalIndent(rp, "", " ")
		_ = os.WriteFile(path, bs, 0o644)
		fmt.Printf("  clause=%s sig=%s occurrences=%d\n  %s\n", g.v.Clause, sig, g.n, trimTo(strings.ReplaceAll(g.v.Detail, "\n", "\n  "), 3000))
		fmt.Printf("VIOLATION property=%s replay=%s\n", o.Prop, path)
	}

	// observation check
	noObs := agg.Cases == 0
	for _, k := range p.NeedEvents {
		if agg.Counters[k] == 0 {
			noObs = true
			fmt.Printf("NO-OBSERVATION: counter %q is zero\n", k)
		}
	}

	wall := time.Since(start).Seconds()
	ev := map[string]any{
		"property_id": o.Prop,
		"tier":        o.Tier,
		"seed":        o.Seed,
		"level":       p.Level,
		"wall_s":      float64(int(wall*100)) / 100,
		"violations":  newViol,
		"assumptions": p.Assumptions,
	}
	cov := map[string]any{
		"evaluations":         int64(agg.Cases) + agg.ExtraCases,
		"distinct_nontrivial": int64(len(hashes)) + agg.ExtraDistinct,
		"journaled_cases":     agg.Cases,
		"rule":                p.Rule,
		"samples":             agg.Samples,
		"events":              agg.Counters,
		"worker_crashes":      crashes,
		"shard_timeouts":      timeouts,
		"inconclusive":        len(inconcl),
		"known_findings_seen": knownSeen,
		"shards":              n,
		"race_build":          p.Race,
	}
	if p.Race {
		pp := make([]int, n)
		for i := range pp {
			pp[i] = shardProcs(p, o.Seed, i)
		}
		cov["gomaxprocs_per_shard_0_is_default"] = pp
	}
	if len(agg.Exhaustive) > 0 {
		cov["exhaustive_subspaces"] = agg.Exhaustive
		all := true
		for _, e := range agg.Exhaustive {
			if !e.Full {
				all = false
			}
		}
		cov["exhaustive"] = false
		_ = all // exhaustive:true is reserved for runs that are nothing but a complete enumeration
	}
	if len(inconcl) > 0 {
		if len(inconcl) > 10 {
			inconcl = inconcl[:10]
		}
		cov["inconclusive_samples"] = inconcl
	}
	if len(notes) > 0 {
		if len(notes) > 20 {
			notes = notes[:20]
		}
		cov["notes"] = notes
	}
	if agg.Samples == nil {
		cov["samples"] = []any{}
	}
	ev["coverage"] = cov
	assumptions := append([]string{"the repository's code is exercised as built from /repo's working tree; claims cover the executions produced by this run only"}, p.Assumptions...)
	ev["assumptions"] = assumptions
	evDir := filepath.Join(o.VerifDir, "evidence")
	_ = os.MkdirAll(evDir, 0o755)
	bs, _ := json.MarshalIndent(ev, "", " ")
	_ = os.WriteFile(filepath.Join(evDir, o.Prop+".json"), append(bs, '\n'), 0o644)

	fmt.Printf("%s %s seed=%d: cases=%d distinct_nontrivial=%d violations=%d known=%d inconclusive=%d crashes=%d races=%d/%d wall=%.1fs\n",
		o.Prop, o.Tier, o.Seed, int64(agg.Cases)+agg.ExtraCases, int64(len(hashes))+agg.ExtraDistinct, newViol, knownSeen, len(inconcl), crashes, len(raceSigs), len(races), wall)
	keys := make([]string, 0, len(agg.Counters))
	for k := range agg.Counters {
		keys = append(keys, k)
	}
	sort.Strings(keys)
	var sb strings.Builder
	for _, k := range keys {
		fmt.Fprintf(&sb, " %s=%d", k, agg.Counters[k])
	}
	fmt.Println("  observed:" + sb.String())

	if newViol > 0 {
		return 1
	}
	if harnessFault {
		fmt.Println("HARNESS-FAULT: race report entirely inside the harness")
		return 2
	}
	if workerFault {
		return 2
	}
	if noObs {
		fmt.Println("NO-OBSERVATION: the monitors observed nothing; the check is broken or every shard failed")
		return 2
	}
	return 0
}

func trimTo(s string, n int) string {
	if len(s) > n {
		return s[:n] + " …"
	}
	return s
}

// shardProcs varies the number of Ps between the shard workers of the race-built (concurrent)
// properties: the same fixtures meet different real-parallel interleavings (2 Ps: long runs of
// one goroutine between preemptions; 16: true overlap everywhere). 0 = leave the default.
// The value depends only on (seed, shard), so a case meets the same setting when a run is repeated,
// and every shard meets every setting over four consecutive seeds.
var procsCycle = []int{0, 4, 2, 8}

func shardProcs(p *Property, seed int64, shard int) int {
	if !p.Race || os.Getenv("GOMAXPROCS") != "" {
		return 0
	}
	i := (int64(shard) + seed) % int64(len(procsCycle))
	if i < 0 {
		i = -i
	}
	return procsCycle[i]
}

func runShard(o DriveOpts, p *Property, bin, work string, shard, n, timeoutS int) *shardResult {
	res := &shardResult{shard: shard, sum: &Summary{Counters: map[string]int64{}, Exhaustive: map[string]Exhaustive{}}}
	from := 0
	abandons := 0
	hashset := map[string]struct{}{}
	for attempt := 0; ; attempt++ {
		out := filepath.Join(work, fmt.Sprintf("s%d-a%d.jsonl", shard, attempt))
		errPath := filepath.Join(work, fmt.Sprintf("s%d-a%d.stderr", shard, attempt))
		racePrefix := filepath.Join(work, fmt.Sprintf("race-s%d-a%d", shard, attempt))
		args := []string{"-worker", "-prop", o.Prop, "-tier", o.Tier, "-seed", fmt.Sprint(o.Seed), "-shard", fmt.Sprint(shard), "-nshards", fmt.Sprint(n), "-from", fmt.Sprint(from), "-out", out}
		cmd := exec.Command(bin, args...)
		cmd.Env = append(os.Environ(), "GORACE=halt_on_error=0 log_path="+racePrefix+" history_size=4", "VERIF_WORKDIR="+work)
		if gmp := shardProcs(p, o.Seed, shard); gmp > 0 {
			cmd.Env = append(cmd.Env, fmt.Sprintf("GOMAXPROCS=%d", gmp))
		}
		ef, _ := os.Create(errPath)
		cmd.Stdout = ef
		cmd.Stderr = ef
		if err := cmd.Start(); err != nil {
			res.exitNotes = append(res.exitNotes, "cannot start worker: "+err.Error())
			ef.Close()
			return res
		}
		done := make(chan error, 1)
		go func() { done <- cmd.Wait() }()
		var werr error
		timedOut := false
		select {
		case werr = <-done:
		case <-time.After(time.Duration(timeoutS) * time.Second):
			timedOut = true
			_ = cmd.Process.Signal(syscall.SIGQUIT)
			select {
			case werr = <-done:
			case <-time.After(5 * time.Second):
				_ = cmd.Process.Kill()
				werr = <-done
			}
		}
		ef.Close()
		res.raceBlks = append(res.raceBlks, parseRaceLogs(racePrefix)...)

		sums, finished, viols, inc, notes, lastBegun, lastEnded := readStream(out)
		res.viols = append(res.viols, viols...)
		res.inconcl = append(res.inconcl, inc...)
		res.notes = append(res.notes, notes...)
		for _, sum := range sums {
			mergeSummary(res.sum, sum, hashset)
		}
		if finished {
			return res
		}
		// no summary: crash or timeout
		tail := tailFile(errPath, 6000)
		if timedOut {
			res.timedOut = true
			res.inconcl = append(res.inconcl, fmt.Sprintf("shard %d: watchdog (%ds) fired in case %d; goroutine dump tail: %s", shard, timeoutS, lastBegun, trimTo(tail, 1500)))
			return res
		}
		if lastEnded == -2 {
			// the worker abandoned the case on purpose (its verdict is already in the stream)
			from = lastBegun + 1
			abandons++
			if abandons >= 3 {
				// the non-termination is established; every further stuck case costs a watchdog period
				res.exitNotes = nil
				res.notes = append(res.notes, fmt.Sprintf("shard %d: stopped after %d abandoned (non-terminating) cases; the remaining cases of this shard were not run", shard, abandons))
				return res
			}
			if attempt >= o.MaxRestart {
				res.exitNotes = append(res.exitNotes, fmt.Sprintf("shard %d: restart limit reached", shard))
				return res
			}
			continue
		}
		res.crashes++
		kind := classifyCrash(tail)
		if lastBegun >= 0 && lastBegun != lastEnded {
			res.viols = append(res.viols, Violation{Prop: o.Prop, Clause: "process-crash", Sig: o.Prop + "/crash:" + kind, Case: lastBegun, CaseID: fmt.Sprintf("case-%d", lastBegun), Detail: fmt.Sprintf("worker died (%v) while executing case %d: %s\n%s", werr, lastBegun, kind, trimTo(tail, 3000))})
			from = lastBegun + 1
		} else {
			res.exitNotes = append(res.exitNotes, fmt.Sprintf("shard %d died outside a case (%v): %s", shard, werr, trimTo(tail, 800)))
			return res
		}
		if attempt >= o.MaxRestart {
			res.exitNotes = append(res.exitNotes, fmt.Sprintf("shard %d: restart limit reached", shard))
			return res
		}
	}
}

func mergeSummary(dst, src *Summary, hashset map[string]struct{}) {
	dst.Cases += src.Cases
	dst.ExtraCases += src.ExtraCases
	dst.ExtraDistinct += src.ExtraDistinct
	for k, v := range src.Counters {
		dst.Counters[k] += v
	}
	for _, h := range src.Hashes {
		if _, ok := hashset[h]; !ok {
			hashset[h] = struct{}{}
			dst.Hashes = append(dst.Hashes, h)
		}
	}
	for _, s := range src.Samples {
		if len(dst.Samples) < 5 {
			dst.Samples = append(dst.Samples, s)
		}
	}
	for k, e := range src.Exhaustive {
		a := dst.Exhaustive[k]
		a.Size = e.Size
		a.Done += e.Done
		dst.Exhaustive[k] = a
	}
}

func readStream(path string) (sums []*Summary, done bool, viols []Violation, inc, notes []string, lastBegun, lastEnded int) {
	lastBegun, lastEnded = -1, -1
	abandoned := -1
	defer func() {
		if abandoned >= 0 && abandoned == lastBegun {
			lastEnded = -2 // sentinel: the begun case was abandoned deliberately (worker exited on purpose)
		}
	}()
	f, err := os.Open(path)
	if err != nil {
		return
	}
	defer f.Close()
	sc := bufio.NewScanner(f)
	sc.Buffer(make([]byte, 1<<20), 1<<28)
	for sc.Scan() {
		var r rec
		if json.Unmarshal(sc.Bytes(), &r) != nil {
			continue
		}
		switch r.K {
		case "B":
			lastBegun = r.I
		case "A":
			abandoned = r.I
		case "E":
			lastEnded = r.I
		case "V":
			if r.V != nil {
				viols = append(viols, *r.V)
			}
		case "I":
			inc = append(inc, fmt.Sprintf("case %d: %s", r.I, r.Msg))
		case "N":
			notes = append(notes, r.Msg)
		case "P":
			if r.Sum != nil {
				sums = append(sums, r.Sum)
			}
		case "S":
			if r.Sum != nil {
				sums = append(sums, r.Sum)
			}
			done = true
		}
	}
	return
}

func tailFile(path string, n int) string {
	bs, err := os.ReadFile(path)
	if err != nil {
		return ""
	}
	// prefer the head of a Go fatal error (first lines are the informative ones)
	if i := bytes.Index(bs, []byte("fatal error:")); i >= 0 {
		bs = bs[i:]
		if len(bs) > n {
			bs = bs[:n]
		}
		return string(bs)
	}
	if i := bytes.Index(bs, []byte("panic:")); i >= 0 {
		bs = bs[i:]
		if len(bs) > n {
			bs = bs[:n]
		}
		return string(bs)
	}
	if len(bs) > n {
		bs = bs[len(bs)-n:]
	}
	return string(bs)
}

func classifyCrash(stderr string) string {
	switch {
	case strings.Contains(stderr, "stack overflow") || strings.Contains(stderr, "goroutine stack exceeds"):
		return "stack-overflow"
	case strings.Contains(stderr, "all goroutines are asleep"):
		return "deadlock"
	case strings.Contains(stderr, "concurrent map"):
		return "concurrent-map-access"
	case strings.Contains(stderr, "checkptr"):
		return "checkptr"
	case strings.Contains(stderr, "panic:"):
		return "uncaught-panic"
	default:
		return "abnormal-exit"
	}
}

var raceFnLine = regexp.MustCompile(`^  (\S.*?)\(\)?\s*$`)

func parseRaceLogs(prefix string) []raceBlock {
	matches, _ := filepath.Glob(prefix + ".*")
	var out []raceBlock
	for _, m := range matches {
		bs, err := os.ReadFile(m)
		if err != nil {
			continue
		}
		for _, blk := range strings.Split(string(bs), "==================") {
			if !strings.Contains(blk, "WARNING: DATA RACE") {
				continue
			}
			b := raceBlock{text: strings.TrimSpace(blk)}
			stack := -1
			for _, ln := range strings.Split(blk, "\n") {
				t := strings.TrimSpace(ln)
				switch {
				case strings.HasPrefix(t, "Write at") || strings.HasPrefix(t, "Read at") || strings.HasPrefix(t, "Atomic write at") || strings.HasPrefix(t, "Atomic read at"):
					stack = 0
					continue
				case strings.HasPrefix(t, "Previous "):
					stack = 1
					continue
				case strings.HasPrefix(t, "Goroutine ") || t == "":
					if strings.HasPrefix(t, "Goroutine ") {
						stack = -1
					}
					continue
				}
				if stack < 0 || !strings.HasPrefix(ln, "  ") || strings.HasPrefix(ln, "   ") {
					continue
				}
				fn := strings.TrimSpace(ln)
				if i := strings.LastIndex(fn, "("); i > 0 && strings.HasSuffix(fn, ")") {
					fn = fn[:i]
				}
				b.allFns[stack] = append(b.allFns[stack], fn)
				if isGodiFn(fn) {
					b.godiFns[stack] = append(b.godiFns[stack], fn)
				}
			}
			out = append(out, b)
		}
	}
	return out
}

func isGodiFn(fn string) bool {
	const root = "github.com/junioryono/godi/v4"
	if !strings.HasPrefix(fn, root) {
		return false
	}
	rest := fn[len(root):]
	return !strings.HasPrefix(rest, "/verifh")
}

var genericSuffix = regexp.MustCompile(`\[[^\]]*\]`)

func shortFn(fn string) string {
	// drop type arguments (possibly nested brackets): everything from the first '[' to the last ']'
	if i, j := strings.Index(fn, "["), strings.LastIndex(fn, "]"); i >= 0 && j > i {
		fn = fn[:i] + fn[j+1:]
	}
	fn = genericSuffix.ReplaceAllString(fn, "")
	fn = strings.TrimPrefix(fn, "github.com/junioryono/godi/v4")
	fn = strings.TrimPrefix(fn, ".")
	fn = strings.TrimPrefix(fn, "/")
	// drop closure suffixes (.func1, .func2.1, .gowrap1): refactoring-stable
	for {
		i := strings.LastIndex(fn, ".")
		if i < 0 {
			break
		}
		suf := fn[i+1:]
		if strings.HasPrefix(suf, "func") || strings.HasPrefix(suf, "gowrap") || isDigits(suf) || strings.HasPrefix(suf, "deferwrap") {
			fn = fn[:i]
			continue
		}
		break
	}
	return fn
}

func isDigits(s string) bool {
	if s == "" {
		return false
	}
	for _, c := range s {
		if c < '0' || c > '9' {
			return false
		}
	}
	return true
}

// raceSig: the pair of outermost godi entry points (function names only), sorted.
func raceSig(prop string, b raceBlock) string {
	outer := func(fns []string) string {
		if len(fns) == 0 {
			return "(user-code)"
		}
		return shortFn(fns[len(fns)-1])
	}
	a, c := outer(b.godiFns[0]), outer(b.godiFns[1])
	if a > c {
		a, c = c, a
	}
	return fmt.Sprintf("%s/race:%s<->%s", prop, a, c)
}
