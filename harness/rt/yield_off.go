//go:build !verif

package rt

// YieldAvailable reports whether godi was built with its instrumentation points.
const YieldAvailable = false

// SetNoise is a no-op without the instrumentation points.
func SetNoise(uint32) {}

// YieldCount is 0 without the instrumentation points.
func YieldCount() int64 { return 0 }

// SetRawYield is a no-op without the instrumentation points.
func SetRawYield(func(point string)) {}
