// Package rt is the observation runtime shared by the generated constructor pool and all
// monitors: instance identities, the per-case event log (one mutex, sequence number taken
// inside it), goroutine->operation attribution, fault plans and yield hooks.
package rt

import (
	"bytes"
	"context"
	"errors"
	"fmt"
	"reflect"
	"runtime"
	"strconv"
	"sync"
	"sync/atomic"

	"github.com/junioryono/godi/v4"
)

// Inst is embedded in every pool service type; it identifies the instance.
type Inst struct {
	ID     int64  // unique within a case, assigned on successful construction
	Ctor   int    // constructor id that produced it (-1: instance value made by the harness)
	Out    int    // index of the output within the constructor
	Nth    int    // which invocation (1-based) of Ctor produced it
	T      string // type name
	closed int32
	// rec is the recorder of the case that created the instance: a Close that arrives after
	// its case is over (a goroutine the code under test left behind) is logged there and
	// cannot pollute the event log of the case running now
	rec *Recorder
}

// Carrier is implemented by every pool service type (through the embedded Inst).
type Carrier interface{ GetInst() *Inst }

// GetInst returns the identity record.
func (i *Inst) GetInst() *Inst { return i }

// Closed returns how often Close was invoked on the instance.
func (i *Inst) Closed() int { return int(atomic.LoadInt32(&i.closed)) }

// Kind of an event.
type Kind uint8

const (
	CtorEnter Kind = iota + 1
	CtorExit
	CtorFail
	CloseEv
	OpCall
	OpRet
	DecoyEv
)

func (k Kind) String() string {
	return [...]string{"?", "ctor-enter", "ctor-exit", "ctor-fail", "close", "call", "return", "decoy"}[k]
}

// Arg records what a constructor received in one parameter slot.
type Arg struct {
	Slot int
	// Kind: 'i' instance, 's' slice of instances, 'z' zero/nil, 'S' scope, 'P' provider,
	// 'C' context, 'o' other
	Kind byte
	IDs  []int64
	Val  any // only kept when Recorder.KeepVals (C18); never for leak checks
}

// Event is one entry of the log.
type Event struct {
	Seq   int64
	Kind  Kind
	G     int64 // goroutine id
	Op    int   // operation the goroutine was executing (-1 unknown)
	Scope int   // harness scope id the op was issued on (-1 unknown)
	Ctor  int
	Nth   int
	Insts []int64 // ctor-exit: outputs; close: the instance
	Args  []Arg
	Note  string // ctor-fail: fault kind; call/return: op text / result class
}

// FaultKind says what a constructor (or Close) is made to do.
type FaultKind uint8

const (
	FNone  FaultKind = iota
	FErr             // return the sentinel error (constructors with an error result)
	FNil             // return a nil instance
	FPanic           // panic with PanicVals[PanicIdx]
)

// Fault plans one misbehaviour: the Nth invocation (0 = every) of constructor Ctor.
type Fault struct {
	Ctor     int
	Nth      int
	Kind     FaultKind
	PanicIdx int
	ErrIdx   int // FErr: which shape of error value is returned (see InjectedErr)
}

// CloseFault makes Close of the instance produced by (Ctor, Nth invocation, output Out) fail.
type CloseFault struct {
	Ctor, Nth, Out int
	// Panic: the Close method panics instead of returning an error (a bug in user code that
	// a recovery middleware above the scope may well swallow).
	Panic bool
}

// SentinelErr is the base of every injected constructor error.
type SentinelErr struct {
	Ctor, Nth int
}

func (e *SentinelErr) Error() string { return fmt.Sprintf("injected ctor error c%d#%d", e.Ctor, e.Nth) }

// Stateless error values: the zero value of their type IS the error, as with
// context.DeadlineExceeded or `type errNotReady struct{}`. An error is a failure because the
// interface is non-nil, not because the value inside is non-zero.
type ZeroErr struct{}

func (ZeroErr) Error() string { return "injected ctor error (stateless struct value)" }

type CodeErr int

func (CodeErr) Error() string { return "injected ctor error (integer code 0)" }

// PluginErr is a constructor error that carries the failure of a nested container (a plugin,
// a sub-application) next to its own sentinel: the chain contains one of godi's own error types.
type PluginErr struct {
	Own   *SentinelErr
	Inner error
}

func (e *PluginErr) Error() string   { return "plugin failed: " + e.Own.Error() + ": " + e.Inner.Error() }
func (e *PluginErr) Unwrap() []error { return []error{e.Inner, e.Own} }

// ErrShapes names the shapes InjectedErr produces.
var ErrShapes = []string{"pointer", "zero-struct", "zero-int", "wrapped", "wraps-godi-build-error-pointer", "wraps-godi-build-error-value"}

// InjectedErr builds the error a faulted constructor returns.
func InjectedErr(idx, ctor, nth int) error {
	switch idx % len(ErrShapes) {
	case 1:
		return ZeroErr{}
	case 2:
		return CodeErr(0)
	case 3:
		return fmt.Errorf("constructor gave up: %w", &SentinelErr{Ctor: ctor, Nth: nth})
	case 4:
		return &PluginErr{Own: &SentinelErr{Ctor: ctor, Nth: nth}, Inner: &godi.BuildError{Phase: "singleton-creation", Details: "nested container", Cause: errors.New("inner constructor failed")}}
	case 5:
		return &PluginErr{Own: &SentinelErr{Ctor: ctor, Nth: nth}, Inner: godi.BuildError{Phase: "validation", Details: "nested container", Cause: errors.New("inner validation failed")}}
	}
	return &SentinelErr{Ctor: ctor, Nth: nth}
}

// IsInjected reports whether the constructor's own error is reachable in err (errors.Is / As).
// The stateless shapes carry no position; ctor < 0 accepts any position.
func IsInjected(err error, ctor, nth int) bool {
	var se *SentinelErr
	if errors.As(err, &se) {
		return ctor < 0 || (se.Ctor == ctor && se.Nth == nth)
	}
	return errors.Is(err, ZeroErr{}) || errors.Is(err, CodeErr(0))
}

// CloseErr is what a faulted Close returns.
type CloseErr struct {
	ID int64
	// Wraps: what the failing Close method's own error chain contains besides itself. A
	// disposable that kept its Scope and uses it during Close gets godi's disposed error and
	// wraps it; a disposal error is a failure of THIS instance whatever it wraps.
	Wraps error
}

func (e *CloseErr) Error() string {
	if e.Wraps != nil {
		return fmt.Sprintf("injected close error inst %d: %v", e.ID, e.Wraps)
	}
	return fmt.Sprintf("injected close error inst %d", e.ID)
}
func (e *CloseErr) Unwrap() error { return e.Wraps }

// MultiCloseErr is an error list, like go/scanner.ErrorList: a slice type is not comparable
// (it cannot be a map key, and == on two such interface values panics).
type MultiCloseErr []error

func (m MultiCloseErr) Error() string   { return fmt.Sprintf("%d injected close errors: %v", len(m), []error(m)) }
func (m MultiCloseErr) Unwrap() []error { return m }

// closeErrFor varies the shape with the instance id.
func closeErrFor(id int64) error {
	if id%5 == 4 {
		return MultiCloseErr{&CloseErr{ID: id}}
	}
	switch id % 4 {
	case 2:
		return &CloseErr{ID: id, Wraps: godi.ErrScopeDisposed}
	case 3:
		return &CloseErr{ID: id, Wraps: godi.ErrProviderDisposed}
	}
	return &CloseErr{ID: id}
}

type panicStruct struct {
	A int
	B string
}

// PanicVals is the menu of panic values.
// The strings in the second half read like messages of the reflect package and of the runtime:
// a constructor that dispatches reflectively and gets an argument list wrong panics with exactly
// such a string, from inside its body. Whoever recovers cannot tell where it came from.
var PanicVals = []any{"boom-string", errors.New("boom-error"), 42, panicStruct{7, "seven"}, &SentinelErr{-1, -1},
	"reflect: Call with too few input arguments", "reflect: Call using zero Value argument", "reflect: CallSlice of non-variadic function",
	"runtime error: invalid memory address or nil pointer dereference", ""}

// HookPoint identifies a yield point in user code.
type HookPoint struct {
	Where string // "ctor" | "close"
	Ctor  int
	Nth   int
	G     int64
	Op    int
	Inst  int64
}

// OpInfo is what the executor registers for the goroutine issuing an operation.
type OpInfo struct {
	Op    int
	Scope int
}

// Recorder is the per-case event log.
type Recorder struct {
	mu        sync.Mutex
	seq       int64
	events    []Event
	nextID    int64
	ctorCount map[int]int
	faults    map[int][]Fault
	closeF    map[CloseFault]bool
	closeP    map[CloseFault]bool
	ops       sync.Map // goid -> OpInfo
	KeepVals  bool
	hook      atomic.Pointer[func(HookPoint)]
	NoLog     bool // count only (very large stress runs)
	nCtor     int64
	nClose    int64
}

var cur atomic.Pointer[Recorder]

var sink int64

// NewRecorder creates a recorder and makes it current.
func NewRecorder() *Recorder {
	r := &Recorder{ctorCount: map[int]int{}, faults: map[int][]Fault{}, closeF: map[CloseFault]bool{}, closeP: map[CloseFault]bool{}}
	cur.Store(r)
	return r
}

// Current returns the recorder of the running case.
func Current() *Recorder { return cur.Load() }

// SetHook installs (or, with nil, removes) the yield-point callback. Safe for concurrent use.
func (r *Recorder) SetHook(h func(HookPoint)) {
	if h == nil {
		r.hook.Store(nil)
		return
	}
	r.hook.Store(&h)
}

// SetFaults installs the fault plan (before the case starts; immutable afterwards).
func (r *Recorder) SetFaults(fs []Fault, cfs []CloseFault) {
	for _, f := range fs {
		r.faults[f.Ctor] = append(r.faults[f.Ctor], f)
	}
	for _, c := range cfs {
		if c.Panic {
			c.Panic = false
			r.closeP[c] = true
			continue
		}
		r.closeF[c] = true
	}
}

// Events returns a snapshot of the log.
func (r *Recorder) Events() []Event {
	r.mu.Lock()
	defer r.mu.Unlock()
	out := make([]Event, len(r.events))
	copy(out, r.events)
	return out
}

// Counts returns the number of constructor invocations and Close calls seen.
func (r *Recorder) Counts() (ctors, closes int64) {
	return atomic.LoadInt64(&r.nCtor), atomic.LoadInt64(&r.nClose)
}

// Seq returns the next sequence number without logging (logical clock read).
func (r *Recorder) Tick() int64 {
	r.mu.Lock()
	r.seq++
	s := r.seq
	r.mu.Unlock()
	return s
}

func (r *Recorder) add(e Event) int64 {
	r.mu.Lock()
	r.seq++
	e.Seq = r.seq
	if !r.NoLog {
		r.events = append(r.events, e)
	}
	s := r.seq
	r.mu.Unlock()
	return s
}

// BeginOp attributes everything the calling goroutine triggers to (op, scope) and logs the call.
func (r *Recorder) BeginOp(op, scope int, text string) int64 {
	g := Goid()
	r.ops.Store(g, OpInfo{Op: op, Scope: scope})
	return r.add(Event{Kind: OpCall, G: g, Op: op, Scope: scope, Note: text})
}

// EndOp logs the return of the operation.
func (r *Recorder) EndOp(op, scope int, result string) int64 {
	g := Goid()
	s := r.add(Event{Kind: OpRet, G: g, Op: op, Scope: scope, Note: result})
	r.ops.Delete(g)
	return s
}

func (r *Recorder) opOf(g int64) OpInfo {
	if v, ok := r.ops.Load(g); ok {
		return v.(OpInfo)
	}
	return OpInfo{Op: -1, Scope: -1}
}

// NewValueInst stamps an instance value made by the harness itself (not by a constructor).
func (r *Recorder) NewValueInst(i *Inst, typeName string) {
	r.mu.Lock()
	r.nextID++
	i.ID = r.nextID
	i.rec = r
	r.mu.Unlock()
	i.Ctor = -1
	i.T = typeName
}

// Action tells generated constructor code what to return.
type Action int

const (
	RetOK Action = iota
	RetErr
	RetNil
)

// Construct is called by every generated constructor. outs are the freshly allocated
// outputs (IDs are assigned here on success); args are the received dependencies in the
// order of the constructor's metadata.
func Construct(ctor int, outs []*Inst, types []string, args ...any) (Action, error) {
	r := cur.Load()
	if r == nil {
		// outside a case (should not happen): behave as a plain constructor
		return RetOK, nil
	}
	g := Goid()
	oi := r.opOf(g)
	atomic.AddInt64(&r.nCtor, 1)
	r.mu.Lock()
	r.ctorCount[ctor]++
	nth := r.ctorCount[ctor]
	r.mu.Unlock()
	recArgs := make([]Arg, len(args))
	for i, a := range args {
		recArgs[i] = recordArg(i, a, r.KeepVals)
	}
	r.add(Event{Kind: CtorEnter, G: g, Op: oi.Op, Scope: oi.Scope, Ctor: ctor, Nth: nth, Args: recArgs})
	if h := r.hook.Load(); h != nil {
		(*h)(HookPoint{Where: "ctor", Ctor: ctor, Nth: nth, G: g, Op: oi.Op})
	}
	for _, f := range r.faults[ctor] {
		if f.Nth != 0 && f.Nth != nth {
			continue
		}
		switch f.Kind {
		case FErr:
			r.add(Event{Kind: CtorFail, G: g, Op: oi.Op, Scope: oi.Scope, Ctor: ctor, Nth: nth, Note: "err"})
			return RetErr, InjectedErr(f.ErrIdx, ctor, nth)
		case FNil:
			r.add(Event{Kind: CtorFail, G: g, Op: oi.Op, Scope: oi.Scope, Ctor: ctor, Nth: nth, Note: "nil"})
			return RetNil, nil
		case FPanic:
			r.add(Event{Kind: CtorFail, G: g, Op: oi.Op, Scope: oi.Scope, Ctor: ctor, Nth: nth, Note: "panic:" + strconv.Itoa(f.PanicIdx)})
			if f.PanicIdx == -1 {
				var p *Inst
				sink = p.ID // nil-pointer dereference: a runtime.Error panic
			}
			panic(PanicVals[f.PanicIdx%len(PanicVals)])
		}
	}
	ids := make([]int64, len(outs))
	r.mu.Lock()
	for i, o := range outs {
		r.nextID++
		o.ID = r.nextID
		o.rec = r
		o.Ctor = ctor
		o.Out = i
		o.Nth = nth
		if i < len(types) {
			o.T = types[i]
		}
		ids[i] = o.ID
	}
	r.mu.Unlock()
	r.add(Event{Kind: CtorExit, G: g, Op: oi.Op, Scope: oi.Scope, Ctor: ctor, Nth: nth, Insts: ids})
	return RetOK, nil
}

// OnClose is called by Close() of disposable pool types.
func OnClose(i *Inst) error {
	n := atomic.AddInt32(&i.closed, 1)
	r := i.rec
	if r == nil {
		r = cur.Load()
	}
	if r == nil {
		return nil
	}
	atomic.AddInt64(&r.nClose, 1)
	g := Goid()
	oi := r.opOf(g)
	r.add(Event{Kind: CloseEv, G: g, Op: oi.Op, Scope: oi.Scope, Ctor: i.Ctor, Nth: i.Nth, Insts: []int64{i.ID}, Note: strconv.Itoa(int(n))})
	if h := r.hook.Load(); h != nil {
		(*h)(HookPoint{Where: "close", Ctor: i.Ctor, Nth: i.Nth, G: g, Op: oi.Op, Inst: i.ID})
	}
	if r.closeP[CloseFault{Ctor: i.Ctor, Nth: i.Nth, Out: i.Out}] && n == 1 {
		panic(fmt.Sprintf("injected panic in Close of inst %d", i.ID))
	}
	if r.closeF[CloseFault{Ctor: i.Ctor, Nth: i.Nth, Out: i.Out}] {
		return closeErrFor(i.ID)
	}
	return nil
}

// OnDecoy is called by the almost-Close methods of decoy types, which godi must never call.
func OnDecoy(i *Inst, method string) {
	r := cur.Load()
	if r == nil {
		return
	}
	r.add(Event{Kind: DecoyEv, G: Goid(), Op: -1, Scope: -1, Ctor: i.Ctor, Nth: i.Nth, Insts: []int64{i.ID}, Note: method})
}

var (
	scopeT = reflect.TypeOf((*godi.Scope)(nil)).Elem()
)

func recordArg(slot int, a any, keep bool) Arg {
	arg := Arg{Slot: slot}
	if keep {
		arg.Val = a
	}
	if a == nil {
		arg.Kind = 'z'
		return arg
	}
	switch v := a.(type) {
	case Carrier:
		rv := reflect.ValueOf(a)
		if rv.Kind() == reflect.Pointer && rv.IsNil() {
			arg.Kind = 'z'
			return arg
		}
		arg.Kind = 'i'
		arg.IDs = []int64{v.GetInst().ID}
		return arg
	case godi.Scope:
		arg.Kind = 'S'
		return arg
	case godi.Provider:
		arg.Kind = 'P'
		return arg
	case context.Context:
		arg.Kind = 'C'
		return arg
	}
	rv := reflect.ValueOf(a)
	if rv.Kind() == reflect.Slice {
		arg.Kind = 's'
		if rv.IsNil() {
			arg.Kind = 'n' // nil slice (distinguished from empty)
		}
		for i := 0; i < rv.Len(); i++ {
			e := rv.Index(i)
			if (e.Kind() == reflect.Pointer || e.Kind() == reflect.Interface) && e.IsNil() {
				arg.IDs = append(arg.IDs, 0)
				continue
			}
			if c, ok := e.Interface().(Carrier); ok {
				arg.IDs = append(arg.IDs, c.GetInst().ID)
			} else {
				arg.IDs = append(arg.IDs, -1)
			}
		}
		return arg
	}
	arg.Kind = 'o'
	return arg
}

var goidPrefix = []byte("goroutine ")

// Goid returns the current goroutine's id (parsed from the stack header).
func Goid() int64 {
	var buf [64]byte
	n := runtime.Stack(buf[:], false)
	b := buf[:n]
	b = bytes.TrimPrefix(b, goidPrefix)
	i := bytes.IndexByte(b, ' ')
	if i < 0 {
		return -1
	}
	id, _ := strconv.ParseInt(string(b[:i]), 10, 64)
	return id
}

// InstOf extracts the identity of a resolved value (nil when it is not a pool instance).
func InstOf(v any) *Inst {
	if v == nil {
		return nil
	}
	if c, ok := v.(Carrier); ok {
		rv := reflect.ValueOf(v)
		if rv.Kind() == reflect.Pointer && rv.IsNil() {
			return nil
		}
		return c.GetInst()
	}
	return nil
}
