//go:build verif

package rt

import (
	"runtime"
	"sync/atomic"
	"time"

	"github.com/junioryono/godi/v4"
)

// YieldAvailable reports whether godi was built with its instrumentation points.
const YieldAvailable = true

var rawYield atomic.Pointer[func(point string)]

// SetRawYield installs a callback that sees every internal yield point directly (engines that do
// not use a Recorder); nil removes it.
func SetRawYield(fn func(point string)) {
	if fn == nil {
		rawYield.Store(nil)
		return
	}
	rawYield.Store(&fn)
}

var (
	noiseOn  atomic.Uint32 // 0 = off, else probability per mille of a perturbation at a yield point
	noiseCtr atomic.Uint64
	yieldCnt atomic.Int64
)

// SetNoise makes every internal yield point perturb the schedule with the given probability
// (per mille): mostly runtime.Gosched, sometimes a sleep of up to ~100us. 0 switches it off.
func SetNoise(perMille uint32) { noiseOn.Store(perMille) }

// YieldCount is the number of internal yield points passed so far (evidence).
func YieldCount() int64 { return yieldCnt.Load() }

func init() {
	godi.SetVerifHook(func(point string) {
		yieldCnt.Add(1)
		if f := rawYield.Load(); f != nil {
			(*f)(point)
		}
		// controlled schedules: the case's own hook sees internal points as "yield:<point>"
		if r := cur.Load(); r != nil {
			if h := r.hook.Load(); h != nil {
				(*h)(HookPoint{Where: "yield:" + point, G: Goid(), Op: r.opOf(Goid()).Op})
			}
		}
		if p := noiseOn.Load(); p != 0 {
			// splitmix-style hash of a counter: cheap, no lock, different per call
			x := noiseCtr.Add(0x9E3779B97F4A7C15)
			x ^= x >> 30
			x *= 0xBF58476D1CE4E5B9
			x ^= x >> 27
			if uint32(x%1000) < p {
				if (x>>20)%4 == 0 {
					time.Sleep(time.Duration(1+(x>>24)%100) * time.Microsecond)
				} else {
					runtime.Gosched()
				}
			}
		}
	})
}
