package regx

import (
	"context"
	"errors"
	"fmt"
	"reflect"
	"sort"
	"strings"

	"github.com/junioryono/godi/v4"
	"github.com/junioryono/godi/v4/verifh/pool"
	"github.com/junioryono/godi/v4/verifh/rt"
)

// Views is what the four query methods answer over the whole universe.
type Views struct {
	Contains map[string]bool
	Keyed    map[ident]bool
	Count    int
	Slice    []tuple // one per ToSlice descriptor (call is unknown: 0)
	SliceNil int
}

func lifeName(l godi.Lifetime) string {
	switch l {
	case godi.Singleton:
		return "singleton"
	case godi.Scoped:
		return "scoped"
	case godi.Transient:
		return "transient"
	}
	return fmt.Sprintf("lifetime(%d)", int(l))
}

func (e *env) observeViews(c godi.Collection) Views {
	v := Views{Contains: map[string]bool{}, Keyed: map[ident]bool{}}
	for _, tn := range uTypes {
		t := pool.T(tn)
		v.Contains[tn] = c.Contains(t)
		for _, k := range uKeys {
			v.Keyed[ident{T: tn, Key: k}] = c.ContainsKeyed(t, k)
		}
	}
	v.Count = c.Count()
	// ToSlice "returns a copy": what the caller does to the returned slice is the caller's
	// business. A first copy is scribbled over (entries set to nil, as an in-place filter or
	// sort would do) before the views are read from a second one.
	if scratch := c.ToSlice(); len(scratch) > 0 {
		for i := range scratch {
			scratch[i] = nil
		}
	}
	for _, d := range c.ToSlice() {
		if d == nil {
			v.SliceNil++
			continue
		}
		tp := tuple{life: lifeName(d.Lifetime)}
		if d.Group != "" {
			tp.id = ident{T: nameOfType(d.Type), Group: d.Group}
		} else {
			k := ""
			switch kv := d.Key.(type) {
			case nil:
			case string:
				k = kv
			default:
				k = fmt.Sprintf("?%v", kv)
			}
			tp.id = ident{T: nameOfType(d.Type), Key: k}
		}
		switch {
		case d.IsInstance:
			tp.who = "inst:?"
			if in := rt.InstOf(d.Instance); in != nil {
				if l, ok := e.label[in]; ok {
					tp.who = l
				}
			}
		case d.Constructor.IsValid() && d.Constructor.Kind() == reflect.Func:
			if id, ok := ctorByPtr[funcValueID(d.Constructor.Interface())]; ok {
				tp.who = fmt.Sprintf("c%d", id)
			} else {
				tp.who = "c?"
			}
		default:
			tp.who = "?"
		}
		v.Slice = append(v.Slice, tp)
	}
	sort.Slice(v.Slice, func(i, j int) bool { return tupleKey(v.Slice[i]) < tupleKey(v.Slice[j]) })
	return v
}

// String is a canonical rendering of the views (twin comparison, witnesses).
func (v Views) String() string {
	var cs, ks, sl []string
	for _, tn := range uTypes {
		if v.Contains[tn] {
			cs = append(cs, tn)
		}
		for _, k := range uKeys {
			if v.Keyed[ident{T: tn, Key: k}] {
				ks = append(ks, tn+"/"+k)
			}
		}
	}
	for _, t := range v.Slice {
		sl = append(sl, tupleKey(t))
	}
	return fmt.Sprintf("Contains{%s} ContainsKeyed{%s} Count=%d ToSlice[%s]", strings.Join(cs, ","), strings.Join(ks, ","), v.Count, strings.Join(sl, " "))
}

// mismatch is one disagreement between the views and a reference state.
type mismatch struct {
	view string // contains | keyed | count | toslice
	msg  string
}

// checkViews compares the four views with the reference state. Where the statement is
// silent both readings are accepted:
//   - Contains(T) when T only has keyed or grouped registrations: either answer;
//   - Count / ToSlice may count identities (one per output of a multi-output constructor and
//     per As alias) or registration calls.
func checkViews(v Views, s *Ref) []mismatch {
	var ms []mismatch
	for _, tn := range uTypes {
		_, unkeyed := s.svc[ident{T: tn}]
		got := v.Contains[tn]
		switch {
		case unkeyed && !got:
			ms = append(ms, mismatch{"contains", fmt.Sprintf("Contains(%s)=false but %s is registered", tn, tn)})
		case !unkeyed && got && !s.hasType(tn):
			ms = append(ms, mismatch{"contains", fmt.Sprintf("Contains(%s)=true but nothing of that type is registered", tn)})
		}
		for _, k := range uKeys {
			id := ident{T: tn, Key: k}
			_, want := s.svc[id]
			if v.Keyed[id] != want {
				ms = append(ms, mismatch{"keyed", fmt.Sprintf("ContainsKeyed(%s,%q)=%v, reference says %v", tn, k, v.Keyed[id], want)})
			}
		}
	}
	regs, _ := s.regsAlive()
	if v.Count != s.nIdent() && v.Count != len(regs) {
		ms = append(ms, mismatch{"count", fmt.Sprintf("Count()=%d; the reference holds %d identities from %d registration calls", v.Count, s.nIdent(), len(regs))})
	}
	if m := checkSlice(v, s, regs); m != "" {
		ms = append(ms, mismatch{"toslice", m})
	}
	return ms
}

func checkSlice(v Views, s *Ref, regs []*reg) string {
	want := s.tuples()
	// reading 1: one descriptor per identity
	if len(v.Slice) == len(want) {
		same := true
		for i := range want {
			if tupleKey(want[i]) != tupleKey(v.Slice[i]) {
				same = false
				break
			}
		}
		if same {
			return ""
		}
	}
	// reading 2: one descriptor per registration call, naming one of its surviving identities
	if len(v.Slice) == len(regs) {
		byWho := map[string][]tuple{}
		for _, t := range want {
			byWho[fmt.Sprintf("%s#%d", t.who, t.call)] = append(byWho[fmt.Sprintf("%s#%d", t.who, t.call)], t)
		}
		used := map[string]bool{}
		ok := true
		for _, d := range v.Slice {
			found := false
			for k, ts := range byWho {
				if used[k] {
					continue
				}
				for _, t := range ts {
					if tupleKey(t) == tupleKey(d) {
						found = true
						break
					}
				}
				if found {
					used[k] = true
					break
				}
			}
			if !found {
				ok = false
				break
			}
		}
		if ok {
			return ""
		}
	}
	var ws, gs []string
	for _, t := range want {
		ws = append(ws, tupleKey(t))
	}
	for _, t := range v.Slice {
		gs = append(gs, tupleKey(t))
	}
	return fmt.Sprintf("ToSlice() lists [%s]; the reference holds [%s]", strings.Join(gs, " "), strings.Join(ws, " "))
}

// ---------------------------------------------------------------------------------------------
// Provider observation.

// ProvObs is how a provider answers every resolution of the universe from a fresh scope.
type ProvObs struct {
	Table    map[string]string // identity -> "ok:<producer>" | "ok:[p1,p2]" | "notfound" | "error" | "panic"
	Ran      map[int]bool      // constructor ids that ran while resolving
	Poisoned bool              // a panic escaped godi: stop using the provider
	ScopeErr string
}

func (e *env) producer(v any) string {
	in := rt.InstOf(v)
	if in == nil {
		return fmt.Sprintf("foreign(%T)", v)
	}
	if in.Ctor < 0 {
		if l, ok := e.label[in]; ok {
			return l
		}
		return "inst:?"
	}
	return fmt.Sprintf("c%d.%d", in.Ctor, in.Out)
}

func errClass(err error) string {
	if errors.Is(err, godi.ErrServiceNotFound) {
		return "notfound"
	}
	return "error"
}

func (e *env) ranSince(mark int) map[int]bool {
	m := map[int]bool{}
	evs := e.rec.Events()
	for _, ev := range evs[mark:] {
		if ev.Kind == rt.CtorEnter {
			m[ev.Ctor] = true
		}
	}
	return m
}

func (e *env) mark() int { return len(e.rec.Events()) }

// observeProvider resolves every identity of the universe from a fresh scope.
func (e *env) observeProvider(p godi.Provider) (obs ProvObs) {
	obs = ProvObs{Table: map[string]string{}}
	mark := e.mark()
	defer func() {
		if r := recover(); r != nil {
			obs.Poisoned = true
			obs.ScopeErr = fmt.Sprintf("panic: %v", r)
		}
		obs.Ran = e.ranSince(mark)
	}()
	sc, err := p.CreateScope(context.Background())
	if err != nil {
		obs.ScopeErr = errClass(err)
		return obs
	}
	defer func() { _ = sc.Close() }()
	get := func(id ident, f func() string) {
		defer func() {
			if r := recover(); r != nil {
				obs.Table[id.String()] = "panic"
				obs.Poisoned = true
			}
		}()
		obs.Table[id.String()] = f()
	}
	for _, tn := range uTypes {
		t := pool.T(tn)
		for _, k := range append([]string{""}, uKeys...) {
			if obs.Poisoned {
				return obs
			}
			id := ident{T: tn, Key: k}
			get(id, func() string {
				var v any
				var err error
				if k == "" {
					v, err = sc.Get(t)
				} else {
					v, err = sc.GetKeyed(t, k)
				}
				if err != nil {
					return errClass(err)
				}
				return "ok:" + e.producer(v)
			})
		}
		for _, g := range uGroups {
			if obs.Poisoned {
				return obs
			}
			id := ident{T: tn, Group: g}
			get(id, func() string {
				vs, err := sc.GetGroup(t, g)
				if err != nil {
					return errClass(err)
				}
				ps := make([]string, 0, len(vs))
				for _, v := range vs {
					ps = append(ps, e.producer(v))
				}
				return "ok:[" + strings.Join(ps, ",") + "]"
			})
		}
	}
	return obs
}

// BuildObs is the outcome of Build plus, when it succeeded, the provider's answers.
type BuildObs struct {
	OK       bool
	Err      error
	Panic    string
	RanBuild map[int]bool
	Prov     ProvObs
	P        godi.Provider
}

// buildAndObserve builds a provider from the collection and observes it.
func (e *env) buildAndObserve(c godi.Collection) (b BuildObs) {
	mark := e.mark()
	func() {
		defer func() {
			if r := recover(); r != nil {
				b.Panic = fmt.Sprintf("%v", r)
			}
		}()
		b.P, b.Err = c.Build()
	}()
	b.RanBuild = e.ranSince(mark)
	if b.Panic != "" || b.Err != nil || b.P == nil {
		return b
	}
	b.OK = true
	b.Prov = e.observeProvider(b.P)
	return b
}

func tableString(t map[string]string) string {
	var ks []string
	for k, v := range t {
		if v == "absent" || v == "notfound" || v == "ok:[]" {
			continue
		}
		ks = append(ks, k+"->"+v)
	}
	sort.Strings(ks)
	return "{" + strings.Join(ks, " ") + "}"
}

// diffExpect compares observed answers with the reference expectation ("absent" accepts any
// failure class).
func diffExpect(got, want map[string]string) []string {
	var ds []string
	for k, w := range want {
		g := got[k]
		switch {
		case w == "absent":
			if strings.HasPrefix(g, "ok:") || g == "panic" {
				ds = append(ds, fmt.Sprintf("%s resolves (%s) but is not registered", k, g))
			}
		case strings.HasPrefix(w, "partial:"):
			if (strings.HasPrefix(g, "ok:") && g != "ok:"+strings.TrimPrefix(w, "partial:")) || g == "panic" {
				ds = append(ds, fmt.Sprintf("%s: got %s, registered is %s", k, g, strings.TrimPrefix(w, "partial:")))
			}
		case g != w:
			ds = append(ds, fmt.Sprintf("%s: got %s, registered is %s", k, g, w))
		}
	}
	sort.Strings(ds)
	return ds
}

// diffTables compares two observations of the same kind exactly.
func diffTables(a, b map[string]string) []string {
	var ds []string
	for k, va := range a {
		if vb := b[k]; va != vb {
			ds = append(ds, fmt.Sprintf("%s: %s -> %s", k, va, vb))
		}
	}
	for k, vb := range b {
		if _, ok := a[k]; !ok {
			ds = append(ds, fmt.Sprintf("%s: <none> -> %s", k, vb))
		}
	}
	sort.Strings(ds)
	return ds
}

func setString(m map[int]bool) string {
	var ids []int
	for id := range m {
		ids = append(ids, id)
	}
	sort.Ints(ids)
	var ps []string
	for _, id := range ids {
		ps = append(ps, pool.Ctors[id].Name)
	}
	return "[" + strings.Join(ps, ",") + "]"
}
