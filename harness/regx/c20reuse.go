package regx

import (
	"fmt"
	"math/rand"
	"sync"

	"github.com/junioryono/godi/v4"
	"github.com/junioryono/godi/v4/verifh/rt"
)

// Reuse workload of C20: the entry lists of a module tree are materialised ONCE as
// []godi.ModuleOption slices (nil entries in the middle) and always handed over in spread form
// (godi.NewModule(name, entries...), coll.AddModules(entries...)); then the SAME slices are
// used again. Every application must still be equivalent to the left-to-right flattening of
// the entry lists as the harness wrote them (its own []*Node representation, never re-read
// from the slices), and godi must leave the caller's slices alone.

// matList is one materialised entry list.
type matList struct {
	path   string  // where the list sits in the tree ("top", "top/m1", ...)
	name   string  // name of the module the list belongs to ("" for top level / unnamed groups)
	named  bool    // the list is the argument list of a godi.NewModule
	kids   []*Node // the entries as the harness wrote them
	slice  []godi.ModuleOption
	nilPat []bool // which entries were nil right after the slice was filled
}

// materialise builds the slices bottom-up; every NewModule call receives its list in spread form.
func (e *env) materialise(ns []*Node, path string, all *[]*matList) *matList {
	ml := &matList{path: path, kids: ns, slice: make([]godi.ModuleOption, 0, len(ns))}
	for _, n := range ns {
		switch n.Kind {
		case "nil":
			ml.slice = append(ml.slice, nil)
		case "leaf":
			ml.slice = append(ml.slice, e.leafOption(n.Op))
		case "named":
			child := e.materialise(n.Kids, path+"/"+n.Name, all)
			child.name, child.named = n.Name, true
			ml.slice = append(ml.slice, godi.NewModule(n.Name, child.slice...))
		case "anon":
			child := e.materialise(n.Kids, path+"/group", all)
			g := &anonGroup{kids: child.slice, wrap: n.Wrap}
			ml.slice = append(ml.slice, g.apply)
		}
	}
	ml.nilPat = make([]bool, len(ml.slice))
	for i, o := range ml.slice {
		ml.nilPat[i] = o == nil
	}
	*all = append(*all, ml)
	return ml
}

// modified describes how the caller's slice differs from what the harness put there (only
// nil-ness of the entries is compared), or "".
func (ml *matList) modified() string {
	if len(ml.slice) != len(ml.nilPat) {
		return fmt.Sprintf("%s: length %d -> %d", ml.path, len(ml.nilPat), len(ml.slice))
	}
	for i, o := range ml.slice {
		if (o == nil) != ml.nilPat[i] {
			return fmt.Sprintf("%s: entry %d of %d was nil=%v, is nil=%v (entries as written: %s)", ml.path, i, len(ml.slice), ml.nilPat[i], o == nil, treeString(ml.kids))
		}
	}
	return ""
}

// withNils inserts nil entries into the middle of entry lists (never only at the end, where
// an in-place filter would not disturb anything).
func withNils(ns []*Node, rng *rand.Rand) []*Node {
	for _, n := range ns {
		if n.Kind == "named" || n.Kind == "anon" {
			n.Kids = withNils(n.Kids, rng)
		}
	}
	if len(ns) >= 2 && rng.Intn(10) < 8 {
		for k := 1 + rng.Intn(2); k > 0; k-- {
			pos := rng.Intn(len(ns) - 1) // before a non-last entry
			ns = append(ns[:pos:pos], append([]*Node{{Kind: "nil"}}, ns[pos:]...)...)
		}
	}
	return ns
}

func hasNamed(ns []*Node) bool {
	for _, n := range ns {
		if n.Kind == "named" || (n.Kind == "anon" && hasNamed(n.Kids)) {
			return true
		}
	}
	return false
}

func genReuseTree(rng *rand.Rand) []*Node {
	tree := genTree(rng)
	if !hasNamed(tree) {
		tree = []*Node{{Kind: "named", Name: "w", Kids: tree}}
	}
	return withNils(tree, rng)
}

// runReuse executes one case of the reuse workload.
func runReuse(tree []*Node, stats map[string]int64) (fs []finding, nontrivial bool) {
	e := newEnv()
	var all []*matList
	top := e.materialise(tree, "top", &all)
	stats["reuse_cases"]++

	sliceFinding := func(when string) {
		for _, ml := range all {
			stats["caller_slices_checked"]++
			if m := ml.modified(); m != "" {
				fs = append(fs, finding{"caller-slice-modified", "C20/caller-slice-modified:" + when,
					fmt.Sprintf("godi changed an entry slice that belongs to the caller (passed as entries...), seen %s: %s", when, m)})
				return
			}
		}
	}
	sliceFinding("after-NewModule")

	ok := true
	// application runs one use of the slices against the direct-call twin of the ORIGINAL entries
	application := func(kind, where string, kids []*Node, apply func(godi.Collection) error, leaves []flatLeaf) {
		if !ok {
			return
		}
		stats["reuse_applications"]++
		stats["reuse_"+kind]++
		report := func(clause, feature, detail string) {
			if kind == "first-use" {
				sig := "C20/" + clause
				if feature != "" {
					sig += ":" + feature
				}
				fs = append(fs, finding{clause, sig, detail})
				return
			}
			fs = append(fs, finding{"reused-entries-differ", "C20/reused-entries-differ:" + kind,
				fmt.Sprintf("%s: using the entry slice %s (as written: %s) is not equivalent to the left-to-right flattening of those entries: [%s %s] %s", kind, where, treeString(kids), clause, feature, detail)})
		}
		if _, done := compareTwin(e, apply, leaves, stats, report); !done {
			ok = false
		}
	}

	whole := flatten(tree, nil, nil)
	// first use, then (a) the same tree (same module values, same slices) on a second fresh collection
	application("first-use", "top", tree, func(c godi.Collection) error { return c.AddModules(top.slice...) }, whole)
	application("same-tree-second-collection", "top", tree, func(c godi.Collection) error { return c.AddModules(top.slice...) }, whole)
	for _, ml := range all {
		ml := ml
		if ml == top {
			continue
		}
		// (b) the entries of an inner module handed to AddModules of another collection
		application("inner-entries-to-AddModules", ml.path, ml.kids, func(c godi.Collection) error { return c.AddModules(ml.slice...) }, flatten(ml.kids, nil, nil))
		// (c) NewModule called twice more on the same slice: two module values, separate collections
		name := ml.name
		if !ml.named {
			name = "again"
		}
		m1 := godi.NewModule(name, ml.slice...)
		m2 := godi.NewModule(name, ml.slice...)
		sub := flatten(ml.kids, []string{name}, nil)
		application("second-NewModule-on-same-slice", ml.path, ml.kids, func(c godi.Collection) error { return c.AddModules(m1) }, sub)
		application("second-NewModule-on-same-slice", ml.path, ml.kids, func(c godi.Collection) error { return c.AddModules(m2) }, sub)
	}
	// (c) at the root: the top-level list wrapped twice, and (a) once more after all of that
	r1 := godi.NewModule("root", top.slice...)
	r2 := godi.NewModule("root", top.slice...)
	rooted := flatten(tree, []string{"root"}, nil)
	application("second-NewModule-on-same-slice", "top", tree, func(c godi.Collection) error { return c.AddModules(r1) }, rooted)
	application("second-NewModule-on-same-slice", "top", tree, func(c godi.Collection) error { return c.AddModules(r2) }, rooted)
	application("same-tree-second-collection", "top", tree, func(c godi.Collection) error { return c.AddModules(top.slice...) }, whole)

	// (d) module values carry no state of an application: the same tree applied to several fresh
	// collections AT THE SAME TIME gives each of them what a single application gives
	if ok {
		ref := godi.NewCollection()
		refErr := ref.AddModules(top.slice...)
		refCount, refFeat := ref.Count(), errFeatures(refErr)
		const goroutines, rounds = 8, 4
		type outcome struct {
			count int
			feat  string
			msg   string
			pan   any
		}
		for round := 0; round < rounds && len(fs) == 0; round++ {
			outs := make([]outcome, goroutines)
			start := make(chan struct{})
			var wg sync.WaitGroup
			for g := 0; g < goroutines; g++ {
				wg.Add(1)
				go func(g int) {
					defer wg.Done()
					defer func() {
						if p := recover(); p != nil {
							outs[g].pan = p
						}
					}()
					c := godi.NewCollection()
					<-start
					err := c.AddModules(top.slice...)
					outs[g] = outcome{count: c.Count(), feat: errFeatures(err)}
					if err != nil {
						outs[g].msg = err.Error()
					}
				}(g)
			}
			close(start)
			wg.Wait()
			stats["reuse_concurrent_applications"] += goroutines
			for g, o := range outs {
				if o.pan != nil || o.count != refCount || o.feat != refFeat {
					fs = append(fs, finding{"reused-entries-differ", "C20/reused-entries-differ:same-tree-concurrently-on-separate-collections",
						fmt.Sprintf("the module tree %s was applied to %d fresh collections from %d goroutines at once; a single application registers %d services (error: %q); application %d registered %d (error: %q %s; panic: %v)",
							treeString(tree), goroutines, goroutines, refCount, refFeat, g, o.count, o.feat, o.msg, o.pan)})
					break
				}
			}
		}
	}

	if len(fs) == 0 || fs[0].clause != "caller-slice-modified" {
		sliceFinding("after-applications")
	}
	for _, ev := range e.rec.Events() {
		if ev.Kind == rt.CtorExit {
			stats["ctor_exit_events"]++
		}
	}
	nilsInside := 0
	for _, ml := range all {
		for i, isNil := range ml.nilPat {
			if isNil && i < len(ml.nilPat)-1 {
				nilsInside++
			}
		}
	}
	stats["reuse_lists_with_inner_nil_entries"] += int64(nilsInside)
	return fs, nilsInside > 0 && len(whole) >= 2
}
