package regx

import (
	"errors"
	"fmt"
	"reflect"
	"strings"

	"github.com/junioryono/godi/v4"
	"github.com/junioryono/godi/v4/verifh/eng"
)

// Registrations without a result (initializers) in the registry.
//
// A constructor that returns nothing is a registration like any other: under a Name its identity
// is (struct{}, name) - a second one under the same name is rejected and leaves no trace, Count
// and ToSlice describe what Build will run, RemoveKeyed takes it out again (its function never
// runs in later builds), and a built provider keeps running what was registered when it was built.

var unitType = reflect.TypeOf(struct{}{})

type initWorld struct{ runs map[string]int }

var initCur *initWorld

// distinct top-level functions (a registration is a function value; closures of one literal
// would share their code)
func initA()       { initCur.runs["A"]++ }
func initB()       { initCur.runs["B"]++ }
func initC() error { initCur.runs["C"]++; return nil }
func initD()       { initCur.runs["D"]++ }

func runC17Initializers(c *eng.Ctx, next func() (int, bool)) {
	lifes := []struct {
		name string
		add  func(godi.Collection, any, ...godi.AddOption) error
	}{
		{"scoped", func(c godi.Collection, f any, o ...godi.AddOption) error { return c.AddScoped(f, o...) }},
		{"singleton", func(c godi.Collection, f any, o ...godi.AddOption) error { return c.AddSingleton(f, o...) }},
		{"transient", func(c godi.Collection, f any, o ...godi.AddOption) error { return c.AddTransient(f, o...) }},
	}
	for _, lf := range lifes {
		idx, mine := next()
		if !mine {
			continue
		}
		c.R.Begin(idx)
		viol := func(clause, detail string) {
			c.R.Violation(eng.Violation{Prop: "C17", Clause: clause, Sig: "C17/" + clause + ":registration-without-a-result:" + lf.name, Case: idx, CaseID: "initializers-" + lf.name,
				Detail: lf.name + " registrations without a result: " + detail, Replay: map[string]any{"fixture": "initializers", "lifetime": lf.name}})
		}
		func() {
			defer func() {
				if p := recover(); p != nil {
					viol("panic", fmt.Sprintf("panic: %v", p))
				}
			}()
			w := &initWorld{runs: map[string]int{}}
			initCur = w
			coll := godi.NewCollection()
			// ordinary services registered BEFORE the initializers (Build sorts the initializers out of
			// its descriptor list: the collection's own list must not change by that)
			if err := coll.AddSingleton(newInitSvc); err != nil {
				panic(err)
			}
			if err := coll.AddTransient(newInitSvc2); err != nil {
				panic(err)
			}
			if err := lf.add(coll, initA, godi.Name("x")); err != nil {
				viol("valid-add-rejected", fmt.Sprintf("Add(initA, Name(x)): %v", err))
				return
			}
			if err := lf.add(coll, initD); err != nil { // unnamed: generated identity
				viol("valid-add-rejected", fmt.Sprintf("Add(initD): %v", err))
				return
			}
			before := coll.Count()
			err := lf.add(coll, initB, godi.Name("x"))
			var are *godi.AlreadyRegisteredError
			var arv godi.AlreadyRegisteredError
			if err == nil {
				viol("duplicate-accepted", "a second registration without a result under the same name was accepted")
			} else if !errors.As(err, &are) && !errors.As(err, &arv) {
				viol("duplicate-wrong-error", fmt.Sprintf("the second registration under the same name was rejected with %T: %v", err, err))
			}
			if coll.Count() != before {
				viol("rejected-add-changed-collection", fmt.Sprintf("Count went from %d to %d through a rejected registration", before, coll.Count()))
			}
			if !coll.ContainsKeyed(unitType, "x") {
				viol("views-after-add", "ContainsKeyed(struct{}, x) is false for the registered initializer")
			}
			build := func(what string, want map[string]int) godi.Provider {
				for k := range w.runs {
					delete(w.runs, k)
				}
				sigBefore, countBefore := sliceSig(coll), coll.Count()
				p, err := coll.Build()
				if err != nil {
					viol("build-fails", fmt.Sprintf("%s: Build: %v", what, err))
					return nil
				}
				if sig := sliceSig(coll); sig != sigBefore || coll.Count() != countBefore {
					viol("build-changed-collection", fmt.Sprintf("%s: ToSlice / Count before Build: %s (%d); after: %s (%d)", what, sigBefore, countBefore, sig, coll.Count()))
				}
				if _, err := godi.Resolve[*initSvc](p); err != nil {
					viol("build-uses-other-registrations", fmt.Sprintf("%s: the singleton registered first is not resolvable from the provider: %v", what, err))
				}
				// one fresh scope (scoped initializers run at scope creation; transient ones never by themselves)
				if s, err := p.CreateScope(nil); err == nil {
					_ = s.Close()
				}
				for tag, n := range want {
					if w.runs[tag] != n && !(lf.name == "transient") {
						viol("build-uses-other-registrations", fmt.Sprintf("%s: initializer %s ran %d times over Build + one scope (want %d); all runs: %v", what, tag, w.runs[tag], n, w.runs))
					}
				}
				for tag, n := range w.runs {
					if _, ok := want[tag]; !ok && n > 0 {
						viol("build-uses-other-registrations", fmt.Sprintf("%s: %s ran %d times although it is not registered (rejected or removed)", what, tag, n))
					}
				}
				return p
			}
			perBuild := map[string]int{"scoped": 2, "singleton": 1, "transient": 0}[lf.name] // root scope + one scope
			p1 := build("after the rejected duplicate", map[string]int{"A": perBuild, "D": perBuild})
			coll.RemoveKeyed(unitType, "x")
			if coll.ContainsKeyed(unitType, "x") || coll.Count() != before-1 {
				viol("views-after-remove", fmt.Sprintf("after RemoveKeyed(struct{}, x): ContainsKeyed=%v Count=%d (want false, %d)", coll.ContainsKeyed(unitType, "x"), coll.Count(), before-1))
			}
			if err := lf.add(coll, initC, godi.Name("x")); err != nil {
				viol("valid-add-rejected", fmt.Sprintf("after RemoveKeyed the name is free, Add(initC, Name(x)): %v", err))
			}
			p2 := build("after RemoveKeyed + a new registration under the name", map[string]int{"C": perBuild, "D": perBuild})
			// the first provider still runs what it was built with
			if p1 != nil && lf.name == "scoped" {
				for k := range w.runs {
					delete(w.runs, k)
				}
				if s, err := p1.CreateScope(nil); err == nil {
					_ = s.Close()
				}
				if w.runs["A"] != 1 || w.runs["C"] != 0 || w.runs["B"] != 0 {
					viol("built-provider-changed", fmt.Sprintf("a scope of the provider built BEFORE the edits ran %v (want A once, D once)", w.runs))
				}
			}
			for _, p := range []godi.Provider{p1, p2} {
				if p != nil {
					_ = p.Close()
				}
			}
			c.R.Count("initializer_registry_cases", 1)
		}()
		c.R.End(idx, eng.Hash("c17-initializers", lf.name), true)
	}
}

type initSvc struct{ n int }
type initSvc2 struct{ n int }

func newInitSvc() *initSvc   { return &initSvc{1} }
func newInitSvc2() *initSvc2 { return &initSvc2{2} }

// sliceSig renders ToSlice as a list of (type, key class, lifetime) in order.
func sliceSig(coll godi.Collection) string {
	var ps []string
	for _, d := range coll.ToSlice() {
		if d == nil {
			ps = append(ps, "<nil>")
			continue
		}
		k := "-"
		if d.Key != nil {
			k = fmt.Sprintf("%T", d.Key)
			if s, ok := d.Key.(string); ok && (len(s) == 0 || s[0] != 'v') {
				k = s
			}
		}
		ps = append(ps, fmt.Sprintf("%v/%s/%v", d.Type, k, d.Lifetime))
	}
	return "[" + strings.Join(ps, " ") + "]"
}
