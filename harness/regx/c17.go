package regx

import (
	"fmt"
	"math/rand"
	"sort"
	"strings"
	"time"

	"github.com/junioryono/godi/v4"
	"github.com/junioryono/godi/v4/verifh/core"
	"github.com/junioryono/godi/v4/verifh/eng"
	"github.com/junioryono/godi/v4/verifh/pool"
	"github.com/junioryono/godi/v4/verifh/rt"
)

// finding is one refutation seen at one step.
type finding struct {
	clause string
	sig    string
	detail string
}

// retained is a provider kept from an explicit Build step with its answers at that time.
type retained struct {
	p     godi.Provider
	table map[string]string
	step  int
}

// seqRun executes one operation sequence against a real collection and the reference.
type seqRun struct {
	hist []*Op // every step executed so far (directed refused-build sequences consult the model)
	e        *env
	c        godi.Collection
	s        *Ref
	kept     []*retained
	stats    map[string]int64
	removed  map[int]string // ctor id -> "Remove:singleton" (registration removed and the ctor no longer registered)
	rejected map[int]string // ctor id -> form of the rejected call
	// non-triviality
	accepted, rejections, removals, editsAfterBuild int
	poisoned                                        bool
}

func newSeqRun(stats map[string]int64) *seqRun {
	return &seqRun{e: newEnv(), c: godi.NewCollection(), s: NewRef(), stats: stats, removed: map[int]string{}, rejected: map[int]string{}}
}

func (q *seqRun) close() {
	for _, r := range q.kept {
		func() {
			defer func() { _ = recover() }()
			_ = r.p.Close()
		}()
	}
}

func outClass(n int) string {
	if n <= 1 {
		return "out1"
	}
	return "out2+"
}

func viewSet(ms []mismatch) string {
	set := map[string]bool{}
	for _, m := range ms {
		set[m.view] = true
	}
	var vs []string
	for v := range set {
		vs = append(vs, v)
	}
	sort.Strings(vs)
	return strings.Join(vs, "+")
}

func mismatchText(ms []mismatch) string {
	var ps []string
	for _, m := range ms {
		ps = append(ps, m.msg)
	}
	return strings.Join(ps, "; ")
}

// judged is the reference's reading of one executed step.
type judged struct {
	class      string // add | rejected-add | Remove | RemoveKeyed | noop-remove | build
	form       string // form of the (rejected) add
	rejectAt   int
	candidates []*Ref
	findings   []finding
	preRemove  *Ref // state the Remove entry acted on
	viaModules bool
}

// classifyAdd compares the result of one Add call with the reference's verdict v (taken in state s).
func classifyAdd(s *Ref, v verdict, o *Op, err error, via string) (fs []finding) {
	switch {
	case v.accept && err != nil:
		fs = append(fs, finding{"valid-add-rejected", "C17/valid-add-rejected:" + v.form,
			fmt.Sprintf("%s%s was rejected (%s: %v) although %v is free in reference %s", via, o, errFeatures(err), err, v.r.outs, s)})
	case !v.accept && err == nil && v.why == "duplicate":
		fs = append(fs, finding{"duplicate-accepted", "C17/duplicate-accepted:" + v.form + ":" + outClass(v.rejectAt),
			fmt.Sprintf("%s%s returned nil although output %d duplicates an identity of reference %s", via, o, v.rejectAt, s)})
	case !v.accept && err == nil:
		fs = append(fs, finding{"invalid-add-accepted", "C17/invalid-add-accepted:" + v.why,
			fmt.Sprintf("%s%s returned nil (%s must be rejected)", via, o, v.why)})
	case !v.accept && v.wantAlready && !alreadyRegistered(err):
		fs = append(fs, finding{"duplicate-error-class", "C17/duplicate-error-class:" + v.form + ":" + outClass(v.rejectAt),
			fmt.Sprintf("%s%s was rejected as a duplicate but no AlreadyRegisteredError is reachable with errors.As (reachable: %s)", via, o, errFeatures(err))})
	}
	return fs
}

func (q *seqRun) noteRejected(o *Op, v verdict) {
	q.rejections++
	q.stats["adds_rejected"]++
	q.stats["adds_rejected_"+v.why]++
	if v.rejectAt >= 2 {
		q.stats["adds_rejected_at_output_2plus"]++
	}
	if o.Ctor != "nil" && !strings.HasPrefix(o.Ctor, "inst:") {
		id := pool.ByName(o.Ctor).ID
		q.rejected[id] = v.form + ":rejected-at-" + outClass(v.rejectAt)
		delete(q.removed, id) // the latest event explains a later run of the constructor
	}
}

func (q *seqRun) noteAccepted(v verdict) {
	q.accepted++
	q.stats["adds_accepted"]++
	q.stats["adds_accepted_"+v.form]++
	if v.r.ctor >= 0 {
		delete(q.removed, v.r.ctor)
		delete(q.rejected, v.r.ctor)
	}
}

// execute runs the op on the real collection and returns the reference's reading.
func (q *seqRun) execute(o *Op, stepNo int) (j judged) {
	defer func() {
		if r := recover(); r != nil {
			q.poisoned = true
			j.findings = append(j.findings, finding{"panic", "C17/panic:" + o.Kind, fmt.Sprintf("%s panicked: %v", o, r)})
			if j.candidates == nil {
				j.candidates = []*Ref{q.s}
			}
		}
	}()
	switch o.Kind {
	case "add":
		err := q.e.applyDirect(q.c, o)
		v := q.s.judgeAdd(o)
		j.findings = classifyAdd(q.s, v, o, err, "")
		j.form, j.rejectAt = v.form, v.rejectAt
		if v.accept {
			n := q.s.Clone()
			n.commit(v.r)
			j.class, j.candidates = "add", []*Ref{n}
			q.noteAccepted(v)
		} else {
			j.class, j.candidates = "rejected-add", []*Ref{q.s}
			q.noteRejected(o, v)
		}
	case "remove", "removeKeyed":
		_ = q.e.applyDirect(q.c, o)
		j.candidates = q.s.afterRemove(o)
		j.preRemove = q.s
		j.class = "noop-remove"
		if q.s.had(o) {
			j.class = map[string]string{"remove": "Remove", "removeKeyed": "RemoveKeyed"}[o.Kind]
		}
	case "modules":
		err := q.e.applyDirect(q.c, o)
		// C17 only uses module calls whose result does not depend on module semantics (C20's
		// subject): the entries commute (distinct identities and groups, a Remove entry of a
		// type no entry adds) and an entry the statement rejects only ever travels alone.
		// Only the nil-ness of the returned error is judged here.
		cur := q.s.Clone()
		j.class, j.viaModules = "add", true
		var rm *Op
		wantErr := false
		for _, lf := range flatten(o.Mods, nil, nil) {
			switch lf.Op.Kind {
			case "add":
				v := cur.judgeAdd(lf.Op)
				if v.accept {
					cur.commit(v.r)
					q.noteAccepted(v)
					break
				}
				j.class, j.form, j.rejectAt = "rejected-add", v.form, v.rejectAt
				q.noteRejected(lf.Op, v)
				wantErr = true
				if err == nil {
					j.findings = append(j.findings, classifyAdd(cur, v, lf.Op, nil, "AddModules: ")...)
				}
			case "remove", "removeKeyed":
				rm = lf.Op
			}
		}
		j.candidates = []*Ref{cur}
		if rm != nil {
			j.candidates = cur.afterRemove(rm)
			j.preRemove = cur
			if cur.had(rm) {
				j.class = map[string]string{"remove": "Remove", "removeKeyed": "RemoveKeyed"}[rm.Kind]
			}
		}
		if !wantErr && err != nil {
			j.findings = append(j.findings, finding{"valid-add-rejected", "C17/valid-add-rejected:modules",
				fmt.Sprintf("%s returned %v although every entry is valid in reference %s", o, err, q.s)})
		}
	case "build":
		j.class, j.candidates = "build", []*Ref{q.s}
	}
	return j
}

// step executes one op and runs every oracle; it returns the findings of this step.
// modelSaysBuildable: the registration history so far, judged by the reference model of
// package core (dependency, lifetime and cycle validation of the FINAL set). Used as a second
// opinion when Build fails on the collection AND on its fresh twin: a twin built in the same
// process cannot see state the container keeps per process.
func (q *seqRun) modelSaysBuildable() (ok, decided bool) {
	spec := &core.Spec{}
	for _, o := range q.hist {
		switch o.Kind {
		case "add":
			meta := pool.ByName(o.Ctor)
			if meta == nil {
				return false, false
			}
			life := godi.Transient
			switch o.Life {
			case "singleton":
				life = godi.Singleton
			case "scoped":
				life = godi.Scoped
			}
			spec.Regs = append(spec.Regs, core.Reg{Ctor: meta.ID, Life: life, Name: o.Name, Group: o.Group, As: append([]string(nil), o.As...)})
		case "remove":
			spec.Regs = append(spec.Regs, core.Reg{Remove: true, RmType: o.Type})
		case "removeKeyed":
			if o.KeyKind != "" {
				return false, false
			}
			spec.Regs = append(spec.Regs, core.Reg{Remove: true, RmType: o.Type, RmKey: o.Key})
		case "build":
		default:
			return false, false
		}
	}
	defer func() {
		if recover() != nil {
			ok, decided = false, false
		}
	}()
	m := core.NewModel(spec)
	for i := range m.Regs {
		if rj := m.Regs[i].Reject; rj != "" && !strings.HasPrefix(rj, "(") {
			return false, false // a rejected Add call in the history: left to the twin
		}
	}
	return m.Class == core.ClsOK, true
}

func (q *seqRun) step(o *Op, stepNo int) []finding {
	q.hist = append(q.hist, o)
	q.stats["steps"]++
	q.stats["op_"+o.Kind]++
	viewsBefore := q.e.observeViews(q.c)
	if len(q.kept) > 0 && o.Kind != "build" {
		q.editsAfterBuild++
		q.stats["edits_after_build"]++
	}
	j := q.execute(o, stepNo)
	fs := j.findings
	if q.poisoned {
		return fs
	}

	// --- views vs. reference (the first allowed state the views agree with is adopted)
	views := q.e.observeViews(q.c)
	q.stats["view_checks"]++
	chosen := -1
	for i, cand := range j.candidates {
		if len(checkViews(views, cand)) == 0 {
			chosen = i
			break
		}
	}
	if chosen < 0 {
		ms := checkViews(views, j.candidates[0])
		q.s = j.candidates[0]
		switch j.class {
		case "Remove", "RemoveKeyed", "noop-remove":
			api := j.class
			if api == "noop-remove" {
				api = "Remove-of-absent"
			}
			fs = append(fs, finding{"views-after-remove", "C17/views-after-remove:" + api + ":" + viewSet(ms),
				fmt.Sprintf("after %s the views do not describe any state the statement allows: %s\nviews: %s\nreference (only the named identity removed): %s", o, mismatchText(ms), views, q.s)})
		case "rejected-add":
			fs = append(fs, finding{"rejected-add-not-atomic", "C17/rejected-add-not-atomic:" + j.form + ":rejected-at-" + outClass(j.rejectAt),
				fmt.Sprintf("%s was rejected (at output %d) but changed the collection: %s\nviews before: %s\nviews after:  %s\nreference: %s", o, j.rejectAt, mismatchText(ms), viewsBefore, views, q.s)})
		default:
			fs = append(fs, finding{"views-after-" + j.class, "C17/views-after-" + j.class + ":" + j.form + ":" + viewSet(ms),
				fmt.Sprintf("after %s the views disagree with the reference: %s\nviews: %s\nreference: %s", o, mismatchText(ms), views, q.s)})
		}
	} else {
		q.s = j.candidates[chosen]
		if chosen > 0 {
			q.stats["remove_wider_reading_adopted"]++
		}
		if j.class == "rejected-add" && !j.viaModules && views.String() != viewsBefore.String() {
			// consistent with the reference but not literally "as it was" (cannot happen while
			// the reference state is unchanged, kept as a guard)
			fs = append(fs, finding{"rejected-add-not-atomic", "C17/rejected-add-not-atomic:" + j.form + ":rejected-at-" + outClass(j.rejectAt),
				fmt.Sprintf("%s was rejected but the views changed\nbefore: %s\nafter:  %s", o, viewsBefore, views)})
		}
	}
	// bookkeeping: which constructors lost their last registration in this step
	if j.class == "Remove" || j.class == "RemoveKeyed" {
		q.removals++
		q.stats["removes_effective"]++
		alive := q.s.ctorsAlive()
		rs, _ := j.preRemove.regsAlive()
		for _, r := range rs {
			if r.ctor >= 0 && !alive[r.ctor] {
				q.removed[r.ctor] = j.class + ":" + r.life
				delete(q.rejected, r.ctor)
			}
		}
	}

	// --- what a Build performed now uses
	okBuild, partial := q.s.buildable()
	switch {
	case !okBuild:
		q.stats["build_checks_skipped_reference_not_buildable"]++
		if o.Kind == "build" && c17RefusedBuilds {
			// (directed sequences, under their watchdog) the Build is issued for real: whether it
			// is refused is C07's / C08's business - here the collection must survive it
			func() {
				defer func() {
					if p := recover(); p != nil {
						q.poisoned = true
						fs = append(fs, finding{"build-panics", "C17/build-panics:refused-build", fmt.Sprintf("Build panicked after %s: %v", o, p)})
					}
				}()
				if p, err := q.c.Build(); err == nil {
					_ = p.Close()
					q.stats["refused_builds_that_succeeded"]++
					// whether this set is to be refused is C07's / C08's business; that the verdict
					// is a function of the registrations the collection holds NOW is C17's: a fresh
					// collection holding exactly the surviving registrations must get the same one
					if ok, decided := q.twinBuilds(); decided && !ok {
						fs = append(fs, finding{"history-affects-build", "C17/history-affects-build:set-accepted-that-a-fresh-collection-refuses",
							fmt.Sprintf("Build succeeds after %s, while a fresh collection holding exactly the surviving registrations %s is refused: a registration that was removed - or what an earlier Build of this collection concluded - has an effect on this Build", o, q.s)})
					}
				} else {
					q.stats["refused_builds"]++
					// this file's own reference counts every dependency as required; the model of
					// package core knows optional and group dependencies
					if ok, decided := q.modelSaysBuildable(); decided && ok {
						fs = append(fs, finding{"history-affects-build", "C17/history-affects-build:valid-set-refused",
							fmt.Sprintf("Build fails (%v) after %s although the surviving registrations %s have no cycle, no lifetime conflict and no missing required dependency: a registration that was removed - or a Build that was refused earlier - has an effect on this one", err, o, q.s)})
					}
				}
			}()
		}
	default:
		b := q.e.buildAndObserve(q.c)
		q.stats["build_checks"]++
		switch {
		case b.Panic != "":
			q.poisoned = true
			fs = append(fs, finding{"build-panics", "C17/build-panics:after-" + j.class, fmt.Sprintf("Build panicked after %s: %s", o, b.Panic)})
		case !b.OK:
			if partial {
				q.stats["build_failed_partial_multi_output_undecided"]++
				break
			}
			// does the same set of registrations, issued on a fresh collection, build?
			twinOK, decided := q.twinBuilds()
			switch {
			case !decided:
				q.stats["build_failed_undecided"]++
			case twinOK && j.class == "rejected-add":
				fs = append(fs, finding{"rejected-add-changes-build", "C17/rejected-add-changes-build:" + j.form + ":rejected-at-" + outClass(j.rejectAt),
					fmt.Sprintf("Build fails (%v) after the rejected %s, while a fresh collection holding exactly the registrations %s builds", b.Err, o, q.s)})
			case twinOK:
				fs = append(fs, finding{"history-affects-build", "C17/history-affects-build:after-" + j.class,
					fmt.Sprintf("Build fails (%v) after %s, while a fresh collection holding exactly the surviving registrations %s builds", b.Err, o, q.s)})
			default:
				q.stats["build_fails_also_on_fresh_collection"]++
				if c17RefusedBuilds {
					if ok, decided := q.modelSaysBuildable(); decided && ok {
						fs = append(fs, finding{"history-affects-build", "C17/history-affects-build:valid-set-refused-on-the-collection-and-on-a-fresh-one",
							fmt.Sprintf("Build fails (%v) after %s - also on a fresh collection holding exactly the surviving registrations %s - although that set has no cycle, no lifetime conflict and no missing required dependency: something outside the collection (an earlier, refused Build in this process?) has an effect on later builds", b.Err, o, q.s)})
					}
				}
			}
		default:
			q.stats["builds_ok"]++
			alive := q.s.ctorsAlive()
			ran := map[int]bool{}
			for id := range b.RanBuild {
				ran[id] = true
			}
			for id := range b.Prov.Ran {
				ran[id] = true
			}
			q.stats["ctor_invocations_observed"] += int64(len(ran))
			var ids []int
			for id := range ran {
				if !alive[id] {
					ids = append(ids, id)
				}
			}
			sort.Ints(ids)
			for _, id := range ids {
				phase := "resolution"
				if b.RanBuild[id] {
					phase = "Build"
				}
				switch {
				case q.removed[id] != "":
					fs = append(fs, finding{"removed-ctor-runs", "C17/removed-ctor-runs:" + q.removed[id],
						fmt.Sprintf("constructor %s of a removed registration ran during %s (after %s); reference: %s", pool.Ctors[id].Name, phase, o, q.s)})
				case q.rejected[id] != "":
					fs = append(fs, finding{"rejected-add-changes-build", "C17/rejected-add-changes-build:" + q.rejected[id],
						fmt.Sprintf("constructor %s of a rejected registration ran during %s (after %s); reference: %s", pool.Ctors[id].Name, phase, o, q.s)})
				default:
					fs = append(fs, finding{"unregistered-ctor-runs", "C17/unregistered-ctor-runs:after-" + j.class,
						fmt.Sprintf("constructor %s ran during %s but is not registered; reference: %s", pool.Ctors[id].Name, phase, q.s)})
				}
			}
			if b.Prov.ScopeErr != "" {
				q.stats["scope_errors"]++
			} else {
				q.stats["resolutions"] += int64(len(b.Prov.Table))
				fs = append(fs, q.judgeTable(b.Prov.Table, j, o, views)...)
			}
			if b.Prov.Poisoned {
				q.poisoned = true
				fs = append(fs, finding{"panic", "C17/panic:resolve", "a resolution panicked: " + b.Prov.ScopeErr + " " + tableString(b.Prov.Table)})
			}
			if o.Kind == "build" && !b.Prov.Poisoned && b.Prov.ScopeErr == "" {
				// a provider is kept for the snapshot clause only if it answers the same twice
				again := q.e.observeProvider(b.P)
				fs = append(fs, q.judgeTable(again.Table, j, o, views)...)
				if len(diffTables(b.Prov.Table, again.Table)) == 0 && !again.Poisoned {
					q.kept = append(q.kept, &retained{p: b.P, table: b.Prov.Table, step: stepNo})
					q.stats["providers_retained"]++
				} else {
					q.stats["providers_not_retained_unstable_answers"]++
					q.poisoned = q.poisoned || again.Poisoned
				}
			} else {
				func() {
					defer func() { _ = recover() }()
					_ = b.P.Close()
				}()
			}
		}
	}
	if q.poisoned {
		return fs
	}

	// --- providers built earlier answer exactly as before
	if o.Kind != "build" {
		for _, r := range q.kept {
			obs := q.e.observeProvider(r.p)
			q.stats["snapshot_checks"]++
			if ds := diffTables(r.table, obs.Table); len(ds) > 0 || obs.ScopeErr != "" {
				by := j.class
				if by == "rejected-add" {
					by = "add" // whatever a rejected call left behind was added
				}
				fs = append(fs, finding{"built-provider-changed", "C17/built-provider-changed:by-" + by,
					fmt.Sprintf("the provider built at step %d answers differently after the later %s: %s %s", r.step+1, o, strings.Join(ds, "; "), obs.ScopeErr)})
				break
			}
		}
	}
	return fs
}

// judgeTable compares a provider's answers with the reference.
func (q *seqRun) judgeTable(table map[string]string, j judged, o *Op, views Views) (fs []finding) {
	ds := diffExpect(table, q.s.expectTable())
	if len(ds) == 0 {
		return nil
	}
	// an identity served by an output that Remove took out of a multi-output registration
	lost := q.s.removedOutputs()
	for k, want := range q.s.expectTable() {
		got := table[k]
		if got == want || !strings.HasPrefix(got, "ok:") {
			continue
		}
		if form, ok := lost[strings.TrimPrefix(got, "ok:")]; ok {
			return []finding{{"removed-output-still-served", "C17/removed-output-still-served:" + form,
				fmt.Sprintf("an output that was removed from a %s registration is still produced and served in place of the registered constructor: %s\nviews: %s\nreference: %s", form, strings.Join(ds, "; "), views, q.s)}}
		}
	}
	if j.class == "rejected-add" {
		return []finding{{"rejected-add-changes-build", "C17/rejected-add-changes-build:" + j.form + ":rejected-at-" + outClass(j.rejectAt),
			fmt.Sprintf("a provider built after the rejected %s does not answer as the unchanged registry would: %s\nreference: %s", o, strings.Join(ds, "; "), q.s)}}
	}
	return []finding{{"build-uses-other-registrations", "C17/build-uses-other-registrations:after-" + j.class,
		fmt.Sprintf("a provider built after %s does not use exactly the registrations the views describe: %s\nviews: %s\nreference: %s", o, strings.Join(ds, "; "), views, q.s)}}
}

// twinBuilds replays the surviving registration calls into a fresh collection and builds it.
func (q *seqRun) twinBuilds() (ok, decided bool) {
	defer func() {
		if r := recover(); r != nil {
			ok, decided = false, false
		}
	}()
	t := godi.NewCollection()
	rs, _ := q.s.regsAlive()
	for _, r := range rs {
		if err := q.e.applyDirect(t, r.op); err != nil {
			return false, false
		}
	}
	p, err := t.Build()
	if err != nil {
		return false, true
	}
	_ = p.Close()
	return true, true
}

// ---------------------------------------------------------------------------------------------
// Case execution and reporting.

type sigLimiter struct{ seen map[string]int }

func (l *sigLimiter) allow(sig string) bool {
	l.seen[sig]++
	return l.seen[sig] <= 4
}

// reproduce runs a fixed op list on fresh state and returns the finding with the given
// signature, if a step yields it (steps that yield only other findings are passed over: the
// reference then continues from the minimal allowed state).
func reproduce(ops []*Op, sig string) *finding {
	q := newSeqRun(map[string]int64{})
	defer q.close()
	for i, o := range ops {
		fs := q.step(o, i)
		for k := range fs {
			if fs[k].sig == sig {
				return &fs[k]
			}
		}
		if q.poisoned {
			return nil
		}
	}
	return nil
}

// shrink delta-minimises a witness: module calls are unfolded into direct calls and ops are
// dropped one at a time while the same signature still fires.
func shrink(ops []*Op, sig string) []*Op {
	cur := append([]*Op(nil), ops...)
	for i := 0; i < len(cur); i++ {
		if cur[i].Kind != "modules" {
			continue
		}
		var flat []*Op
		for _, lf := range flatten(cur[i].Mods, nil, nil) {
			flat = append(flat, lf.Op)
		}
		trial := append(append(append([]*Op(nil), cur[:i]...), flat...), cur[i+1:]...)
		if reproduce(trial, sig) != nil {
			cur = trial
			i += len(flat) - 1
		}
	}
	for changed := true; changed; {
		changed = false
		for i := len(cur) - 1; i >= 0; i-- {
			trial := append(append([]*Op(nil), cur[:i]...), cur[i+1:]...)
			if len(trial) > 0 && reproduce(trial, sig) != nil {
				cur = trial
				changed = true
			}
		}
	}
	return cur
}

// runSeq executes the ops produced by next (which may look at the reference state) until it
// returns nil or a step yields findings.
func runSeq(c *eng.Ctx, lim *sigLimiter, stats map[string]int64, caseIdx int, caseID string, next func(i int, s *Ref) *Op) (ops []*Op, nontrivial bool) {
	q := newSeqRun(stats)
	defer q.close()
	for i := 0; ; i++ {
		o := next(i, q.s)
		if o == nil {
			break
		}
		ops = append(ops, o)
		fs := q.step(o, i)
		if len(fs) > 0 {
			seen := map[string]bool{}
			for _, f := range fs {
				if seen[f.sig] {
					continue
				}
				seen[f.sig] = true
				if !lim.allow(f.sig) {
					stats["violations_not_streamed_same_sig"]++
					continue
				}
				detail := fmt.Sprintf("step %d of [%s]: %s", i+1, seqString(ops), f.detail)
				min := shrink(ops, f.sig)
				if mf := reproduce(min, f.sig); mf != nil && len(min) < len(ops) {
					detail = fmt.Sprintf("minimal witness [%s]: %s\n(found as step %d of [%s])", seqString(min), mf.detail, i+1, seqString(ops))
				}
				c.R.Violation(eng.Violation{Prop: "C17", Clause: f.clause, Sig: f.sig, Case: caseIdx, CaseID: caseID, Detail: detail,
					Replay: map[string]any{"ops": ops, "text": seqString(ops), "failing_step": i + 1, "minimal": seqString(min)}})
			}
			break
		}
		if q.poisoned {
			break
		}
	}
	for _, ev := range q.e.rec.Events() {
		if ev.Kind == rt.CtorExit {
			stats["ctor_exit_events"]++
		}
	}
	nontrivial = q.accepted > 0 && (q.rejections > 0 || q.removals > 0 || q.editsAfterBuild > 0)
	return ops, nontrivial
}

// ---------------------------------------------------------------------------------------------
// The reduced alphabet of the exhaustive part.

func add(life, ctor string, opts ...string) *Op {
	o := &Op{Kind: "add", Life: life, Ctor: ctor}
	for _, p := range opts {
		switch {
		case strings.HasPrefix(p, "name="):
			o.Name = p[5:]
		case strings.HasPrefix(p, "group="):
			o.Group = p[6:]
		case strings.HasPrefix(p, "as="):
			o.As = append(o.As, p[3:])
		}
	}
	return o
}

func leaf(o *Op) *Node { return &Node{Kind: "leaf", Op: o} }

func smallAlphabet() []*Op {
	return []*Op{
		add("singleton", "Leaf_K0_a"),
		add("scoped", "Leaf_K0_b"),
		add("singleton", "Leaf_K1_a"),
		add("singleton", "Leaf_K1_b", "name=k"),
		add("transient", "Leaf_K1_c", "group=g"),
		add("singleton", "MR_K0K1"),
		add("scoped", "OutN_K0K1"),
		add("singleton", "Leaf_K0_c", "name=k", "group=g"),
		{Kind: "remove", Type: "K0"},
		{Kind: "remove", Type: "K1"},
		{Kind: "removeKeyed", Type: "K1", Key: "k"},
		{Kind: "removeKeyed", Type: "K1", KeyKind: "int1"}, // the int 1: no registration has that key (godi numbers group members with it)
		{Kind: "modules", Mods: []*Node{
			{Kind: "nil"},
			leaf(&Op{Kind: "removeKeyed", Type: "K0", Key: "k"}),
			{Kind: "named", Name: "m", Kids: []*Node{leaf(add("transient", "PosA_0_0", "as=IK0"))}},
		}},
		{Kind: "build"},
		add("singleton", "inst:K0#1", "name=k2"),
		add("scoped", "Leaf_K1_c", "as=IA", "as=IK0"), // K1 does not implement IK0: rejected at alias 2
	}
}

// c17RefusedBuilds: Build steps whose reference state is not buildable are issued for real.
var c17RefusedBuilds bool

// refusedBuildSequences: sequences around Builds that fail validation.
func refusedBuildSequences() [][]*Op {
	b := &Op{Kind: "build"}
	return [][]*Op{
		// a required dependency is missing; it is added; it is removed again; it is added with another lifetime
		{add("scoped", "PosA_1_1"), b, add("singleton", "Leaf_K0_a"), b, {Kind: "remove", Type: "K0"}, b, add("transient", "Leaf_K0_b"), b},
		{add("singleton", "PosA_1_1"), b, b, add("singleton", "Leaf_K0_a"), b},
		{add("transient", "PosA_1_1"), add("singleton", "Leaf_K1_b", "name=k"), b, {Kind: "removeKeyed", Type: "K1", Key: "k"}, add("scoped", "Leaf_K0_b"), b},
		// a captive dependency: refused, then the consumer is registered again as scoped
		{add("scoped", "Leaf_K0_b"), add("singleton", "PosA_1_1"), b, {Kind: "remove", Type: "K1"}, add("scoped", "PosA_1_1"), b},
		// refused twice in a row, rejected Add in between
		{add("scoped", "PosA_1_1"), b, add("scoped", "PosA_1_1"), b, add("singleton", "Leaf_K0_a"), b},
		// a captive OPTIONAL dependency: refused; repaired by removing the scoped service (an absent
		// optional dependency is fine): the removed registration has no effect on the next Build
		{add("scoped", "Leaf_K1_a"), add("singleton", "InU_0_2_Opt"), b, {Kind: "remove", Type: "K1"}, b, add("transient", "Leaf_K1_b"), b},
		{add("scoped", "Leaf_K1_a"), add("transient", "InU_0_2_Opt"), b, b, {Kind: "remove", Type: "K1"}, b},
		// ... and the collection after it (another collection of the same process, same Go types)
		{add("singleton", "InU_0_2_Opt"), b, add("scoped", "Leaf_K1_c"), b},
		// a cycle: refused; broken by removing one service; the next collection uses the same types
		{add("scoped", "PosA_0_2"), add("scoped", "PosA_1_1"), b, {Kind: "remove", Type: "K1"}, add("scoped", "Leaf_K1_a"), b},
		{add("singleton", "Leaf_K1_a"), add("singleton", "PosA_0_2"), b},
		// a Build that passes, then ONLY a removal (no registration in between), then Build: the
		// dependency that went away is missed (plain, keyed, of a singleton / scoped / transient consumer)
		{add("scoped", "Leaf_K0_a"), add("scoped", "PosA_1_1"), b, {Kind: "remove", Type: "K0"}, b, b},
		{add("singleton", "Leaf_K0_a"), add("transient", "PosA_1_1"), b, b, {Kind: "remove", Type: "K0"}, b, add("scoped", "Leaf_K0_b"), b},
		{add("singleton", "Leaf_K0_a"), add("singleton", "PosA_1_1"), b, {Kind: "remove", Type: "K0"}, b},
		{add("scoped", "Leaf_K1_c", "name=k"), add("scoped", "InU_0_2_Keyed"), b, {Kind: "removeKeyed", Type: "K1", Key: "k"}, b},
	}
}

func init() {
	eng.Register(&eng.Property{
		ID:    "C17",
		Level: "exploration",
		Rule: "cases are sequences of AddSingleton/AddScoped/AddTransient (plain, Name, Group, As, instance values, multi-return and Out-struct constructors, duplicates, nil constructor, Name+Group, As mismatch), " +
			"Remove, RemoveKeyed, AddModules, Build and further edits after Build over 4 service types x keys {k,k2} x groups {g,h}; after EVERY step Contains/ContainsKeyed/Count/ToSlice are compared with a reference registry, " +
			"a provider is built and every identity of the universe is resolved from a fresh scope (which constructors ran, which constructor produced each identity, group order), and every provider retained from an earlier Build step is re-queried. " +
			"Exhaustive part: all sequences of length <=3 (quick) / <=4 (thorough) over a 16-op alphabet; random part: seeded state-aware sequences of length 20. " +
			"A case is non-trivial when it has an accepted registration and at least one rejected registration, effective removal or edit after Build; distinct = distinct op sequences.",
		Shards: func(tier string) int { return 16 },
		Run:    runC17,
		Assumptions: []string{
			"where the statement is silent both readings are accepted: Remove(T) may or may not drop keyed/grouped registrations of T and the sibling outputs of a multi-output registration (the first allowed state the four views agree with is adopted); Contains(T) may answer either way when T only has keyed/grouped registrations; Count/ToSlice may count identities or registration calls",
			"Build-related clauses are evaluated only in states the reference considers buildable (declared dependencies registered, no singleton/transient consuming a scoped service); a Build failure is a C17 violation only if a fresh collection holding exactly the surviving registrations builds",
			"Name/Group/As are never combined with multi-output constructors, and Out-struct constructors with group fields are only issued where the statement requires their rejection (what they mean otherwise belongs to C04/C08)",
			"'constructor never runs' is judged per constructor function: a removed registration's constructor is flagged only while no surviving registration uses the same function",
		},
		NeedEvents:    []string{"steps", "view_checks", "builds_ok", "adds_accepted", "adds_rejected", "removes_effective", "snapshot_checks", "ctor_exit_events", "adds_rejected_at_output_2plus"},
		ShardTimeoutS: func(tier string) int { return 900 },
	})
}

func runC17(c *eng.Ctx) {
	alpha := smallAlphabet()
	n := len(alpha)
	maxLen := c.Pick(3, 4)
	stats := map[string]int64{}
	lim := &sigLimiter{seen: map[string]int{}}
	total := 1
	for i := 0; i < maxLen; i++ {
		total *= n
	}
	caseIdx := 0
	// exhaustive part: one journaled block per pair of first ops; shorter sequences are the
	// prefixes (every oracle runs after every step)
	for a := 0; a < n; a++ {
		for b := 0; b < n; b++ {
			idx := caseIdx
			caseIdx++
			if !c.Mine(idx) {
				continue
			}
			c.R.Begin(idx)
			var cnt, nt int64
			var rec func(prefix []int)
			rec = func(prefix []int) {
				if len(prefix) == maxLen {
					cnt++
					_, m := runSeq(c, lim, stats, idx, fmt.Sprintf("exh-%v", prefix), func(i int, _ *Ref) *Op {
						if i >= len(prefix) {
							return nil
						}
						return alpha[prefix[i]]
					})
					if m {
						nt++
					}
					return
				}
				for k := 0; k < n; k++ {
					rec(append(prefix[:len(prefix):len(prefix)], k))
				}
			}
			rec([]int{a, b})
			c.R.AddEnumerated(cnt, nt)
			c.R.ExhaustiveProgress(fmt.Sprintf("all op sequences of length %d over the %d-op alphabet", maxLen, n), total, int(cnt))
			c.R.End(idx, eng.Hash("c17-block", a, b, maxLen), false)
		}
	}
	// random part
	nRandom := c.Pick(1000, 30000)
	for k := 0; k < nRandom; k++ {
		idx := caseIdx
		caseIdx++
		if !c.Mine(idx) {
			continue
		}
		rng := rand.New(rand.NewSource(c.Seed*1_000_003 + int64(k)))
		g := newGen(rng)
		c.R.Begin(idx)
		ops, m := runSeq(c, lim, stats, idx, fmt.Sprintf("rand-%d", k), func(i int, s *Ref) *Op {
			if i >= 20 {
				return nil
			}
			return g.next(s)
		})
		if c.R.WantSample() {
			c.R.Sample(map[string]any{"kind": "random-sequence", "ops": seqString(ops)})
		}
		c.R.End(idx, eng.Hash("c17-rand", seqString(ops)), m)
	}
	// directed: Builds that are REFUSED (a required dependency is missing, a captive dependency)
	// in the middle of a sequence - the collection stays what it was, can be corrected and built
	// again, and every query keeps answering. Each sequence runs under a watchdog: a collection
	// that stops answering is a violation (with the goroutine dump), not a harness fault.
	for di, seq := range refusedBuildSequences() {
		idx := caseIdx
		caseIdx++
		if !c.Mine(idx) {
			continue
		}
		c.R.Begin(idx)
		done := make(chan struct{})
		var m bool
		c17RefusedBuilds = true
		go func() {
			defer close(done)
			_, m = runSeq(c, lim, stats, idx, fmt.Sprintf("refused-build-%d", di), func(i int, _ *Ref) *Op {
				if i >= len(seq) {
					return nil
				}
				return seq[i]
			})
		}()
		if v := eng.AwaitOrDiagnose(done, 30*time.Second); !v.Done {
			if v.Deadlock {
				c.R.Violation(eng.Violation{Prop: "C17", Clause: "operation-never-returns", Sig: "C17/operation-never-returns:after-a-refused-Build:" + eng.InnermostGodiFn(v.Dump), Case: idx, CaseID: fmt.Sprintf("refused-build-%d", di),
					Detail: fmt.Sprintf("[%s]: a call on the collection never returned; goroutines stuck inside godi:\n%s", seqString(seq), v.Dump), Replay: map[string]any{"text": seqString(seq)}})
			} else {
				c.R.Inconclusive(idx, "refused-build sequence did not finish within the watchdog and no goroutine is provably stuck inside godi")
			}
			c.R.Abandon(idx)
			continue
		}
		c17RefusedBuilds = false
		stats["refused_build_sequences"]++
		c.R.End(idx, eng.Hash("c17-refused-build", di), m)
	}
	runC17Initializers(c, func() (int, bool) { i := caseIdx; caseIdx++; return i, c.Mine(i) })
	for k, v := range stats {
		c.R.Count(k, v)
	}
}
