package regx

import (
	"errors"
	"fmt"
	"math/rand"
	"strings"

	"github.com/junioryono/godi/v4"
	"github.com/junioryono/godi/v4/verifh/eng"
	"github.com/junioryono/godi/v4/verifh/rt"
)

// asModuleError finds the outermost ModuleError reachable from err (value or pointer).
func asModuleError(err error) (godi.ModuleError, bool) {
	if err == nil {
		return godi.ModuleError{}, false
	}
	var v godi.ModuleError
	if errors.As(err, &v) {
		return v, true
	}
	var p *godi.ModuleError
	if errors.As(err, &p) && p != nil {
		return *p, true
	}
	return godi.ModuleError{}, false
}

// side is everything observable about one collection (the C17 observations).
type side struct {
	views   string
	buildOK bool
	ran     string
	table   map[string]string
	poison  bool
}

// sameProvider says whether two observations show behaviourally identical providers.
func (s side) sameProvider(o side) bool {
	if s.buildOK != o.buildOK {
		return false
	}
	if !s.buildOK {
		return true
	}
	return s.ran == o.ran && len(diffTables(s.table, o.table)) == 0
}

func (e *env) observeSide(c godi.Collection) side {
	s := side{views: e.observeViews(c).String()}
	b := e.buildAndObserve(c)
	s.buildOK = b.OK
	s.poison = b.Panic != "" || b.Prov.Poisoned
	if b.OK {
		s.ran = setString(b.RanBuild)
		s.table = b.Prov.Table
		func() {
			defer func() { _ = recover() }()
			_ = b.P.Close()
		}()
	}
	return s
}

// treeGen builds random module trees.
type treeGen struct {
	g      *gen
	rng    *rand.Rand
	cur    *Ref // reference state along the flattening, used only to steer leaf generation
	nNamed int
}

func (t *treeGen) leafOp() *Op {
	var o *Op
	switch x := t.rng.Intn(100); {
	case x < 68:
		o = t.g.genAdd(t.cur)
	case x < 74:
		o = t.g.genInstance()
	case x < 80:
		o = t.g.genMulti(t.cur, false)
	case x < 96:
		o = t.g.genRemove(t.cur)
	case x < 99:
		o = t.g.genLeafAdd(t.cur) // may be a duplicate / invalid call: a natural failure
	default:
		return &Op{Kind: "fail"}
	}
	switch o.Kind {
	case "add":
		if v := t.cur.judgeAdd(o); v.accept {
			t.cur.commit(v.r)
		}
	case "remove", "removeKeyed":
		t.cur = t.cur.afterRemove(o)[0]
	}
	return o
}

// node generates one entry at the given nesting depth (1 = argument of AddModules); modules
// nest at most 4 deep.
func (t *treeGen) node(depth int) *Node {
	pLeaf, pNil, pNamed := 35, 45, 85 // cumulative; rest: unnamed grouping closure
	if depth > 1 {
		pLeaf, pNil, pNamed = 52, 62, 90
	}
	x := t.rng.Intn(100)
	if depth > 4 {
		x = t.rng.Intn(pNil)
	}
	switch {
	case x < pLeaf:
		return leaf(t.leafOp())
	case x < pNil:
		return &Node{Kind: "nil"}
	case x < pNamed:
		t.nNamed++
		n := &Node{Kind: "named", Name: fmt.Sprintf("m%d", t.nNamed)}
		switch t.rng.Intn(10) {
		case 0:
			n.Name = "dup" // equal names at different levels must still be counted per level
		case 1:
			n.Name = "" // NewModule("", ...) is a module like any other: its failures are wrapped, too
		}
		for k := t.rng.Intn(5); k > 0; k-- {
			n.Kids = append(n.Kids, t.node(depth+1))
		}
		return n
	default:
		n := &Node{Kind: "anon"}
		if t.rng.Intn(5) < 2 {
			t.nNamed++
			n.Wrap = t.nNamed
		}
		for k := t.rng.Intn(4); k > 0; k-- {
			n.Kids = append(n.Kids, t.node(depth+1))
		}
		return n
	}
}

func treeDepth(ns []*Node) int {
	d := 0
	for _, n := range ns {
		if n.Kind == "named" || n.Kind == "anon" {
			if k := 1 + treeDepth(n.Kids); k > d {
				d = k
			}
		}
	}
	return d
}

// leafSlots lists pointers to every leaf node, left to right.
func leafSlots(ns []*Node, out []*Node) []*Node {
	for _, n := range ns {
		switch n.Kind {
		case "leaf":
			out = append(out, n)
		case "named", "anon":
			out = leafSlots(n.Kids, out)
		}
	}
	return out
}

// failingOp returns an op that the statement rejects in the reference state reached just
// before the leaf.
func (t *treeGen) failingOp(s *Ref) *Op {
	switch t.rng.Intn(5) {
	case 0:
		return &Op{Kind: "fail"}
	case 1:
		return &Op{Kind: "add", Life: t.g.pick(lives), Ctor: "nil"}
	case 2:
		return &Op{Kind: "add", Life: t.g.pick(lives), Ctor: "Leaf_K2_c", Name: "k", Group: "g"}
	case 3:
		return t.g.genMulti(s, true)
	default:
		return t.g.genDuplicate(s)
	}
}

func genTree(rng *rand.Rand) []*Node {
	t := &treeGen{g: newGen(rng), rng: rng, cur: NewRef()}
	var top []*Node
	for k := 1 + rng.Intn(4); k > 0; k-- {
		top = append(top, t.node(1))
	}
	// plant a failing leaf at a uniformly chosen position in 9 of 20 trees
	if slots := leafSlots(top, nil); len(slots) > 0 && rng.Intn(20) < 9 {
		pos := rng.Intn(len(slots))
		// reference state just before that leaf
		s := NewRef()
		for _, n := range slots[:pos] {
			switch n.Op.Kind {
			case "add":
				if v := s.judgeAdd(n.Op); v.accept {
					s.commit(v.r)
				}
			case "remove", "removeKeyed":
				s = s.afterRemove(n.Op)[0]
			}
		}
		slots[pos].Op = t.failingOp(s)
	}
	return top
}

func treeString(ns []*Node) string {
	var ps []string
	for _, n := range ns {
		ps = append(ps, n.String())
	}
	return "AddModules(" + strings.Join(ps, ", ") + ")"
}

// runTree applies the tree to A through AddModules and its flattening to B by direct calls,
// then compares everything observable.
func runTree(tree []*Node, stats map[string]int64) (fs []finding, nontrivial bool) {
	e := newEnv()
	leaves := flatten(tree, nil, nil)
	report := func(clause, feature, detail string) {
		sig := "C20/" + clause
		if feature != "" {
			sig += ":" + feature
		}
		fs = append(fs, finding{clause, sig, detail})
	}
	failIdx, done := compareTwin(e, func(c godi.Collection) error { return c.AddModules(e.moduleOptions(tree)...) }, leaves, stats, report)
	if !done {
		return fs, false
	}
	treeOnNilCollection(e, tree, leaves, stats, report)
	stats["trees"]++
	stats["leaves"] += int64(len(leaves))
	for _, lf := range leaves {
		if lf.Op != nil && lf.Op.Kind == "removeKeyed" {
			k := lf.Op.KeyKind
			if k == "" {
				k = "name"
			}
			stats["remove_keyed_leaves_key_"+k]++
		}
	}
	depth := treeDepth(tree)
	stats[fmt.Sprintf("trees_depth_%d", depth)]++
	for _, ev := range e.rec.Events() {
		if ev.Kind == rt.CtorExit {
			stats["ctor_exit_events"]++
		}
	}
	applied := len(leaves)
	if failIdx >= 0 {
		applied = failIdx
	}
	return fs, depth >= 2 && applied >= 2
}

// treeOnNilCollection hands the same tree to NO collection (every ModuleOption is a function of
// a Collection and can be called with nil). A module is a transparent grouping there too: nil
// entries are ignored, the entries run in order, the first one that fails - a library option
// reports ErrCollectionNil, a hand-written entry whatever it likes - stops the processing, and
// its error comes back wrapped once per enclosing named module, outermost first. A tree without
// an effective entry issues no call and returns nil.
func treeOnNilCollection(e *env, tree []*Node, leaves []flatLeaf, stats map[string]int64, report func(clause, feature, detail string)) {
	var err error
	panicked := ""
	func() {
		defer func() {
			if r := recover(); r != nil {
				panicked = fmt.Sprintf("%v", r)
			}
		}()
		for _, opt := range e.moduleOptions(tree) {
			if opt == nil {
				continue
			}
			if err = opt(nil); err != nil {
				break
			}
		}
	}()
	stats["trees_applied_to_a_nil_collection"]++
	if panicked != "" {
		report("panic", "nil-collection", "applying the tree to a nil Collection panicked: "+panicked)
		return
	}
	if len(leaves) == 0 {
		if err != nil {
			report("failure-class-differs", "nil-collection:no-effective-entry", fmt.Sprintf("the tree has no effective entry (empty modules / nil entries only) and issues no call; applied to a nil Collection it returned %v", err))
		}
		return
	}
	first := leaves[0]
	if err == nil {
		report("failure-class-differs", "nil-collection", fmt.Sprintf("the first entry %s cannot succeed without a Collection, but the tree returned nil", first.Op))
		return
	}
	want, wantName := godi.ErrCollectionNil, "ErrCollectionNil"
	if first.Op.Kind == "fail" {
		want, wantName = errLeaf, "the entry's own error"
	}
	if !errors.Is(err, want) {
		report("cause-unreachable", "nil-collection", fmt.Sprintf("the first entry %s fails with %s; it is not reachable from what the tree returned: %v", first.Op, wantName, err))
	}
	if want == errLeaf && errors.Is(err, godi.ErrCollectionNil) {
		report("first-failing-entry-not-the-one-reported", "nil-collection", fmt.Sprintf("the first entry is a hand-written option that fails with its own error; the tree reported ErrCollectionNil: %v", err))
	}
	var seen []string
	walkErr(err, func(x error) {
		switch me := x.(type) {
		case godi.ModuleError:
			seen = append(seen, me.Module)
		case *godi.ModuleError:
			if me != nil {
				seen = append(seen, me.Module)
			}
		}
	})
	if strings.Join(seen, "\x00") != strings.Join(first.Names, "\x00") {
		report("module-error-chain", "nil-collection", fmt.Sprintf("the failing entry %s sits in named modules %q (outermost first); the error carries the ModuleErrors %q: %v", first.Op, first.Names, seen, err))
	}
	stats["nil_collection_chains_checked"]++
}

// compareTwin applies entries to a fresh collection A through apply and the given
// left-to-right flattening to a fresh collection B through direct calls (stopping at the first
// error), then compares everything observable. It returns the index of the first failing leaf
// (-1: none) and whether the comparison ran to the end.
func compareTwin(e *env, apply func(godi.Collection) error, leaves []flatLeaf, stats map[string]int64, report func(clause, feature, detail string)) (failIdx int, done bool) {
	A, B := godi.NewCollection(), godi.NewCollection()
	var errA, errB error
	failIdx = -1
	panicked := ""
	func() {
		defer func() {
			if r := recover(); r != nil {
				panicked = fmt.Sprintf("%v", r)
			}
		}()
		errA = apply(A)
		for i, lf := range leaves {
			if errB = e.applyDirect(B, lf.Op); errB != nil {
				failIdx = i
				break
			}
			stats["direct_calls_applied"]++
		}
	}()
	if panicked != "" {
		report("panic", "", "applying the entries or their flattening panicked: "+panicked)
		return -1, false
	}
	stats["applications_compared"]++

	// --- failure: same class, ModuleError once per enclosing named module, cause reachable
	if (errA == nil) != (errB == nil) {
		report("failure-class-differs", "", fmt.Sprintf("AddModules returned %v, the direct calls returned %v (first failing direct call: %d)", errA, errB, failIdx))
	}
	if errB != nil && errA != nil {
		stats["trees_failing"]++
		stats[fmt.Sprintf("failing_leaf_depth_%d", len(leaves[failIdx].Names))]++
		names := leaves[failIdx].Names
		cur := errA
		okChain := true
		for lvl, name := range names {
			me, ok := asModuleError(cur)
			if !ok {
				report("module-error-chain", "missing-level", fmt.Sprintf("the failing entry %s sits in named modules %v, but the error has no ModuleError for level %d (%q): %v", leaves[failIdx].Op, names, lvl+1, name, errA))
				okChain = false
				break
			}
			if me.Module != name {
				report("module-error-chain", "wrong-order", fmt.Sprintf("the failing entry %s sits in named modules %v (outermost first), but ModuleError #%d names %q: %v", leaves[failIdx].Op, names, lvl+1, me.Module, errA))
				okChain = false
				break
			}
			stats["module_error_levels_checked"]++
			cur = me.Cause
		}
		if okChain {
			if me, extra := asModuleError(cur); extra {
				report("module-error-chain", "extra-level", fmt.Sprintf("the failing entry %s sits in named modules %v, but the error carries a further ModuleError %q: %v", leaves[failIdx].Op, names, me.Module, errA))
			}
			stats["module_error_chains_checked"]++
		}
		if okChain {
			// the same chain seen the standard way: walking Unwrap from the returned error meets
			// one ModuleError per enclosing named module, outermost first ...
			var seen []string
			wraps := map[int]bool{}
			walkErr(errA, func(x error) {
				switch me := x.(type) {
				case godi.ModuleError:
					seen = append(seen, me.Module)
				case *godi.ModuleError:
					if me != nil {
						seen = append(seen, me.Module)
					}
				case *wrapErr:
					wraps[me.id] = true
				}
			})
			if strings.Join(seen, "\x00") != strings.Join(names, "\x00") {
				report("module-error-chain", "unwrap-chain", fmt.Sprintf("the failing entry %s sits in named modules %q (outermost first); walking Unwrap from the returned error meets the ModuleErrors %q: %v", leaves[failIdx].Op, names, seen, errA))
			}
			// ... and every error a hand-written grouping option put around its children's
			// failure (it is the original cause of what the enclosing module saw)
			for _, id := range leaves[failIdx].Wraps {
				stats["error_annotations_checked"]++
				if !wraps[id] {
					report("cause-unreachable", "annotation-of-a-grouping-option", fmt.Sprintf("the failing entry %s sits inside the error-annotating closure #%d; its annotation is not reachable from the returned error: %v", leaves[failIdx].Op, id, errA))
				}
			}
		}
		// the original cause: whatever is reachable from the direct call's error must be
		// reachable from the wrapped one
		fa, fb := errFeatures(errA), errFeatures(errB)
		for _, f := range strings.Split(fb, "+") {
			if f == "other" {
				continue
			}
			if !strings.Contains("+"+fa+"+", "+"+f+"+") {
				report("cause-unreachable", f, fmt.Sprintf("the direct call fails with %s reachable (%v); through the modules only %s is reachable (%v)", fb, errB, fa, errA))
			}
		}
		stats["causes_checked"]++
	}

	// --- the collections and the providers built from them are indistinguishable
	sa, sb := e.observeSide(A), e.observeSide(B)
	if sa.views != sb.views {
		report("views-differ", "", fmt.Sprintf("modules: %s\ndirect:  %s", sa.views, sb.views))
	}
	if sa.poison || sb.poison {
		report("panic", "build-or-resolve", "Build or a resolution panicked")
		return failIdx, false
	}
	if !sa.sameProvider(sb) {
		// Build may be non-deterministic for reasons that have nothing to do with modules
		// (creation order of independent singletons): a difference between the twins counts
		// only if no outcome of repeated builds of A equals any outcome of repeated builds of B
		as, bs := []side{sa}, []side{sb}
		for i := 0; i < 9; i++ {
			as, bs = append(as, e.observeSide(A)), append(bs, e.observeSide(B))
		}
		explained := false
		for _, x := range as {
			for _, y := range bs {
				if x.poison || y.poison {
					report("panic", "build-or-resolve", "Build or a resolution panicked")
					return failIdx, false
				}
				if x.sameProvider(y) {
					explained = true
				}
			}
		}
		if explained {
			stats["twin_difference_within_build_nondeterminism"]++
			sb = sa
		}
	}
	if sa.buildOK != sb.buildOK {
		report("provider-differs", "build-class", fmt.Sprintf("Build ok through modules: %v, through direct calls: %v (10 builds each)", sa.buildOK, sb.buildOK))
	} else if sa.buildOK {
		stats["twin_builds_ok"]++
		stats["twin_resolutions"] += int64(len(sa.table))
		if sa.ran != sb.ran {
			report("provider-differs", "constructors-run-at-build", fmt.Sprintf("modules: %s direct: %s (no agreement in 10 builds each)", sa.ran, sb.ran))
		}
		if ds := diffTables(sb.table, sa.table); len(ds) > 0 {
			report("provider-differs", "resolution", "direct -> modules (no agreement in 10 builds each): "+strings.Join(ds, "; "))
		}
	} else {
		stats["twin_builds_fail_both"]++
	}
	return failIdx, true
}

func init() {
	eng.Register(&eng.Property{
		ID:    "C20",
		Level: "exploration",
		Rule: "cases are random module trees (depth <=4; entries: nil, godi.NewModule named modules incl. empty ones and equal names, unnamed grouping closures, AddSingleton/AddScoped/AddTransient leaves of every C17 form, Remove/RemoveKeyed leaves, failing leaves planted at a uniformly chosen position: duplicate, multi-output collision, nil constructor, Name+Group, entry returning a sentinel). " +
			"The tree is applied to collection A with AddModules and its left-to-right flattening to collection B with direct calls stopping at the first error; Contains/ContainsKeyed/Count/ToSlice over the universe, Build class, constructors run at Build and the producing constructor of every identity resolved from a fresh scope are compared, and on failure the ModuleError chain (once per enclosing named module, outermost first) and the reachability of the leaf's cause. " +
			"Reuse workload (300 quick / 6000 thorough further cases): the entry lists of a tree are materialised once as []godi.ModuleOption slices with nil entries in the middle, always passed in spread form, and used again: the same tree on a second fresh collection, the slice of every inner module passed to AddModules of another collection, NewModule called twice more on every slice with both module values applied to separate collections; every use is compared with the direct-call twin of the entries as the harness wrote them, and the caller's slices must keep their nil pattern. " +
			"A case is non-trivial when the tree has nesting depth >=2 and at least 2 leaves took effect (reuse: an entry list has a nil entry before its last position); distinct = distinct trees.",
		Shards: func(tier string) int { return 16 },
		Run:    runC20,
		Assumptions: []string{
			"twins only: defects that affect direct registration and module registration identically (C17's) do not surface here",
			"ToSlice is compared as a multiset of (type, key, group, lifetime, constructor)",
			"Build of one and the same collection can be non-deterministic (creation order of independent singletons); a difference between the twins' providers counts only if 10 builds of each side never agree",
			"the cause counts as reachable when every typed error / sentinel reachable from the direct call's error (AlreadyRegistered, Validation, Registration, TypeMismatch, ErrConstructorNil, the harness sentinel) is reachable from the AddModules error",
		},
		NeedEvents:    []string{"reuse_cases", "reuse_applications", "caller_slices_checked", "reuse_lists_with_inner_nil_entries", "trees", "trees_failing", "module_error_chains_checked", "module_error_levels_checked", "twin_builds_ok", "ctor_exit_events", "causes_checked"},
		ShardTimeoutS: func(tier string) int { return 900 },
	})
}

func runC20(c *eng.Ctx) {
	n := c.Pick(800, 25000)
	stats := map[string]int64{}
	lim := &sigLimiter{seen: map[string]int{}}
	for idx := 0; idx < n; idx++ {
		if !c.Mine(idx) {
			continue
		}
		rng := rand.New(rand.NewSource(c.Seed*7_000_003 + int64(idx)))
		tree := genTree(rng)
		c.R.Begin(idx)
		fs, nt := runTree(tree, stats)
		seen := map[string]bool{}
		for _, f := range fs {
			if seen[f.sig] {
				continue
			}
			seen[f.sig] = true
			if !lim.allow(f.sig) {
				stats["violations_not_streamed_same_sig"]++
				continue
			}
			c.R.Violation(eng.Violation{Prop: "C20", Clause: f.clause, Sig: f.sig, Case: idx, CaseID: fmt.Sprintf("tree-%d", idx),
				Detail: fmt.Sprintf("%s: %s", treeString(tree), f.detail), Replay: map[string]any{"tree": tree, "text": treeString(tree)}})
		}
		if c.R.WantSample() {
			c.R.Sample(map[string]any{"kind": "module-tree", "tree": treeString(tree)})
		}
		c.R.End(idx, eng.Hash("c20", treeString(tree)), nt)
	}
	// reuse workload: entry slices materialised once, passed in spread form, used again
	m := c.Pick(300, 6000)
	for k := 0; k < m; k++ {
		idx := n + k
		if !c.Mine(idx) {
			continue
		}
		rng := rand.New(rand.NewSource(c.Seed*9_000_011 + int64(k)))
		tree := genReuseTree(rng)
		c.R.Begin(idx)
		fs, nt := runReuse(tree, stats)
		seen := map[string]bool{}
		for _, f := range fs {
			if seen[f.sig] {
				continue
			}
			seen[f.sig] = true
			if !lim.allow(f.sig) {
				stats["violations_not_streamed_same_sig"]++
				continue
			}
			c.R.Violation(eng.Violation{Prop: "C20", Clause: f.clause, Sig: f.sig, Case: idx, CaseID: fmt.Sprintf("reuse-%d", k),
				Detail: fmt.Sprintf("%s: %s", treeString(tree), f.detail), Replay: map[string]any{"tree": tree, "text": treeString(tree), "workload": "reuse"}})
		}
		if k < 2 {
			c.R.Sample(map[string]any{"kind": "reused-entry-slices", "tree": treeString(tree)})
		}
		c.R.End(idx, eng.Hash("c20-reuse", treeString(tree)), nt)
	}
	for k, v := range stats {
		c.R.Count(k, v)
	}
}
