// Package regx — see /verif/DESIGN.md.
package regx
