// Package regx holds the registry-sequence engine: the runtime monitors of
//
//   - C17 "the collection is an exact, atomic registry and Build takes a snapshot": operation
//     sequences on a real godi.Collection are mirrored on a reference registry (ref.go); after
//     every step the four query views, a provider built from the collection (which constructors
//     ran, which constructor produced every identity of the universe, group order) and every
//     provider retained from an earlier Build are compared with it (c17.go, observe.go);
//   - C20 "modules are transparent groupings of registration calls": random module trees are
//     applied through AddModules to one collection and, flattened, through direct calls to a
//     twin; views, providers and the ModuleError chain of the first failing entry are compared
//     (c20.go).
//
// ops.go renders operations as godi calls, gen.go is the seeded, state-aware generator.
// See /verif/DESIGN.md §3 (C17, C20).
package regx
