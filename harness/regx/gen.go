package regx

import (
	"fmt"
	"math/rand"
	"sort"

	"github.com/junioryono/godi/v4/verifh/pool"
)

// gen produces state-aware random operations: it looks at the reference state only to steer
// towards interesting situations (collisions at a chosen output, removals of present
// identities, states that stay buildable); the oracle never depends on it.
type gen struct {
	rng   *rand.Rand
	nInst int
}

func newGen(rng *rand.Rand) *gen { return &gen{rng: rng} }

var lives = []string{"singleton", "scoped", "transient"}
var kTypes = []string{"K0", "K1", "K2", "K3"}

func (g *gen) pick(xs []string) string { return xs[g.rng.Intn(len(xs))] }

// multiCtors are the multi-output constructors of the pool over K0..K3 (name, needed type).
var multiCtors = []struct{ name, need string }{
	{"MR_K0K1", ""}, {"MR_K0K1e", ""}, {"MR_K1K1", ""}, {"MR_K0K1_d", "K2"}, {"MR_K2K3e", "K0"},
	{"OutP_K0K1", ""}, {"OutP_K2K3_d", "K0"}, {"OutN_K0K1", ""}, {"OutNN_K0K0", ""}, {"OutG_K0K1", ""},
	{"OutGDup_K0K1K1", ""}, {"OutGDup_K2K3", ""},
}

// depOK says whether a consumer of the given lifetime may depend on unkeyed type t in state s.
func depOK(s *Ref, t, life string) bool {
	e, ok := s.svc[ident{T: t}]
	if !ok {
		return false
	}
	return life == "scoped" || e.r.life != "scoped"
}

// leafCtor picks a dependency-free constructor of type t: a top-level function or, for K0 / K1,
// half of the time one of three closures of ONE function literal (same code pointer, same type;
// "Remove, then register the other closure of the factory" must run the other closure).
func (g *gen) leafCtor(t string) string {
	sfx := "abc"[g.rng.Intn(3)]
	if (t == "K0" || t == "K1") && g.rng.Intn(2) == 0 {
		return fmt.Sprintf("Clo_%s_%c", t, sfx)
	}
	return fmt.Sprintf("Leaf_%s_%c", t, sfx)
}

// singleCtor picks a constructor of K_i whose dependencies keep the state buildable.
func (g *gen) singleCtor(s *Ref, i int, life string) string {
	if g.rng.Intn(3) == 0 {
		return g.leafCtor(kTypes[i])
	}
	mask := 0
	for j := 0; j < i; j++ {
		if g.rng.Intn(2) == 0 && depOK(s, kTypes[j], life) {
			mask |= 1 << j
		}
	}
	id := pool.PosA[i][mask]
	if g.rng.Intn(2) == 0 {
		id = pool.PosB[i][mask]
	}
	return pool.Ctors[id].Name
}

// genAdd returns an Add that the statement accepts unless its identity happens to be taken.
func (g *gen) genAdd(s *Ref) *Op {
	i := g.rng.Intn(4)
	o := &Op{Kind: "add", Life: g.pick(lives)}
	o.Ctor = g.singleCtor(s, i, o.Life)
	switch x := g.rng.Intn(100); {
	case x < 35:
	case x < 55:
		o.Name = g.pick(uKeys)
	case x < 72:
		o.Group = g.pick(uGroups)
	case x < 82:
		o.As = []string{g.asFor(i)}
	case x < 88:
		o.As = []string{g.asFor(i)}
		o.Name = g.pick(uKeys)
	case x < 94:
		o.As = []string{g.asFor(i)}
		o.Group = g.pick(uGroups)
	default:
		o.As = []string{"IA"}
		if i < 2 {
			o.As = []string{fmt.Sprintf("IK%d", i), "IA"}
			if g.rng.Intn(2) == 0 {
				o.As[0], o.As[1] = o.As[1], o.As[0]
			}
		}
	}
	return o
}

// asFor picks an interface of the universe that K_i implements.
func (g *gen) asFor(i int) string {
	if i < 2 && g.rng.Intn(2) == 0 {
		return fmt.Sprintf("IK%d", i)
	}
	return "IA"
}

func (g *gen) genInstance() *Op {
	g.nInst++
	o := &Op{Kind: "add", Life: g.pick(lives), Ctor: fmt.Sprintf("inst:%s#%d", g.pick(kTypes), g.nInst)}
	switch g.rng.Intn(3) {
	case 0:
		o.Name = g.pick(uKeys)
	case 1:
		o.Group = g.pick(uGroups)
	}
	return o
}

// genDuplicate re-registers an identity that is taken.
func (g *gen) genDuplicate(s *Ref) *Op {
	var ids []ident
	for _, t := range kTypes {
		for _, k := range append([]string{""}, uKeys...) {
			if _, ok := s.svc[ident{T: t, Key: k}]; ok {
				ids = append(ids, ident{T: t, Key: k})
			}
		}
	}
	if len(ids) == 0 {
		return g.genAdd(s)
	}
	id := ids[g.rng.Intn(len(ids))]
	o := &Op{Kind: "add", Life: g.pick(lives), Name: id.Key}
	o.Ctor = g.leafCtor(id.T)
	return o
}

// genMulti picks a multi-output constructor; steer asks for one the reference rejects at
// output 2 or later.
func (g *gen) genMulti(s *Ref, steer bool) *Op {
	var cands, late []*Op
	for _, mc := range multiCtors {
		for _, life := range lives {
			if mc.need != "" && !depOK(s, mc.need, life) {
				continue
			}
			o := &Op{Kind: "add", Life: life, Ctor: mc.name}
			v := s.judgeAdd(o)
			if mc.name == "OutG_K0K1" && v.accept {
				continue // accepted Out structs with group fields are another property's business
			}
			cands = append(cands, o)
			if !v.accept && v.rejectAt >= 2 {
				late = append(late, o)
			}
		}
	}
	if steer && len(late) > 0 {
		return late[g.rng.Intn(len(late))]
	}
	return cands[g.rng.Intn(len(cands))]
}

func (g *gen) genInvalid(s *Ref) *Op {
	switch g.rng.Intn(6) {
	case 5:
		// result-object field with both a name and a group tag (first or second field)
		return &Op{Kind: "add", Life: g.pick(lives), Ctor: g.pick([]string{"OutNG_K0K1", "OutNG_K1S0"})}
	case 0:
		return &Op{Kind: "add", Life: g.pick(lives), Ctor: "nil"}
	case 1:
		i := g.rng.Intn(4)
		return &Op{Kind: "add", Life: g.pick(lives), Ctor: fmt.Sprintf("Leaf_K%d_c", i), Name: g.pick(uKeys), Group: g.pick(uGroups)}
	case 2:
		return &Op{Kind: "add", Life: g.pick(lives), Ctor: "Leaf_K0_c", As: []string{"IK1"}}
	case 3:
		// the second alias is not implemented: rejected at alias 2
		return &Op{Kind: "add", Life: g.pick(lives), Ctor: "Leaf_K0_b", As: []string{"IA", "IK1"}}
	default:
		// the second alias is taken (when it is): rejected at alias 2
		if _, ok := s.svc[ident{T: "IA"}]; ok {
			return &Op{Kind: "add", Life: g.pick(lives), Ctor: "Leaf_K1_b", As: []string{"IK1", "IA"}}
		}
		return &Op{Kind: "add", Life: g.pick(lives), Ctor: "Leaf_K1_b", As: []string{"IA", "IA"}}
	}
}

func (g *gen) genRemove(s *Ref) *Op {
	if g.rng.Intn(5) < 3 {
		// prefer a type that is registered
		var present []string
		for _, t := range uTypes {
			if _, ok := s.svc[ident{T: t}]; ok {
				present = append(present, t)
			}
		}
		if len(present) > 0 && g.rng.Intn(6) > 0 {
			return &Op{Kind: "remove", Type: g.pick(present)}
		}
		return &Op{Kind: "remove", Type: g.pick(uTypes)}
	}
	if g.rng.Intn(6) == 0 {
		// key values that are not names: nil addresses the unkeyed registration, the others nothing
		t := g.pick(uTypes)
		var present []string
		for _, u := range uTypes {
			if _, ok := s.svc[ident{T: u}]; ok {
				present = append(present, u)
			}
		}
		if len(present) > 0 && g.rng.Intn(4) > 0 {
			t = g.pick(present)
		}
		return &Op{Kind: "removeKeyed", Type: t, KeyKind: g.pick([]string{"nil", "empty", "empty", "int", "int1", "int1", "int2", "struct"})}
	}
	var present []ident
	for id := range s.svc {
		if id.Key != "" {
			present = append(present, id)
		}
	}
	if len(present) > 0 && g.rng.Intn(6) > 0 {
		// map order must not leak into the case
		sort.Slice(present, func(i, j int) bool { return present[i].String() < present[j].String() })
		best := present[g.rng.Intn(len(present))]
		return &Op{Kind: "removeKeyed", Type: best.T, Key: best.Key}
	}
	return &Op{Kind: "removeKeyed", Type: g.pick(uTypes), Key: g.pick(uKeys)}
}

// genLeafAdd is any registration call.
func (g *gen) genLeafAdd(s *Ref) *Op {
	switch x := g.rng.Intn(100); {
	case x < 50:
		return g.genAdd(s)
	case x < 62:
		return g.genDuplicate(s)
	case x < 74:
		return g.genMulti(s, false)
	case x < 82:
		return g.genMulti(s, true)
	case x < 91:
		return g.genInvalid(s)
	default:
		return g.genInstance()
	}
}

// typesOf lists the identity types an add touches.
func typesOf(s *Ref, o *Op) []string {
	v := s.judgeAdd(o)
	if v.r == nil {
		return nil
	}
	var ts []string
	for _, id := range v.r.outs {
		ts = append(ts, id.T)
	}
	return ts
}

// genModules builds one AddModules call whose outcome does not depend on module semantics
// (those are C20's subject): one to three entries that the statement accepts, pairwise on
// different groups, optionally with a Remove entry of a type none of them touches at a
// random position; or a single entry that the statement rejects. nil entries and a
// named module are sprinkled in.
func (g *gen) genModules(s *Ref) *Op {
	cur := s.Clone()
	var leaves []*Node
	groups := map[string]bool{}
	touched := map[string]bool{}
	for want := 1 + g.rng.Intn(3); want > 0; want-- {
		for try := 0; try < 8; try++ {
			var o *Op
			switch x := g.rng.Intn(10); {
			case x < 7:
				o = g.genAdd(cur)
			case x < 8:
				o = g.genInstance()
			default:
				o = g.genMulti(cur, false)
			}
			v := cur.judgeAdd(o)
			if !v.accept || (o.Group != "" && groups[o.Group]) {
				continue
			}
			for _, t := range typesOf(cur, o) {
				touched[t] = true
			}
			groups[o.Group] = true
			cur.commit(v.r)
			leaves = append(leaves, leaf(o))
			break
		}
	}
	switch x := g.rng.Intn(10); {
	case x < 3:
		for try := 0; try < 8; try++ {
			if rm := g.genRemove(s); !touched[rm.Type] {
				pos := g.rng.Intn(len(leaves) + 1)
				leaves = append(leaves[:pos:pos], append([]*Node{leaf(rm)}, leaves[pos:]...)...)
				break
			}
		}
	case x < 6:
		for try := 0; try < 8; try++ {
			var o *Op
			switch g.rng.Intn(3) {
			case 0:
				o = g.genDuplicate(s)
			case 1:
				o = g.genMulti(s, true)
			default:
				o = g.genInvalid(s)
			}
			// a rejected entry travels alone, so that neither entry order nor
			// stop-at-first-error semantics influence the outcome
			if v := s.judgeAdd(o); !v.accept {
				leaves = []*Node{leaf(o)}
				break
			}
		}
	}
	// shape: optionally wrap a run of entries into a named module, sprinkle nil entries
	o := &Op{Kind: "modules"}
	if len(leaves) > 0 && g.rng.Intn(2) == 0 {
		i := g.rng.Intn(len(leaves))
		j := i + 1 + g.rng.Intn(len(leaves)-i)
		m := &Node{Kind: "named", Name: g.pick([]string{"m1", "m2"}), Kids: append([]*Node(nil), leaves[i:j]...)}
		leaves = append(leaves[:i:i], append([]*Node{m}, leaves[j:]...)...)
	}
	for _, n := range leaves {
		if g.rng.Intn(5) == 0 {
			o.Mods = append(o.Mods, &Node{Kind: "nil"})
		}
		o.Mods = append(o.Mods, n)
	}
	return o
}

// next returns the next op of a random C17 sequence.
func (g *gen) next(s *Ref) *Op {
	switch x := g.rng.Intn(100); {
	case x < 58:
		return g.genLeafAdd(s)
	case x < 76:
		return g.genRemove(s)
	case x < 88:
		return &Op{Kind: "build"}
	default:
		return g.genModules(s)
	}
}
