package regx

import (
	"errors"
	"fmt"
	"reflect"
	"strings"
	"unsafe"

	"github.com/junioryono/godi/v4"
	"github.com/junioryono/godi/v4/verifh/pool"
	"github.com/junioryono/godi/v4/verifh/rt"
)

// ---------------------------------------------------------------------------------------------
// Universe: the identities every observation ranges over.

// uTypes are the identity type names of the universe (4 service types + the aliases used with As).
var uTypes = []string{"K0", "K1", "K2", "K3", "IK0", "IK1", "IA"}

// uKeys / uGroups are the keys and groups of the pool.
var uKeys = []string{"k", "k2"}
var uGroups = []string{"g", "h"}

var typeName = map[reflect.Type]string{}

// ctorByPtr maps the function VALUE of every pool constructor to its id (ToSlice descriptors are
// mapped back to the registration call through it). The key is the address of the function
// value's closure object, not the code pointer: the pool has closures of one function literal,
// which share their code.
var ctorByPtr = map[uintptr]int{}

// funcValueID identifies a function value: the data word of the interface holding it (top-level
// functions: their static descriptor; closures: the closure object).
func funcValueID(fn any) uintptr {
	return uintptr((*[2]unsafe.Pointer)(unsafe.Pointer(&fn))[1])
}

func init() {
	for _, n := range uTypes {
		typeName[pool.T(n)] = n
	}
	for i := range pool.Ctors {
		ctorByPtr[funcValueID(pool.Ctors[i].Fn)] = pool.Ctors[i].ID
	}
}

func nameOfType(t reflect.Type) string {
	if t == nil {
		return "<nil>"
	}
	if n, ok := typeName[t]; ok {
		return n
	}
	return "?" + t.String()
}

// Remove / RemoveKeyed exist as module options only in generic form.
var removeMod = map[string]godi.ModuleOption{
	"K0": godi.Remove[*pool.K0](), "K1": godi.Remove[*pool.K1](), "K2": godi.Remove[*pool.K2](), "K3": godi.Remove[*pool.K3](),
	"IK0": godi.Remove[pool.IK0](), "IK1": godi.Remove[pool.IK1](), "IA": godi.Remove[pool.IA](),
}

func removeKeyedMod(t string, key any) godi.ModuleOption {
	switch t {
	case "K0":
		return godi.RemoveKeyed[*pool.K0](key)
	case "K1":
		return godi.RemoveKeyed[*pool.K1](key)
	case "K2":
		return godi.RemoveKeyed[*pool.K2](key)
	case "K3":
		return godi.RemoveKeyed[*pool.K3](key)
	case "IK0":
		return godi.RemoveKeyed[pool.IK0](key)
	case "IK1":
		return godi.RemoveKeyed[pool.IK1](key)
	case "IA":
		return godi.RemoveKeyed[pool.IA](key)
	}
	panic("regx: no RemoveKeyed for " + t)
}

// ---------------------------------------------------------------------------------------------
// Operations.

// Op is one step of a C17 sequence / one leaf of a C20 module tree.
type Op struct {
	// Kind: add | remove | removeKeyed | modules | build | fail (a module entry that returns a
	// harness error without touching the collection; C20 only)
	Kind string `json:"kind"`
	// add
	Life  string   `json:"life,omitempty"` // singleton | scoped | transient
	Ctor  string   `json:"ctor,omitempty"` // pool constructor name, "nil", or "inst:<type>#<n>" (instance value)
	Name  string   `json:"name,omitempty"`
	Group string   `json:"group,omitempty"`
	As    []string `json:"as,omitempty"`
	// remove / removeKeyed
	Type string `json:"type,omitempty"`
	Key  string `json:"key,omitempty"`
	// KeyKind (removeKeyed only): "" = the string Key; "nil" = a nil key (addresses the unkeyed
	// registration); "empty" = the empty string; "int" = the int 0; "struct" = a struct value.
	// Only exact (type, key) matches are removed, so the last three never match anything: names
	// are non-empty strings here, and Name("") registers without a key (nil), not under "".
	KeyKind string `json:"key_kind,omitempty"`
	// modules: the arguments of one AddModules call
	Mods []*Node `json:"mods,omitempty"`
}

// Node is one entry of a module tree.
type Node struct {
	Kind string  `json:"kind"` // leaf | nil | named (godi.NewModule) | anon (a plain ModuleOption closure grouping its children)
	Name string  `json:"name,omitempty"`
	Op   *Op     `json:"op,omitempty"`
	Kids []*Node `json:"kids,omitempty"`
	// Wrap > 0 (anon only): the closure annotates a failure of its children with its own error
	// (return &wrapErr{id, err}) like a hand-written option would with fmt.Errorf("...: %w", err)
	Wrap int `json:"wrap,omitempty"`
}

// wrapErr is the annotation a hand-written grouping option puts around its children's error.
type wrapErr struct {
	id    int
	cause error
}

func (w *wrapErr) Error() string { return fmt.Sprintf("optional feature %d: %v", w.id, w.cause) }
func (w *wrapErr) Unwrap() error { return w.cause }

// walkErr visits err and everything reachable from it through Unwrap() error / Unwrap() []error,
// in the order errors.Is / errors.As examine the tree.
func walkErr(err error, visit func(error)) {
	if err == nil {
		return
	}
	visit(err)
	switch x := err.(type) {
	case interface{ Unwrap() error }:
		walkErr(x.Unwrap(), visit)
	case interface{ Unwrap() []error }:
		for _, e := range x.Unwrap() {
			walkErr(e, visit)
		}
	}
}

// keyValue is the key argument of a removeKeyed op.
func (o *Op) keyValue() any {
	switch o.KeyKind {
	case "nil":
		return nil
	case "empty":
		return ""
	case "int":
		return int(0)
	case "int1":
		return int(1) // the value godi itself gives to the first member of a group
	case "int2":
		return int(2)
	case "struct":
		return struct{}{}
	}
	return o.Key
}

// refKey says which identity of the reference a remove / removeKeyed op addresses: (key, true),
// or (_, false) when the key value cannot match any registration.
func (o *Op) refKey() (string, bool) {
	switch o.KeyKind {
	case "nil":
		return "", true
	case "empty", "int", "int1", "int2", "struct":
		return "", false
	}
	return o.Key, true
}

func (o *Op) String() string {
	switch o.Kind {
	case "add":
		var opts []string
		if o.Name != "" {
			opts = append(opts, fmt.Sprintf("Name(%q)", o.Name))
		}
		if o.Group != "" {
			opts = append(opts, fmt.Sprintf("Group(%q)", o.Group))
		}
		for _, a := range o.As {
			opts = append(opts, "As["+a+"]")
		}
		s := "Add" + strings.ToUpper(o.Life[:1]) + o.Life[1:] + "(" + o.Ctor
		if len(opts) > 0 {
			s += ", " + strings.Join(opts, ", ")
		}
		return s + ")"
	case "remove":
		return "Remove(" + o.Type + ")"
	case "removeKeyed":
		switch o.KeyKind {
		case "nil":
			return fmt.Sprintf("RemoveKeyed(%s,nil)", o.Type)
		case "empty":
			return fmt.Sprintf("RemoveKeyed(%s,\"\")", o.Type)
		case "int":
			return fmt.Sprintf("RemoveKeyed(%s,int(0))", o.Type)
		case "struct":
			return fmt.Sprintf("RemoveKeyed(%s,struct{}{})", o.Type)
		}
		return fmt.Sprintf("RemoveKeyed(%s,%q)", o.Type, o.Key)
	case "build":
		return "Build"
	case "fail":
		return "FailingEntry"
	case "modules":
		var ps []string
		for _, n := range o.Mods {
			ps = append(ps, n.String())
		}
		return "AddModules(" + strings.Join(ps, ", ") + ")"
	}
	return "?" + o.Kind
}

func (n *Node) String() string {
	switch n.Kind {
	case "nil":
		return "nil"
	case "leaf":
		return n.Op.String()
	}
	var ps []string
	for _, k := range n.Kids {
		ps = append(ps, k.String())
	}
	if n.Kind == "named" {
		return fmt.Sprintf("NewModule(%q: %s)", n.Name, strings.Join(ps, ", "))
	}
	if n.Wrap > 0 {
		return fmt.Sprintf("group-annotating-errors#%d{%s}", n.Wrap, strings.Join(ps, ", "))
	}
	return "group{" + strings.Join(ps, ", ") + "}"
}

func seqString(ops []*Op) string {
	var ps []string
	for _, o := range ops {
		ps = append(ps, o.String())
	}
	return strings.Join(ps, " ; ")
}

// errLeaf is what a "fail" entry returns.
var errLeaf = errors.New("regx: failing module entry")

// env holds what a case shares between its collections: the instance values.
type env struct {
	rec   *rt.Recorder
	insts map[string]any      // "inst:K0#1" -> value
	label map[*rt.Inst]string // identity -> label
}

func newEnv() *env {
	return &env{rec: rt.NewRecorder(), insts: map[string]any{}, label: map[*rt.Inst]string{}}
}

// instance returns the (per case unique) instance value named by an "inst:<type>#<n>" constructor.
func (e *env) instance(name string) any {
	if v, ok := e.insts[name]; ok {
		return v
	}
	tn := strings.TrimPrefix(name, "inst:")
	if i := strings.IndexByte(tn, '#'); i >= 0 {
		tn = tn[:i]
	}
	v := pool.Types[tn].NewValue()
	in := rt.InstOf(v)
	e.rec.NewValueInst(in, tn)
	e.insts[name] = v
	e.label[in] = name
	return v
}

// service returns the first argument of the Add call.
func (e *env) service(o *Op) any {
	switch {
	case o.Ctor == "nil":
		return nil
	case strings.HasPrefix(o.Ctor, "inst:"):
		return e.instance(o.Ctor)
	}
	return pool.ByName(o.Ctor).Fn
}

func addOpts(o *Op) []godi.AddOption {
	var opts []godi.AddOption
	if o.Name != "" {
		opts = append(opts, godi.Name(o.Name))
	}
	if o.Group != "" {
		opts = append(opts, godi.Group(o.Group))
	}
	for _, a := range o.As {
		opts = append(opts, pool.AsOption(a))
	}
	return opts
}

// applyDirect issues the op as a direct call on the collection (build is handled by the caller).
func (e *env) applyDirect(c godi.Collection, o *Op) error {
	switch o.Kind {
	case "add":
		switch o.Life {
		case "singleton":
			return c.AddSingleton(e.service(o), addOpts(o)...)
		case "scoped":
			return c.AddScoped(e.service(o), addOpts(o)...)
		default:
			return c.AddTransient(e.service(o), addOpts(o)...)
		}
	case "remove":
		c.Remove(pool.T(o.Type))
		return nil
	case "removeKeyed":
		c.RemoveKeyed(pool.T(o.Type), o.keyValue())
		return nil
	case "fail":
		return errLeaf
	case "modules":
		return c.AddModules(e.moduleOptions(o.Mods)...)
	}
	panic("regx: applyDirect " + o.Kind)
}

// moduleOption renders a leaf op as the module-level option godi offers for it.
func (e *env) leafOption(o *Op) godi.ModuleOption {
	switch o.Kind {
	case "add":
		switch o.Life {
		case "singleton":
			return godi.AddSingleton(e.service(o), addOpts(o)...)
		case "scoped":
			return godi.AddScoped(e.service(o), addOpts(o)...)
		default:
			return godi.AddTransient(e.service(o), addOpts(o)...)
		}
	case "remove":
		return removeMod[o.Type]
	case "removeKeyed":
		return removeKeyedMod(o.Type, o.keyValue())
	case "fail":
		return failingEntry
	}
	panic("regx: leafOption " + o.Kind)
}

func failingEntry(godi.Collection) error { return errLeaf }

// anonGroup is a user-written ModuleOption that groups entries without naming them.
type anonGroup struct {
	kids []godi.ModuleOption
	wrap int
}

func (g *anonGroup) apply(c godi.Collection) error {
	var err error
	if c == nil {
		// no collection to delegate to: the option walks its entries itself, like AddModules does
		for _, k := range g.kids {
			if k == nil {
				continue
			}
			if err = k(nil); err != nil {
				break
			}
		}
	} else {
		err = c.AddModules(g.kids...)
	}
	if err != nil && g.wrap > 0 {
		return &wrapErr{g.wrap, err}
	}
	return err
}

func (e *env) moduleOptions(ns []*Node) []godi.ModuleOption {
	out := make([]godi.ModuleOption, 0, len(ns))
	for _, n := range ns {
		out = append(out, e.moduleOption(n))
	}
	return out
}

func (e *env) moduleOption(n *Node) godi.ModuleOption {
	switch n.Kind {
	case "nil":
		return nil
	case "leaf":
		return e.leafOption(n.Op)
	case "named":
		return godi.NewModule(n.Name, e.moduleOptions(n.Kids)...)
	case "anon":
		g := &anonGroup{kids: e.moduleOptions(n.Kids), wrap: n.Wrap}
		return g.apply
	}
	panic("regx: moduleOption " + n.Kind)
}

// flatLeaf is a leaf of a module tree with the names of its enclosing named modules, outermost first.
type flatLeaf struct {
	Op    *Op
	Names []string
	Wraps []int // ids of the enclosing error-annotating closures
}

// flatten lists the leaves left to right (nil entries vanish).
func flatten(ns []*Node, names []string, out []flatLeaf) []flatLeaf {
	return flattenW(ns, names, nil, out)
}

func flattenW(ns []*Node, names []string, wraps []int, out []flatLeaf) []flatLeaf {
	for _, n := range ns {
		switch n.Kind {
		case "nil":
		case "leaf":
			out = append(out, flatLeaf{Op: n.Op, Names: append([]string(nil), names...), Wraps: append([]int(nil), wraps...)})
		case "named":
			out = flattenW(n.Kids, append(names[:len(names):len(names)], n.Name), wraps, out)
		case "anon":
			w := wraps
			if n.Wrap > 0 {
				w = append(wraps[:len(wraps):len(wraps)], n.Wrap)
			}
			out = flattenW(n.Kids, names, w, out)
		}
	}
	return out
}

// ---------------------------------------------------------------------------------------------
// Error classes (never message text).

// alreadyRegistered reports whether an AlreadyRegisteredError is reachable (pointer or value).
func alreadyRegistered(err error) bool {
	var p *godi.AlreadyRegisteredError
	if errors.As(err, &p) {
		return true
	}
	var v godi.AlreadyRegisteredError
	return errors.As(err, &v)
}

// errFeatures lists which typed errors / sentinels are reachable from err.
func errFeatures(err error) string {
	if err == nil {
		return "nil"
	}
	var fs []string
	if alreadyRegistered(err) {
		fs = append(fs, "AlreadyRegistered")
	}
	var ve *godi.ValidationError
	var vv godi.ValidationError
	if errors.As(err, &ve) || errors.As(err, &vv) {
		fs = append(fs, "Validation")
	}
	var re *godi.RegistrationError
	var rv godi.RegistrationError
	if errors.As(err, &re) || errors.As(err, &rv) {
		fs = append(fs, "Registration")
	}
	var te *godi.TypeMismatchError
	var tv godi.TypeMismatchError
	if errors.As(err, &te) || errors.As(err, &tv) {
		fs = append(fs, "TypeMismatch")
	}
	if errors.Is(err, godi.ErrConstructorNil) {
		fs = append(fs, "ErrConstructorNil")
	}
	if errors.Is(err, errLeaf) {
		fs = append(fs, "errLeaf")
	}
	if len(fs) == 0 {
		return "other"
	}
	return strings.Join(fs, "+")
}
