package regx

import (
	"fmt"
	"sort"
	"strings"

	"github.com/junioryono/godi/v4/verifh/pool"
)

// ident is a registration identity: (type,key) when Group == "", else a member of (type,group).
type ident struct{ T, Key, Group string }

func (i ident) String() string {
	switch {
	case i.Group != "":
		return i.T + "@" + i.Group
	case i.Key != "":
		return i.T + "/" + i.Key
	}
	return i.T
}

// reg is one accepted Add call.
type reg struct {
	call   int // ordinal of the accepted call
	life   string
	ctor   int    // pool constructor id, -1 for an instance value
	inst   string // instance label when ctor == -1
	form   string // plain | named | group | as | as-multi | instance | multi-return | out-struct
	outs   []ident
	deps   []pool.Dep
	single bool // single-output constructor (several identities only through As)
	op     *Op  // the call itself (replayed into a fresh collection to adjudicate Build failures)
}

// prod is how the registration's n-th output shows up in a resolved value.
func (r *reg) prod(out int) string {
	if r.ctor < 0 {
		return r.inst
	}
	if r.single {
		out = 0 // As aliases all carry the constructor's only output
	}
	return fmt.Sprintf("c%d.%d", r.ctor, out)
}

// who names the registration call itself (what ToSlice descriptors are mapped back to).
func (r *reg) who() string {
	if r.ctor < 0 {
		return r.inst
	}
	return fmt.Sprintf("c%d", r.ctor)
}

type entry struct {
	r   *reg
	out int
}

// Ref is the reference registry: nothing but the statement's rules.
type Ref struct {
	svc   map[ident]entry   // identities with Group == ""
	grp   map[ident][]entry // key {T,"",Group}: members in call order
	calls int
}

func NewRef() *Ref { return &Ref{svc: map[ident]entry{}, grp: map[ident][]entry{}} }

func (s *Ref) Clone() *Ref {
	c := &Ref{svc: make(map[ident]entry, len(s.svc)), grp: make(map[ident][]entry, len(s.grp)), calls: s.calls}
	for k, v := range s.svc {
		c.svc[k] = v
	}
	for k, v := range s.grp {
		c.grp[k] = append([]entry(nil), v...)
	}
	return c
}

// tuple is one surviving (identity, registration) pair.
type tuple struct {
	id   ident
	who  string
	life string
	call int
}

func (s *Ref) tuples() []tuple {
	var ts []tuple
	for id, e := range s.svc {
		ts = append(ts, tuple{id, e.r.who(), e.r.life, e.r.call})
	}
	for id, es := range s.grp {
		for _, e := range es {
			ts = append(ts, tuple{id, e.r.who(), e.r.life, e.r.call})
		}
	}
	sort.Slice(ts, func(i, j int) bool { return tupleKey(ts[i]) < tupleKey(ts[j]) })
	return ts
}

func tupleKey(t tuple) string { return t.id.String() + "=" + t.who + ":" + t.life }

// String is a canonical fingerprint of the state.
func (s *Ref) String() string {
	var ps []string
	for id, e := range s.svc {
		ps = append(ps, fmt.Sprintf("%s=%s:%s", id, e.r.prod(e.out), e.r.life))
	}
	sort.Strings(ps)
	var gs []string
	for id, es := range s.grp {
		if len(es) == 0 {
			continue
		}
		var ms []string
		for _, e := range es {
			ms = append(ms, e.r.prod(e.out)+":"+e.r.life)
		}
		gs = append(gs, id.String()+"=["+strings.Join(ms, ",")+"]")
	}
	sort.Strings(gs)
	return "{" + strings.Join(append(ps, gs...), " ") + "}"
}

// regsAlive lists the registrations with at least one surviving output, in call order, with
// the number of surviving outputs of each.
func (s *Ref) regsAlive() ([]*reg, map[*reg]int) {
	n := map[*reg]int{}
	for _, e := range s.svc {
		n[e.r]++
	}
	for _, es := range s.grp {
		for _, e := range es {
			n[e.r]++
		}
	}
	rs := make([]*reg, 0, len(n))
	for r := range n {
		rs = append(rs, r)
	}
	sort.Slice(rs, func(i, j int) bool { return rs[i].call < rs[j].call })
	return rs, n
}

func (s *Ref) nIdent() int {
	n := len(s.svc)
	for _, es := range s.grp {
		n += len(es)
	}
	return n
}

// hasType reports whether any registration (unkeyed, keyed or grouped) has the type.
func (s *Ref) hasType(t string) bool {
	for id := range s.svc {
		if id.T == t {
			return true
		}
	}
	for id, es := range s.grp {
		if id.T == t && len(es) > 0 {
			return true
		}
	}
	return false
}

// verdict is what the statement says about one Add call.
type verdict struct {
	accept      bool
	wantAlready bool   // rejection must expose AlreadyRegisteredError
	why         string // nil-ctor | name+group | as-mismatch | duplicate
	rejectAt    int    // 1-based output index at which the duplicate is hit (0: not a duplicate)
	form        string
	r           *reg
}

func implements(concrete, iface string) bool {
	ti, ok := pool.Types[iface]
	if !ok || !ti.Iface {
		return false
	}
	for _, n := range ti.Impl {
		if n == concrete {
			return true
		}
	}
	return false
}

// judgeAdd decides an Add call against the current state without changing it.
func (s *Ref) judgeAdd(o *Op) verdict {
	if o.Ctor == "nil" {
		return verdict{why: "nil-ctor", form: "nil"}
	}
	r := &reg{life: o.Life, ctor: -1, op: o}
	var outs []pool.Out
	if strings.HasPrefix(o.Ctor, "inst:") {
		tn := strings.TrimPrefix(o.Ctor, "inst:")
		tn = tn[:strings.IndexByte(tn, '#')]
		r.inst = o.Ctor
		r.form = "instance"
		outs = []pool.Out{{Type: tn, Impl: tn}}
	} else {
		m := pool.ByName(o.Ctor)
		r.ctor = m.ID
		r.deps = m.Deps
		outs = m.Outs
		switch {
		case m.ResultObj:
			r.form = "out-struct"
		case len(m.Outs) > 1:
			r.form = "multi-return"
		default:
			r.form = "plain"
		}
	}
	single := len(outs) == 1 && r.form != "out-struct"
	r.single = single
	if single {
		switch {
		case len(o.As) > 1:
			r.form = "as-multi"
		case len(o.As) == 1:
			r.form = "as"
		case r.form == "instance":
		case o.Group != "":
			r.form = "group"
		case o.Name != "":
			r.form = "named"
		}
	}
	if o.Name != "" && o.Group != "" {
		return verdict{why: "name+group", form: r.form}
	}
	for i, ot := range outs {
		if ot.Key != "" && ot.Group != "" {
			// a result-object field tagged with both name and group: one registration cannot
			// have both (godi says so for Name+Group and for descriptors in general)
			return verdict{why: "name+group", form: r.form, rejectAt: i + 1}
		}
	}
	// identities the call provides, in the order the outputs are declared
	if single {
		if len(o.As) > 0 {
			for _, a := range o.As {
				if !implements(outs[0].Impl, a) {
					// the alias list is processed left to right; a mismatch rejects the call
					return verdict{why: "as-mismatch", form: r.form, rejectAt: len(r.outs) + 1}
				}
				r.outs = append(r.outs, ident{T: a, Key: o.Name, Group: o.Group})
			}
		} else {
			r.outs = []ident{{T: outs[0].Type, Key: o.Name, Group: o.Group}}
		}
	} else {
		// generators never combine Name/Group/As with multi-output constructors (the
		// statement does not say what that means)
		for _, ot := range outs {
			r.outs = append(r.outs, ident{T: ot.Type, Key: ot.Key, Group: ot.Group})
		}
	}
	seen := map[ident]bool{}
	for i, id := range r.outs {
		if id.Group != "" {
			continue
		}
		if _, dup := s.svc[id]; dup || seen[id] {
			return verdict{why: "duplicate", wantAlready: true, rejectAt: i + 1, form: r.form}
		}
		seen[id] = true
	}
	return verdict{accept: true, form: r.form, r: r}
}

// commit inserts an accepted registration.
func (s *Ref) commit(r *reg) {
	s.calls++
	r.call = s.calls
	for i, id := range r.outs {
		if id.Group != "" {
			k := ident{T: id.T, Group: id.Group}
			s.grp[k] = append(s.grp[k], entry{r, i})
		} else {
			s.svc[id] = entry{r, i}
		}
	}
}

// removeCandidates lists the states the statement allows after Remove(t) / RemoveKeyed(t,key),
// minimal first. The named identity must be gone; the statement is silent on whether
// Remove(T) also drops keyed or grouped registrations of T, and on what happens to the other
// outputs of a multi-output registration one output of which is removed.
func (s *Ref) afterRemove(o *Op) []*Ref {
	key, matches := o.refKey()
	if !matches {
		return []*Ref{s}
	}
	if o.KeyKind == "nil" {
		// RemoveKeyed(T, nil) "removes a specific keyed service": the unkeyed identity only
		c := s.removeCandidates(o.Type, key)
		return c[:1]
	}
	return s.removeCandidates(o.Type, key)
}

// had reports whether the op addresses a registered identity.
func (s *Ref) had(o *Op) bool {
	key, matches := o.refKey()
	if !matches {
		return false
	}
	_, ok := s.svc[ident{T: o.Type, Key: key}]
	return ok
}

func (s *Ref) removeCandidates(t, key string) []*Ref {
	target := ident{T: t, Key: key}
	owner, had := s.svc[target]
	var out []*Ref
	seen := map[string]bool{}
	for mask := 0; mask < 8; mask++ {
		dropKeyed, dropGroups, dropSiblings := mask&1 != 0, mask&2 != 0, mask&4 != 0
		if key != "" && (dropKeyed || dropGroups) {
			continue // RemoveKeyed "removes a specific keyed service"
		}
		c := s.Clone()
		delete(c.svc, target)
		if dropKeyed {
			for id := range c.svc {
				if id.T == t && id.Key != "" {
					delete(c.svc, id)
				}
			}
		}
		if dropGroups {
			for id := range c.grp {
				if id.T == t {
					delete(c.grp, id)
				}
			}
		}
		if dropSiblings && had {
			for id, e := range c.svc {
				if e.r == owner.r {
					delete(c.svc, id)
				}
			}
			for id, es := range c.grp {
				var keep []entry
				for _, e := range es {
					if e.r != owner.r {
						keep = append(keep, e)
					}
				}
				if len(keep) == 0 {
					delete(c.grp, id)
				} else {
					c.grp[id] = keep
				}
			}
		}
		fp := c.String()
		if !seen[fp] {
			seen[fp] = true
			out = append(out, c)
		}
	}
	return out
}

// buildable says whether the statement-level rules make the state a valid input of Build:
// every declared dependency is registered and no singleton/transient consumes a scoped
// service. (Constructors used here only have plain dependencies on unkeyed K types, and
// K_i only ever depends on K_j with j < i, so no cycle can arise.) partial reports a
// multi-output registration that lost some of its outputs to Remove.
func (s *Ref) buildable() (ok bool, partial bool) {
	ok = true
	rs, n := s.regsAlive()
	for _, r := range rs {
		if n[r] != len(r.outs) {
			partial = true
		}
		for _, d := range r.deps {
			e, present := s.svc[ident{T: d.Target}]
			if !present {
				ok = false
				continue
			}
			if e.r.life == "scoped" && r.life != "scoped" {
				ok = false
			}
		}
	}
	return ok, partial
}

// tainted is the set of multi-output registrations that lost an output to Remove, plus every
// registration that (transitively) depends on an identity provided by one of them.
func (s *Ref) tainted() map[*reg]bool {
	rs, alive := s.regsAlive()
	t := map[*reg]bool{}
	for _, r := range rs {
		if alive[r] != len(r.outs) {
			t[r] = true
		}
	}
	for changed := len(t) > 0; changed; {
		changed = false
		for _, r := range rs {
			if t[r] {
				continue
			}
			for _, d := range r.deps {
				if e, ok := s.svc[ident{T: d.Target}]; ok && t[e.r] {
					t[r] = true
					changed = true
					break
				}
			}
		}
	}
	return t
}

// removedOutputs maps "c<ctor>.<out>" of every output that a surviving multi-output
// registration lost to Remove to the form of that registration.
func (s *Ref) removedOutputs() map[string]string {
	m := map[string]string{}
	rs, alive := s.regsAlive()
	for _, r := range rs {
		if alive[r] == len(r.outs) || r.ctor < 0 || r.single {
			continue
		}
		for i, id := range r.outs {
			present := false
			if id.Group != "" {
				for _, e := range s.grp[ident{T: id.T, Group: id.Group}] {
					if e.r == r && e.out == i {
						present = true
					}
				}
			} else if e, ok := s.svc[id]; ok && e.r == r && e.out == i {
				present = true
			}
			if !present {
				m[r.prod(i)] = r.form
			}
		}
	}
	return m
}

// expectTable is what resolving every identity of the universe must answer.
func (s *Ref) expectTable() map[string]string {
	t := map[string]string{}
	tainted := s.tainted()
	for _, tn := range uTypes {
		for _, k := range append([]string{""}, uKeys...) {
			id := ident{T: tn, Key: k}
			if e, ok := s.svc[id]; ok {
				t[id.String()] = "ok:" + e.r.prod(e.out)
				if tainted[e.r] {
					// a multi-output registration that lost an output to Remove (or a consumer
					// of one): the statement does not say whether the remaining outputs can
					// still be produced
					t[id.String()] = "partial:" + e.r.prod(e.out)
				}
			} else {
				t[id.String()] = "absent"
			}
		}
		for _, g := range uGroups {
			id := ident{T: tn, Group: g}
			var ms []string
			part := false
			for _, e := range s.grp[id] {
				ms = append(ms, e.r.prod(e.out))
				if tainted[e.r] {
					part = true
				}
			}
			t[id.String()] = "ok:[" + strings.Join(ms, ",") + "]"
			if part {
				t[id.String()] = "partial:[" + strings.Join(ms, ",") + "]"
			}
		}
	}
	return t
}

// ctorsAlive is the set of constructor ids of surviving registrations.
func (s *Ref) ctorsAlive() map[int]bool {
	m := map[int]bool{}
	rs, _ := s.regsAlive()
	for _, r := range rs {
		if r.ctor >= 0 {
			m[r.ctor] = true
		}
	}
	return m
}
