package web

import (
	"errors"
	"fmt"
	"net/http"
	"net/http/httptest"
	"reflect"
	"runtime"
	"sync"
	"time"
	"weak"

	"github.com/gin-gonic/gin"
	"github.com/gofiber/fiber/v2"
	"github.com/junioryono/godi/v4"
	godichi "github.com/junioryono/godi/v4/chi"
	godiecho "github.com/junioryono/godi/v4/echo"
	godifiber "github.com/junioryono/godi/v4/fiber"
	godigin "github.com/junioryono/godi/v4/gin"
	godihttp "github.com/junioryono/godi/v4/http"
	"github.com/junioryono/godi/v4/verifh/eng"
	"github.com/labstack/echo/v4"
)

// Requests that a configured middleware (WithMiddleware) rejects.
//
// The function installed with WithMiddleware resolves a scoped service from the request's scope and
// then returns an error (authentication failure, unknown tenant): the error handler answers, the
// route handler does not run - and the request is over. Its scope is closed like that of any other
// request: the scoped instance is closed once, the scope's context is cancelled, nothing keeps
// the scope reachable and no goroutine of it remains, however many requests are rejected. The
// request contexts are never cancelled by the caller (handlers invoked directly / httptest).

type rjWorld struct {
	mu     sync.Mutex
	next   int
	closes map[int]int
	dones  []<-chan struct{} // Done channels of the scopes' contexts (the contexts themselves would keep the scopes reachable)
	weaks  []weak.Pointer[byte]
	ran    int
}

type rjSvc struct {
	w  *rjWorld
	id int
}

func (s *rjSvc) Close() error { s.w.mu.Lock(); s.w.closes[s.id]++; s.w.mu.Unlock(); return nil }

var errRejected = errors.New("verif: the configured middleware rejects the request")

func (w *rjWorld) reject(sc godi.Scope) error {
	if sc != nil {
		_, _ = godi.Resolve[*rjSvc](sc)
		w.mu.Lock()
		w.dones = append(w.dones, sc.Context().Done())
		w.weaks = append(w.weaks, weak.Make((*byte)(reflect.ValueOf(sc).UnsafePointer())))
		w.mu.Unlock()
	}
	return errRejected
}

// RunRejectedRequests: prop C16 judges the close of the scoped instance and the handler, prop C14
// what is left behind.
func RunRejectedRequests(c *eng.Ctx, prop string, next func() (int, bool)) {
	for _, fw := range []string{"nethttp", "chi", "gin", "echo", "fiber"} {
		idx, mine := next()
		if !mine {
			continue
		}
		c.R.Begin(idx)
		w := &rjWorld{closes: map[int]int{}}
		viol := func(clause, detail string) {
			c.R.Violation(eng.Violation{Prop: prop, Clause: clause, Sig: prop + "/" + clause + ":" + fw + ":requests-rejected-by-a-configured-middleware", Case: idx, CaseID: "rejected-requests-" + fw,
				Detail: fw + ", every request is rejected by the function installed with WithMiddleware: " + detail, Replay: map[string]any{"fixture": "rejected-requests", "framework": fw}})
		}
		func() {
			defer func() {
				if p := recover(); p != nil {
					viol("panic", fmt.Sprintf("panic: %v", p))
				}
			}()
			coll := godi.NewCollection()
			if err := coll.AddScoped(func() *rjSvc {
				w.mu.Lock()
				defer w.mu.Unlock()
				w.next++
				return &rjSvc{w: w, id: w.next}
			}); err != nil {
				panic("rejected-requests fixture: " + err.Error())
			}
			prov, err := coll.Build()
			if err != nil {
				panic("rejected-requests fixture does not build: " + err.Error())
			}
			defer prov.Close()
			requests := c.Pick(40, 400)
			base := runtime.NumGoroutine()
			handler := func() { w.mu.Lock(); w.ran++; w.mu.Unlock() }
			var do func()
			switch fw {
			case "nethttp", "chi":
				hook := func(sc godi.Scope, r *http.Request) error { return w.reject(sc) }
				var mw func(http.Handler) http.Handler
				if fw == "chi" {
					mw = godichi.ScopeMiddleware(prov, godichi.WithMiddleware(hook))
				} else {
					mw = godihttp.ScopeMiddleware(prov, godihttp.WithMiddleware(hook))
				}
				h := mw(http.HandlerFunc(func(rw http.ResponseWriter, r *http.Request) { handler(); rw.WriteHeader(200) }))
				do = func() { h.ServeHTTP(httptest.NewRecorder(), httptest.NewRequest(http.MethodGet, "/x", nil)) }
			case "gin":
				e := gin.New()
				e.Use(godigin.ScopeMiddleware(prov, godigin.WithMiddleware(func(sc godi.Scope, gc *gin.Context) error { return w.reject(sc) })))
				e.GET("/x", func(gc *gin.Context) { handler(); gc.Status(200) })
				do = func() { e.ServeHTTP(httptest.NewRecorder(), httptest.NewRequest(http.MethodGet, "/x", nil)) }
			case "echo":
				e := echo.New()
				e.Use(godiecho.ScopeMiddleware(prov, godiecho.WithMiddleware(func(sc godi.Scope, ec echo.Context) error { return w.reject(sc) })))
				e.GET("/x", func(ec echo.Context) error { handler(); return ec.NoContent(200) })
				do = func() { e.ServeHTTP(httptest.NewRecorder(), httptest.NewRequest(http.MethodGet, "/x", nil)) }
			default:
				app := fiber.New(fiber.Config{DisableStartupMessage: true})
				app.Use(godifiber.ScopeMiddleware(prov, godifiber.WithMiddleware(func(sc godi.Scope, fc *fiber.Ctx) error { return w.reject(sc) })))
				app.Get("/x", func(fc *fiber.Ctx) error { handler(); return fc.SendStatus(200) })
				defer app.Shutdown()
				do = func() {
					if resp, err := app.Test(httptest.NewRequest(http.MethodGet, "/x", nil), -1); err == nil {
						_ = resp.Body.Close()
					}
				}
			}
			for i := 0; i < requests; i++ {
				do()
			}
			c.R.Count("rejected_requests", int64(requests))
			pollUntil(func() bool {
				w.mu.Lock()
				defer w.mu.Unlock()
				for id := 1; id <= w.next; id++ {
					if w.closes[id] < 1 {
						return false
					}
				}
				return true
			})
			deadline := time.Now().Add(10 * time.Second)
			for runtime.NumGoroutine() > base+4 && time.Now().Before(deadline) {
				time.Sleep(5 * time.Millisecond)
			}
			for i := 0; i < 3; i++ {
				runtime.GC()
			}
			w.mu.Lock()
			defer w.mu.Unlock()
			if prop == "C16" {
				if w.ran > 0 {
					viol("handler-ran-after-middleware-error", fmt.Sprintf("the route handler ran %d times although the configured middleware rejected every request", w.ran))
				}
				never, twice := 0, 0
				for id := 1; id <= w.next; id++ {
					switch n := w.closes[id]; {
					case n == 0:
						never++
					case n > 1:
						twice++
					}
				}
				if never > 0 || twice > 0 {
					viol("instance-close-count", fmt.Sprintf("of %d scoped instances created for rejected requests %d were never closed and %d were closed more than once", w.next, never, twice))
				}
				return
			}
			live := 0
			for _, d := range w.dones {
				select {
				case <-d:
				default:
					live++
				}
			}
			if live > 0 {
				viol("ctx-not-cancelled", fmt.Sprintf("%d of %d scope contexts of rejected (finished) requests are still live", live, len(w.dones)))
			}
			alive := 0
			for _, wk := range w.weaks {
				if wk.Value() != nil {
					alive++
				}
			}
			c.R.Count("weak_checked", int64(len(w.weaks)))
			if alive > 0 {
				viol("scope-retained", fmt.Sprintf("with the provider still open and after 3 GC cycles %d of %d scopes of rejected requests are still reachable", alive, len(w.weaks)))
			}
			if n := runtime.NumGoroutine(); n > base+4+requests/10 {
				viol("goroutine-leak", fmt.Sprintf("%d goroutines more than before the %d rejected requests are still there 10 s after the last one", n-base, requests))
			}
		}()
		c.R.End(idx, eng.Hash("rejected-requests", prop, fw), true)
	}
}
