package web

import (
	"context"
	"errors"
	"io"
	"log"
	"net"
	"net/http"
	"net/http/httptest"
	"time"

	"github.com/gofiber/fiber/v2"
	"github.com/junioryono/godi/v4"
)

// Transports.
const (
	TrRecorder = "recorder" // httptest.NewRecorder, handler called on the driver's goroutine
	TrServer   = "server"   // real httptest.Server: r.Context() is owned and cancelled by net/http
	TrAppTest  = "apptest"  // fiber's app.Test
)

// waitBound bounds every wait of the driver for a server-side goroutine. Expiry is reported as
// inconclusive, never as a violation.
const waitBound = 30 * time.Second

var errDriverWait = errors.New("verif: bounded wait expired")

type app interface {
	do(st *reqState)
	shutdown()
}

// httpApp drives an http.Handler through a recorder or a real server.
type appCtxMark struct{}

type httpApp struct {
	base context.Context // AppCtx cases: derived from the application scope's context
	h    http.Handler
	srv  *httptest.Server
	cl   *http.Client
}

func newHTTPApp(h http.Handler, transport string, app godi.Scope) *httpApp {
	a := &httpApp{h: h}
	if app != nil {
		a.base = context.WithValue(app.Context(), appCtxMark{}, true)
	}
	if transport == TrServer {
		a.srv = httptest.NewUnstartedServer(h)
		a.srv.Config.ErrorLog = log.New(io.Discard, "", 0)
		if a.base != nil {
			base := a.base
			a.srv.Config.BaseContext = func(net.Listener) context.Context { return base }
		}
		a.srv.Start()
		// one connection per request: net/http's client silently re-sends an idempotent request
		// when a reused connection dies without a response (which is what a handler panic under
		// http.Server's own recover looks like), and that would be a second request
		a.cl = &http.Client{Transport: &http.Transport{DisableKeepAlives: true}}
	}
	return a
}

func (a *httpApp) shutdown() {
	if a.srv != nil {
		a.cl.CloseIdleConnections()
		a.srv.CloseClientConnections()
		a.srv.Close()
	}
}

func (a *httpApp) do(st *reqState) {
	path := routePath(st.plan.Route)
	if a.srv == nil {
		req := httptest.NewRequest(http.MethodGet, path, nil)
		req.Header.Set(hdrReq, st.key)
		if a.base != nil {
			req = req.WithContext(a.base)
		}
		rec := httptest.NewRecorder()
		func() {
			defer func() {
				if v := recover(); v != nil {
					st.mu.Lock()
					st.driverRecovered = true
					st.mu.Unlock()
				}
			}()
			a.h.ServeHTTP(rec, req)
		}()
		st.mu.Lock()
		st.status = rec.Code
		st.mu.Unlock()
		return
	}

	ctx, cancel := context.WithCancel(context.Background())
	defer cancel()
	req, err := http.NewRequestWithContext(ctx, http.MethodGet, a.srv.URL+path, nil)
	if err != nil {
		st.mu.Lock()
		st.terr = err
		st.mu.Unlock()
		return
	}
	req.Header.Set(hdrReq, st.key)
	type res struct {
		code int
		err  error
	}
	ch := make(chan res, 1)
	go func() {
		resp, err := a.cl.Do(req)
		if err != nil {
			ch <- res{0, err}
			return
		}
		_, _ = io.Copy(io.Discard, resp.Body)
		_ = resp.Body.Close()
		ch <- res{resp.StatusCode, nil}
	}()
	if st.plan.Exit == ExitAbort {
		// wait until the handler is parked (or the request ended some other way), then hang up
		select {
		case <-st.entered:
		case <-st.done:
		case r := <-ch:
			ch <- r
		case <-time.After(waitBound):
		}
		cancel()
	}
	var r res
	select {
	case r = <-ch:
	case <-time.After(waitBound):
		r = res{0, errDriverWait}
		cancel()
	}
	// the request has left the handler chain when the harness pre-middleware unwound
	waited := true
	st.mu.Lock()
	pre := st.preEntered
	st.mu.Unlock()
	if pre > 0 {
		select {
		case <-st.done:
		case <-time.After(waitBound):
			waited = false
		}
	}
	st.mu.Lock()
	st.status, st.terr = r.code, r.err
	if !waited {
		st.doneTimeout = true
	}
	st.mu.Unlock()
}

// fiberApp drives a fiber app through app.Test (in-memory connection, fasthttp serving loop).
type fiberApp struct{ app *fiber.App }

func (a *fiberApp) shutdown() { _ = a.app.Shutdown() }

func (a *fiberApp) do(st *reqState) {
	req := httptest.NewRequest(http.MethodGet, routePath(st.plan.Route), nil)
	req.Header.Set(hdrReq, st.key)
	resp, err := a.app.Test(req, -1) // no wall-clock timeout: the shard watchdog bounds a hang
	st.mu.Lock()
	defer st.mu.Unlock()
	if err != nil {
		st.terr = err
		return
	}
	st.status = resp.StatusCode
	_ = resp.Body.Close()
}
