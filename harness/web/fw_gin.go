package web

import (
	"context"
	"io"
	"net/http"

	"github.com/gin-gonic/gin"
	"github.com/junioryono/godi/v4"
	godigin "github.com/junioryono/godi/v4/gin"
)

func init() { gin.SetMode(gin.ReleaseMode) }

// buildGin builds a gin engine: [gin recovery] -> pre -> { /n/ctrl ; group /s with ScopeMiddleware }.
func buildGin(cs *caseState, sp godi.Provider) http.Handler {
	o := cs.spec.Opts
	look := func(c *gin.Context) *reqState { return cs.lookup(c.Request.Header.Get(hdrReq)) }

	var so []godigin.Option
	switch o.ErrH {
	case ErrHNil:
		so = append(so, godigin.WithErrorHandler(nil))
	case ErrHCustom:
		// gin's idiom (and godi's own default handler): abort the chain
		so = append(so, godigin.WithErrorHandler(func(c *gin.Context, err error) {
			look(c).onErrH(err)
			c.AbortWithStatus(stErrH)
		}))
	case ErrHNonAborting:
		// separately labelled scenario: just writes a status, like the custom handlers of the
		// other four integrations
		so = append(so, godigin.WithErrorHandler(func(c *gin.Context, err error) {
			look(c).onErrH(err)
			c.String(stErrH, "scope error")
		}))
	}
	if o.CloseH == "nil-option" {
		so = append(so, godigin.WithCloseErrorHandler(nil))
	}
	if o.CloseH == "custom" {
		so = append(so, godigin.WithCloseErrorHandler(func(error) { cs.closeErrH.Add(1) }))
	}
	for i := 0; i < o.NMW; i++ {
		pos := i
		so = append(so, godigin.WithMiddleware(func(sc godi.Scope, c *gin.Context) error { return look(c).onMW(pos, sc) }))
	}
	var ho []godigin.HandlerOption
	if o.Recovery {
		ho = append(ho, godigin.WithPanicRecovery(true))
	}
	if o.HandleH == "nil-option" {
		// gin's HandlerConfig documents each of the three: "If nil, a default handler returning 500 ... is used"
		ho = append(ho, godigin.WithPanicHandler(nil), godigin.WithScopeErrorHandler(nil), godigin.WithResolutionErrorHandler(nil))
	}
	if o.HandleH == "custom" {
		ho = append(ho,
			godigin.WithPanicHandler(func(c *gin.Context, v any) { look(c).onPanicH(); c.AbortWithStatus(stPanicH) }),
			godigin.WithScopeErrorHandler(func(c *gin.Context, err error) { look(c).onScopeErrH(); c.AbortWithStatus(stScopeErr) }),
			godigin.WithResolutionErrorHandler(func(c *gin.Context, err error) { look(c).onResErrH(); c.AbortWithStatus(stResErr) }),
		)
	}

	act := func(st *reqState, a action, c *gin.Context) {
		switch a {
		case actOK:
			c.Status(http.StatusOK)
			c.Writer.WriteHeaderNow()
		case actErr:
			_ = c.AbortWithError(stHErr, errHandler)
		case actPanic:
			panic(panicVal)
		case actAbortWait:
			st.waitAbort(c.Request.Context())
		}
	}
	hCtrl := godigin.Handle(func(k *Ctrl, c *gin.Context) {
		st := look(c)
		act(st, st.onMethod(RouteCtrl, k), c)
	}, ho...)
	hUnreg := godigin.Handle(func(k *UnregCtrl, c *gin.Context) {
		st := look(c)
		act(st, st.onMethod(RouteUnreg, nil), c)
	}, ho...)
	hFail := godigin.Handle(func(k *FailCtrl, c *gin.Context) {
		st := look(c)
		act(st, st.onMethod(RouteFailCtor, nil), c)
	}, ho...)

	route := func(inner gin.HandlerFunc) gin.HandlerFunc {
		return func(c *gin.Context) {
			st := look(c)
			sc, err := godi.FromContext(c.Request.Context())
			st.onProbe(sc, err)
			if inner != nil {
				inner(c)
				return
			}
			act(st, st.plannedAction(), c)
		}
	}

	g := gin.New()
	if o.FwRecover {
		g.Use(gin.CustomRecoveryWithWriter(io.Discard, func(c *gin.Context, v any) {
			look(c).onFwRecover()
			c.AbortWithStatus(http.StatusInternalServerError)
		}))
	}
	g.Use(func(c *gin.Context) {
		st := look(c)
		st.onPre()
		c.Request = c.Request.WithContext(context.WithValue(c.Request.Context(), reqCtxKey{}, st))
		defer func() {
			v := recover()
			st.onUnwind(v)
			if v != nil {
				panic(v)
			}
		}()
		c.Next()
	})
	g.GET(routePath(RouteNoScope), route(hCtrl))
	s := g.Group("/s")
	s.Use(godigin.ScopeMiddleware(sp, so...))
	// a second, differently configured ScopeMiddleware and Handle in the same process (another
	// route group): configuration is per instance, so a request through /s never runs these
	var so2 []godigin.Option
	for i := 0; i <= o.NMW; i++ {
		pos := foreignMW + i
		so2 = append(so2, godigin.WithMiddleware(func(sc godi.Scope, c *gin.Context) error { return look(c).onMW(pos, sc) }))
	}
	d := g.Group("/d")
	d.Use(godigin.ScopeMiddleware(sp, so2...))
	d.GET("/"+RouteCtrl, godigin.Handle(func(k *Ctrl, c *gin.Context) { c.Status(http.StatusOK) }, godigin.WithPanicRecovery(!o.Recovery)))
	hT := func() gin.HandlerFunc {
		return godigin.Handle(func(k *TCtrl, c *gin.Context) { look(c).onChain(k) }, godigin.WithPanicRecovery(o.Recovery))
	}
	s.GET("/"+RouteCtrl, hT(), hT(), route(hCtrl))
	s.GET("/"+RoutePlain, route(nil))
	s.GET("/"+RouteUnreg, route(hUnreg))
	s.GET("/"+RouteFailCtor, route(hFail))
	return g
}
