// Package web is the runtime-monitoring check of C16 (see /verif/DESIGN.md §3 "C16 — web
// middleware"): the five web integrations of godi (net/http, chi, gin, echo, fiber) are driven
// through ScopeMiddleware + Handle with a spy provider; per request the monitors compare what
// CreateScope returned with what the configured middlewares, the route handler and the
// controller saw, and with what was closed after the request, on every exit path.
//
//	c16.go        registration, fixed case list per (tier, seed), case execution, counters
//	core.go       case/plan vocabulary and the framework-independent callback bodies
//	state.go      per-case / per-request observation state, instance registry, spy provider
//	services.go   the services registered with real godi (top-level constructors)
//	check.go      the monitors (one clause each) over the observations of one request
//	transport.go  httptest recorder / real httptest.Server / fiber app.Test drivers
//	fw_*.go       thin adapters: routes, option sets and handlers per framework
package web
