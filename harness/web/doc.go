// Package web — see /verif/DESIGN.md.
package web
