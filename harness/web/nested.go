package web

import (
	"context"
	"fmt"
	"net/http"
	"net/http/httptest"
	"sync"

	"github.com/gin-gonic/gin"
	"github.com/gofiber/fiber/v2"
	"github.com/junioryono/godi/v4"
	godichi "github.com/junioryono/godi/v4/chi"
	godiecho "github.com/junioryono/godi/v4/echo"
	godifiber "github.com/junioryono/godi/v4/fiber"
	godigin "github.com/junioryono/godi/v4/gin"
	godihttp "github.com/junioryono/godi/v4/http"
	"github.com/junioryono/godi/v4/verifh/eng"
	"github.com/labstack/echo/v4"
)

// The scope middleware installed on two levels of one route (host application + mounted module,
// app.Use + a group). Every level is "a request passing the scope middleware": each creates its
// own scope and closes THAT scope, exactly once, when the request leaves it; the handler sees
// the innermost one. Nothing of either scope survives the request.

type nsSvc struct {
	w  *nsWorld
	id int
}

func (s *nsSvc) Close() error { s.w.mu.Lock(); s.w.closes[s.id]++; s.w.mu.Unlock(); return nil }

type nsWorld struct {
	mu     sync.Mutex
	next   int
	closes map[int]int
	ctxs   []context.Context // contexts of every scope seen (outer via a hook, inner via the handler)
	seen   []godi.Scope
}

func (w *nsWorld) note(sc godi.Scope) {
	if sc == nil {
		return
	}
	_, _ = godi.Resolve[*nsSvc](sc)
	w.mu.Lock()
	w.ctxs = append(w.ctxs, sc.Context())
	w.seen = append(w.seen, sc)
	w.mu.Unlock()
}

// RunFallbackHandlers: the scope middleware installed engine-wide also runs in front of the
// framework's fallback handlers (gin NoRoute / NoMethod, echo RouteNotFound, fiber's catch-all at the
// end of the stack; go-chi itself is not in the module cache): a request that ends there "passes the scope
// middleware" like any other - it gets a scope, the handler sees it, and it is closed.
func RunFallbackHandlers(c *eng.Ctx, prop string, next func() (int, bool)) {
	for _, fw := range []string{"gin-noroute", "gin-nomethod", "echo-notfound", "fiber-catchall"} {
		idx, mine := next()
		if !mine {
			continue
		}
		c.R.Begin(idx)
		w := &nsWorld{closes: map[int]int{}}
		viol := func(clause, detail string) {
			c.R.Violation(eng.Violation{Prop: prop, Clause: clause, Sig: prop + "/" + clause + ":" + fw + ":fallback-handler-behind-the-scope-middleware", Case: idx, CaseID: "fallback-handler-" + fw,
				Detail: fw + ", a request that ends in the framework's fallback handler behind an engine-wide scope middleware: " + detail, Replay: map[string]any{"fixture": "fallback-handlers", "framework": fw}})
		}
		func() {
			defer func() {
				if p := recover(); p != nil {
					viol("panic", fmt.Sprintf("panic: %v", p))
				}
			}()
			coll := godi.NewCollection()
			if err := coll.AddScoped(func() *nsSvc {
				w.mu.Lock()
				defer w.mu.Unlock()
				w.next++
				return &nsSvc{w: w, id: w.next}
			}); err != nil {
				panic("fallback-handlers fixture: " + err.Error())
			}
			prov, err := coll.Build()
			if err != nil {
				panic("fallback-handlers fixture does not build: " + err.Error())
			}
			defer prov.Close()
			const requests = 5
			handled, noScope, mwRan := 0, 0, 0
			see := func(sc godi.Scope, err error) {
				w.mu.Lock()
				handled++
				if sc == nil || err != nil {
					noScope++
				}
				w.mu.Unlock()
				w.note(sc)
			}
			var do func()
			switch fw {
			case "gin-noroute", "gin-nomethod":
				e := gin.New()
				e.HandleMethodNotAllowed = true
				e.Use(godigin.ScopeMiddleware(prov, godigin.WithMiddleware(func(sc godi.Scope, gc *gin.Context) error { w.mu.Lock(); mwRan++; w.mu.Unlock(); return nil })))
				fallback := func(gc *gin.Context) {
					sc, err := godi.FromContext(gc.Request.Context())
					see(sc, err)
					gc.Status(404)
				}
				e.NoRoute(fallback)
				e.NoMethod(fallback)
				e.GET("/known", func(gc *gin.Context) { gc.Status(200) })
				if fw == "gin-noroute" {
					do = func() { e.ServeHTTP(httptest.NewRecorder(), httptest.NewRequest(http.MethodGet, "/nowhere", nil)) }
				} else {
					do = func() { e.ServeHTTP(httptest.NewRecorder(), httptest.NewRequest(http.MethodPost, "/known", nil)) }
				}
			case "echo-notfound":
				e := echo.New()
				e.Use(godiecho.ScopeMiddleware(prov, godiecho.WithMiddleware(func(sc godi.Scope, ec echo.Context) error { w.mu.Lock(); mwRan++; w.mu.Unlock(); return nil })))
				e.GET("/known", func(ec echo.Context) error { return ec.NoContent(200) })
				e.RouteNotFound("/*", func(ec echo.Context) error {
					sc, err := godi.FromContext(ec.Request().Context())
					see(sc, err)
					return ec.NoContent(404)
				})
				do = func() { e.ServeHTTP(httptest.NewRecorder(), httptest.NewRequest(http.MethodGet, "/nowhere", nil)) }
			default:
				app := fiber.New(fiber.Config{DisableStartupMessage: true})
				app.Use(godifiber.ScopeMiddleware(prov, godifiber.WithMiddleware(func(sc godi.Scope, fc *fiber.Ctx) error { w.mu.Lock(); mwRan++; w.mu.Unlock(); return nil })))
				app.Get("/known", func(fc *fiber.Ctx) error { return fc.SendStatus(200) })
				app.Use(func(fc *fiber.Ctx) error { // the usual 404 catch-all at the end of the stack
					see(godifiber.FromContext(fc), nil)
					return fc.SendStatus(404)
				})
				defer app.Shutdown()
				do = func() {
					if resp, err := app.Test(httptest.NewRequest(http.MethodGet, "/nowhere", nil), -1); err == nil {
						_ = resp.Body.Close()
					}
				}
			}
			for i := 0; i < requests; i++ {
				do()
			}
			c.R.Count("fallback_handler_requests", requests)
			pollUntil(func() bool {
				w.mu.Lock()
				defer w.mu.Unlock()
				for id := 1; id <= w.next; id++ {
					if w.closes[id] < 1 {
						return false
					}
				}
				return true
			})
			w.mu.Lock()
			defer w.mu.Unlock()
			if handled != requests {
				viol("fallback-handler-not-reached", fmt.Sprintf("%d of %d requests reached the fallback handler", handled, requests))
				return
			}
			if noScope > 0 {
				viol("handler-without-scope", fmt.Sprintf("%d of %d requests found no scope in the request context of the fallback handler", noScope, requests))
			}
			if mwRan != requests {
				viol("middleware-order", fmt.Sprintf("the configured middleware ran %d times for %d requests", mwRan, requests))
			}
			if w.next != requests && noScope == 0 {
				viol("scope-per-request", fmt.Sprintf("%d requests created %d scoped instances (one scope per request)", requests, w.next))
			}
			for id := 1; id <= w.next; id++ {
				switch n := w.closes[id]; {
				case n == 0:
					viol("scope-not-closed", fmt.Sprintf("the scoped instance %d of a finished request was never closed", id))
				case n > 1:
					viol("instance-close-count", fmt.Sprintf("the scoped instance %d of a finished request was closed %d times", id, n))
				}
			}
		}()
		c.R.End(idx, eng.Hash("fallback-handlers", prop, fw), true)
	}
}

// RunNestedInstall: prop C16 judges exactly-once closing per level, prop C14 that nothing is left.
func RunNestedInstall(c *eng.Ctx, prop string, next func() (int, bool)) {
	for _, fw := range []string{"nethttp", "chi", "gin", "echo", "fiber"} {
		idx, mine := next()
		if !mine {
			continue
		}
		c.R.Begin(idx)
		w := &nsWorld{closes: map[int]int{}}
		viol := func(clause, detail string) {
			c.R.Violation(eng.Violation{Prop: prop, Clause: clause, Sig: prop + "/" + clause + ":" + fw + ":scope-middleware-installed-on-two-levels", Case: idx, CaseID: "nested-install-" + fw,
				Detail: fw + ", scope middleware installed on two levels of one route: " + detail, Replay: map[string]any{"fixture": "nested-install", "framework": fw}})
		}
		func() {
			defer func() {
				if p := recover(); p != nil {
					viol("panic", fmt.Sprintf("panic: %v", p))
				}
			}()
			coll := godi.NewCollection()
			if err := coll.AddScoped(func() *nsSvc {
				w.mu.Lock()
				defer w.mu.Unlock()
				w.next++
				return &nsSvc{w: w, id: w.next}
			}); err != nil {
				panic("nested-install fixture: " + err.Error())
			}
			prov, err := coll.Build()
			if err != nil {
				panic("nested-install fixture does not build: " + err.Error())
			}
			defer prov.Close()
			const requests = 6
			var do func()
			switch fw {
			case "nethttp", "chi":
				mw := godihttp.ScopeMiddleware
				hook := func(sc godi.Scope, r *http.Request) error { w.note(sc); return nil }
				var outer, inner func(http.Handler) http.Handler
				if fw == "chi" {
					outer, inner = godichi.ScopeMiddleware(prov, godichi.WithMiddleware(hook)), godichi.ScopeMiddleware(prov)
				} else {
					outer, inner = mw(prov, godihttp.WithMiddleware(hook)), mw(prov)
				}
				h := outer(inner(http.HandlerFunc(func(rw http.ResponseWriter, r *http.Request) {
					sc, _ := godi.FromContext(r.Context())
					w.note(sc)
					rw.WriteHeader(200)
				})))
				do = func() { h.ServeHTTP(httptest.NewRecorder(), httptest.NewRequest(http.MethodGet, "/x", nil)) }
			case "gin":
				e := gin.New()
				e.Use(godigin.ScopeMiddleware(prov, godigin.WithMiddleware(func(sc godi.Scope, gc *gin.Context) error { w.note(sc); return nil })))
				g := e.Group("/api", godigin.ScopeMiddleware(prov))
				g.GET("/x", func(gc *gin.Context) {
					sc, _ := godi.FromContext(gc.Request.Context())
					w.note(sc)
					gc.Status(200)
				})
				do = func() { e.ServeHTTP(httptest.NewRecorder(), httptest.NewRequest(http.MethodGet, "/api/x", nil)) }
			case "echo":
				e := echo.New()
				e.Use(godiecho.ScopeMiddleware(prov, godiecho.WithMiddleware(func(sc godi.Scope, ec echo.Context) error { w.note(sc); return nil })))
				g := e.Group("/api", godiecho.ScopeMiddleware(prov))
				g.GET("/x", func(ec echo.Context) error {
					sc, _ := godi.FromContext(ec.Request().Context())
					w.note(sc)
					return ec.NoContent(200)
				})
				do = func() { e.ServeHTTP(httptest.NewRecorder(), httptest.NewRequest(http.MethodGet, "/api/x", nil)) }
			default:
				app := fiber.New(fiber.Config{DisableStartupMessage: true})
				app.Use(godifiber.ScopeMiddleware(prov, godifiber.WithMiddleware(func(sc godi.Scope, fc *fiber.Ctx) error { w.note(sc); return nil })))
				g := app.Group("/api", godifiber.ScopeMiddleware(prov))
				g.Get("/x", func(fc *fiber.Ctx) error {
					w.note(godifiber.FromContext(fc))
					return fc.SendStatus(200)
				})
				defer app.Shutdown()
				do = func() {
					if resp, err := app.Test(httptest.NewRequest(http.MethodGet, "/api/x", nil), -1); err == nil {
						_ = resp.Body.Close()
					}
				}
			}
			for i := 0; i < requests; i++ {
				do()
			}
			c.R.Count("nested_install_requests", requests)
			// fiber closes scopes through fasthttp's release of the request context too: bounded wait
			pollUntil(func() bool {
				w.mu.Lock()
				defer w.mu.Unlock()
				for id := 1; id <= w.next; id++ {
					if w.closes[id] < 1 {
						return false
					}
				}
				return true
			})
			w.mu.Lock()
			defer w.mu.Unlock()
			if w.next != 2*requests {
				viol("scope-count", fmt.Sprintf("%d requests through two levels created %d scoped instances (want one per level and request: %d)", requests, w.next, 2*requests))
			}
			for id := 1; id <= w.next; id++ {
				switch n := w.closes[id]; {
				case n == 0:
					viol("scope-not-closed", fmt.Sprintf("the scoped instance %d of a finished request was never closed: one level's scope stayed open", id))
				case n > 1:
					viol("instance-close-count", fmt.Sprintf("the scoped instance %d of a finished request was closed %d times", id, n))
				}
			}
			live := 0
			for _, ctx := range w.ctxs {
				if ctx.Err() == nil {
					live++
				}
			}
			if live > 0 {
				viol("ctx-not-cancelled", fmt.Sprintf("%d of %d scope contexts of finished requests are still live", live, len(w.ctxs)))
			}
		}()
		c.R.End(idx, eng.Hash("nested-install", prop, fw), true)
	}
}
