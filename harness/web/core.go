package web

import (
	"context"
	"errors"
	"fmt"
	"runtime"
	"time"

	"github.com/junioryono/godi/v4"
)

// Framework names.
const (
	FWHTTP  = "http"
	FWChi   = "chi"
	FWGin   = "gin"
	FWEcho  = "echo"
	FWFiber = "fiber"
)

// Routes.
const (
	RouteCtrl     = "ctrl"     // Handle[*Ctrl] behind the scope middleware
	RoutePlain    = "plain"    // plain handler using FromContext behind the scope middleware
	RouteUnreg    = "unreg"    // Handle[*UnregCtrl] (type not registered) behind the scope middleware
	RouteFailCtor = "failctor" // Handle[*FailCtrl] (constructor fails) behind the scope middleware
	RouteNoScope  = "noscope"  // Handle[*Ctrl] on a route that does NOT pass the scope middleware
)

// Exit paths.
const (
	ExitOK         = "ok"
	ExitMWErr      = "mwerr"      // configured middleware MWPos returns an error
	ExitHErr       = "herr"       // handler / controller method reports an error
	ExitHPanic     = "hpanic"     // handler / controller method panics
	ExitCreateFail = "createfail" // spy provider fails CreateScope
	ExitInitFail   = "initfail"   // the real CreateScope fails: a scope initializer of the provider fails for this request
	ExitClosed     = "closed"     // the real provider was closed before the request
	ExitAbort      = "abort"      // real server: the client goes away while the handler runs
)

// Error-handler kinds of the scope middleware.
const (
	ErrHDefault     = "default"
	ErrHCustom      = "custom"             // writes a status (gin: AbortWithStatus, gin's idiom)
	ErrHNonAborting = "custom-nonaborting" // gin only: writes a status without aborting the chain
	// WithErrorHandler(nil): the Config documentation of all five integrations says "If nil, a
	// default handler ... is used" - the default behaviour is what is expected
	ErrHNil = "nil-option"
)

// Opts is one option set of ScopeMiddleware + Handle.
type Opts struct {
	ErrH      string `json:"errh"`
	NMW       int    `json:"nmw"`
	Recovery  bool   `json:"recovery"`  // Handle: WithPanicRecovery(true)
	HandleH   string `json:"handleh"`   // default | custom (panic / scope-error / resolution-error handlers) | nil-option (gin only: documented as "the default is used")
	CloseH    string `json:"closeh"`    // default | custom CloseErrorHandler | nil-option (WithCloseErrorHandler(nil): "If nil, errors are logged")
	FwRecover bool   `json:"fwrecover"` // framework-level recover middleware outermost (else the driver / http.Server recovers)
}

// Plan is the planned course of one request.
type Plan struct {
	Route    string `json:"route"`
	Exit     string `json:"exit"`
	MWPos    int    `json:"mwpos,omitempty"`
	CloseErr bool   `json:"closeerr,omitempty"` // the request's scoped instances return an error from Close
}

// CaseSpec is one case: framework, option set, transport and the request sequence / batch.
type CaseSpec struct {
	FW        string `json:"fw"`
	Opts      Opts   `json:"opts"`
	Transport string `json:"transport"` // recorder | server | apptest
	Conc      bool   `json:"conc"`      // requests of Seq are sent in parallel
	// AppCtx: every incoming request context derives from the Context() of a long-lived
	// application scope of the same provider (http.Server.BaseContext / an outer middleware).
	AppCtx bool `json:"appctx,omitempty"`
	// Direct: ScopeMiddleware is handed the real provider, not the spy (so that
	// scope.Provider() == provider holds); CreateScope cannot be counted, the request's scope is
	// taken from what the middlewares / handler saw.
	Direct bool   `json:"direct,omitempty"`
	Seq    []Plan `json:"seq"`
	Label  string `json:"label,omitempty"`
}

type action int

const (
	actOK action = iota
	actErr
	actPanic
	actAbortWait
)

// panicVal is the value the harness handlers panic with.
const panicVal = "verif: injected handler panic"

func (st *reqState) plannedAction() action {
	switch st.plan.Exit {
	case ExitHErr:
		return actErr
	case ExitHPanic:
		return actPanic
	case ExitAbort:
		return actAbortWait
	}
	return actOK
}

// onPre is called by the harness pre-middleware (outside the scope middleware).
func (st *reqState) onPre() {
	st.mu.Lock()
	st.preEntered++
	st.mu.Unlock()
}

// onUnwind is deferred by the harness pre-middleware: v is recover()'s value.
func (st *reqState) onUnwind(v any) {
	if v != nil {
		st.mu.Lock()
		st.propagated = true
		st.propVal = v
		st.mu.Unlock()
	}
	// "closed when the request ends": the scope middleware has returned (normally or by
	// panicking) by the time this deferred function of the outer pre-middleware runs
	st.mu.Lock()
	scopes := append([]godi.Scope(nil), st.scopes...)
	st.mu.Unlock()
	for _, sc := range scopes {
		if sc == nil {
			continue
		}
		var open []string
		if _, err := sc.Get(sharedType); err == nil || !errors.Is(err, godi.ErrScopeDisposed) {
			open = append(open, fmt.Sprintf("Get on the request's scope returned err=%v", err))
		}
		for _, i := range st.cs.instancesOf(sc) {
			if i.closes.Load() == 0 {
				open = append(open, fmt.Sprintf("scoped instance %d of the request has no Close event yet", i.id))
			}
		}
		st.mu.Lock()
		st.unwindChecked++
		st.unwindOpen = append(st.unwindOpen, open...)
		st.mu.Unlock()
	}
	st.signalDone()
}

// resolveSvc resolves *ReqSvc from sc on behalf of the request and applies the CloseErr plan.
func (st *reqState) resolveSvc(sc godi.Scope) (*ReqSvc, error) {
	svc, err := godi.Resolve[*ReqSvc](sc)
	if err != nil || svc == nil || svc.inst == nil {
		return nil, err
	}
	if st.plan.CloseErr {
		svc.failClose.Store(true)
	}
	st.cs.sawInst(st.id, svc.inst)
	return svc, nil
}

// mingle is exploration steering for concurrent batches: yield until another request of the
// batch has arrived too (bounded), so that the batch's scopes are alive at the same time.
func (cs *caseState) mingle() {
	if !cs.spec.Conc {
		return
	}
	me := cs.arrivals.Add(1)
	for i := 0; i < 200 && cs.arrivals.Load() == me; i++ {
		runtime.Gosched()
	}
}

// foreignMW is the position base of the middlewares configured on the OTHER ScopeMiddleware
// instance of the case (they must never run for a request through the instance under test).
const foreignMW = 100

// onMW is the body of configured middleware number pos.
func (st *reqState) onMW(pos int, sc godi.Scope) error {
	st.cs.mingle()
	o := mwObs{pos: pos, scope: sc}
	if sc != nil {
		if svc, err := st.resolveSvc(sc); err == nil && svc != nil {
			o.svc = svc.id
			o.early = svc.closes.Load() != 0
		}
	}
	st.mu.Lock()
	st.mws = append(st.mws, o)
	st.mu.Unlock()
	if st.plan.Exit == ExitMWErr && st.plan.MWPos == pos {
		return errMW
	}
	return nil
}

// onErrH is called by the custom scope-middleware error handler.
func (st *reqState) onErrH(err error) {
	st.mu.Lock()
	st.errHCalls++
	st.errHGotErr = err
	st.mu.Unlock()
}

// onProbe is the first thing every route handler does: sc/err is what FromContext gave it.
func (st *reqState) onProbe(sc godi.Scope, err error) {
	st.cs.mingle()
	var id int64
	var rerr error
	early := false
	if sc != nil && err == nil {
		svc, e := st.resolveSvc(sc)
		rerr = e
		if svc != nil {
			id = svc.id
			early = svc.closes.Load() != 0
		}
	}
	st.mu.Lock()
	st.handlerRuns++
	st.hScope, st.hScopeErr, st.hScopeNil = sc, err, sc == nil
	st.hSvc, st.hSvcErr, st.hEarly = id, rerr, early
	st.mu.Unlock()
}

// onMethod is called by the controller method Handle invoked.
func (st *reqState) onMethod(kind string, c *Ctrl) action {
	st.mu.Lock()
	st.methodCalls++
	st.methodKind = kind
	if c != nil && c.inst != nil {
		st.ctrlID = c.id
		st.ctrlScope = c.scope
		st.ctrlEarly = c.closes.Load() != 0
		if c.svc != nil && c.svc.inst != nil {
			st.ctrlSvc = c.svc.id
		}
	}
	st.mu.Unlock()
	if c != nil && c.inst != nil {
		if st.plan.CloseErr {
			c.failClose.Store(true)
		}
		st.cs.sawInst(st.id, c.inst)
		if c.svc != nil {
			st.cs.sawInst(st.id, c.svc.inst)
		}
	}
	return st.plannedAction()
}

// onChain is the method body of the chained Handle[*TCtrl] wrappers.
func (st *reqState) onChain(k *TCtrl) {
	if k == nil || k.inst == nil {
		return
	}
	o := chainObs{id: k.id, scope: k.scope}
	st.mu.Lock()
	st.chain = append(st.chain, o)
	st.mu.Unlock()
	st.cs.sawInst(st.id, k.inst)
}

func (st *reqState) onScopeErrH() { st.mu.Lock(); st.scopeErrH++; st.mu.Unlock() }
func (st *reqState) onResErrH()   { st.mu.Lock(); st.resErrH++; st.mu.Unlock() }
func (st *reqState) onPanicH()    { st.mu.Lock(); st.panicH++; st.mu.Unlock() }
func (st *reqState) onFwRecover() { st.mu.Lock(); st.fwRecovered = true; st.mu.Unlock() }

// abortWaitBound bounds the handler's wait for the server to cancel the request context.
const abortWaitBound = 20 * time.Second

// waitAbort parks the handler until the request context is cancelled (the client went away).
func (st *reqState) waitAbort(ctx context.Context) {
	st.signalEntered()
	t := time.NewTimer(abortWaitBound)
	defer t.Stop()
	select {
	case <-ctx.Done():
		st.mu.Lock()
		st.ctxCancelled = true
		st.mu.Unlock()
	case <-t.C:
		st.mu.Lock()
		st.ctxTimeout = true
		st.mu.Unlock()
	}
}

func routePath(route string) string {
	if route == RouteNoScope {
		return "/n/ctrl"
	}
	return "/s/" + route
}
