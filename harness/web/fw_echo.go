package web

import (
	"context"
	"io"
	"net/http"

	"github.com/junioryono/godi/v4"
	godiecho "github.com/junioryono/godi/v4/echo"
	"github.com/labstack/echo/v4"
)

// buildEcho builds an echo instance: [recover] -> pre -> { /n/ctrl ; group /s with ScopeMiddleware }.
func buildEcho(cs *caseState, sp godi.Provider) http.Handler {
	o := cs.spec.Opts
	look := func(c echo.Context) *reqState { return cs.lookup(c.Request().Header.Get(hdrReq)) }

	var so []godiecho.Option
	if o.ErrH == ErrHNil {
		so = append(so, godiecho.WithErrorHandler(nil))
	} else if o.ErrH != ErrHDefault {
		so = append(so, godiecho.WithErrorHandler(func(c echo.Context, err error) error {
			look(c).onErrH(err)
			return c.NoContent(stErrH)
		}))
	}
	if o.CloseH == "nil-option" {
		so = append(so, godiecho.WithCloseErrorHandler(nil))
	}
	if o.CloseH == "custom" {
		so = append(so, godiecho.WithCloseErrorHandler(func(error) { cs.closeErrH.Add(1) }))
	}
	for i := 0; i < o.NMW; i++ {
		pos := i
		so = append(so, godiecho.WithMiddleware(func(sc godi.Scope, c echo.Context) error { return look(c).onMW(pos, sc) }))
	}
	var ho []godiecho.HandlerOption
	if o.Recovery {
		ho = append(ho, godiecho.WithPanicRecovery(true))
	}
	if o.HandleH == "custom" {
		ho = append(ho,
			godiecho.WithPanicHandler(func(c echo.Context, v any) error { look(c).onPanicH(); return c.NoContent(stPanicH) }),
			godiecho.WithScopeErrorHandler(func(c echo.Context, err error) error { look(c).onScopeErrH(); return c.NoContent(stScopeErr) }),
			godiecho.WithResolutionErrorHandler(func(c echo.Context, err error) error { look(c).onResErrH(); return c.NoContent(stResErr) }),
		)
	}

	act := func(st *reqState, a action, c echo.Context) error {
		switch a {
		case actErr:
			return echo.NewHTTPError(stHErr, "teapot")
		case actPanic:
			panic(panicVal)
		case actAbortWait:
			st.waitAbort(c.Request().Context())
			return nil
		}
		return c.NoContent(http.StatusOK)
	}
	hCtrl := godiecho.Handle(func(k *Ctrl, c echo.Context) error {
		st := look(c)
		return act(st, st.onMethod(RouteCtrl, k), c)
	}, ho...)
	hUnreg := godiecho.Handle(func(k *UnregCtrl, c echo.Context) error {
		st := look(c)
		return act(st, st.onMethod(RouteUnreg, nil), c)
	}, ho...)
	hFail := godiecho.Handle(func(k *FailCtrl, c echo.Context) error {
		st := look(c)
		return act(st, st.onMethod(RouteFailCtor, nil), c)
	}, ho...)

	route := func(inner echo.HandlerFunc) echo.HandlerFunc {
		return func(c echo.Context) error {
			st := look(c)
			sc, err := godi.FromContext(c.Request().Context())
			st.onProbe(sc, err)
			if inner != nil {
				return inner(c)
			}
			return act(st, st.plannedAction(), c)
		}
	}

	e := echo.New()
	e.HideBanner, e.HidePort = true, true
	e.Logger.SetOutput(io.Discard)
	if o.FwRecover {
		// echo/v4/middleware is not available offline: the usual recover middleware, in short
		e.Use(func(next echo.HandlerFunc) echo.HandlerFunc {
			return func(c echo.Context) (err error) {
				defer func() {
					if v := recover(); v != nil {
						look(c).onFwRecover()
						err = echo.NewHTTPError(http.StatusInternalServerError)
					}
				}()
				return next(c)
			}
		})
	}
	e.Use(func(next echo.HandlerFunc) echo.HandlerFunc {
		return func(c echo.Context) error {
			st := look(c)
			st.onPre()
			c.SetRequest(c.Request().WithContext(context.WithValue(c.Request().Context(), reqCtxKey{}, st)))
			defer func() {
				v := recover()
				st.onUnwind(v)
				if v != nil {
					panic(v)
				}
			}()
			return next(c)
		}
	})
	e.GET(routePath(RouteNoScope), route(hCtrl))
	s := e.Group("/s", godiecho.ScopeMiddleware(sp, so...))
	// a second, differently configured ScopeMiddleware and Handle in the same process
	var so2 []godiecho.Option
	for i := 0; i <= o.NMW; i++ {
		pos := foreignMW + i
		so2 = append(so2, godiecho.WithMiddleware(func(sc godi.Scope, c echo.Context) error { return look(c).onMW(pos, sc) }))
	}
	d := e.Group("/d", godiecho.ScopeMiddleware(sp, so2...))
	d.GET("/"+RouteCtrl, godiecho.Handle(func(k *Ctrl, c echo.Context) error { return c.NoContent(http.StatusOK) }, godiecho.WithPanicRecovery(!o.Recovery)))
	hT := func() echo.HandlerFunc {
		return godiecho.Handle(func(k *TCtrl, c echo.Context) error { look(c).onChain(k); return nil }, godiecho.WithPanicRecovery(o.Recovery))
	}
	hT1, hT2, hMain := hT(), hT(), route(hCtrl)
	s.GET("/"+RouteCtrl, func(c echo.Context) error {
		if err := hT1(c); err != nil {
			return err
		}
		if err := hT2(c); err != nil {
			return err
		}
		return hMain(c)
	})
	s.GET("/"+RoutePlain, route(nil))
	s.GET("/"+RouteUnreg, route(hUnreg))
	s.GET("/"+RouteFailCtor, route(hFail))
	return e
}
