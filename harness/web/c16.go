package web

import (
	"context"
	"fmt"
	"io"
	"log/slog"
	"math/rand"
	"strings"
	"sync"

	"github.com/junioryono/godi/v4"
	"github.com/junioryono/godi/v4/verifh/eng"
)

func init() {
	eng.Register(&eng.Property{
		ID: "C16", Level: "exploration", Race: true,
		Rule: "case = (framework, option set {error handler default/custom[/gin non-aborting], 0-3 middlewares, Handle recovery on/off, Handle handlers default/custom, close-error handler, framework recover on/off}, transport {recorder, real httptest.Server, fiber app.Test}, sequential request sequence or concurrent batch of (route, exit path) plans); " +
			"fixed list per (tier, seed): every framework x 32 option sets x 11 focus exit paths x k seeded sequences + gin non-aborting scenarios + real-server sequences (incl. client abort) + concurrent batches of 16-64 + application-scope workload (incoming request contexts derive from a long-lived scope of the same provider; spy or real provider handed to the middleware) over all frameworks x focus exit paths x transports; " +
			"non-trivial = at least one request reached the scope middleware (CreateScope observed by the spy); distinct = canonical description of the case",
		Shards: func(tier string) int {
			if tier == "thorough" {
				return 16
			}
			return 8
		},
		Run: run,
		Assumptions: []string{
			"'when the request ends' is also checked at the moment the request leaves the middleware chain (deferred function of the harness middleware that sits outside the scope middleware): the scope must already refuse Get and every scoped instance must have a Close event, on every exit path including client aborts (godi's Close waits for a Close in flight, so the watcher winning the race is no excuse); exception: fiber with a panic propagating through the scope middleware, where fasthttp's release of the request context closes the scope",
			"every case also constructs a second ScopeMiddleware (with its own, differently numbered configured middlewares) and a second Handle with opposite options on another route group of the same engine, after the instance under test: configuration is per instance, so their middlewares must never run for requests through the instance under test",
			"go-chi is not in the module cache: godi's chi middleware is driven as plain func(http.Handler) http.Handler over net/http's ServeMux",
			"echo/v4/middleware is not in the module cache: a 6-line recover middleware of the harness plays its role",
			"'closed exactly once' is read as disposed exactly once: every scoped disposable gets exactly one Close event and Get on the scope Is ErrScopeDisposed; Close() being invoked twice (fiber + fasthttp closing io.Closer locals, context watcher) is not a violation",
			"'the error handler ran' is counted for custom handlers and inferred from the documented status 500 for default handlers",
			"the provider is never closed concurrently with requests (that window belongs to C09/C13); 'provider already closed' requests are sent after Close returned",
			"client-abort path (real server only): bounded waits; their expiry is inconclusive",
			"application-scope workload: the app scope is created from the real provider outside the spy's accounting; half of these cases hand the real provider to ScopeMiddleware (so scope.Provider()==provider holds) and take the request's scope from what the middlewares/handler saw instead of counting CreateScope; no 'no-scope' Handle route there for the context-based integrations (every incoming context carries a scope); fiber is seeded through UserContext only (a scope put in Locals would be closed by fasthttp itself)",
		},
		NeedEvents:    []string{"requests", "scopes_created", "close_events", "handler_invocations", "method_invocations", "concurrent_batches"},
		ShardTimeoutS: func(tier string) int { return 900 },
	})
}

var allFW = []string{FWHTTP, FWChi, FWGin, FWEcho, FWFiber}

// focus kinds: the exit path a systematic case is built around.
type focus struct{ route, exit string }

var focuses = []focus{
	{RouteCtrl, ExitOK}, {RoutePlain, ExitOK},
	{"", ExitMWErr},
	{"", ExitHErr},
	{RouteCtrl, ExitHPanic}, {RoutePlain, ExitHPanic},
	{"", ExitCreateFail}, {"", ExitInitFail}, {"", ExitClosed},
	{RouteNoScope, ExitOK}, {RouteUnreg, ExitOK}, {RouteFailCtor, ExitOK},
}

var scopedRoutes = []string{RouteCtrl, RoutePlain, RouteUnreg, RouteFailCtor}

func hasHErr(fw string) bool { return fw == FWGin || fw == FWEcho || fw == FWFiber }

// optSet returns the i-th of the 32 enumerated option sets.
func optSet(i int) Opts {
	o := Opts{ErrH: ErrHDefault, HandleH: "default", CloseH: "default"}
	if i&1 != 0 {
		o.ErrH = ErrHCustom
	}
	o.NMW = (i >> 1) & 3
	o.Recovery = i&8 != 0
	if i&16 != 0 {
		o.HandleH = "custom"
	}
	return o
}

func randRoute(r *rand.Rand) string {
	// ctrl and plain more often than the resolution-error routes
	switch n := r.Intn(10); {
	case n < 4:
		return RouteCtrl
	case n < 7:
		return RoutePlain
	case n < 8:
		return RouteUnreg
	case n < 9:
		return RouteFailCtor
	}
	return RouteNoScope
}

// randPlan draws one request plan that is meaningful for (fw, opts, transport).
func randPlan(r *rand.Rand, fw string, o Opts, transport string) Plan {
	p := Plan{Route: randRoute(r), Exit: ExitOK, CloseErr: r.Intn(5) == 0}
	if p.Route == RouteNoScope {
		return p
	}
	switch n := r.Intn(12); {
	case n < 4:
	case n < 6:
		if o.NMW > 0 {
			p.Exit, p.MWPos = ExitMWErr, r.Intn(o.NMW)
		}
	case n < 7:
		if hasHErr(fw) {
			p.Exit = ExitHErr
		}
	case n < 9:
		p.Exit = ExitHPanic
	case n < 10:
		p.Exit = ExitCreateFail
		if r.Intn(2) == 0 {
			p.Exit = ExitInitFail
		}
	default:
		if transport == TrServer && (p.Route == RouteCtrl || p.Route == RoutePlain) {
			p.Exit = ExitAbort
		}
	}
	return p
}

func focusPlan(r *rand.Rand, f focus, fw string, o Opts) Plan {
	p := Plan{Route: f.route, Exit: f.exit, CloseErr: r.Intn(4) == 0}
	if p.Route == "" {
		p.Route = scopedRoutes[r.Intn(len(scopedRoutes))]
		if f.exit == ExitHErr {
			p.Route = scopedRoutes[r.Intn(2)]
		}
	}
	switch f.exit {
	case ExitMWErr:
		if o.NMW == 0 {
			p.Exit = ExitOK
		} else {
			p.MWPos = r.Intn(o.NMW)
		}
	case ExitHErr:
		if !hasHErr(fw) {
			p.Exit = ExitOK
		}
	}
	return p
}

// normalise makes a sequence consistent: once the provider is closed every later request that
// passes the middleware is a "closed" request.
func normalise(seq []Plan) []Plan {
	closed := false
	for i := range seq {
		if seq[i].Route == RouteNoScope {
			seq[i].Exit, seq[i].MWPos = ExitOK, 0
			continue
		}
		if seq[i].Exit == ExitClosed {
			closed = true
		} else if closed {
			seq[i].Exit, seq[i].MWPos = ExitClosed, 0
		}
		if seq[i].Exit != ExitMWErr {
			seq[i].MWPos = 0
		}
	}
	return seq
}

func defaultTransport(fw string) string {
	if fw == FWFiber {
		return TrAppTest
	}
	return TrRecorder
}

// layout of the fixed case list
type layout struct {
	perSys   int // sequences per (fw, option set, focus)
	nSys     int
	nNonAb   int // gin non-aborting scenarios
	nServer  int
	nConc    int
	nApp     int // application-scope workload (incoming contexts already carry a scope)
	total    int
	maxLen   int
	concReqs [2]int
}

func mkLayout(c *eng.Ctx) layout {
	l := layout{perSys: c.Pick(6, 40), maxLen: c.Pick(5, 8)}
	l.nSys = len(allFW) * 32 * len(focuses) * l.perSys
	l.nNonAb = c.Pick(72, 720)
	l.nServer = c.Pick(240, 3000)
	l.nConc = c.Pick(40, 200)
	l.nApp = c.Pick(440, 4400)
	l.total = l.nSys + l.nNonAb + l.nServer + l.nConc + l.nApp
	l.concReqs = [2]int{16, 64}
	return l
}

// specFor builds case idx deterministically from (tier, seed, idx).
func specFor(c *eng.Ctx, l layout, idx int) *CaseSpec {
	r := rand.New(rand.NewSource(c.Seed*1_000_003 + int64(idx)*7919 + 17))
	switch {
	case idx < l.nSys:
		k := idx
		k /= l.perSys
		f := focuses[k%len(focuses)]
		k /= len(focuses)
		o := optSet(k % 32)
		k /= 32
		fw := allFW[k%len(allFW)]
		o.FwRecover = fw == FWFiber || r.Intn(3) != 0
		if r.Intn(2) == 0 {
			o.CloseH = "custom"
		}
		if idx%5 == 0 {
			// the documented "nil means default" values of the two handler options
			if o.ErrH == ErrHDefault {
				o.ErrH = ErrHNil
			}
			if o.CloseH == "default" {
				o.CloseH = "nil-option"
			}
			if fw == FWGin && o.HandleH == "default" {
				o.HandleH = "nil-option"
			}
		}
		tr := defaultTransport(fw)
		n := 3 + r.Intn(l.maxLen-2)
		seq := make([]Plan, n)
		fpos := r.Intn(n)
		if f.exit == ExitClosed && fpos == 0 && n > 1 {
			fpos = 1 + r.Intn(n-1)
		}
		for i := range seq {
			if i == fpos || (i > fpos && r.Intn(4) == 0) {
				seq[i] = focusPlan(r, f, fw, o)
			} else {
				seq[i] = randPlan(r, fw, o, tr)
			}
		}
		return &CaseSpec{FW: fw, Opts: o, Transport: tr, Seq: normalise(seq), Label: "systematic"}

	case idx < l.nSys+l.nNonAb:
		// gin with a custom error handler that writes a status but does not abort the chain —
		// the same thing the custom handlers of the other four integrations do
		k := idx - l.nSys
		o := Opts{ErrH: ErrHNonAborting, NMW: 1 + k%3, Recovery: (k/3)%2 == 1, HandleH: []string{"default", "custom"}[(k/6)%2], CloseH: "default", FwRecover: true}
		fs := []focus{{"", ExitMWErr}, {"", ExitCreateFail}, {"", ExitClosed}}
		f := fs[(k/12)%3]
		n := 2 + r.Intn(3)
		seq := make([]Plan, n)
		fpos := r.Intn(n)
		for i := range seq {
			if i == fpos {
				seq[i] = focusPlan(r, f, FWGin, o)
				// the equivalent scenario uses a real route handler
				if k%2 == 0 {
					seq[i].Route = RouteCtrl
				} else {
					seq[i].Route = RoutePlain
				}
			} else {
				seq[i] = Plan{Route: scopedRoutes[r.Intn(2)], Exit: ExitOK}
			}
		}
		return &CaseSpec{FW: FWGin, Opts: o, Transport: TrRecorder, Seq: normalise(seq), Label: "gin-nonaborting-error-handler"}

	case idx < l.nSys+l.nNonAb+l.nServer:
		k := idx - l.nSys - l.nNonAb
		fw := allFW[k%4] // the four http.Handler based integrations
		o := optSet(r.Intn(32))
		o.FwRecover = r.Intn(2) == 0 // false: net/http's own per-connection recover handles the panic
		if r.Intn(2) == 0 {
			o.CloseH = "custom"
		}
		n := 3 + r.Intn(l.maxLen-2)
		seq := make([]Plan, n)
		for i := range seq {
			seq[i] = randPlan(r, fw, o, TrServer)
		}
		// every real-server case has a client abort, most have a panic
		seq[r.Intn(n)] = Plan{Route: scopedRoutes[r.Intn(2)], Exit: ExitAbort, CloseErr: r.Intn(4) == 0}
		if k%8 == 7 {
			seq[n-1] = Plan{Route: RouteCtrl, Exit: ExitClosed}
		}
		return &CaseSpec{FW: fw, Opts: o, Transport: TrServer, Seq: normalise(seq), Label: "real-server"}

	case idx >= l.nSys+l.nNonAb+l.nServer+l.nConc:
		// application-scope workload: every incoming request context derives from the context of
		// a long-lived scope of the same provider (BaseContext / outer middleware / UserContext)
		k := idx - l.nSys - l.nNonAb - l.nServer - l.nConc
		fw := allFW[k%len(allFW)]
		k /= len(allFW)
		f := focuses[k%len(focuses)]
		k /= len(focuses)
		tr := defaultTransport(fw)
		if fw != FWFiber && k%2 == 1 {
			tr = TrServer
		}
		direct := (k/2)%2 == 1
		conc := r.Intn(6) == 0
		o := optSet(r.Intn(32))
		o.FwRecover = fw == FWFiber || conc || r.Intn(3) != 0
		if r.Intn(2) == 0 {
			o.CloseH = "custom"
		}
		n := 3 + r.Intn(l.maxLen-2)
		if conc {
			n = 16 + r.Intn(17)
		}
		seq := make([]Plan, n)
		fpos := r.Intn(n)
		if f.exit == ExitClosed && fpos == 0 {
			fpos = 1 + r.Intn(n-1)
		}
		for i := range seq {
			if i == fpos || (!conc && i > fpos && r.Intn(4) == 0) {
				seq[i] = focusPlan(r, f, fw, o)
			} else {
				seq[i] = randPlan(r, fw, o, tr)
			}
			if fw != FWFiber && seq[i].Route == RouteNoScope {
				// with a scope in every incoming context there is no "no scope" request for the
				// context-based Handle wrappers (fiber's looks in Locals, which stay unseeded)
				seq[i].Route = RouteCtrl
			}
			if direct && seq[i].Exit == ExitCreateFail {
				seq[i].Exit = ExitOK // no spy to fail CreateScope
			}
		}
		if conc {
			// "closed" requests of a batch are sent after the batch
			for i := range seq {
				if seq[i].Exit == ExitClosed {
					seq[i], seq[n-1] = seq[n-1], seq[i]
					break
				}
			}
		}
		return &CaseSpec{FW: fw, Opts: o, Transport: tr, Conc: conc, AppCtx: true, Direct: direct, Seq: normalise(seq), Label: "app-scope-context"}

	default:
		k := idx - l.nSys - l.nNonAb - l.nServer
		fw := allFW[k%len(allFW)]
		o := optSet(r.Intn(32))
		o.FwRecover = true
		if r.Intn(2) == 0 {
			o.CloseH = "custom"
		}
		tr := defaultTransport(fw)
		if fw != FWFiber && (k/len(allFW))%3 == 2 {
			tr = TrServer
		}
		n := l.concReqs[0] + r.Intn(l.concReqs[1]-l.concReqs[0]+1)
		seq := make([]Plan, n, n+2)
		for i := range seq {
			seq[i] = randPlan(r, fw, o, tr)
		}
		// after the batch: two requests on the closed provider
		seq = append(seq, Plan{Route: RouteCtrl, Exit: ExitClosed}, Plan{Route: RoutePlain, Exit: ExitClosed})
		return &CaseSpec{FW: fw, Opts: o, Transport: tr, Conc: true, Seq: normalise(seq), Label: "concurrent-batch"}
	}
}

// canonical renders the case description used for distinctness.
func (s *CaseSpec) canonical() string {
	var b strings.Builder
	fmt.Fprintf(&b, "%s|%s|%v|app=%v|direct=%v|%+v|", s.FW, s.Transport, s.Conc, s.AppCtx, s.Direct, s.Opts)
	for _, p := range s.Seq {
		fmt.Fprintf(&b, "%s/%s/%d/%v;", p.Route, p.Exit, p.MWPos, p.CloseErr)
	}
	return b.String()
}

func run(c *eng.Ctx) {
	slog.SetDefault(slog.New(slog.NewTextHandler(io.Discard, nil))) // godi's default handlers log every error
	l := mkLayout(c)
	defer func() {
		n := l.total
		alloc := func() (int, bool) { i := n; n++; return i, c.Mine(i) }
		runSameRequestTwice(c, alloc)
		RunNestedInstall(c, "C16", alloc)
		RunRejectedRequests(c, "C16", alloc)
		RunFallbackHandlers(c, "C16", alloc)
		RunTwoProviders(c, "C16", alloc)
		RunHandleOnClosedScope(c, "C16", alloc)
	}()
	for idx := 0; idx < l.total; idx++ {
		if !c.Mine(idx) {
			continue
		}
		c.R.Begin(idx)
		spec := specFor(c, l, idx)
		nontrivial := runCase(c, idx, spec)
		c.R.End(idx, eng.Hash(spec.canonical()), nontrivial)
	}
}

// runCase executes one case against real godi and reports what the monitors concluded.
func runCase(c *eng.Ctx, idx int, spec *CaseSpec) (nontrivial bool) {
	cs := newCaseState(spec)
	cur.Store(cs)
	real, err := buildProvider()
	if err != nil {
		c.R.Inconclusive(idx, "godi could not build the harness registrations: "+err.Error())
		return false
	}
	var sp godi.Provider = &spy{real: real, cs: cs}
	if spec.Direct {
		sp = real
	}
	if spec.AppCtx {
		// created from the REAL provider, outside the spy's per-request accounting
		as, err := real.CreateScope(context.Background())
		if err != nil {
			c.R.Inconclusive(idx, "godi could not create the application scope: "+err.Error())
			_ = real.Close()
			return false
		}
		cs.appScope = as
		if svc, err := godi.Resolve[*ReqSvc](as); err == nil && svc != nil && svc.inst != nil {
			cs.appSvc = svc
			cs.mu.Lock()
			cs.instOwner[svc.id] = appOwner
			cs.mu.Unlock()
		}
	}
	var a app
	switch spec.FW {
	case FWHTTP:
		a = newHTTPApp(buildNetHTTP(cs, sp, false), spec.Transport, cs.appScope)
	case FWChi:
		a = newHTTPApp(buildNetHTTP(cs, sp, true), spec.Transport, cs.appScope)
	case FWGin:
		a = newHTTPApp(buildGin(cs, sp), spec.Transport, cs.appScope)
	case FWEcho:
		a = newHTTPApp(buildEcho(cs, sp), spec.Transport, cs.appScope)
	case FWFiber:
		a = &fiberApp{app: buildFiber(cs, sp)}
	}

	caseID := fmt.Sprintf("%s/%s/%s/case-%d", spec.Label, spec.FW, spec.Transport, idx)
	seen := map[string]bool{}
	poisoned := false
	report := func(fs []finding) {
		for _, f := range fs {
			if f.clause == "unexpected-panic" {
				poisoned = true
			}
			sig := "C16/" + f.clause + ":" + f.feature
			if seen[sig] {
				c.R.Count("findings_suppressed_same_sig_same_case", 1)
				continue
			}
			seen[sig] = true
			detail := f.detail
			if f.req >= 0 {
				detail = fmt.Sprintf("request #%d %+v of %s [%s, %s, opts %+v]: %s", f.req, spec.Seq[f.req], map[bool]string{false: "sequence", true: "concurrent batch"}[spec.Conc], spec.FW, spec.Transport, spec.Opts, f.detail)
			}
			c.R.Violation(eng.Violation{Prop: "C16", Clause: f.clause, Sig: sig, Case: idx, CaseID: caseID, Detail: detail,
				Replay: map[string]any{"spec": spec, "request": f.req}})
		}
	}
	closed := false
	closeProvider := func() {
		if !closed {
			closed = true
			cs.providerClosed.Store(true)
			_ = real.Close()
		}
	}
	exec := func(st *reqState) {
		cs.mu.Lock()
		cs.inflight[st.id] = st
		cs.mu.Unlock()
		a.do(st)
		cs.mu.Lock()
		delete(cs.inflight, st.id)
		cs.mu.Unlock()
	}
	var states []*reqState
	judge := func(st *reqState) {
		fs, inc := cs.checkRequest(st)
		report(fs)
		if inc != "" {
			c.R.Inconclusive(idx, fmt.Sprintf("request #%d %+v: %s", st.id, st.plan, inc))
			c.R.Count("requests_inconclusive", 1)
		}
	}

	if !spec.Conc {
		for i, p := range spec.Seq {
			if poisoned {
				break
			}
			if p.Exit == ExitClosed {
				closeProvider()
			}
			st := cs.newReq(i, p)
			states = append(states, st)
			exec(st)
			judge(st)
		}
	} else {
		var batch, tail []*reqState
		for i, p := range spec.Seq {
			st := cs.newReq(i, p)
			states = append(states, st)
			if p.Exit == ExitClosed {
				tail = append(tail, st)
			} else {
				batch = append(batch, st)
			}
		}
		if spec.FW == FWFiber {
			// one sequential warm-up so that fiber's lazy route-tree build is not part of the batch
			w := cs.newReq(len(spec.Seq), Plan{Route: RouteNoScope, Exit: ExitOK})
			exec(w)
		}
		var wg sync.WaitGroup
		start := make(chan struct{})
		for _, st := range batch {
			wg.Add(1)
			go func(st *reqState) {
				defer wg.Done()
				<-start
				exec(st)
			}(st)
		}
		close(start)
		wg.Wait()
		for _, st := range batch {
			judge(st)
		}
		c.R.Count("concurrent_batches", 1)
		c.R.Count("concurrent_requests", int64(len(batch)))
		for _, st := range tail {
			if poisoned {
				break
			}
			closeProvider()
			exec(st)
			judge(st)
		}
	}

	a.shutdown()
	if !poisoned && cs.appScope != nil {
		var fs []finding
		if !closed {
			// still open after every request of the case; the harness closes it now
			if _, err := cs.appScope.Get(sharedType); err != nil {
				fs = append(fs, finding{clause: "app-scope-closed", feature: spec.FW + ":end-of-case" + cs.featSuffix(), req: -1,
					detail: fmt.Sprintf("at the end of the case the application scope no longer resolves: %v", err)})
			}
			_ = cs.appScope.Close()
			c.R.Count("app_scopes_closed_by_harness", 1)
		}
		if cs.appSvc != nil {
			if n := cs.appSvc.closes.Load(); !closed && n != 1 {
				fs = append(fs, finding{clause: "app-scope-closed", feature: spec.FW + ":end-of-case" + cs.featSuffix(), req: -1,
					detail: fmt.Sprintf("the application scope's own scoped instance has %d Close events after the harness closed that scope (want 1)", n)})
			}
		}
		report(fs)
	}
	if !poisoned {
		closeProvider()
		// nothing that was closed with its request may be closed again by the provider
		cs.mu.Lock()
		all := append([]*inst(nil), cs.all...)
		sharedW := append([]string(nil), cs.shared...)
		cs.mu.Unlock()
		var fs []finding
		mode := "sequential"
		if spec.Conc {
			mode = "concurrent"
		}
		for _, i := range all {
			if n := i.closes.Load(); n > 1 {
				fs = append(fs, finding{clause: "instance-close-count", feature: spec.FW + ":after-provider-close:closed-twice" + cs.featSuffix(), req: -1,
					detail: fmt.Sprintf("%s#%d got %d Close events by the time the provider was closed", i.kind, i.id, n)})
				break
			}
		}
		if len(sharedW) > 0 {
			fs = append(fs, finding{clause: "instance-shared", feature: spec.FW + ":" + mode + cs.featSuffix(), req: -1,
				detail: "scoped state shared between requests: " + strings.Join(sharedW, "; ")})
		}
		report(fs)
	}
	if n := cs.unattrib.Load(); n > 0 {
		c.R.Inconclusive(idx, fmt.Sprintf("%d CreateScope call(s) could not be attributed to a request (the integration did not pass the request's context)", n))
	}

	// what the monitors observed
	R := c.R
	for _, st := range states {
		ob := st.snapshot()
		if ob.preEntered == 0 {
			continue
		}
		exit := st.plan.Exit
		switch st.plan.Route {
		case RouteNoScope:
			exit = "handle-scope-error"
		case RouteUnreg, RouteFailCtor:
			if exit == ExitOK {
				exit = "handle-resolution-error"
			}
		}
		R.Count("requests", 1)
		R.Count("requests_fw_"+spec.FW, 1)
		R.Count("requests_exit_"+exit, 1)
		R.Count("requests_via_"+spec.Transport, 1)
		if ob.createCalls > 0 || (spec.Direct && (len(ob.mws) > 0 || ob.hScope != nil)) {
			nontrivial = true
		}
		if spec.AppCtx {
			R.Count("requests_with_app_scope_context", 1)
			if spec.Direct && (len(ob.mws) > 0 || ob.hScope != nil) {
				R.Count("scopes_observed_real_provider", 1)
			}
		}
		R.Count("create_scope_calls", int64(ob.createCalls))
		R.Count("scopes_created", int64(len(ob.scopes)))
		R.Count("scopes_checked_disposed", int64(len(ob.scopes)))
		R.Count("middleware_invocations", int64(len(ob.mws)))
		R.Count("error_handler_invocations_custom", int64(ob.errHCalls))
		R.Count("handler_invocations", int64(ob.handlerRuns))
		R.Count("method_invocations", int64(ob.methodCalls))
		R.Count("handle_error_handler_invocations_custom", int64(ob.scopeErrH+ob.resErrH))
		R.Count("panic_handler_invocations_custom", int64(ob.panicH))
		if ob.propagated {
			R.Count("panics_propagated", 1)
		}
		if st.plan.Exit == ExitMWErr {
			R.Count(fmt.Sprintf("mwerr_at_position_%d", st.plan.MWPos), 1)
		}
		st.mu.Lock()
		switch st.hUserCtxSame {
		case 1:
			R.Count("fiber_usercontext_scope_same", 1)
		case -1:
			R.Count("fiber_usercontext_scope_differs", 1)
		}
		if st.ctxCancelled {
			R.Count("abort_context_cancelled_seen", 1)
		}
		st.mu.Unlock()
	}
	R.Count("close_events", cs.closeEvents.Load())
	R.Count("constructor_invocations", cs.ctorCalls.Load())
	R.Count("close_error_handler_invocations_custom", cs.closeErrH.Load())
	if R.WantSample() {
		R.Sample(map[string]any{"case": idx, "case_id": caseID, "spec": spec, "close_events": cs.closeEvents.Load(), "constructor_invocations": cs.ctorCalls.Load()})
	}
	return nontrivial
}
