package web

import (
	"context"
	"net/http"

	"github.com/junioryono/godi/v4"
	godichi "github.com/junioryono/godi/v4/chi"
	godihttp "github.com/junioryono/godi/v4/http"
)

// Statuses written by the harness's custom handlers (never asserted, only reported).
const (
	stErrH     = 503
	stScopeErr = 502
	stResErr   = 501
	stPanicH   = 504
	stHErr     = 418
)

// buildNetHTTP builds the net/http (or chi-as-plain-middleware) handler chain:
// [recover] -> pre -> mux{ /n/ctrl: Handle ; /s/*: ScopeMiddleware -> route handlers }.
func buildNetHTTP(cs *caseState, sp godi.Provider, useChi bool) http.Handler {
	o := cs.spec.Opts
	look := func(r *http.Request) *reqState { return cs.lookup(r.Header.Get(hdrReq)) }

	errH := func(w http.ResponseWriter, r *http.Request, err error) {
		look(r).onErrH(err)
		w.WriteHeader(stErrH)
	}
	closeH := func(error) { cs.closeErrH.Add(1) }
	mws := make([]func(godi.Scope, *http.Request) error, o.NMW)
	for i := range mws {
		pos := i
		mws[i] = func(sc godi.Scope, r *http.Request) error { return look(r).onMW(pos, sc) }
	}
	panicH := func(w http.ResponseWriter, r *http.Request, v any) { look(r).onPanicH(); w.WriteHeader(stPanicH) }
	scopeErrH := func(w http.ResponseWriter, r *http.Request, err error) {
		look(r).onScopeErrH()
		w.WriteHeader(stScopeErr)
	}
	resErrH := func(w http.ResponseWriter, r *http.Request, err error) {
		look(r).onResErrH()
		w.WriteHeader(stResErr)
	}

	act := func(st *reqState, a action, w http.ResponseWriter, r *http.Request) {
		switch a {
		case actOK:
			w.WriteHeader(http.StatusOK)
		case actErr:
			http.Error(w, "teapot", stHErr)
		case actPanic:
			panic(panicVal)
		case actAbortWait:
			st.waitAbort(r.Context())
		}
	}
	mCtrl := func(c *Ctrl, w http.ResponseWriter, r *http.Request) {
		st := look(r)
		act(st, st.onMethod(RouteCtrl, c), w, r)
	}
	mUnreg := func(c *UnregCtrl, w http.ResponseWriter, r *http.Request) {
		st := look(r)
		act(st, st.onMethod(RouteUnreg, nil), w, r)
	}
	mFail := func(c *FailCtrl, w http.ResponseWriter, r *http.Request) {
		st := look(r)
		act(st, st.onMethod(RouteFailCtor, nil), w, r)
	}

	var scopeMW, siblingMW func(http.Handler) http.Handler
	var hCtrl, hUnreg, hFail, hT1, hT2 http.HandlerFunc
	mChain := func(k *TCtrl, w http.ResponseWriter, r *http.Request) { look(r).onChain(k) }
	if useChi {
		var so []godichi.Option
		if o.ErrH == ErrHNil {
			so = append(so, godichi.WithErrorHandler(nil))
		} else if o.ErrH != ErrHDefault {
			so = append(so, godichi.WithErrorHandler(errH))
		}
		if o.CloseH == "nil-option" {
			so = append(so, godichi.WithCloseErrorHandler(nil))
		}
		if o.CloseH == "custom" {
			so = append(so, godichi.WithCloseErrorHandler(closeH))
		}
		for _, m := range mws {
			so = append(so, godichi.WithMiddleware(m))
		}
		scopeMW = godichi.ScopeMiddleware(sp, so...)
		// a second, differently configured instance in the same process (never on a requested route)
		var so2 []godichi.Option
		for i := 0; i <= o.NMW; i++ {
			pos := foreignMW + i
			so2 = append(so2, godichi.WithMiddleware(func(sc godi.Scope, r *http.Request) error { return look(r).onMW(pos, sc) }))
		}
		siblingMW = godichi.ScopeMiddleware(sp, so2...)
		var ho []godichi.HandlerOption
		if o.Recovery {
			ho = append(ho, godichi.WithPanicRecovery(true))
		}
		if o.HandleH == "custom" {
			ho = append(ho, godichi.WithPanicHandler(panicH), godichi.WithScopeErrorHandler(scopeErrH), godichi.WithResolutionErrorHandler(resErrH))
		}
		hCtrl, hUnreg, hFail = godichi.Handle(mCtrl, ho...), godichi.Handle(mUnreg, ho...), godichi.Handle(mFail, ho...)
		hT1, hT2 = godichi.Handle(mChain, godichi.WithPanicRecovery(o.Recovery)), godichi.Handle(mChain, godichi.WithPanicRecovery(o.Recovery))
	} else {
		var so []godihttp.Option
		if o.ErrH == ErrHNil {
			so = append(so, godihttp.WithErrorHandler(nil))
		} else if o.ErrH != ErrHDefault {
			so = append(so, godihttp.WithErrorHandler(errH))
		}
		if o.CloseH == "nil-option" {
			so = append(so, godihttp.WithCloseErrorHandler(nil))
		}
		if o.CloseH == "custom" {
			so = append(so, godihttp.WithCloseErrorHandler(closeH))
		}
		for _, m := range mws {
			so = append(so, godihttp.WithMiddleware(m))
		}
		scopeMW = godihttp.ScopeMiddleware(sp, so...)
		var so2 []godihttp.Option
		for i := 0; i <= o.NMW; i++ {
			pos := foreignMW + i
			so2 = append(so2, godihttp.WithMiddleware(func(sc godi.Scope, r *http.Request) error { return look(r).onMW(pos, sc) }))
		}
		siblingMW = godihttp.ScopeMiddleware(sp, so2...)
		var ho []godihttp.HandlerOption
		if o.Recovery {
			ho = append(ho, godihttp.WithPanicRecovery(true))
		}
		if o.HandleH == "custom" {
			ho = append(ho, godihttp.WithPanicHandler(panicH), godihttp.WithScopeErrorHandler(scopeErrH), godihttp.WithResolutionErrorHandler(resErrH))
		}
		hCtrl, hUnreg, hFail = godihttp.Handle(mCtrl, ho...), godihttp.Handle(mUnreg, ho...), godihttp.Handle(mFail, ho...)
		hT1, hT2 = godihttp.Handle(mChain, godihttp.WithPanicRecovery(o.Recovery)), godihttp.Handle(mChain, godihttp.WithPanicRecovery(o.Recovery))
	}

	// route handler = probe (what does the handler see through the request context?) + the wrapped handler
	route := func(inner http.HandlerFunc) http.HandlerFunc {
		return func(w http.ResponseWriter, r *http.Request) {
			st := look(r)
			sc, err := godi.FromContext(r.Context())
			st.onProbe(sc, err)
			if inner != nil {
				inner(w, r)
				return
			}
			act(st, st.plannedAction(), w, r)
		}
	}

	sMux := http.NewServeMux()
	hMain := route(hCtrl)
	sMux.HandleFunc(routePath(RouteCtrl), func(w http.ResponseWriter, r *http.Request) {
		hT1(w, r)
		hT2(w, r)
		hMain(w, r)
	})
	sMux.HandleFunc(routePath(RoutePlain), route(nil))
	sMux.HandleFunc(routePath(RouteUnreg), route(hUnreg))
	sMux.HandleFunc(routePath(RouteFailCtor), route(hFail))
	root := http.NewServeMux()
	root.Handle("/s/", scopeMW(sMux))
	root.Handle("/d/", siblingMW(http.HandlerFunc(func(w http.ResponseWriter, r *http.Request) { w.WriteHeader(http.StatusOK) })))
	root.HandleFunc(routePath(RouteNoScope), route(hCtrl))

	pre := http.HandlerFunc(func(w http.ResponseWriter, r *http.Request) {
		st := look(r)
		st.onPre()
		r = r.WithContext(context.WithValue(r.Context(), reqCtxKey{}, st))
		defer func() {
			v := recover()
			st.onUnwind(v)
			if v != nil {
				panic(v)
			}
		}()
		root.ServeHTTP(w, r)
	})
	if !o.FwRecover {
		return pre
	}
	return http.HandlerFunc(func(w http.ResponseWriter, r *http.Request) {
		defer func() {
			if v := recover(); v != nil {
				look(r).onFwRecover()
				w.WriteHeader(http.StatusInternalServerError)
			}
		}()
		pre.ServeHTTP(w, r)
	})
}
