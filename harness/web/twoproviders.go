package web

import (
	"errors"
	"fmt"
	"net/http"
	"net/http/httptest"
	"sync"
	"sync/atomic"
	"time"

	"github.com/gin-gonic/gin"
	"github.com/junioryono/godi/v4"
	godichi "github.com/junioryono/godi/v4/chi"
	godiecho "github.com/junioryono/godi/v4/echo"
	godigin "github.com/junioryono/godi/v4/gin"
	godihttp "github.com/junioryono/godi/v4/http"
	"github.com/junioryono/godi/v4/verifh/core"
	"github.com/junioryono/godi/v4/verifh/eng"
	"github.com/labstack/echo/v4"
)

// Two providers serve one process.
//
// (1) nested: the application's scope middleware on the router, a plug-in's (its own provider,
// the same Go types) on a sub-handler. The handler below both sees the scope of the INNER
// provider; both request scopes are closed when the request is over; after plugin.Close() the
// plug-in's middleware reports the failure to its error handler and the handler does not run
// (C13: "closing the provider ... makes the provider itself fail with the provider-disposed
// error"); a request in flight when the plug-in's provider is closed finds its scope closed
// (C13: "closing the provider closes every scope").
// (2) blue/green: one collection built twice, an optional request-scoped service removed in
// between (a feature switched off); requests alternate between the two. C16: every request gets
// a fresh scope of ITS provider, and requests never share scoped instances - also not across the
// two providers.

type tpSession struct {
	id     int32
	closed atomic.Int32
}

func (s *tpSession) Close() error { s.closed.Add(1); return nil }

type tpCtrlIn struct {
	godi.In
	Session *tpSession `optional:"true"`
	Prov    godi.Provider
}
type tpCtrl struct {
	session *tpSession
	prov    godi.Provider
}

type tpWorld struct {
	mu       sync.Mutex
	sessions []*tpSession
	made     atomic.Int32
}

func (w *tpWorld) newSession() *tpSession {
	s := &tpSession{id: w.made.Add(1)}
	w.mu.Lock()
	w.sessions = append(w.sessions, s)
	w.mu.Unlock()
	return s
}

type tpStack struct {
	serve func() int // runs one request, returns the status code
}

// tpBuild wires outer -> inner -> handler for one framework; inner may be nil.
func tpBuild(fw string, outer, inner godi.Provider, onInnerError func(), handler func(r *http.Request)) tpStack {
	switch fw {
	case "nethttp", "chi":
		mw := godihttp.ScopeMiddleware
		var h http.Handler = http.HandlerFunc(func(rw http.ResponseWriter, r *http.Request) {
			handler(r)
			rw.WriteHeader(200)
		})
		if inner != nil {
			if fw == "chi" {
				h = godichi.ScopeMiddleware(inner, godichi.WithErrorHandler(func(rw http.ResponseWriter, r *http.Request, err error) {
					onInnerError()
					rw.WriteHeader(503)
				}))(h)
			} else {
				h = mw(inner, godihttp.WithErrorHandler(func(rw http.ResponseWriter, r *http.Request, err error) {
					onInnerError()
					rw.WriteHeader(503)
				}))(h)
			}
		}
		if fw == "chi" {
			h = godichi.ScopeMiddleware(outer)(h)
		} else {
			h = mw(outer)(h)
		}
		return tpStack{serve: func() int {
			rec := httptest.NewRecorder()
			h.ServeHTTP(rec, httptest.NewRequest(http.MethodGet, "/x", nil))
			return rec.Code
		}}
	case "gin":
		e := gin.New()
		e.Use(godigin.ScopeMiddleware(outer))
		if inner != nil {
			e.Use(godigin.ScopeMiddleware(inner, godigin.WithErrorHandler(func(gc *gin.Context, err error) {
				onInnerError()
				gc.AbortWithStatus(503)
			})))
		}
		e.GET("/x", func(gc *gin.Context) {
			handler(gc.Request)
			gc.Status(200)
		})
		return tpStack{serve: func() int {
			rec := httptest.NewRecorder()
			e.ServeHTTP(rec, httptest.NewRequest(http.MethodGet, "/x", nil))
			return rec.Code
		}}
	default: // echo
		e := echo.New()
		e.Use(godiecho.ScopeMiddleware(outer))
		if inner != nil {
			e.Use(godiecho.ScopeMiddleware(inner, godiecho.WithErrorHandler(func(ec echo.Context, err error) error {
				onInnerError()
				return ec.NoContent(503)
			})))
		}
		e.GET("/x", func(ec echo.Context) error {
			handler(ec.Request())
			return ec.NoContent(200)
		})
		return tpStack{serve: func() int {
			rec := httptest.NewRecorder()
			e.ServeHTTP(rec, httptest.NewRequest(http.MethodGet, "/x", nil))
			return rec.Code
		}}
	}
}

func init() {
	core.C13Web = func(c *eng.Ctx, next func() (int, bool)) { RunTwoProviders(c, "C13", next) }
}

// RunTwoProviders: one case per integration and layout.
func RunTwoProviders(c *eng.Ctx, prop string, next func() (int, bool)) {
	for _, fw := range []string{"nethttp", "chi", "gin", "echo"} {
		for _, layout := range []string{"nested", "blue-green"} {
			idx, mine := next()
			if !mine {
				continue
			}
			c.R.Begin(idx)
			viol := func(clause, detail string) {
				c.R.Violation(eng.Violation{Prop: prop, Clause: clause, Sig: prop + "/" + clause + ":" + fw + ":two-providers:" + layout, Case: idx, CaseID: "two-providers-" + fw + "-" + layout,
					Detail: fw + ", two providers, " + layout + ": " + detail, Replay: map[string]any{"fixture": "two-providers", "framework": fw, "layout": layout}})
			}
			func() {
				defer func() {
					if p := recover(); p != nil {
						viol("panic", fmt.Sprintf("panic: %v", p))
					}
				}()
				w := &tpWorld{}
				mkColl := func(withSession bool) godi.Collection {
					coll := godi.NewCollection()
					if withSession {
						if err := coll.AddScoped(w.newSession); err != nil {
							panic("two-providers fixture: " + err.Error())
						}
					}
					if err := coll.AddScoped(func(in tpCtrlIn) *tpCtrl { return &tpCtrl{in.Session, in.Prov} }); err != nil {
						panic("two-providers fixture: " + err.Error())
					}
					return coll
				}
				must := func(p godi.Provider, err error) godi.Provider {
					if err != nil {
						panic("two-providers fixture does not build: " + err.Error())
					}
					return p
				}
				if layout == "nested" {
					app, plugin := must(mkColl(true).Build()), must(mkColl(true).Build())
					defer app.Close()
					var handled, innerErrs atomic.Int32
					var block, blocked chan struct{}
					var inflightErr error
					var inflightDone atomic.Bool
					st := tpBuild(fw, app, plugin, func() { innerErrs.Add(1) }, func(r *http.Request) {
						handled.Add(1)
						sc, err := godi.FromContext(r.Context())
						if err != nil || sc == nil {
							viol("handler-without-scope", fmt.Sprintf("FromContext in the handler: %v", err))
							return
						}
						if sc.Provider() != plugin {
							viol("scope-of-another-provider", "the handler below the plug-in's scope middleware sees a scope that does not belong to the plug-in's provider (the application's middleware further out had put its own scope into the request context)")
						}
						ctrl, err := godi.Resolve[*tpCtrl](sc)
						if err != nil {
							viol("resolution-failed", err.Error())
							return
						}
						if ctrl.prov != plugin {
							viol("scope-of-another-provider", "the controller resolved in the handler was injected another provider than the plug-in's")
						}
						if block != nil {
							close(blocked)
							<-block
							_, inflightErr = godi.Resolve[*tpSession](sc)
							if inflightErr == nil {
								// the cached instance may legitimately be served only if the scope is still open
								_, inflightErr = sc.CreateScope(nil)
							}
							inflightDone.Store(true)
						}
					})
					if code := st.serve(); code != 200 || handled.Load() != 1 {
						viol("request-failed", fmt.Sprintf("status %d, handler runs %d", code, handled.Load()))
						return
					}
					w.mu.Lock()
					for _, s := range w.sessions {
						if n := s.closed.Load(); n != 1 {
							viol("scope-not-closed", fmt.Sprintf("after the request, session #%d (of %d: one per provider's request scope) was closed %d times", s.id, len(w.sessions), n))
						}
					}
					nSess := len(w.sessions)
					w.mu.Unlock()
					if nSess != 1 && nSess != 2 {
						viol("request-scopes", fmt.Sprintf("%d sessions were created for one request", nSess))
					}
					// in flight while the plug-in's provider is closed
					block, blocked = make(chan struct{}), make(chan struct{})
					done := make(chan int, 1)
					go func() { done <- st.serve() }()
					select {
					case <-blocked:
					case <-time.After(60 * time.Second):
						c.R.Inconclusive(idx, "the in-flight request did not reach the handler within the watchdog")
						close(block)
						return
					}
					closed := make(chan struct{})
					go func() { _ = plugin.Close(); close(closed) }()
					select {
					case <-closed:
					case <-time.After(20 * time.Second):
						c.R.Inconclusive(idx, "plugin.Close() did not return while a request was parked in its handler")
					}
					close(block)
					<-done
					if inflightDone.Load() && inflightErr == nil {
						viol("scope-survives-its-provider", "a request was in flight below the plug-in's scope middleware when plugin.Close() returned; afterwards its scope (FromContext) still resolves and creates child scopes instead of reporting the disposed error")
					} else if inflightDone.Load() && !errors.Is(inflightErr, godi.ErrScopeDisposed) && !errors.Is(inflightErr, godi.ErrProviderDisposed) {
						viol("overlap-unexpected-error", fmt.Sprintf("the in-flight request's scope reports %v after its provider was closed", inflightErr))
					}
					block = nil
					// after plugin.Close(): the plug-in's middleware fails, its handler does not run
					before, errsBefore := handled.Load(), innerErrs.Load()
					code := st.serve()
					if handled.Load() != before || code == 200 || innerErrs.Load() != errsBefore+1 {
						viol("closed-provider-still-serves", fmt.Sprintf("after plugin.Close() a request through the plug-in's scope middleware: status %d, handler ran %d more time(s), the middleware's error handler was called %d time(s) (want: not 200, 0, 1)", code, handled.Load()-before, innerErrs.Load()-errsBefore))
					}
					c.R.Count("two_provider_requests", 3)
					return
				}
				// blue / green
				coll := mkColl(true)
				blue := must(coll.Build())
				coll.Remove(core.TypeOf[*tpSession]())
				green := must(coll.Build())
				defer blue.Close()
				defer green.Close()
				var last *tpCtrl
				var lastProv godi.Provider
				mk := func(p godi.Provider) tpStack {
					return tpBuild(fw, p, nil, func() {}, func(r *http.Request) {
						sc, err := godi.FromContext(r.Context())
						if err != nil || sc == nil {
							viol("handler-without-scope", fmt.Sprintf("FromContext in the handler: %v", err))
							return
						}
						lastProv = sc.Provider()
						last, err = godi.Resolve[*tpCtrl](sc)
						if err != nil {
							viol("resolution-failed", err.Error())
						}
					})
				}
				sb, sg := mk(blue), mk(green)
				seen := map[int32]bool{}
				for i := 0; i < c.Pick(12, 40); i++ {
					last = nil
					if code := sb.serve(); code != 200 || last == nil || lastProv != blue {
						viol("request-failed", fmt.Sprintf("blue request %d: status %d", i, code))
						return
					}
					if last.session == nil {
						viol("arg-missing", "blue's controller was constructed without its request-scoped session")
						return
					}
					if seen[last.session.id] {
						viol("scoped-instance-shared-between-requests", fmt.Sprintf("blue request %d received session #%d of an earlier request", i, last.session.id))
						return
					}
					seen[last.session.id] = true
					if last.session.closed.Load() != 1 {
						viol("scope-not-closed", fmt.Sprintf("blue request %d: its session was closed %d times after the request", i, last.session.closed.Load()))
					}
					last = nil
					if code := sg.serve(); code != 200 || last == nil || lastProv != green {
						viol("request-failed", fmt.Sprintf("green request %d: status %d", i, code))
						return
					}
					if last.session != nil {
						viol("scoped-instance-shared-between-requests", fmt.Sprintf("green request %d (the provider built after the session service was removed): the controller resolved from the request's scope holds session #%d - the request-scoped instance of an earlier request of the OTHER provider (closed %d times)", i, last.session.id, last.session.closed.Load()))
						return
					}
					c.R.Count("two_provider_requests", 2)
				}
			}()
			c.R.End(idx, eng.Hash("two-providers", prop, fw, layout), true)
		}
	}
}
