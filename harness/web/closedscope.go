package web

import (
	"context"
	"errors"
	"fmt"
	"net/http"
	"net/http/httptest"
	"reflect"
	"sync/atomic"
	"time"

	"github.com/gin-gonic/gin"
	"github.com/junioryono/godi/v4"
	godichi "github.com/junioryono/godi/v4/chi"
	godiecho "github.com/junioryono/godi/v4/echo"
	godigin "github.com/junioryono/godi/v4/gin"
	godihttp "github.com/junioryono/godi/v4/http"
	"github.com/junioryono/godi/v4/verifh/eng"
	"github.com/labstack/echo/v4"
)

// The request's scope is closed before the Handle wrapper is reached: a timeout / cancellation
// layer between the scope middleware and the route closes it (directly, or by cancelling the
// request's context, which the scope's context watcher turns into a Close). "Handle calls the
// controller method only after resolving the controller from the request's scope, otherwise
// exactly one of the scope-error or resolution-error handlers": a closed scope resolves nothing -
// whatever the controller's lifetime - so the controller method does not run and exactly one of
// the two handlers does.

type csCtrl struct{ n int32 }

var reflectTypeOfCtrl = reflect.TypeOf((*csCtrl)(nil))

type csWorld struct {
	ctrlCalls, resErr, scopeErr atomic.Int32
}

func (w *csWorld) newCtrl() *csCtrl { return &csCtrl{} }

// RunHandleOnClosedScope: integrations x controller lifetimes x how the scope was closed.
func RunHandleOnClosedScope(c *eng.Ctx, prop string, next func() (int, bool)) {
	for _, fw := range []string{"nethttp", "chi", "gin", "echo"} {
		for _, life := range []godi.Lifetime{godi.Singleton, godi.Scoped, godi.Transient} {
			for _, how := range []string{"closed-directly", "request-context-cancelled"} {
				idx, mine := next()
				if !mine {
					continue
				}
				c.R.Begin(idx)
				lifeN := map[godi.Lifetime]string{godi.Singleton: "singleton", godi.Scoped: "scoped", godi.Transient: "transient"}[life]
				feat := fw + ":" + lifeN + "-controller:" + how
				viol := func(clause, detail string) {
					c.R.Violation(eng.Violation{Prop: prop, Clause: clause, Sig: prop + "/" + clause + ":scope-closed-before-handle:" + feat, Case: idx, CaseID: "handle-on-closed-scope-" + feat,
						Detail: feat + ": " + detail, Replay: map[string]any{"fixture": "handle-on-closed-scope", "framework": fw, "lifetime": lifeN, "how": how}})
				}
				func() {
					defer func() {
						if p := recover(); p != nil {
							viol("panic", fmt.Sprintf("panic: %v", p))
						}
					}()
					w := &csWorld{}
					coll := godi.NewCollection()
					var err error
					switch life {
					case godi.Singleton:
						err = coll.AddSingleton(w.newCtrl)
					case godi.Scoped:
						err = coll.AddScoped(w.newCtrl)
					default:
						err = coll.AddTransient(w.newCtrl)
					}
					if err != nil {
						panic("closed-scope fixture: " + err.Error())
					}
					prov, err := coll.Build()
					if err != nil {
						panic("closed-scope fixture does not build: " + err.Error())
					}
					defer prov.Close()
					inconclusive := false
					// closeScope closes the request's scope the planned way and waits until it is closed
					closeScope := func(r *http.Request, cancel context.CancelFunc) {
						sc, err := godi.FromContext(r.Context())
						if err != nil || sc == nil {
							viol("handler-without-scope", fmt.Sprintf("FromContext below the scope middleware: %v", err))
							return
						}
						if how == "closed-directly" {
							_ = sc.Close()
							return
						}
						cancel()
						for i := 0; i < 5000; i++ { // bounded wait for the scope's context watcher
							if _, err := sc.Get(reflectTypeOfCtrl); errors.Is(err, godi.ErrScopeDisposed) {
								return
							}
							time.Sleep(2 * time.Millisecond)
						}
						inconclusive = true
					}
					var serve func() int
					switch fw {
					case "nethttp", "chi":
						var h http.Handler
						method := func(ct *csCtrl, rw http.ResponseWriter, r *http.Request) { w.ctrlCalls.Add(1); rw.WriteHeader(200) }
						if fw == "chi" {
							h = godichi.Handle(method,
								godichi.WithScopeErrorHandler(func(rw http.ResponseWriter, r *http.Request, err error) { w.scopeErr.Add(1); rw.WriteHeader(503) }),
								godichi.WithResolutionErrorHandler(func(rw http.ResponseWriter, r *http.Request, err error) { w.resErr.Add(1); rw.WriteHeader(503) }))
						} else {
							h = godihttp.Handle(method,
								godihttp.WithScopeErrorHandler(func(rw http.ResponseWriter, r *http.Request, err error) { w.scopeErr.Add(1); rw.WriteHeader(503) }),
								godihttp.WithResolutionErrorHandler(func(rw http.ResponseWriter, r *http.Request, err error) { w.resErr.Add(1); rw.WriteHeader(503) }))
						}
						inner := h
						var cancelReq context.CancelFunc
						gate := http.HandlerFunc(func(rw http.ResponseWriter, r *http.Request) {
							closeScope(r, cancelReq)
							inner.ServeHTTP(rw, r)
						})
						var stack http.Handler
						if fw == "chi" {
							stack = godichi.ScopeMiddleware(prov)(gate)
						} else {
							stack = godihttp.ScopeMiddleware(prov)(gate)
						}
						serve = func() int {
							ctx, cancel := context.WithCancel(context.Background())
							defer cancel()
							cancelReq = cancel
							rec := httptest.NewRecorder()
							stack.ServeHTTP(rec, httptest.NewRequest(http.MethodGet, "/x", nil).WithContext(ctx))
							return rec.Code
						}
					case "gin":
						e := gin.New()
						var cancelReq context.CancelFunc
						e.Use(godigin.ScopeMiddleware(prov))
						e.Use(func(gc *gin.Context) { closeScope(gc.Request, cancelReq); gc.Next() })
						e.GET("/x", godigin.Handle(func(ct *csCtrl, gc *gin.Context) { w.ctrlCalls.Add(1); gc.Status(200) },
							godigin.WithScopeErrorHandler(func(gc *gin.Context, err error) { w.scopeErr.Add(1); gc.AbortWithStatus(503) }),
							godigin.WithResolutionErrorHandler(func(gc *gin.Context, err error) { w.resErr.Add(1); gc.AbortWithStatus(503) })))
						serve = func() int {
							ctx, cancel := context.WithCancel(context.Background())
							defer cancel()
							cancelReq = cancel
							rec := httptest.NewRecorder()
							e.ServeHTTP(rec, httptest.NewRequest(http.MethodGet, "/x", nil).WithContext(ctx))
							return rec.Code
						}
					default:
						e := echo.New()
						var cancelReq context.CancelFunc
						e.Use(godiecho.ScopeMiddleware(prov))
						e.Use(func(nextH echo.HandlerFunc) echo.HandlerFunc {
							return func(ec echo.Context) error { closeScope(ec.Request(), cancelReq); return nextH(ec) }
						})
						e.GET("/x", godiecho.Handle(func(ct *csCtrl, ec echo.Context) error { w.ctrlCalls.Add(1); return ec.NoContent(200) },
							godiecho.WithScopeErrorHandler(func(ec echo.Context, err error) error { w.scopeErr.Add(1); return ec.NoContent(503) }),
							godiecho.WithResolutionErrorHandler(func(ec echo.Context, err error) error { w.resErr.Add(1); return ec.NoContent(503) })))
						serve = func() int {
							ctx, cancel := context.WithCancel(context.Background())
							defer cancel()
							cancelReq = cancel
							rec := httptest.NewRecorder()
							e.ServeHTTP(rec, httptest.NewRequest(http.MethodGet, "/x", nil).WithContext(ctx))
							return rec.Code
						}
					}
					code := serve()
					if inconclusive {
						c.R.Inconclusive(idx, "the scope's context watcher did not close the scope within the bound")
						return
					}
					calls, handlers := w.ctrlCalls.Load(), w.resErr.Load()+w.scopeErr.Load()
					if calls != 0 {
						viol("controller-called-without-resolution", fmt.Sprintf("the request's scope was closed before the Handle wrapper ran (the same scope answers Get with the disposed error), yet the controller method was called %d time(s); error handlers run: %d; status %d", calls, handlers, code))
					}
					if handlers != 1 {
						viol("error-handler-calls", fmt.Sprintf("scope-error + resolution-error handlers were called %d times (want exactly one of them, once); controller calls %d, status %d", handlers, calls, code))
					}
					// control: an ordinary request right after
					how0 := how
					_ = how0
					c.R.Count("handle_on_closed_scope_requests", 1)
				}()
				c.R.End(idx, eng.Hash("handle-on-closed-scope", prop, feat), true)
			}
		}
	}
}
