package web

import (
	"errors"
	"fmt"
	"reflect"
	"time"

	"github.com/junioryono/godi/v4"
)

// finding is one refuted clause for one request (or for the case when req < 0).
type finding struct {
	clause  string
	feature string // canonical feature classes of the failing input (goes into the Sig)
	detail  string
	req     int
}

var sharedType = reflect.TypeOf((*Shared)(nil))

func errHLabel(k string) string { return k + "-error-handler" }

// featSuffix marks findings of the application-scope workload (a defect that only shows when
// the incoming context already carries a scope is a different defect).
func (cs *caseState) featSuffix() string {
	if cs.spec.AppCtx {
		return ":appctx"
	}
	return ""
}

// pollBound bounds the wait for a close that godi performs on its own goroutine (context
// watcher winning the race against the deferred Close). Only used on the abort path.
const pollBound = 15 * time.Second

func pollUntil(ok func() bool) bool {
	deadline := time.Now().Add(pollBound)
	for {
		if ok() {
			return true
		}
		if time.Now().After(deadline) {
			return false
		}
		time.Sleep(time.Millisecond)
	}
}

// snapshot copies the observation fields under the lock.
type obs struct {
	createCalls                              int
	scopes                                   []godi.Scope
	createErrs                               []error
	initInsts                                []*inst
	initFailed                               bool
	mws                                      []mwObs
	errHCalls                                int
	handlerRuns                              int
	hScope                                   godi.Scope
	hScopeErr                                error
	hSvc                                     int64
	hSvcErr                                  error
	hEarly                                   bool
	methodCalls                              int
	ctrlID, ctrlSvc                          int64
	ctrlScope                                godi.Scope
	ctrlEarly                                bool
	scopeErrH, resErrH, panicH               int
	propagated                               bool
	propVal                                  any
	status                                   int
	terr                                     error
	doneTimeout, ctxTimeout, driverRecovered bool
	preEntered                               int
	chain                                    []chainObs
	unwindOpen                               []string
	unwindChecked                            int
}

func (st *reqState) snapshot() obs {
	st.mu.Lock()
	defer st.mu.Unlock()
	return obs{
		createCalls: st.createCalls, scopes: append([]godi.Scope(nil), st.scopes...), createErrs: append([]error(nil), st.createErrs...), initInsts: append([]*inst(nil), st.initInsts...), initFailed: st.initFailed,
		mws: append([]mwObs(nil), st.mws...), errHCalls: st.errHCalls, handlerRuns: st.handlerRuns,
		hScope: st.hScope, hScopeErr: st.hScopeErr, hSvc: st.hSvc, hSvcErr: st.hSvcErr, hEarly: st.hEarly,
		methodCalls: st.methodCalls, ctrlID: st.ctrlID, ctrlSvc: st.ctrlSvc, ctrlScope: st.ctrlScope, ctrlEarly: st.ctrlEarly,
		scopeErrH: st.scopeErrH, resErrH: st.resErrH, panicH: st.panicH, propagated: st.propagated, propVal: st.propVal,
		status: st.status, terr: st.terr, doneTimeout: st.doneTimeout, ctxTimeout: st.ctxTimeout, driverRecovered: st.driverRecovered,
		preEntered: st.preEntered, chain: append([]chainObs(nil), st.chain...), unwindOpen: append([]string(nil), st.unwindOpen...), unwindChecked: st.unwindChecked,
	}
}

// checkRequest evaluates every per-request clause of C16 on what was observed for st.
// It returns the findings and, when the request could not be decided, a reason.
func (cs *caseState) checkRequest(st *reqState) (fs []finding, inconclusive string) {
	p := st.plan
	o := cs.spec.Opts
	fw := cs.spec.FW
	ob := st.snapshot()
	add := func(clause, feature, format string, a ...any) {
		fs = append(fs, finding{clause: clause, feature: fw + ":" + feature + cs.featSuffix(), detail: fmt.Sprintf(format, a...), req: st.id})
	}

	if errors.Is(ob.terr, errDriverWait) || ob.doneTimeout {
		return nil, "driver: bounded wait for the server side expired"
	}
	if ob.ctxTimeout {
		return nil, "abort path: the server did not cancel the request context within the bound"
	}
	if cs.spec.Transport == TrAppTest && ob.terr != nil {
		return nil, "fiber app.Test failed: " + ob.terr.Error()
	}
	if ob.preEntered != 1 {
		return nil, fmt.Sprintf("the request entered the harness pre-middleware %d times", ob.preEntered)
	}

	passesMW := p.Route != RouteNoScope
	if p.Exit == ExitInitFail && passesMW && !ob.initFailed {
		return nil, "init-fail plan: the scope initializer did not see the request's context (nothing was made to fail)"
	}
	created := passesMW && p.Exit != ExitCreateFail && p.Exit != ExitClosed && p.Exit != ExitInitFail
	expectHandler := !passesMW || (created && p.Exit != ExitMWErr)
	statusKnown := ob.terr == nil && !ob.driverRecovered

	// a panic that is not the harness's own is never expected on any path
	if ob.propagated && ob.propVal != any(panicVal) {
		add("unexpected-panic", p.Exit, "a panic left the scope middleware / handler: %T %v", ob.propVal, ob.propVal)
	}

	// ---- exactly one CreateScope per request passing the middleware ----
	direct := cs.spec.Direct
	if direct {
		// the middleware holds the real provider: CreateScope is not observable, the request's
		// scope is what the first middleware / the handler saw
	} else if passesMW {
		if ob.createCalls != 1 {
			add("scope-per-request", p.Exit, "CreateScope was called %d times for one request (want exactly 1)", ob.createCalls)
			if ob.createCalls == 0 {
				return fs, ""
			}
		}
	} else if ob.createCalls != 0 {
		return fs, "CreateScope attributed to a request that does not pass the scope middleware"
	}

	var sc godi.Scope
	if created && direct {
		if len(ob.mws) > 0 {
			sc = ob.mws[0].scope
		} else {
			sc = ob.hScope
		}
		if sc != nil {
			cs.claimScope(st.id, sc)
		}
	} else if created {
		if len(ob.scopes) == 0 {
			// real godi refused to create a scope on an open provider: not C16's business
			return fs, fmt.Sprintf("real CreateScope failed on an open provider: %v", ob.createErrs)
		}
		sc = ob.scopes[0]
	} else if passesMW && p.Exit == ExitClosed && len(ob.scopes) > 0 {
		return fs, "real CreateScope succeeded on a closed provider (C13's business)"
	}

	// ---- application-scope workload: the request's scope is a fresh one, never the long-lived
	// scope the incoming context already carried ----
	if created && sc != nil && cs.appScope != nil && sc == cs.appScope {
		add("scope-fresh", p.Exit+":app-scope-reused", "the incoming request context derives from an application scope; the scope the request was served with IS that application scope (CreateScope calls attributed to the request: %d)", ob.createCalls)
	}

	// ---- the error handler runs instead of the handler when there is no scope ----
	if passesMW && !created {
		if len(ob.mws) > 0 {
			add("middleware-ran-without-scope", p.Exit, "%d configured middleware(s) ran although scope creation failed", len(ob.mws))
		}
		cs.checkErrH(&fs, st, ob, statusKnown, "scope-create-failure")
		if ob.handlerRuns > 0 {
			add("handler-ran-after-scope-create-failure", errHLabel(o.ErrH), "scope creation failed (%s), the error handler ran %d time(s) (custom handlers only are counted), and the route handler still ran %d time(s); status %d", p.Exit, ob.errHCalls, ob.handlerRuns, ob.status)
		}
		// what the failed creation had made for the request's scope is closed, once
		for _, i := range ob.initInsts {
			switch n := i.closes.Load(); {
			case n == 0:
				add("instance-close-count", p.Exit+":never-closed", "%s#%d, created for the scope of the request whose creation then failed, got no Close", i.kind, i.id)
			case n > 1:
				add("instance-close-count", p.Exit+":closed-twice", "%s#%d, created for the scope of the request whose creation then failed, got %d Close events", i.kind, i.id, n)
			}
		}
		return fs, ""
	}

	if created {
		// ---- configured middlewares: configuration order, same scope, same instance ----
		want := o.NMW
		if p.Exit == ExitMWErr {
			want = p.MWPos + 1
		}
		orderOK := len(ob.mws) == want
		for i := 0; orderOK && i < want; i++ {
			orderOK = ob.mws[i].pos == i
		}
		if !orderOK {
			got := make([]int, len(ob.mws))
			for i, m := range ob.mws {
				got[i] = m.pos
			}
			if p.Exit == ExitMWErr && len(ob.mws) > want {
				add("middleware-ran-after-middleware-error", p.Exit, "middleware %d failed but the middlewares that ran were %v", p.MWPos, got)
			} else {
				add("middleware-order", p.Exit, "configured middlewares ran as %v, want 0..%d in order", got, want-1)
			}
		}
		var svc int64
		for _, m := range ob.mws {
			if m.scope != sc {
				add("middleware-scope", p.Exit, "middleware %d was given a scope that is not the one CreateScope returned for this request", m.pos)
			} else if m.svc == 0 {
				add("middleware-scope", p.Exit, "middleware %d could not resolve the scoped service from the request's scope", m.pos)
			}
			if m.early {
				add("scope-closed-early", p.Exit, "middleware %d saw an already closed scoped instance", m.pos)
			}
			if m.svc != 0 {
				if svc == 0 {
					svc = m.svc
				} else if svc != m.svc {
					add("instance-per-request", p.Exit, "middlewares of one request resolved different scoped instances (%d, %d)", svc, m.svc)
				}
			}
		}

		if p.Exit == ExitMWErr {
			cs.checkErrH(&fs, st, ob, statusKnown, "middleware-error")
			if ob.handlerRuns > 0 {
				add("handler-ran-after-middleware-error", errHLabel(o.ErrH), "middleware %d returned an error, the error handler ran %d time(s) (custom handlers only are counted), and the route handler still ran %d time(s) (it saw FromContext err=%v, resolve err=%v); status %d", p.MWPos, ob.errHCalls, ob.handlerRuns, ob.hScopeErr, ob.hSvcErr, ob.status)
			}
		} else {
			if ob.errHCalls != 0 {
				add("error-handler-calls", p.Exit, "the scope middleware's error handler ran %d time(s) on a path without scope/middleware error", ob.errHCalls)
			}
			// ---- the handler runs once and sees that scope through the request context ----
			if ob.handlerRuns != 1 {
				add("handler-invocations", p.Exit, "the route handler ran %d times (want 1)", ob.handlerRuns)
			} else {
				if ob.hScope != sc || ob.hScopeErr != nil {
					add("handler-scope", p.Exit, "the handler's FromContext gave err=%v / a scope that is not this request's scope (same=%v)", ob.hScopeErr, ob.hScope == sc)
				} else if ob.hSvc == 0 {
					add("handler-scope", p.Exit, "the handler could not resolve the scoped service from its scope: %v", ob.hSvcErr)
				} else if svc != 0 && ob.hSvc != svc {
					add("instance-per-request", p.Exit, "the handler resolved scoped instance %d, the middlewares %d", ob.hSvc, svc)
				}
				if ob.hEarly {
					add("scope-closed-early", p.Exit, "the handler saw an already closed scoped instance")
				}
				if svc == 0 {
					svc = ob.hSvc
				}
			}
		}
	}

	// ---- Handle: method iff scope lookup and resolution succeeded, else exactly one error handler ----
	if expectHandler && ob.handlerRuns == 1 && p.Route != RoutePlain {
		feat := p.Exit + ":" + p.Route
		wantM, wantS, wantR := 0, 0, 0
		switch p.Route {
		case RouteNoScope:
			wantS = 1
		case RouteUnreg, RouteFailCtor:
			wantR = 1
		case RouteCtrl:
			wantM = 1
		}
		if ob.methodCalls != wantM {
			add("handle-method-calls", feat, "Handle called the controller method %d time(s), want %d", ob.methodCalls, wantM)
		}
		if o.HandleH == "custom" {
			if ob.scopeErrH != wantS || ob.resErrH != wantR {
				add("handle-error-handler-calls", feat, "Handle ran the scope-error handler %d time(s) and the resolution-error handler %d time(s), want %d and %d", ob.scopeErrH, ob.resErrH, wantS, wantR)
			}
		} else if wantS+wantR == 1 && statusKnown && ob.status != 500 {
			add("handle-error-handler-calls", feat, "Handle's default error handler answers 500; the response status was %d", ob.status)
		}
		if p.Route == RouteCtrl && ob.methodCalls == 1 {
			if ob.ctrlScope != sc {
				add("controller-scope", feat, "the controller Handle resolved was built in a scope that is not this request's scope")
			}
			if ob.hSvc != 0 && ob.ctrlSvc != ob.hSvc {
				add("instance-per-request", p.Exit, "the controller was injected scoped instance %d, the handler resolved %d", ob.ctrlSvc, ob.hSvc)
			}
			if ob.ctrlEarly {
				add("scope-closed-early", p.Exit, "the controller method ran on an already closed controller")
			}
			if p.Exit == ExitHPanic {
				rec := "recovery-off"
				if o.Recovery {
					rec = "recovery-on"
				}
				if o.Recovery {
					if ob.propagated {
						add("panic-not-swallowed", rec, "WithPanicRecovery(true) but the controller method's panic propagated out of Handle")
					}
					if o.HandleH == "custom" && ob.panicH != 1 {
						add("panic-handler-calls", rec, "custom panic handler ran %d time(s), want 1", ob.panicH)
					}
					if o.HandleH != "custom" && statusKnown && !ob.propagated && ob.status != 500 {
						add("panic-handler-calls", rec, "default panic handler answers 500; the response status was %d", ob.status)
					}
				} else {
					if !ob.propagated {
						add("panic-swallowed", rec, "panic recovery is not enabled but the controller method's panic did not propagate out of Handle / the scope middleware")
					}
					if ob.panicH != 0 {
						add("panic-handler-calls", rec, "panic handler ran %d time(s) with recovery disabled", ob.panicH)
					}
				}
			}
		}
	}

	// ---- the application scope outlives every request ----
	if cs.appScope != nil && !cs.providerClosed.Load() {
		if _, err := cs.appScope.Get(sharedType); err != nil {
			add("app-scope-closed", p.Exit, "after the request the application scope no longer resolves: %v", err)
		}
		if cs.appSvc != nil && cs.appSvc.closes.Load() != 0 {
			add("app-scope-closed", p.Exit, "after the request the application scope's own scoped instance has %d Close event(s)", cs.appSvc.closes.Load())
		}
	}

	// ---- every Handle wrapper of a chain resolves its controller itself: two wrappers of one
	// TRANSIENT controller type in front of the route see two different instances, both built in
	// the request's scope (and both wired to the request's scoped service) ----
	if len(ob.chain) > 0 {
		if len(ob.chain) != 2 {
			add("handle-chain", p.Exit, "the two chained Handle wrappers invoked their controller method %d time(s)", len(ob.chain))
		} else {
			a, b := ob.chain[0], ob.chain[1]
			if a.id == b.id {
				add("handle-chain-shares-transient-controller", p.Exit, "both chained Handle wrappers were given the same instance (%d) of the transient controller", a.id)
			}
			if sc != nil && (a.scope != sc || b.scope != sc) {
				add("handle-chain", p.Exit, "a chained Handle wrapper resolved its controller from a scope that is not the request's")
			}
		}
	}

	// ---- ... and it was so at the moment the request left the middleware chain ----
	// (fiber's middleware closes the scope after c.Next() returned, without defer: when a panic
	// propagates through it, the scope is closed by fasthttp's release of the request context -
	// the scope is an io.Closer user value - i.e. still when the request ends, but after the
	// outer middlewares unwound. That path is judged by the end-of-request clause below only.)
	// (A request whose context was cancelled under it - Exit abort - is closed by the scope's
	// context watcher; the middleware's own Close finds the scope being closed and returns nil
	// without waiting for the watcher, as a repeated Close may. The instances are then closed a
	// moment after the unwinding: that exit is judged by the end-of-request clause below, which
	// waits for the disposal, and by exactly-once.)
	if len(ob.unwindOpen) > 0 && !(fw == FWFiber && ob.propagated) && p.Exit != ExitAbort {
		add("scope-open-when-request-ended", p.Exit, "when the request left the scope middleware (deferred function of the outer middleware): %v", ob.unwindOpen)
	}

	// ---- the scope is disposed, its instances closed exactly once ----
	if created && sc != nil {
		insts := cs.instancesOf(sc)
		disposed := func() bool {
			_, err := sc.Get(sharedType)
			return err != nil && errors.Is(err, godi.ErrScopeDisposed)
		}
		closedOnce := func() bool {
			for _, i := range insts {
				if i.closes.Load() < 1 {
					return false
				}
			}
			return true
		}
		if p.Exit == ExitAbort {
			// godi's context watcher may have won the race against the deferred Close and still
			// be disposing on its own goroutine: bounded wait, expiry is inconclusive
			if !pollUntil(func() bool { return disposed() && closedOnce() }) {
				return fs, "abort path: scope not disposed / instances not closed within the polling bound"
			}
		}
		if !disposed() {
			_, err := sc.Get(sharedType)
			add("scope-not-closed", p.Exit, "after the request ended, Get on the request's scope returned err=%v (want an error that Is ErrScopeDisposed)", err)
		}
		for _, i := range insts {
			switch n := i.closes.Load(); {
			case n == 0:
				add("instance-close-count", p.Exit+":never-closed", "%s#%d created in the request's scope got no Close after the request ended", i.kind, i.id)
			case n > 1:
				add("instance-close-count", p.Exit+":closed-twice", "%s#%d created in the request's scope got %d Close events", i.kind, i.id, n)
			}
		}
	}
	return fs, ""
}

// checkErrH: "the error handler runs" — counted for custom handlers, inferred from the
// documented 500 for the default ones.
func (cs *caseState) checkErrH(fs *[]finding, st *reqState, ob obs, statusKnown bool, why string) {
	o := cs.spec.Opts
	feat := cs.spec.FW + ":" + why + ":" + errHLabel(o.ErrH) + cs.featSuffix()
	if o.ErrH == ErrHDefault || o.ErrH == ErrHNil {
		// gin+non-aborting is custom; for the default handler a later handler cannot have run
		// unless another clause fires, so the status is the default handler's
		if statusKnown && ob.handlerRuns == 0 && ob.status != 500 {
			*fs = append(*fs, finding{clause: "error-handler-calls", feature: feat, req: st.id,
				detail: fmt.Sprintf("%s: the default error handler answers 500; the response status was %d", why, ob.status)})
		}
		return
	}
	if ob.errHCalls != 1 {
		*fs = append(*fs, finding{clause: "error-handler-calls", feature: feat, req: st.id,
			detail: fmt.Sprintf("%s: the configured error handler ran %d time(s), want exactly 1", why, ob.errHCalls)})
	}
}
