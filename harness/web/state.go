package web

import (
	"context"
	"errors"
	"fmt"
	"reflect"
	"strconv"
	"sync"
	"sync/atomic"

	"github.com/junioryono/godi/v4"
)

// hdrReq is the request header that names the harness request.
const hdrReq = "X-Req"

// errInjected is what the spy provider returns when told to fail scope creation.
var errInjected = errors.New("verif: injected CreateScope failure")

// errMW is what a configured middleware returns at the planned failing position.
var errMW = errors.New("verif: injected middleware error")

// errHandler is what an error-returning handler returns on the handler-error path.
var errHandler = errors.New("verif: injected handler error")

// errCloseInjected is returned by a scoped instance's Close when the plan asks for it.
var errCloseInjected = errors.New("verif: injected Close error")

type reqCtxKey struct{}

// inst is the identity shared by every harness service instance.
type inst struct {
	id        int64
	kind      string     // ReqSvc | Ctrl | Shared
	scope     godi.Scope // the scope the constructor was handed (nil for the singleton)
	closes    atomic.Int32
	failClose atomic.Bool
	cs        *caseState
}

func (i *inst) close() error {
	i.closes.Add(1)
	i.cs.closeEvents.Add(1)
	if i.failClose.Load() {
		return errCloseInjected
	}
	return nil
}

// mwObs is what one configured middleware saw.
type mwObs struct {
	pos   int
	scope godi.Scope
	svc   int64 // instance id of *ReqSvc resolved from the scope it was given (0: resolve failed)
	early bool  // the instance was already closed when the middleware ran
}

// reqState is the plan and the observations of one request. All observation fields are
// guarded by mu (callbacks may run on server goroutines).
type reqState struct {
	id   int
	key  string
	plan Plan
	cs   *caseState

	mu              sync.Mutex
	createCalls     int
	scopes          []godi.Scope
	createErrs      []error
	initInsts       []*inst // InitDep instances the scope initializer received for this request
	initFailed      bool    // the scope initializer failed for this request (plan initfail)
	mws             []mwObs
	errHCalls       int // custom scope-middleware error handler invocations
	errHGotErr      error
	handlerRuns     int // route handler (composite probe) invocations
	hScope          godi.Scope
	hScopeErr       error
	hScopeNil       bool
	hSvc            int64
	hSvcErr         error
	hEarly          bool
	hUserCtxSame    int // fiber only: 1 same, -1 different, 0 n/a
	methodCalls     int
	methodKind      string
	ctrlID          int64
	ctrlScope       godi.Scope
	ctrlSvc         int64
	ctrlEarly       bool
	scopeErrH       int // custom Handle scope-error handler invocations
	resErrH         int // custom Handle resolution-error handler invocations
	panicH          int // custom Handle panic handler invocations
	propagated      bool
	propVal         any
	fwRecovered     bool
	driverRecovered bool
	doneTimeout     bool
	preEntered      int
	ctxCancelled    bool       // abort path: handler saw its context cancelled
	ctxTimeout      bool       // abort path: bounded wait expired
	chain           []chainObs // transient controllers seen by the chained Handle wrappers in front of the ctrl route
	unwindOpen      []string   // scopes of this request found open / with unclosed instances when the request left the chain
	unwindChecked   int

	entered chan struct{} // abort path: handler reached the wait point
	done    chan struct{} // the harness pre-middleware unwound (request left the chain)
	enterO  sync.Once
	doneO   sync.Once

	status int
	terr   error
}

func (st *reqState) signalEntered() { st.enterO.Do(func() { close(st.entered) }) }
func (st *reqState) signalDone()    { st.doneO.Do(func() { close(st.done) }) }

type chainObs struct {
	id    int64
	scope godi.Scope
	svc   int64
}

// caseState is everything shared by the requests of one case.
type caseState struct {
	spec *CaseSpec

	nextInst    atomic.Int64
	closeEvents atomic.Int64
	ctorCalls   atomic.Int64
	closeErrH   atomic.Int64 // CloseErrorHandler invocations (custom only)
	arrivals    atomic.Int64 // steering counter of concurrent batches
	unattrib    atomic.Int64 // CreateScope calls the spy could not attribute to a request

	providerClosed atomic.Bool
	appScope       godi.Scope // AppCtx cases: the application-level scope (set before any request)
	appSvc         *ReqSvc    // the application scope's own scoped instance

	mu        sync.Mutex
	reqs      map[string]*reqState
	byScope   map[godi.Scope][]*inst
	all       []*inst
	scopeOwn  map[godi.Scope]int // scope -> request id that received it from CreateScope
	instOwner map[int64]int      // instance id -> first request that saw it
	shared    []string           // instance-sharing witnesses
	inflight  map[int]*reqState
}

// cur is the case being executed by this worker (cases run one after another; constructors are
// top-level functions and find their case through it).
var cur atomic.Pointer[caseState]

func newCaseState(spec *CaseSpec) *caseState {
	return &caseState{
		spec:      spec,
		reqs:      map[string]*reqState{},
		byScope:   map[godi.Scope][]*inst{},
		scopeOwn:  map[godi.Scope]int{},
		instOwner: map[int64]int{},
		inflight:  map[int]*reqState{},
	}
}

func (cs *caseState) newReq(id int, p Plan) *reqState {
	st := &reqState{id: id, key: strconv.Itoa(id), plan: p, cs: cs, entered: make(chan struct{}), done: make(chan struct{})}
	cs.mu.Lock()
	cs.reqs[st.key] = st
	cs.mu.Unlock()
	return st
}

// lookup finds the request named by the X-Req header value.
func (cs *caseState) lookup(key string) *reqState {
	cs.mu.Lock()
	st := cs.reqs[key]
	cs.mu.Unlock()
	if st == nil {
		// never expected; keep the callbacks total
		st = &reqState{id: -1, key: key, cs: cs, entered: make(chan struct{}), done: make(chan struct{})}
	}
	return st
}

func (cs *caseState) newInst(kind string, sc godi.Scope) *inst {
	i := &inst{id: cs.nextInst.Add(1), kind: kind, scope: sc, cs: cs}
	cs.ctorCalls.Add(1)
	cs.mu.Lock()
	cs.all = append(cs.all, i)
	if sc != nil {
		cs.byScope[sc] = append(cs.byScope[sc], i)
	}
	cs.mu.Unlock()
	return i
}

func (cs *caseState) instancesOf(sc godi.Scope) []*inst {
	cs.mu.Lock()
	defer cs.mu.Unlock()
	return append([]*inst(nil), cs.byScope[sc]...)
}

// appOwner is the pseudo request id that owns the application scope's instances.
const appOwner = -100

// claimScope records that request req was served with scope sc (Direct cases: no spy).
func (cs *caseState) claimScope(req int, sc godi.Scope) {
	cs.mu.Lock()
	if o, dup := cs.scopeOwn[sc]; !dup {
		cs.scopeOwn[sc] = req
	} else if o != req && len(cs.shared) < 8 {
		cs.shared = append(cs.shared, fmt.Sprintf("scope seen by request %d was already seen by request %d", req, o))
	}
	cs.mu.Unlock()
}

// sawInst records that request req observed instance id; a second request observing the same
// scoped instance is the "shared between requests" refutation.
func (cs *caseState) sawInst(req int, i *inst) {
	if i == nil || i.kind == "Shared" {
		return
	}
	cs.mu.Lock()
	if o, ok := cs.instOwner[i.id]; !ok {
		cs.instOwner[i.id] = req
	} else if o != req && len(cs.shared) < 8 {
		if o == appOwner {
			cs.shared = append(cs.shared, fmt.Sprintf("%s#%d of the application scope seen by request %d", i.kind, i.id, req))
		} else {
			cs.shared = append(cs.shared, fmt.Sprintf("%s#%d seen by request %d and request %d", i.kind, i.id, o, req))
		}
	}
	cs.mu.Unlock()
}

// ---- spy provider -------------------------------------------------------------------------

// spy delegates to the real provider, counts CreateScope per request, fails on demand and
// remembers the scope each request was given.
type spy struct {
	real godi.Provider
	cs   *caseState
}

var _ godi.Provider = (*spy)(nil)

func (s *spy) Close() error { return s.real.Close() }
func (s *spy) ID() string   { return s.real.ID() }
func (s *spy) Get(t reflect.Type) (any, error) {
	return s.real.Get(t)
}
func (s *spy) GetKeyed(t reflect.Type, k any) (any, error) { return s.real.GetKeyed(t, k) }
func (s *spy) GetGroup(t reflect.Type, g string) ([]any, error) {
	return s.real.GetGroup(t, g)
}

func (s *spy) CreateScope(ctx context.Context) (godi.Scope, error) {
	var st *reqState
	if ctx != nil {
		st, _ = ctx.Value(reqCtxKey{}).(*reqState)
	}
	if st == nil {
		// the integration did not hand us the request's context: attribute to the single
		// in-flight request when there is exactly one, otherwise give up on attribution
		s.cs.mu.Lock()
		if len(s.cs.inflight) == 1 {
			for _, x := range s.cs.inflight {
				st = x
			}
		}
		s.cs.mu.Unlock()
	}
	if st == nil {
		s.cs.unattrib.Add(1)
		return s.real.CreateScope(ctx)
	}
	st.mu.Lock()
	st.createCalls++
	fail := st.plan.Exit == ExitCreateFail
	st.mu.Unlock()
	if fail {
		st.mu.Lock()
		st.createErrs = append(st.createErrs, errInjected)
		st.mu.Unlock()
		return nil, errInjected
	}
	sc, err := s.real.CreateScope(ctx)
	st.mu.Lock()
	if err != nil {
		st.createErrs = append(st.createErrs, err)
	} else {
		st.scopes = append(st.scopes, sc)
	}
	st.mu.Unlock()
	if err == nil {
		s.cs.mu.Lock()
		if _, dup := s.cs.scopeOwn[sc]; !dup {
			s.cs.scopeOwn[sc] = st.id
		} else if len(s.cs.shared) < 8 {
			s.cs.shared = append(s.cs.shared, fmt.Sprintf("scope handed to request %d was already handed to request %d", st.id, s.cs.scopeOwn[sc]))
		}
		s.cs.mu.Unlock()
	}
	return sc, err
}
