package web

import (
	"context"

	"github.com/gofiber/fiber/v2"
	fiberrecover "github.com/gofiber/fiber/v2/middleware/recover"
	"github.com/junioryono/godi/v4"
	godifiber "github.com/junioryono/godi/v4/fiber"
)

// buildFiber builds a fiber app: recover -> pre -> { /n/ctrl ; group /s with ScopeMiddleware }.
// fasthttp does not recover handler panics, so fiber's recover middleware is always installed.
func buildFiber(cs *caseState, sp godi.Provider) *fiber.App {
	o := cs.spec.Opts
	look := func(c *fiber.Ctx) *reqState { return cs.lookup(c.Get(hdrReq)) }

	var so []godifiber.Option
	if o.ErrH == ErrHNil {
		so = append(so, godifiber.WithErrorHandler(nil))
	} else if o.ErrH != ErrHDefault {
		so = append(so, godifiber.WithErrorHandler(func(c *fiber.Ctx, err error) error {
			look(c).onErrH(err)
			return c.SendStatus(stErrH)
		}))
	}
	if o.CloseH == "nil-option" {
		so = append(so, godifiber.WithCloseErrorHandler(nil))
	}
	if o.CloseH == "custom" {
		so = append(so, godifiber.WithCloseErrorHandler(func(error) { cs.closeErrH.Add(1) }))
	}
	for i := 0; i < o.NMW; i++ {
		pos := i
		so = append(so, godifiber.WithMiddleware(func(sc godi.Scope, c *fiber.Ctx) error { return look(c).onMW(pos, sc) }))
	}
	var ho []godifiber.HandlerOption
	if o.Recovery {
		ho = append(ho, godifiber.WithPanicRecovery(true))
	}
	if o.HandleH == "custom" {
		ho = append(ho,
			godifiber.WithPanicHandler(func(c *fiber.Ctx, v any) error { look(c).onPanicH(); return c.SendStatus(stPanicH) }),
			godifiber.WithScopeErrorHandler(func(c *fiber.Ctx, err error) error { look(c).onScopeErrH(); return c.SendStatus(stScopeErr) }),
			godifiber.WithResolutionErrorHandler(func(c *fiber.Ctx, err error) error { look(c).onResErrH(); return c.SendStatus(stResErr) }),
		)
	}

	act := func(st *reqState, a action, c *fiber.Ctx) error {
		switch a {
		case actErr:
			return fiber.NewError(stHErr, "teapot")
		case actPanic:
			panic(panicVal)
		}
		return c.SendStatus(fiber.StatusOK)
	}
	hCtrl := godifiber.Handle(func(k *Ctrl, c *fiber.Ctx) error {
		st := look(c)
		return act(st, st.onMethod(RouteCtrl, k), c)
	}, ho...)
	hUnreg := godifiber.Handle(func(k *UnregCtrl, c *fiber.Ctx) error {
		st := look(c)
		return act(st, st.onMethod(RouteUnreg, nil), c)
	}, ho...)
	hFail := godifiber.Handle(func(k *FailCtrl, c *fiber.Ctx) error {
		st := look(c)
		return act(st, st.onMethod(RouteFailCtor, nil), c)
	}, ho...)

	route := func(inner fiber.Handler) fiber.Handler {
		return func(c *fiber.Ctx) error {
			st := look(c)
			sc := godifiber.FromContext(c) // the integration's accessor (locals)
			var err error
			if sc == nil {
				err = godi.ErrScopeDisposed // what godifiber.Handle reports for "no scope in locals"
			}
			st.onProbe(sc, err)
			// documented too: the scope is attached to the UserContext (recorded, not asserted)
			if sc != nil {
				uc, uerr := godi.FromContext(c.UserContext())
				st.mu.Lock()
				if uerr == nil && uc == sc {
					st.hUserCtxSame = 1
				} else {
					st.hUserCtxSame = -1
				}
				st.mu.Unlock()
			}
			if inner != nil {
				return inner(c)
			}
			return act(st, st.plannedAction(), c)
		}
	}

	app := fiber.New(fiber.Config{DisableStartupMessage: true})
	app.Use(fiberrecover.New())
	app.Use(func(c *fiber.Ctx) error {
		st := look(c)
		st.onPre()
		base := c.UserContext()
		if app := cs.appScope; app != nil {
			// application-scope workload: the request's UserContext derives from a long-lived scope
			base = app.Context()
		}
		c.SetUserContext(context.WithValue(base, reqCtxKey{}, st))
		defer func() {
			v := recover()
			st.onUnwind(v)
			if v != nil {
				st.onFwRecover()
				panic(v)
			}
		}()
		return c.Next()
	})
	app.Get(routePath(RouteNoScope), route(hCtrl))
	s := app.Group("/s", godifiber.ScopeMiddleware(sp, so...))
	// a second, differently configured ScopeMiddleware and Handle in the same process
	var so2 []godifiber.Option
	for i := 0; i <= o.NMW; i++ {
		pos := foreignMW + i
		so2 = append(so2, godifiber.WithMiddleware(func(sc godi.Scope, c *fiber.Ctx) error { return look(c).onMW(pos, sc) }))
	}
	d := app.Group("/d", godifiber.ScopeMiddleware(sp, so2...))
	d.Get("/"+RouteCtrl, godifiber.Handle(func(k *Ctrl, c *fiber.Ctx) error { return c.SendStatus(200) }, godifiber.WithPanicRecovery(!o.Recovery)))
	hT := func() fiber.Handler {
		return godifiber.Handle(func(k *TCtrl, c *fiber.Ctx) error { look(c).onChain(k); return nil }, godifiber.WithPanicRecovery(o.Recovery))
	}
	hT1, hT2, hMain := hT(), hT(), route(hCtrl)
	s.Get("/"+RouteCtrl, func(c *fiber.Ctx) error {
		if err := hT1(c); err != nil {
			return err
		}
		if err := hT2(c); err != nil {
			return err
		}
		return hMain(c)
	})
	s.Get("/"+RoutePlain, route(nil))
	s.Get("/"+RouteUnreg, route(hUnreg))
	s.Get("/"+RouteFailCtor, route(hFail))
	return app
}
