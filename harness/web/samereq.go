package web

import (
	"context"
	"fmt"
	"net/http"
	"net/http/httptest"
	"sync"

	"github.com/gin-gonic/gin"
	"github.com/junioryono/godi/v4"
	godichi "github.com/junioryono/godi/v4/chi"
	godiecho "github.com/junioryono/godi/v4/echo"
	godigin "github.com/junioryono/godi/v4/gin"
	godihttp "github.com/junioryono/godi/v4/http"
	"github.com/junioryono/godi/v4/verifh/eng"
	"github.com/labstack/echo/v4"
)

// One *http.Request value dispatched through the scope middleware more than once, one pass after
// the other (a retry / fallback wrapper, an internal re-dispatch, a test reusing its request).
//
// The request object belongs to the caller: a handler may derive from it, never change it. Every
// pass is "a request passing the scope middleware": it gets its own fresh scope, live for the
// whole pass (the context the handler sees is not done, the scoped instance is open while the
// handler runs) and closed exactly once when the pass ends; after the passes the caller's request
// still carries the caller's context.

type srSvc struct {
	mu     *sync.Mutex
	id     int
	closed *int
}

func (s *srSvc) Close() error { s.mu.Lock(); *s.closed++; s.mu.Unlock(); return nil }

type srPass struct {
	scopeErr   error
	ctxDoneIn  bool // request context already done at handler entry
	svcErr     error
	svcID      int
	closedIn   int // close count of the pass's instance when the handler returns
	scopeAlive bool
}

type srWorld struct {
	mu     sync.Mutex
	nextID int
	closes map[int]*int
	passes []*srPass
}

func (w *srWorld) handle(ctx context.Context) {
	p := &srPass{}
	w.mu.Lock()
	w.passes = append(w.passes, p)
	w.mu.Unlock()
	p.ctxDoneIn = ctx.Err() != nil
	sc, err := godi.FromContext(ctx)
	p.scopeErr = err
	if err != nil || sc == nil {
		return
	}
	svc, err := godi.Resolve[*srSvc](sc)
	p.svcErr = err
	if err != nil {
		return
	}
	p.svcID = svc.id
	// use the scope once more at the end of the handler: it must still be open
	_, err2 := godi.Resolve[*srSvc](sc)
	p.scopeAlive = err2 == nil
	w.mu.Lock()
	p.closedIn = *svc.closed
	w.mu.Unlock()
}

func runSameRequestTwice(c *eng.Ctx, next func() (int, bool)) {
	for _, fw := range []string{"nethttp", "chi", "gin", "echo"} {
		for _, passes := range []int{2, 3} {
			idx, mine := next()
			if !mine {
				continue
			}
			c.R.Begin(idx)
			w := &srWorld{closes: map[int]*int{}}
			viol := func(clause, detail string) {
				c.R.Violation(eng.Violation{Prop: "C16", Clause: clause, Sig: "C16/" + clause + ":" + fw + ":same-request-object-dispatched-again", Case: idx, CaseID: fmt.Sprintf("same-request-%s-%d", fw, passes),
					Detail: fmt.Sprintf("%s, one *http.Request dispatched %d times in a row: %s", fw, passes, detail), Replay: map[string]any{"fixture": "same-request-twice", "framework": fw, "passes": passes}})
			}
			func() {
				defer func() {
					if p := recover(); p != nil {
						viol("panic", fmt.Sprintf("panic: %v", p))
					}
				}()
				coll := godi.NewCollection()
				if err := coll.AddScoped(func() *srSvc {
					w.mu.Lock()
					defer w.mu.Unlock()
					w.nextID++
					n := new(int)
					w.closes[w.nextID] = n
					return &srSvc{mu: &w.mu, id: w.nextID, closed: n}
				}); err != nil {
					panic("same-request fixture: " + err.Error())
				}
				prov, err := coll.Build()
				if err != nil {
					panic("same-request fixture does not build: " + err.Error())
				}
				defer prov.Close()
				var h http.Handler
				switch fw {
				case "nethttp":
					h = godihttp.ScopeMiddleware(prov)(http.HandlerFunc(func(rw http.ResponseWriter, r *http.Request) { w.handle(r.Context()); rw.WriteHeader(200) }))
				case "chi":
					h = godichi.ScopeMiddleware(prov)(http.HandlerFunc(func(rw http.ResponseWriter, r *http.Request) { w.handle(r.Context()); rw.WriteHeader(200) }))
				case "gin":
					e := gin.New()
					e.Use(godigin.ScopeMiddleware(prov))
					e.GET("/x", func(gc *gin.Context) { w.handle(gc.Request.Context()); gc.Status(200) })
					h = e
				default:
					e := echo.New()
					e.Use(godiecho.ScopeMiddleware(prov))
					e.GET("/x", func(ec echo.Context) error { w.handle(ec.Request().Context()); return ec.NoContent(200) })
					h = e
				}
				type callerKey struct{}
				callerCtx := context.WithValue(context.Background(), callerKey{}, "caller")
				req := httptest.NewRequest(http.MethodGet, "/x", nil).WithContext(callerCtx)
				for i := 0; i < passes; i++ {
					h.ServeHTTP(httptest.NewRecorder(), req)
				}
				c.R.Count("same_request_passes", int64(passes))
				if req.Context() != callerCtx {
					viol("caller-request-modified", "after the passes the caller's request no longer carries the caller's context (a handler must not change the request it is given)")
				}
				w.mu.Lock()
				defer w.mu.Unlock()
				if len(w.passes) != passes {
					viol("handler-not-run", fmt.Sprintf("the handler ran %d times", len(w.passes)))
				}
				seen := map[int]bool{}
				for i, p := range w.passes {
					switch {
					case p.scopeErr != nil:
						viol("scope-not-visible", fmt.Sprintf("pass %d: FromContext on the request context: %v", i+1, p.scopeErr))
					case p.ctxDoneIn:
						viol("scope-closed-early", fmt.Sprintf("pass %d: the request context the handler sees is already done at handler entry", i+1))
					case p.svcErr != nil:
						viol("scope-closed-early", fmt.Sprintf("pass %d: resolving a scoped service from the request's scope fails inside the handler: %v", i+1, p.svcErr))
					case !p.scopeAlive || p.closedIn != 0:
						viol("scope-closed-early", fmt.Sprintf("pass %d: the request's scope was closed (instance closed %d times, scope usable: %v) while the handler was still running", i+1, p.closedIn, p.scopeAlive))
					case seen[p.svcID]:
						viol("scope-reused", fmt.Sprintf("pass %d received the scoped instance of an earlier pass", i+1))
					}
					seen[p.svcID] = true
				}
				for id, n := range w.closes {
					if *n != 1 {
						viol("scope-close-count", fmt.Sprintf("the scoped instance %d of a finished pass was closed %d times", id, *n))
					}
				}
			}()
			c.R.End(idx, eng.Hash("c16-same-request", fw, passes), true)
		}
	}
}
