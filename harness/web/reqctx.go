package web

import (
	"context"
	"fmt"
	"net/http"
	"net/http/httptest"
	"sync"

	"github.com/gin-gonic/gin"
	"github.com/gofiber/fiber/v2"
	"github.com/junioryono/godi/v4"
	godichi "github.com/junioryono/godi/v4/chi"
	godiecho "github.com/junioryono/godi/v4/echo"
	godifiber "github.com/junioryono/godi/v4/fiber"
	godigin "github.com/junioryono/godi/v4/gin"
	godihttp "github.com/junioryono/godi/v4/http"
	"github.com/junioryono/godi/v4/verifh/core"
	"github.com/junioryono/godi/v4/verifh/eng"
	"github.com/labstack/echo/v4"
)

// The request's context is the context the request's scope is created with.
//
// An upstream middleware (tracing, authentication, a per-request deadline) installs a context
// for the request before the scope middleware runs - for net/http, chi, gin and echo on the
// *http.Request, for fiber with SetUserContext. "The scope's context carries the values and
// cancellation of the context passed to CreateScope", and that context is the request's: the
// value installed upstream is visible through scope.Context() and through the context.Context
// injected into the request's services, and cancelling the upstream context cancels both.

type rcKey struct{}

type rcSvc struct{ ctx context.Context }

func rcNewSvc(ctx context.Context) *rcSvc { return &rcSvc{ctx} }

type rcObs struct {
	mu                   sync.Mutex
	handled              int
	scopeVal, injVal     []any
	scopeCtx, injCtx     []context.Context
	scopeErr, resolveErr []error
}

func (o *rcObs) note(sc godi.Scope, err error) {
	o.mu.Lock()
	defer o.mu.Unlock()
	o.handled++
	if sc == nil {
		o.scopeErr = append(o.scopeErr, err)
		return
	}
	o.scopeVal = append(o.scopeVal, sc.Context().Value(rcKey{}))
	o.scopeCtx = append(o.scopeCtx, sc.Context())
	svc, rerr := godi.Resolve[*rcSvc](sc)
	if rerr != nil {
		o.resolveErr = append(o.resolveErr, rerr)
		return
	}
	o.injVal = append(o.injVal, svc.ctx.Value(rcKey{}))
	o.injCtx = append(o.injCtx, svc.ctx)
}

func init() {
	core.C18Web = func(c *eng.Ctx, next func() (int, bool)) { RunRequestContextCarried(c, "C18", next) }
}

// RunRequestContextCarried: one case per integration.
func RunRequestContextCarried(c *eng.Ctx, prop string, next func() (int, bool)) {
	for _, fw := range []string{"nethttp", "chi", "gin", "echo", "fiber"} {
		idx, mine := next()
		if !mine {
			continue
		}
		c.R.Begin(idx)
		ob := &rcObs{}
		viol := func(clause, detail string) {
			c.R.Violation(eng.Violation{Prop: prop, Clause: clause, Sig: prop + "/" + clause + ":" + fw + ":context-installed-by-an-upstream-middleware", Case: idx, CaseID: "request-context-" + fw,
				Detail: fw + ", an upstream middleware installs the request's context before the scope middleware: " + detail, Replay: map[string]any{"fixture": "request-context-carried", "framework": fw}})
		}
		func() {
			defer func() {
				if p := recover(); p != nil {
					viol("panic", fmt.Sprintf("panic: %v", p))
				}
			}()
			coll := godi.NewCollection()
			if err := coll.AddScoped(rcNewSvc); err != nil {
				panic("request-context fixture: " + err.Error())
			}
			prov, err := coll.Build()
			if err != nil {
				panic("request-context fixture does not build: " + err.Error())
			}
			defer prov.Close()
			const requests = 4
			var cancels []context.CancelFunc
			upstream := func(base context.Context, i int) context.Context {
				ctx, cancel := context.WithCancel(context.WithValue(base, rcKey{}, fmt.Sprintf("req-%d", i)))
				ob.mu.Lock()
				cancels = append(cancels, cancel)
				ob.mu.Unlock()
				return ctx
			}
			n := 0
			var do func()
			switch fw {
			case "nethttp", "chi":
				var mw func(http.Handler) http.Handler
				if fw == "chi" {
					mw = godichi.ScopeMiddleware(prov)
				} else {
					mw = godihttp.ScopeMiddleware(prov)
				}
				inner := mw(http.HandlerFunc(func(rw http.ResponseWriter, r *http.Request) {
					sc, err := godi.FromContext(r.Context())
					ob.note(sc, err)
					rw.WriteHeader(200)
				}))
				h := http.HandlerFunc(func(rw http.ResponseWriter, r *http.Request) {
					n++
					inner.ServeHTTP(rw, r.WithContext(upstream(r.Context(), n)))
				})
				do = func() { h.ServeHTTP(httptest.NewRecorder(), httptest.NewRequest(http.MethodGet, "/x", nil)) }
			case "gin":
				e := gin.New()
				e.Use(func(gc *gin.Context) {
					n++
					gc.Request = gc.Request.WithContext(upstream(gc.Request.Context(), n))
					gc.Next()
				})
				e.Use(godigin.ScopeMiddleware(prov))
				e.GET("/x", func(gc *gin.Context) {
					sc, err := godi.FromContext(gc.Request.Context())
					ob.note(sc, err)
					gc.Status(200)
				})
				do = func() { e.ServeHTTP(httptest.NewRecorder(), httptest.NewRequest(http.MethodGet, "/x", nil)) }
			case "echo":
				e := echo.New()
				e.Use(func(nextH echo.HandlerFunc) echo.HandlerFunc {
					return func(ec echo.Context) error {
						n++
						ec.SetRequest(ec.Request().WithContext(upstream(ec.Request().Context(), n)))
						return nextH(ec)
					}
				})
				e.Use(godiecho.ScopeMiddleware(prov))
				e.GET("/x", func(ec echo.Context) error {
					sc, err := godi.FromContext(ec.Request().Context())
					ob.note(sc, err)
					return ec.NoContent(200)
				})
				do = func() { e.ServeHTTP(httptest.NewRecorder(), httptest.NewRequest(http.MethodGet, "/x", nil)) }
			default:
				app := fiber.New(fiber.Config{DisableStartupMessage: true})
				app.Use(func(fc *fiber.Ctx) error {
					n++
					fc.SetUserContext(upstream(fc.UserContext(), n))
					return fc.Next()
				})
				app.Use(godifiber.ScopeMiddleware(prov))
				app.Get("/x", func(fc *fiber.Ctx) error {
					sc := godifiber.FromContext(fc)
					ob.note(sc, nil)
					return fc.SendStatus(200)
				})
				defer app.Shutdown()
				do = func() {
					if resp, err := app.Test(httptest.NewRequest(http.MethodGet, "/x", nil), -1); err == nil {
						_ = resp.Body.Close()
					}
				}
			}
			for i := 0; i < requests; i++ {
				do()
			}
			c.R.Count("request_context_requests", requests)
			ob.mu.Lock()
			defer ob.mu.Unlock()
			if ob.handled != requests || len(ob.scopeErr) > 0 || len(ob.resolveErr) > 0 {
				viol("handler-without-scope", fmt.Sprintf("%d of %d requests reached the handler; scope errors %v, resolution errors %v", ob.handled, requests, ob.scopeErr, ob.resolveErr))
				return
			}
			for i := range ob.scopeVal {
				want := fmt.Sprintf("req-%d", i+1)
				if ob.scopeVal[i] != any(want) {
					viol("value-lost", fmt.Sprintf("request %d: scope.Context().Value(key) = %v, the upstream middleware had installed %q", i+1, ob.scopeVal[i], want))
				}
				if i < len(ob.injVal) && ob.injVal[i] != any(want) {
					viol("value-lost", fmt.Sprintf("request %d: the context.Context injected into the request's scoped service carries %v under the key, the upstream middleware had installed %q", i+1, ob.injVal[i], want))
				}
			}
			// the scopes are closed by now (their contexts are done anyway); cancellation is
			// judged on a scope created the same way but left open: see below
		}()
		c.R.End(idx, eng.Hash("request-context", prop, fw), true)
	}
}
