package web

import (
	"context"
	"errors"

	"github.com/junioryono/godi/v4"
)

// Shared is a singleton used by the scoped services (sharing it between requests is fine).
type Shared struct{ *inst }

// Close records the close event.
func (s *Shared) Close() error { return s.inst.close() }

// ReqSvc is the scoped disposable every middleware / handler / controller resolves.
type ReqSvc struct {
	*inst
	shared *Shared
}

// Close records the close event.
func (s *ReqSvc) Close() error { return s.inst.close() }

// Ctrl is the controller resolved by Handle; it records the scope it was built in.
type Ctrl struct {
	*inst
	svc *ReqSvc
}

// Close records the close event.
func (c *Ctrl) Close() error { return c.inst.close() }

// TCtrl is a TRANSIENT controller: every Handle wrapper a request passes is a resolution of its
// own and gets a fresh instance built in the request's scope.
type TCtrl struct {
	*inst
	shared *Shared
}

// Close records the close event.
func (c *TCtrl) Close() error { return c.inst.close() }

func newTCtrl(sc godi.Scope, sh *Shared) *TCtrl { // a transient may not depend on the scoped ReqSvc
	return &TCtrl{inst: cur.Load().newInst("TCtrl", sc), shared: sh}
}

// FailCtrl is a controller whose constructor always fails (after its dependency was built).
type FailCtrl struct{ *inst }

// UnregCtrl is a controller type that is never registered.
type UnregCtrl struct{ _ int }

var errCtor = errors.New("verif: controller constructor fails")

func newShared() *Shared { return &Shared{inst: cur.Load().newInst("Shared", nil)} }

func newReqSvc(sc godi.Scope, sh *Shared) *ReqSvc {
	return &ReqSvc{inst: cur.Load().newInst("ReqSvc", sc), shared: sh}
}

func newCtrl(sc godi.Scope, s *ReqSvc) *Ctrl {
	return &Ctrl{inst: cur.Load().newInst("Ctrl", sc), svc: s}
}

func newFailCtrl(sc godi.Scope, s *ReqSvc) (*FailCtrl, error) {
	cur.Load().ctorCalls.Add(1)
	return nil, errCtor
}

// InitDep is a transient disposable that the scope initializer takes: it is created for every
// scope - also for one whose creation then fails.
type InitDep struct{ *inst }

// Close records the close event.
func (d *InitDep) Close() error { return d.inst.close() }

func newInitDep(sc godi.Scope) *InitDep { return &InitDep{inst: cur.Load().newInst("InitDep", sc)} }

var errInitInjected = errors.New("verif: scope initializer fails for this request")

// reqInit is a scope initializer (a constructor without a result). It fails when the plan of the
// request the scope is created for says so.
func reqInit(ctx context.Context, d *InitDep) error {
	st, _ := ctx.Value(reqCtxKey{}).(*reqState)
	if st == nil {
		return nil // root scope, application scope, or an integration that hides the request context
	}
	st.mu.Lock()
	defer st.mu.Unlock()
	st.initInsts = append(st.initInsts, d.inst)
	if st.plan.Exit == ExitInitFail {
		st.initFailed = true
		return errInitInjected
	}
	return nil
}

// buildProvider registers the harness services with real godi and builds the provider.
func buildProvider() (godi.Provider, error) {
	c := godi.NewCollection()
	if err := c.AddSingleton(newShared); err != nil {
		return nil, err
	}
	if err := c.AddScoped(newReqSvc); err != nil {
		return nil, err
	}
	if err := c.AddScoped(newCtrl); err != nil {
		return nil, err
	}
	if err := c.AddScoped(newFailCtrl); err != nil {
		return nil, err
	}
	if err := c.AddTransient(newTCtrl); err != nil {
		return nil, err
	}
	if err := c.AddTransient(newInitDep); err != nil {
		return nil, err
	}
	if err := c.AddScoped(reqInit); err != nil {
		return nil, err
	}
	return c.Build()
}
