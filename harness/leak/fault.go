package leak

import (
	"context"
	"fmt"

	"github.com/junioryono/godi/v4"
)

// faultFn returns the function the plan makes fail for (initializer index, kind); ok=false
// when the combination cannot fire at that position (the dependency is already cached by an
// earlier initializer, or a void initializer is asked to return an error).
func faultFn(inits []int, pos int, kind string) (fn int, panics, ok bool) {
	ifn := initFns[inits[pos]]
	switch kind {
	case fkErr:
		if ifn == fnInitCtx {
			return 0, false, false // void
		}
		return ifn, false, true
	case fkPanic:
		return ifn, true, true
	case fkDepE, fkDepP:
		dep, has := initDepFn[ifn]
		if !has {
			return 0, false, false
		}
		// the dependency must be built fresh at this position
		for _, j := range inits[:pos] {
			e := initFns[j]
			if e == ifn {
				continue
			}
			if dep == fnSA && (e == fnInitA || e == fnInitB) {
				return 0, false, false
			}
			if dep == fnSB && e == fnInitB {
				return 0, false, false
			}
		}
		return dep, kind == fkDepP, true
	}
	return 0, false, false
}

// okCycle is one fault-free flat cycle (used before and after the failing creation).
//
//go:noinline
func (e *env) okCycle(cr creator, level int8) {
	sc, serial, err := e.create(cr, e.rootCtx(e.spec.Parent, nil), level)
	if err != nil {
		if e.poisoned == "" {
			e.poisoned = fmt.Sprintf("unexpected CreateScope failure without an armed fault: %v", err)
		}
		return
	}
	e.use(sc, serial, e.spec.Use)
	e.closeScope(sc, serial, cbClose)
}

func (e *env) arm(fn int, panics bool) {
	e.reg.mu.Lock()
	e.reg.faults = []faultPlan{{fn: fn, from: 1, to: 1 << 30, panics: panics}}
	e.reg.mu.Unlock()
}

func (e *env) disarm() {
	e.reg.mu.Lock()
	e.reg.faults = nil
	e.reg.mu.Unlock()
}

// sampleAtReturn records, for every instance built for the given failed creation, how often
// it had been closed when the creation call returned (information only).
func (e *env) sampleAtReturn(owner int32) {
	r := e.reg
	r.mu.Lock()
	for i := range r.insts {
		if r.insts[i].owner == owner && r.insts[i].closesAtReturn < 0 {
			r.insts[i].closesAtReturn = r.insts[i].closes
		}
	}
	r.mu.Unlock()
}

// failingCreate performs the armed CreateScope calls on cr. Keeps nothing.
//
//go:noinline
func (e *env) failingCreate(cr creator, level int8, fn int, panics bool) {
	sp := e.spec
	for k := 0; k < sp.Repeat && e.poisoned == ""; k++ {
		firedBefore := e.firedCount()
		e.arm(fn, panics)
		sc, serial, err := e.create(cr, e.rootCtx(sp.Parent, nil), level)
		e.disarm()
		e.sampleAtReturn(serial)
		fired := e.firedCount() > firedBefore
		switch {
		case !fired:
			e.inconcl = append(e.inconcl, fmt.Sprintf("the planned fault (%s at initializer position %d) was never reached during %s", sp.FKind, sp.Pos, e.whereClass()))
			if sc != nil {
				e.closeScope(sc, serial, cbClose)
			}
			return
		case err == nil:
			// the initializer failed, yet a scope came back
			e.violation("init-failure-swallowed", "C14/init-failure-swallowed:where="+e.whereClass(),
				fmt.Sprintf("%s returned a scope and no error although scope initializer %s failed (%s) during the creation", e.whereClass(), fnNames[initFns[sp.Inits[sp.Pos]]], sp.FKind))
			e.closeScope(sc, serial, cbClose)
		default:
			e.nFailed++
			e.c.R.Count("failed_creations", 1)
		}
	}
}

func (e *env) firedCount() int {
	e.reg.mu.Lock()
	defer e.reg.mu.Unlock()
	return e.reg.fired
}

// runFault: initializer at position Pos fails during Build / provider.CreateScope /
// scope.CreateScope; a failed creation must leave nothing behind.
func (e *env) runFault() (stats []cpStats) {
	sp := e.spec
	fn, panics, ok := faultFn(sp.Inits, sp.Pos, sp.FKind)
	if !ok {
		e.poisoned = "invalid fault combination (generator bug)"
		return
	}
	if sp.Where == "build" {
		e.arm(fn, panics)
		err := e.build(true)
		e.disarm()
		e.sampleAtReturn(-1)
		if e.firedCount() == 0 {
			e.inconcl = append(e.inconcl, "the planned fault was never reached during Build")
			return
		}
		if err == nil {
			e.violation("init-failure-swallowed", "C14/init-failure-swallowed:where=Build",
				fmt.Sprintf("Build succeeded although root-scope initializer %s failed (%s)", fnNames[initFns[sp.Inits[sp.Pos]]], sp.FKind))
			return
		}
		e.nFailed++
		e.c.R.Count("failed_creations", 1)
		// Build returned an error: there is no provider, this is the end of the history
		stats = append(stats, e.checkpoint("after the failed Build", 0, true))
		return
	}

	if err := e.build(false); err != nil {
		e.poisoned = "Build failed: " + err.Error()
		return
	}
	for i := 0; i < 2 && e.poisoned == ""; i++ {
		e.okCycle(e.p, 0)
	}
	// parents of the failing creation
	depth := map[string]int{"provider": 0, "child": 1, "grandchild": 2}[sp.Where]
	var parents []godi.Scope
	var pser []int32
	var cr creator = e.p
	for i := 0; i < depth && e.poisoned == ""; i++ {
		var ctx context.Context = e.rootCtx(sp.Parent, nil)
		if i > 0 {
			ctx = nil
		}
		sc, serial, err := e.create(cr, ctx, int8(i))
		if err != nil {
			e.poisoned = fmt.Sprintf("unexpected CreateScope failure without an armed fault: %v", err)
			break
		}
		e.use(sc, serial, sp.Use)
		parents = append(parents, sc)
		pser = append(pser, serial)
		cr = sc
	}
	if e.poisoned != "" {
		return
	}
	// everything before this point was fault-free: leftovers here are not the failed creation's
	e.open += depth
	if sp.Parent == "custom" && depth > 0 {
		e.openProp++
	}
	e.checkGoroutines("before the failing creation", "normal")
	e.failingCreate(cr, int8(depth), fn, panics)
	e.checkGoroutines("right after the failed creation(s)", "failed-create")
	e.open -= depth
	if sp.Parent == "custom" && depth > 0 {
		e.openProp--
	}
	// the parents stay usable and are closed normally
	for i := len(parents) - 1; i >= 0; i-- {
		e.use(parents[i], pser[i], sp.Use)
		e.closeScope(parents[i], pser[i], cbClose)
	}
	parents = nil
	for i := 0; i < 2 && e.poisoned == ""; i++ {
		e.okCycle(e.p, 0)
	}
	if e.poisoned != "" {
		return
	}
	e.tailNormal = true // leftovers from here on come from the fault-free tail
	stats = append(stats, e.checkpoint("after the failed creation(s), provider open", 4+depth, false))
	e.safely("provider.Close", func() { _ = e.p.Close() })
	stats = append(stats, e.checkpoint("after provider.Close", 4+depth, true))
	return
}
