// Package leak — see /verif/DESIGN.md.
package leak
