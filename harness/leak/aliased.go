package leak

import (
	"fmt"
	"runtime"
	"weak"

	"github.com/junioryono/godi/v4"
	"github.com/junioryono/godi/v4/verifh/eng"
)

// One constructor call that serves several registrations with the same instance: a transient (or
// scoped) service registered under two As aliases, a multi-return constructor that returns one
// object twice. Created in a scope, it belongs to that scope: after the scope is closed - the
// provider still open - "neither the provider nor the parent scope keeps ... the instances it
// created reachable", the very last one included, for every lifetime, resolved through either
// alias, directly and as a dependency.

type alReader interface{ Read() int }
type alWriter interface{ Write() int }
type alConn struct{ buf [256]byte }

func (c *alConn) Read() int    { return 1 }
func (c *alConn) Write() int   { return 2 }
func (c *alConn) Close() error { return nil }

type alUser struct{ w alWriter }

func runAliasedInstanceCycles(c *eng.Ctx, idx int) bool {
	for _, life := range []godi.Lifetime{godi.Transient, godi.Scoped} {
		for _, form := range []string{"two-aliases", "same-object-returned-twice"} {
			feat := form + ":" + lifeOf(life)
			viol := func(clause, detail string) {
				c.R.Violation(eng.Violation{Prop: "C14", Clause: clause, Sig: "C14/" + clause + ":one-instance-under-two-identities:" + feat, Case: idx, CaseID: "aliased-instance-cycles", Detail: feat + ": " + detail,
					Replay: map[string]any{"fixture": "aliased-instance-cycles", "form": form, "lifetime": lifeOf(life)}})
			}
			coll := godi.NewCollection()
			add := coll.AddTransient
			if life == godi.Scoped {
				add = coll.AddScoped
			}
			var err error
			if form == "two-aliases" {
				err = add(func() *alConn { return &alConn{} }, godi.As[alReader](), godi.As[alWriter]())
			} else {
				err = add(func() (alReader, alWriter) { c := &alConn{}; return c, c })
			}
			if err == nil {
				err = add(func(w alWriter) *alUser { return &alUser{w} })
			}
			if err != nil {
				panic("aliased-instance fixture: " + err.Error())
			}
			prov, err := coll.Build()
			if err != nil {
				panic("aliased-instance fixture does not build: " + err.Error())
			}
			cycles := c.Pick(20, 100)
			var weaks []weak.Pointer[alConn]
			for i := 0; i < cycles; i++ {
				sc, err := prov.CreateScope(nil)
				if err != nil {
					panic("aliased-instance fixture: " + err.Error())
				}
				var conn *alConn
				switch i % 3 {
				case 0:
					r, err := godi.Resolve[alReader](sc)
					if err != nil {
						panic("aliased-instance fixture: resolve: " + err.Error())
					}
					conn = r.(*alConn)
				case 1:
					w, err := godi.Resolve[alWriter](sc)
					if err != nil {
						panic("aliased-instance fixture: resolve: " + err.Error())
					}
					conn = w.(*alConn)
				default:
					u, err := godi.Resolve[*alUser](sc)
					if err != nil {
						panic("aliased-instance fixture: resolve: " + err.Error())
					}
					conn = u.w.(*alConn)
				}
				weaks = append(weaks, weak.Make(conn))
				conn = nil
				_ = sc.Close()
				c.R.Count("aliased_instance_cycles", 1)
			}
			for i := 0; i < 3; i++ {
				runtime.GC()
			}
			alive, last := 0, false
			for i, w := range weaks {
				if w.Value() != nil {
					alive++
					if i == len(weaks)-1 {
						last = true
					}
				}
			}
			c.R.Count("weak_checked", int64(len(weaks)))
			if alive > 0 {
				viol("instance-retained", fmt.Sprintf("with the provider still open and after 3 GC cycles %d of %d instances created by closed scopes are still reachable (the last one: %v)", alive, len(weaks), last))
			}
			_ = prov.Close()
		}
	}
	return true
}

func lifeOf(l godi.Lifetime) string {
	switch l {
	case godi.Singleton:
		return "singleton"
	case godi.Scoped:
		return "scoped"
	}
	return "transient"
}
