package leak

import (
	"context"
	"fmt"
	"sync"
	"sync/atomic"
	"unsafe"
	"weak"

	"github.com/junioryono/godi/v4"
)

// The registry is the harness-side observation store of one case. It never holds a strong
// reference to a scope, a context or a service instance: only weak pointers, Done channels
// (a channel does not reference its context), ids and counters.

// service type tags
const (
	tSA uint8 = iota // scoped, disposable, no deps
	tSB              // scoped, disposable, deps *SA + context.Context (captures Done)
	tSC              // scoped, not disposable, deps godi.Scope + *SB (holds the scope: cycle)
	tSD              // scoped, disposable, dep *GS (singleton)
	tSG              // scoped, disposable, two registrations in group "g"
	tTA              // transient, disposable, dep *TB
	tTB              // transient, not disposable
	tGS              // singleton, disposable
	nTypes
)

var typeNames = [...]string{"SA", "SB", "SC", "SD", "SG", "TA", "TB", "GS"}

// function ids (constructors and initializers) for invocation counting / fault plans
const (
	fnSA = iota
	fnSB
	fnSC
	fnSD
	fnSG1
	fnSG2
	fnTA
	fnTB
	fnGS
	fnInitA   // func(*SA) error
	fnInitCtx // func(context.Context)            (void; captures Done)
	fnInitB   // func(*SB) error                  (SB -> SA, ctx)
	fnInitT   // func(*TA) error                  (transient disposable)
	fnInitP   // func() error
	nFns
)

var fnNames = [...]string{"newSA", "newSB", "newSC", "newSD", "newSG1", "newSG2", "newTA", "newTB", "newGS", "initA", "initCtx", "initB", "initT", "initP"}

// the initializers, by index used in Spec.Inits
var initFns = [...]int{fnInitA, fnInitCtx, fnInitB, fnInitT, fnInitP}
var initFuncs = [...]any{initA, initCtx, initB, initT, initP}

// which constructor builds the fresh dependency of an initializer (-1: none)
var initDepFn = map[int]int{fnInitA: fnSA, fnInitB: fnSB, fnInitT: fnTA}

// FaultKind values
const (
	fkErr   = "err"   // the initializer returns an error
	fkPanic = "panic" // the initializer panics
	fkDepE  = "dep-err"
	fkDepP  = "dep-panic"
)

type faultPlan struct {
	fn       int
	from, to int // invocation numbers (1-based, inclusive) that fail
	panics   bool
}

type instRec struct {
	typ    uint8
	disp   bool
	inInit bool  // created while a scope was being created (initializer phase)
	fails  bool  // its Close() returns an error (close-error workload)
	owner  int32 // scope serial on whose behalf it was created (-1: root scope / Build)
	w      weak.Pointer[byte]
	closes int32
	// closes observed when the owning (failed) creation returned; -1 = not sampled
	closesAtReturn int32
}

type doneRec struct {
	owner int32
	src   uint8 // 1 SB ctor, 2 SC ctor, 3 initCtx
	done  <-chan struct{}
}

type initEv struct {
	fn     int
	nth    int
	owner  int32
	failed bool
}

type tracker struct {
	serial int32
	pad    [4]uint64
}

type scopeRec struct {
	serial   int32
	level    int8 // 0: created by provider.CreateScope, >=1: by scope.CreateScope (depth below)
	failed   bool // creation returned an error
	closedBy uint8
	held     bool // the harness deliberately keeps the handle (closed-scope-retention mode)
	w        weak.Pointer[byte]
	tw       weak.Pointer[tracker]
	hasT     bool
	done     <-chan struct{}
	errNil   bool // ctx.Err()==nil was observed right after the synchronous Close / cancel
}

const (
	cbOpen uint8 = iota
	cbClose
	cbCancel
	cbAncestor
	cbProvider
)

var closedByNames = [...]string{"open", "close", "cancel", "ancestor-close", "provider-close"}

type registry struct {
	mu     sync.Mutex
	owner  int32
	inInit bool
	// closeErrMask: type tags (bits) whose instances, when created now, will return an error
	// from Close(); set by the harness per scope
	closeErrMask uint16
	nCloseErrs   int64
	insts        []instRec
	dones        []doneRec
	inits        []initEv
	scopes       []scopeRec
	calls        [nFns]int
	faults       []faultPlan
	fired        int
	nCloses      int64
}

var cur atomic.Pointer[registry]

func newRegistry() *registry {
	r := &registry{owner: -1}
	cur.Store(r)
	return r
}

func (r *registry) setCloseErr(mask uint16) {
	r.mu.Lock()
	r.closeErrMask = mask
	r.mu.Unlock()
}

// closeErr is what a faulted Close returns.
type closeErr struct{ id int32 }

func (e *closeErr) Error() string { return fmt.Sprintf("injected close error of instance #%d", e.id) }

func (r *registry) setOwner(serial int32, inInit bool) {
	r.mu.Lock()
	r.owner = serial
	r.inInit = inInit
	r.mu.Unlock()
}

type injected struct{ fn, nth int }

func (e *injected) Error() string { return fmt.Sprintf("injected failure %s#%d", fnNames[e.fn], e.nth) }

// enter counts the invocation of fn and applies the fault plan.
func (r *registry) enter(fn int) error {
	r.mu.Lock()
	r.calls[fn]++
	nth := r.calls[fn]
	var hit *faultPlan
	for i := range r.faults {
		f := &r.faults[i]
		if f.fn == fn && nth >= f.from && nth <= f.to {
			hit = f
			break
		}
	}
	isInit := fn >= fnInitA
	if hit != nil {
		r.fired++
	}
	if isInit {
		r.inits = append(r.inits, initEv{fn: fn, nth: nth, owner: r.owner, failed: hit != nil})
	}
	r.mu.Unlock()
	if hit == nil {
		return nil
	}
	if hit.panics {
		panic(&injected{fn, nth})
	}
	return &injected{fn, nth}
}

type base struct {
	id  int32
	reg *registry
	pad [2]uint64
}

func (r *registry) track(p unsafe.Pointer, typ uint8, disp bool) base {
	w := weak.Make((*byte)(p))
	r.mu.Lock()
	id := int32(len(r.insts))
	r.insts = append(r.insts, instRec{typ: typ, disp: disp, inInit: r.inInit, fails: disp && r.closeErrMask&(1<<typ) != 0, owner: r.owner, w: w, closesAtReturn: -1})
	r.mu.Unlock()
	return base{id: id, reg: r}
}

func (b *base) closed() error {
	r := b.reg
	r.mu.Lock()
	r.insts[b.id].closes++
	r.nCloses++
	fails := r.insts[b.id].fails
	if fails {
		r.nCloseErrs++
	}
	r.mu.Unlock()
	if fails {
		return &closeErr{b.id}
	}
	return nil
}

func (r *registry) captureDone(src uint8, ctx context.Context) {
	if ctx == nil {
		return
	}
	d := ctx.Done()
	r.mu.Lock()
	r.dones = append(r.dones, doneRec{owner: r.owner, src: src, done: d})
	r.mu.Unlock()
}

// ---- service types (all > 16 bytes and pointerful: never tiny-allocated) ----

type SA struct{ base }
type SB struct {
	base
	a *SA
}
type SC struct {
	base
	sc godi.Scope
	b  *SB
}
type SD struct {
	base
	g *GS
}
type SG struct{ base }
type TA struct {
	base
	t *TB
}
type TB struct {
	base
	buf [32]uint64
}
type GS struct{ base }

func (x *SA) Close() error { return x.closed() }
func (x *SB) Close() error { return x.closed() }
func (x *SD) Close() error { return x.closed() }
func (x *SG) Close() error { return x.closed() }
func (x *TA) Close() error { return x.closed() }
func (x *GS) Close() error { return x.closed() }

// ---- constructors: distinct top-level functions (godi caches analyses by code pointer) ----

func newSA() (*SA, error) {
	r := cur.Load()
	if err := r.enter(fnSA); err != nil {
		return nil, err
	}
	x := &SA{}
	x.base = r.track(unsafe.Pointer(x), tSA, true)
	return x, nil
}

func newSB(a *SA, ctx context.Context) (*SB, error) {
	r := cur.Load()
	if err := r.enter(fnSB); err != nil {
		return nil, err
	}
	x := &SB{a: a}
	x.base = r.track(unsafe.Pointer(x), tSB, true)
	r.captureDone(1, ctx)
	return x, nil
}

func newSC(sc godi.Scope, b *SB) (*SC, error) {
	r := cur.Load()
	if err := r.enter(fnSC); err != nil {
		return nil, err
	}
	x := &SC{sc: sc, b: b}
	x.base = r.track(unsafe.Pointer(x), tSC, false)
	if sc != nil {
		r.captureDone(2, sc.Context())
	}
	return x, nil
}

func newSD(g *GS) (*SD, error) {
	r := cur.Load()
	if err := r.enter(fnSD); err != nil {
		return nil, err
	}
	x := &SD{g: g}
	x.base = r.track(unsafe.Pointer(x), tSD, true)
	return x, nil
}

func newSG1() (*SG, error) {
	r := cur.Load()
	if err := r.enter(fnSG1); err != nil {
		return nil, err
	}
	x := &SG{}
	x.base = r.track(unsafe.Pointer(x), tSG, true)
	return x, nil
}

func newSG2() (*SG, error) {
	r := cur.Load()
	if err := r.enter(fnSG2); err != nil {
		return nil, err
	}
	x := &SG{}
	x.base = r.track(unsafe.Pointer(x), tSG, true)
	return x, nil
}

func newTA(t *TB) (*TA, error) {
	r := cur.Load()
	if err := r.enter(fnTA); err != nil {
		return nil, err
	}
	x := &TA{t: t}
	x.base = r.track(unsafe.Pointer(x), tTA, true)
	return x, nil
}

func newTB() (*TB, error) {
	r := cur.Load()
	if err := r.enter(fnTB); err != nil {
		return nil, err
	}
	x := &TB{}
	x.base = r.track(unsafe.Pointer(x), tTB, false)
	return x, nil
}

func newGS() (*GS, error) {
	r := cur.Load()
	if err := r.enter(fnGS); err != nil {
		return nil, err
	}
	x := &GS{}
	x.base = r.track(unsafe.Pointer(x), tGS, true)
	return x, nil
}

// ---- scope initializers (void / error-only scoped constructors; run at scope creation) ----

func initA(a *SA) error { return cur.Load().enter(fnInitA) }

func initCtx(ctx context.Context) {
	r := cur.Load()
	// capture first: an initializer that later fails has still seen the derived context
	r.captureDone(3, ctx)
	if err := r.enter(fnInitCtx); err != nil {
		panic(err) // void: can only fail by panicking (the plan always says panic)
	}
}

func initB(b *SB) error { return cur.Load().enter(fnInitB) }

func initT(t *TA) error { return cur.Load().enter(fnInitT) }

func initP() error { return cur.Load().enter(fnInitP) }

func isClosed(d <-chan struct{}) bool {
	if d == nil {
		return false
	}
	select {
	case <-d:
		return true
	default:
		return false
	}
}
