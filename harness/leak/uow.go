package leak

import (
	"context"
	"fmt"
	"reflect"
	"runtime"
	"sync"
	"sync/atomic"
	"time"
	"weak"

	"github.com/junioryono/godi/v4"
	"github.com/junioryono/godi/v4/verifh/eng"
)

// A scoped "unit of work" that owns its scope.
//
// The service takes the injected godi.Scope; its Close method closes that scope (the caller
// holds the unit of work, not the scope: `defer uow.Close()`). Closing goes uow.Close ->
// scope.Close -> dispose instances -> uow.Close -> scope.Close (again, from inside). "After a
// scope is closed ... neither the provider nor the parent scope keeps the scope or the instances
// it created reachable", over any number of such cycles, with the scope closed through the
// instance, directly, or by its context.

type uowSvc struct {
	sc     godi.Scope
	closes atomic.Int32
}

func newUow(sc godi.Scope) *uowSvc { return &uowSvc{sc: sc} }

func (u *uowSvc) Close() error {
	u.closes.Add(1)
	return u.sc.Close()
}

const uowBound = 15 * time.Second

func runUowCycles(c *eng.Ctx, idx int) bool {
	viol := func(clause, detail string) {
		c.R.Violation(eng.Violation{Prop: "C14", Clause: clause, Sig: "C14/" + clause + ":instance-that-closes-its-own-scope", Case: idx, CaseID: "uow-cycles", Detail: detail,
			Replay: map[string]any{"fixture": "uow-cycles"}})
	}
	coll := godi.NewCollection()
	if err := coll.AddScoped(newUow); err != nil {
		panic("uow fixture: " + err.Error())
	}
	prov, err := coll.Build()
	if err != nil {
		panic("uow fixture does not build: " + err.Error())
	}
	base := runtime.NumGoroutine()
	cycles := c.Pick(15, 90)
	modes := []string{"through-the-instance", "scope-close", "context-cancelled"}
	var weaks []weak.Pointer[byte]
	var uows []*uowSvc
	stuck := false
	var mu sync.Mutex
	for i := 0; i < cycles && !stuck; i++ {
		mode := modes[i%len(modes)]
		ctx, cancel := context.WithCancel(context.Background())
		sc, err := prov.CreateScope(ctx)
		if err != nil {
			panic("uow fixture: CreateScope: " + err.Error())
		}
		u, err := godi.Resolve[*uowSvc](sc)
		if err != nil {
			panic("uow fixture: resolve: " + err.Error())
		}
		mu.Lock()
		weaks = append(weaks, weak.Make((*byte)(reflect.ValueOf(sc).UnsafePointer())))
		uows = append(uows, u)
		mu.Unlock()
		done := make(chan struct{})
		go func() {
			defer close(done)
			switch mode {
			case "through-the-instance":
				_ = u.Close()
			case "scope-close":
				_ = sc.Close()
			default:
				cancel()
				// the context watcher closes the scope: wait until the instance has been closed
				for w := 0; u.closes.Load() == 0 && w < int(uowBound/(2*time.Millisecond)); w++ {
					time.Sleep(2 * time.Millisecond)
				}
			}
		}()
		select {
		case <-done:
		case <-time.After(uowBound):
			stuck = true
			viol("close-cannot-complete", fmt.Sprintf("cycle %d (%s): closing a scope whose instance closes that scope from its Close method did not finish within %v", i, mode, uowBound))
		}
		cancel()
		sc, u = nil, nil
		c.R.Count("uow_cycles", 1)
	}
	if stuck {
		return true
	}
	deadline := time.Now().Add(10 * time.Second)
	for runtime.NumGoroutine() > base+2 && time.Now().Before(deadline) {
		time.Sleep(5 * time.Millisecond)
	}
	if n := runtime.NumGoroutine(); n > base+2+cycles/4 {
		viol("goroutine-leak", fmt.Sprintf("%d goroutines more than before %d create-use-close cycles are still there 10 s after the last cycle", n-base, cycles))
	}
	uows = nil
	for i := 0; i < 3; i++ {
		runtime.GC()
	}
	alive := 0
	for _, w := range weaks {
		if w.Value() != nil {
			alive++
		}
	}
	c.R.Count("weak_checked", int64(len(weaks)))
	if alive > 0 {
		viol("scope-retained", fmt.Sprintf("with the provider still open and after 3 GC cycles %d of %d closed scopes are still reachable", alive, len(weaks)))
	}
	_ = prov.Close()
	return true
}
