package leak

import (
	"context"
	"fmt"
	"reflect"
	"runtime"
	"sync"
	"sync/atomic"
	"time"
	"weak"

	"github.com/junioryono/godi/v4"
	"github.com/junioryono/godi/v4/verifh/eng"
	"github.com/junioryono/godi/v4/verifh/rt"
)

// Create-vs-close races.
//
// "Closing a scope releases everything it held: neither the provider nor the parent scope keeps
// the scope reachable" must also hold when the Close of a parent scope overlaps the creation of
// one of its children: whatever the outcome of the CreateScope call (a scope, or the disposed
// error), once the parent, every returned child and every other scope of the round have been
// closed, the provider - which stays open - must not keep any of them alive. The workload keeps
// the provider's scope bookkeeping busy from other goroutines, which is what a server under
// load looks like and what makes the overlap likely; the oracle is the same weak-pointer check
// as in the cycle workload, at a quiescent point, with the provider still open.

type raceSvc struct{ payload [256]byte }

var raceCloses atomic.Int64

func (s *raceSvc) Close() error { raceCloses.Add(1); return nil }
func newRaceSvc() *raceSvc      { return &raceSvc{} }

type raceTracker struct{ _ [64]byte }
type raceKey struct{}

func runCreateCloseRace(c *eng.Ctx, idx int, variant int) bool {
	rounds := c.Pick(4000, 60000)
	rt.SetNoise(80) // godi's internal yield points perturb the schedule
	defer rt.SetNoise(0)
	creators := 2 + variant%3       // goroutines creating children of the parent
	contenders := 4 + 4*(variant%2) // goroutines keeping the provider's scope bookkeeping busy
	childCtx := []string{"nil", "bg", "value"}[variant%3]
	coll := godi.NewCollection()
	if err := coll.AddScoped(newRaceSvc); err != nil {
		c.R.Inconclusive(idx, "race fixture registration failed: "+err.Error())
		return false
	}
	prov, err := coll.Build()
	if err != nil {
		c.R.Inconclusive(idx, "race fixture does not build: "+err.Error())
		return false
	}
	var mu sync.Mutex
	var weaks []weak.Pointer[byte]
	var ctxWeaks []weak.Pointer[raceTracker]
	track := func(sc godi.Scope) {
		if sc == nil {
			return
		}
		w := weak.Make((*byte)(reflect.ValueOf(sc).UnsafePointer()))
		mu.Lock()
		weaks = append(weaks, w)
		mu.Unlock()
	}
	stop := make(chan struct{})
	var bg sync.WaitGroup
	for i := 0; i < contenders; i++ {
		bg.Add(1)
		go func() {
			defer bg.Done()
			for {
				select {
				case <-stop:
					return
				default:
				}
				if s, err := prov.CreateScope(nil); err == nil && s != nil {
					_ = s.Close()
				}
			}
		}()
	}
	var created, refused, panics atomic.Int64
	for r := 0; r < rounds; r++ {
		parent, err := prov.CreateScope(context.Background())
		if err != nil || parent == nil {
			continue
		}
		track(parent)
		var wg sync.WaitGroup
		start := make(chan struct{})
		for g := 0; g < creators; g++ {
			wg.Add(1)
			go func() {
				defer wg.Done()
				defer func() {
					if p := recover(); p != nil {
						panics.Add(1)
					}
				}()
				var ctx context.Context
				switch childCtx {
				case "bg":
					ctx = context.Background()
				case "value":
					t := &raceTracker{}
					mu.Lock()
					ctxWeaks = append(ctxWeaks, weak.Make(t))
					mu.Unlock()
					ctx = context.WithValue(context.Background(), raceKey{}, t)
				}
				<-start
				ch, err := parent.CreateScope(ctx)
				if err != nil || ch == nil {
					refused.Add(1)
					return
				}
				created.Add(1)
				track(ch)
				_, _ = godi.Resolve[*raceSvc](ch)
				_ = ch.Close()
			}()
		}
		wg.Add(1)
		go func() { defer wg.Done(); <-start; _ = parent.Close() }()
		close(start)
		wg.Wait()
		_ = parent.Close()
	}
	close(stop)
	bg.Wait()
	c.R.Count("race_rounds", int64(rounds))
	c.R.Count("race_children_created", created.Load())
	c.R.Count("race_children_refused", refused.Load())
	// quiescent: every scope of the workload is closed, the provider is open
	for i := 0; i < 3; i++ {
		runtime.GC()
	}
	aliveScopes, aliveCtx := 0, 0
	for _, w := range weaks {
		if w.Value() != nil {
			aliveScopes++
		}
	}
	for _, w := range ctxWeaks {
		if w.Value() != nil {
			aliveCtx++
		}
	}
	c.R.Count("weak_checked", int64(len(weaks)+len(ctxWeaks)))
	feat := fmt.Sprintf("child-ctx=%s", childCtx)
	if panics.Load() > 0 {
		c.R.Violation(eng.Violation{Prop: "C14", Clause: "panic", Sig: "C14/panic:create-vs-close-race", Case: idx, CaseID: "race-" + feat,
			Detail: fmt.Sprintf("%d CreateScope calls racing the parent's Close panicked", panics.Load())})
	}
	if aliveScopes > 0 {
		c.R.Violation(eng.Violation{Prop: "C14", Clause: "scope-retained", Sig: "C14/scope-retained:via=parent-close-racing-child-creation:created-by=scope.CreateScope", Case: idx, CaseID: "race-" + feat,
			Detail: fmt.Sprintf("%d rounds of {1 goroutine closes a scope, %d goroutines create a child of it (%s), %d goroutines create/close unrelated scopes}; every scope of every round was closed (Close called on the parent twice and on every returned child); with the provider still open and after 3 GC cycles %d of %d scopes are still reachable (children created: %d, refused with an error: %d)",
				rounds, creators, feat, contenders, aliveScopes, len(weaks), created.Load(), refused.Load()),
			Replay: map[string]any{"workload": "create-vs-close-race", "variant": variant, "rounds": rounds}})
	}
	if aliveCtx > 0 {
		c.R.Violation(eng.Violation{Prop: "C14", Clause: "context-retained", Sig: "C14/context-retained:via=parent-close-racing-child-creation", Case: idx, CaseID: "race-" + feat,
			Detail: fmt.Sprintf("%d of %d caller context values are still reachable after every scope was closed (provider open)", aliveCtx, len(ctxWeaks))})
	}
	_ = prov.Close()
	return created.Load() > 0 && refused.Load() > 0
}

// runCreateCloseSteered is the deterministic companion of the race workload (needs godi's
// instrumentation points, build tag verif): the creator of a child scope is parked at each
// internal point of scope.CreateScope / provider.CreateScope in turn while the parent scope (or
// nothing, for the provider) is closed to completion; then the creator continues. Same oracle:
// afterwards, with the provider still open, nothing of the round may be reachable.
func runCreateCloseSteered(c *eng.Ctx, idx int) bool {
	if !rt.YieldAvailable {
		return false
	}
	points := []string{"scope.CreateScope:created", "scope.CreateScope:tracked-by-parent", "scope.CreateScope:tracked-by-provider"}
	coll := godi.NewCollection()
	if err := coll.AddScoped(newRaceSvc); err != nil {
		c.R.Inconclusive(idx, "race fixture registration failed: "+err.Error())
		return false
	}
	prov, err := coll.Build()
	if err != nil {
		c.R.Inconclusive(idx, "race fixture does not build: "+err.Error())
		return false
	}
	var weaks []weak.Pointer[byte]
	var names []string
	track := func(sc godi.Scope, name string) {
		if sc != nil {
			weaks = append(weaks, weak.Make((*byte)(reflect.ValueOf(sc).UnsafePointer())))
			names = append(names, name)
		}
	}
	rounds := c.Pick(20, 200)
	parkedTotal := 0
	for r := 0; r < rounds; r++ {
		for _, pt := range points {
			for _, withCtx := range []bool{false, true} {
				parent, err := prov.CreateScope(context.Background())
				if err != nil || parent == nil {
					continue
				}
				track(parent, "parent")
				reached := make(chan struct{})
				release := make(chan struct{})
				var once sync.Once
				var creatorG atomic.Int64
				rt.SetRawYield(func(point string) {
					if point == pt && rt.Goid() == creatorG.Load() {
						once.Do(func() { close(reached); <-release })
					}
				})
				var child godi.Scope
				var cerr error
				done := make(chan struct{})
				go func() {
					defer close(done)
					creatorG.Store(rt.Goid())
					var ctx context.Context
					if withCtx {
						ctx = context.WithValue(context.Background(), raceKey{}, &raceTracker{})
					}
					child, cerr = parent.CreateScope(ctx)
				}()
				parked := false
				select {
				case <-reached:
					parked = true
				case <-done:
				case <-time.After(5 * time.Second):
				}
				if parked {
					parkedTotal++
					_ = parent.Close() // runs to completion while the creator is parked
					close(release)
				}
				select {
				case <-done:
				case <-time.After(20 * time.Second):
					c.R.Inconclusive(idx, "steered create-vs-close: the creator did not return")
					rt.SetRawYield(nil)
					return false
				}
				rt.SetRawYield(nil)
				if cerr == nil && child != nil {
					track(child, "child created while its parent was closed at "+pt)
					_, _ = godi.Resolve[*raceSvc](child)
					_ = child.Close()
				}
				_ = parent.Close()
				child, parent = nil, nil
			}
		}
	}
	for i := 0; i < 3; i++ {
		runtime.GC()
	}
	alive := map[string]int{}
	n := 0
	for i, w := range weaks {
		if w.Value() != nil {
			alive[names[i]]++
			n++
		}
	}
	c.R.Count("steered_create_vs_close_parks", int64(parkedTotal))
	c.R.Count("weak_checked", int64(len(weaks)))
	if n > 0 {
		c.R.Violation(eng.Violation{Prop: "C14", Clause: "scope-retained", Sig: "C14/scope-retained:via=parent-close-while-child-creation-parked:created-by=scope.CreateScope", Case: idx, CaseID: "steered-create-vs-close",
			Detail: fmt.Sprintf("the creator of a child scope was parked at an internal point of CreateScope while its parent was closed to completion, then continued; every scope was closed afterwards; with the provider still open and after 3 GC cycles %d of %d scopes are still reachable: %v", n, len(weaks), alive),
			Replay: map[string]any{"workload": "steered-create-vs-close"}})
	}
	_ = prov.Close()
	return parkedTotal > 0
}
