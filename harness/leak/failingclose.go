package leak

import (
	"context"
	"errors"
	"fmt"
	"reflect"
	"runtime"
	"weak"

	"github.com/junioryono/godi/v4"
	"github.com/junioryono/godi/v4/verifh/eng"
)

// Cycles whose Close reports an error: a scoped (or transient) instance returns an error from its
// Close method - a transaction wrapper whose rollback says "already committed". The scope is
// closed all the same (C12), and "after a scope is closed ... neither the provider nor the parent
// scope keeps the scope or the instances it created reachable": with the provider and a long-lived
// parent scope still open, every such scope and instance is collectable.

type fcTx struct{ buf [1024]byte }

var errFc = errors.New("failing-close fixture: already committed")

func (t *fcTx) Close() error { return errFc }

type fcOk struct{ buf [256]byte }

func (o *fcOk) Close() error { return nil }

func runFailingCloseCycles(c *eng.Ctx, idx int) bool {
	for _, life := range []godi.Lifetime{godi.Scoped, godi.Transient} {
		for _, under := range []string{"provider", "long-lived-parent-scope"} {
			feat := lifeOf(life) + ":" + under
			viol := func(clause, detail string) {
				c.R.Violation(eng.Violation{Prop: "C14", Clause: clause, Sig: "C14/" + clause + ":close-method-returns-an-error:" + feat, Case: idx, CaseID: "failing-close-cycles", Detail: feat + ": " + detail,
					Replay: map[string]any{"fixture": "failing-close-cycles", "lifetime": lifeOf(life), "under": under}})
			}
			coll := godi.NewCollection()
			add := coll.AddScoped
			if life == godi.Transient {
				add = coll.AddTransient
			}
			if err := add(func() *fcTx { return &fcTx{} }); err != nil {
				panic("failing-close fixture: " + err.Error())
			}
			if err := add(func() *fcOk { return &fcOk{} }); err != nil {
				panic("failing-close fixture: " + err.Error())
			}
			prov, err := coll.Build()
			if err != nil {
				panic("failing-close fixture does not build: " + err.Error())
			}
			var parent godi.Provider = prov
			if under != "provider" {
				p, err := prov.CreateScope(context.Background())
				if err != nil {
					panic("failing-close fixture: " + err.Error())
				}
				parent = p
			}
			cycles := c.Pick(20, 100)
			var scopes []weak.Pointer[byte]
			var txs []weak.Pointer[fcTx]
			reported := 0
			for i := 0; i < cycles; i++ {
				sc, err := parent.CreateScope(context.Background())
				if err != nil {
					panic("failing-close fixture: CreateScope: " + err.Error())
				}
				tx, err := godi.Resolve[*fcTx](sc)
				if err != nil {
					panic("failing-close fixture: resolve: " + err.Error())
				}
				if i%2 == 0 {
					_, _ = godi.Resolve[*fcOk](sc)
				}
				if i%3 == 0 { // a nested scope with a failing instance of its own
					if ch, err := sc.CreateScope(nil); err == nil {
						_, _ = godi.Resolve[*fcTx](ch)
					}
				}
				scopes = append(scopes, weak.Make((*byte)(reflect.ValueOf(sc).UnsafePointer())))
				txs = append(txs, weak.Make(tx))
				tx = nil
				if err := sc.Close(); err != nil {
					reported++
				}
				sc = nil
				c.R.Count("failing_close_cycles", 1)
			}
			for i := 0; i < 3; i++ {
				runtime.GC()
			}
			aliveS, aliveT := 0, 0
			for _, w := range scopes {
				if w.Value() != nil {
					aliveS++
				}
			}
			for _, w := range txs {
				if w.Value() != nil {
					aliveT++
				}
			}
			c.R.Count("weak_checked", int64(len(scopes)+len(txs)))
			if aliveS > 0 || aliveT > 0 {
				viol("scope-retained", fmt.Sprintf("with the provider (and the parent scope) still open and after 3 GC cycles, %d of %d closed scopes and %d of %d of their instances are still reachable; every one of these scopes had an instance whose Close returned an error (%d of %d Close calls reported it)", aliveS, len(scopes), aliveT, len(txs), reported, cycles))
			}
			_ = prov.Close()
		}
	}
	return true
}
