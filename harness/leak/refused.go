package leak

import (
	"context"
	"errors"
	"fmt"
	"runtime"
	"sync/atomic"
	"time"

	"github.com/junioryono/godi/v4"
	"github.com/junioryono/godi/v4/verifh/eng"
)

// Scope creations that are refused because the provider is being closed.
//
// Two request scopes are open; each holds an instance whose Close method opens a short-lived
// scope on the OTHER one (a "flush what is left through a sibling" shutdown hook), under the
// application's own never-cancelled context. provider.Close closes the scopes one after the
// other: the first hook finds its sibling still open while the provider is already shutting
// down, the second finds its sibling closed. Both creations fail with the disposed error - and
// "a scope creation that fails leaves nothing behind": the context derived for it is cancelled,
// so nothing stays registered with (and, for a context type of the application's own, no
// goroutine keeps waiting on) the long-lived context. Over any number of provider life cycles.

// appContext is a context type of the application's own (not one of package context's): deriving
// a cancellable context from it costs a goroutine until the derived context is cancelled.
type appContext struct{ done chan struct{} }

func (appContext) Deadline() (time.Time, bool) { return time.Time{}, false }
func (a appContext) Done() <-chan struct{}     { return a.done }
func (appContext) Err() error                  { return nil }
func (appContext) Value(any) any               { return nil }

type rfPeer struct {
	other   godi.Scope
	ctx     context.Context
	tried   *atomic.Int32
	refused *atomic.Int32
	odd     *atomic.Int32
}

func (p *rfPeer) Close() error {
	if p.other == nil {
		return nil
	}
	p.tried.Add(1)
	sc, err := p.other.CreateScope(p.ctx)
	switch {
	case err == nil:
		_ = sc.Close()
	case errors.Is(err, godi.ErrScopeDisposed) || errors.Is(err, godi.ErrProviderDisposed):
		p.refused.Add(1)
	default:
		p.odd.Add(1)
	}
	return nil
}

func runRefusedCreations(c *eng.Ctx, idx int) bool {
	viol := func(clause, detail string) {
		c.R.Violation(eng.Violation{Prop: "C14", Clause: clause, Sig: "C14/" + clause + ":scope-creation-refused-while-the-provider-closes", Case: idx, CaseID: "refused-creations", Detail: detail,
			Replay: map[string]any{"fixture": "refused-creations"}})
	}
	app := appContext{done: make(chan struct{})} // never closed
	var tried, refused, odd atomic.Int32
	base := runtime.NumGoroutine()
	cycles := c.Pick(25, 120)
	for i := 0; i < cycles; i++ {
		coll := godi.NewCollection()
		if err := coll.AddScoped(func() *rfPeer { return &rfPeer{ctx: app, tried: &tried, refused: &refused, odd: &odd} }); err != nil {
			panic("refused-creations fixture: " + err.Error())
		}
		prov, err := coll.Build()
		if err != nil {
			panic("refused-creations fixture does not build: " + err.Error())
		}
		var scopes []godi.Scope
		var peers []*rfPeer
		n := 2 + i%2
		for k := 0; k < n; k++ {
			var parent godi.Provider = prov
			if k == 2 {
				parent = scopes[0] // one of them is a child scope
			}
			sc, err := parent.CreateScope(context.Background())
			if err != nil {
				panic("refused-creations fixture: CreateScope: " + err.Error())
			}
			p, err := godi.Resolve[*rfPeer](sc)
			if err != nil {
				panic("refused-creations fixture: resolve: " + err.Error())
			}
			scopes, peers = append(scopes, sc), append(peers, p)
		}
		for k, p := range peers {
			p.other = scopes[(k+1)%len(scopes)]
		}
		_ = prov.Close()
		c.R.Count("refused_creation_cycles", 1)
	}
	c.R.Count("refused_creations_attempted", int64(tried.Load()))
	c.R.Count("refused_creations_refused", int64(refused.Load()))
	if odd.Load() > 0 {
		viol("creation-fails-with-an-undocumented-error", fmt.Sprintf("%d scope creations during provider.Close failed with something else than the disposed error", odd.Load()))
	}
	deadline := time.Now().Add(10 * time.Second)
	for runtime.NumGoroutine() > base+2 && time.Now().Before(deadline) {
		time.Sleep(5 * time.Millisecond)
	}
	if n := runtime.NumGoroutine(); n > base+2+cycles/4 {
		viol("goroutine-leak", fmt.Sprintf("%d goroutines more than before are still there 10 s after %d provider life cycles in which %d scope creations were refused (%d attempted) under a never-cancelled context of the application's own type: the context derived for a refused creation was not cancelled", n-base, cycles, refused.Load(), tried.Load()))
	}
	return refused.Load() > 0
}
