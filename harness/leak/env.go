package leak

import (
	"bytes"
	"context"
	"fmt"
	"math/rand"
	"reflect"
	"runtime"
	"sort"
	"strings"
	"time"
	"weak"

	"github.com/junioryono/godi/v4"
	"github.com/junioryono/godi/v4/verifh/eng"
)

// Spec is one case, written out (JSON = replay descriptor / sample).
type Spec struct {
	Kind string `json:"kind"` // cycles | fault
	N    int    `json:"n,omitempty"`
	// Host: who creates the per-cycle root scopes: the provider, a long-lived scope, or a
	// long-lived child of a long-lived scope (both stay open across all cycles).
	Host string `json:"host,omitempty"`
	// Parent: context handed to CreateScope for the per-cycle roots:
	// bg | nil | long (one cancellable context, never cancelled) | custom (non-std context
	// type with its own never-closed Done channel) | percycle (fresh cancellable per cycle).
	Parent   string   `json:"parent"`
	Shape    []int    `json:"shape,omitempty"`     // parent vector of the per-cycle scope tree (-1: root)
	ChildCtx []string `json:"child_ctx,omitempty"` // per node: inherit | parentctx | bg | long
	// Close: leaf-first | root-only | creation-order | random | cancel | cancel+close |
	// provider-close | held
	Close     string `json:"close,omitempty"`
	Inits     []int  `json:"inits"` // registration order of the scope initializers (indices)
	Use       int    `json:"use"`   // bit mask of what is resolved in every scope
	HostClose string `json:"host_close,omitempty"`
	// CloseErr: which disposable instances return an error from Close() (the scope's Close
	// then legitimately returns a DisposalError, which the workload ignores):
	// "" none | kth (every disposable of every scope of every 3rd cycle) | kind-SB (every SB
	// instance, hosts and root scope included) | child-only (only instances of non-root scopes
	// of the per-cycle tree: the parent's Close reports its child's error)
	CloseErr string `json:"close_err,omitempty"`
	Seed     int64  `json:"seed"`
	// fault part
	Where  string `json:"where,omitempty"` // provider | child | grandchild | build
	Pos    int    `json:"pos,omitempty"`   // index into Inits of the initializer that fails
	FKind  string `json:"fkind,omitempty"` // err | panic | dep-err | dep-panic
	Repeat int    `json:"repeat,omitempty"`
}

var initNames = [...]string{"initA(*SA) error", "initCtx(context.Context)", "initB(*SB) error", "initT(*TA) error", "initP() error"}

// describe renders the case as the history it executes.
func (s *Spec) describe() string {
	var in []string
	for _, i := range s.Inits {
		in = append(in, initNames[i])
	}
	reg := "Build with scoped SA, SB(SA, ctx), SC(Scope, SB), SD(singleton GS), group g{SG, SG}, transient TA(TB), TB; scope initializers in this order: [" + strings.Join(in, ", ") + "]"
	if s.Kind == "fault" {
		what := map[string]string{fkErr: "returns an error", fkPanic: "panics", fkDepE: "needs a dependency whose constructor returns an error", fkDepP: "needs a dependency whose constructor panics"}[s.FKind]
		target := map[string]string{"build": "the Build itself (root scope)", "provider": "provider.CreateScope(" + s.Parent + ")", "child": "P.CreateScope(" + s.Parent + ") on an open scope P", "grandchild": "C.CreateScope(" + s.Parent + ") on an open child C of an open scope P"}[s.Where]
		return fmt.Sprintf("%s; 2 fault-free create/use/Close cycles; then %d x %s during which initializer #%d of %d (%s) %s; parents used again and closed; 2 fault-free cycles; checks; provider.Close; checks", reg, s.Repeat, target, s.Pos+1, len(s.Inits), initNames[s.Inits[s.Pos]], what)
	}
	return fmt.Sprintf("%s; host=%s (closed: %s); %d then %d more cycles of: create scope tree %v (roots with ctx=%s, children with ctx=%v), resolve mask %#x in every scope, close mode %s; Close() errors injected: %s; checks after N, after 2N, after provider.Close", reg, s.Host, map[string]string{"": "by provider.Close", "explicit": "explicitly"}[s.HostClose], s.N, s.N, s.Shape, s.Parent, s.ChildCtx, s.Use, s.Close, map[string]string{"": "none", "kth": "every disposable instance of every scope of every 3rd cycle", "kind-SB": "every SB instance (hosts and root scope included)", "child-only": "every disposable instance of the non-root scopes of each tree"}[s.CloseErr])
}

func (s *Spec) canon() string {
	return fmt.Sprintf("%s|%d|%s|%s|%v|%v|%s|%v|%d|%s|%s|%d|%s|%d|%s", s.Kind, s.N, s.Host, s.Parent, s.Shape, s.ChildCtx, s.Close, s.Inits, s.Use, s.HostClose, s.Where, s.Pos, s.FKind, s.Repeat, s.CloseErr)
}

// use mask bits
const (
	uSA = 1 << iota
	uSB
	uSC
	uSD
	uGroup
	uTA
	uTB
	uTwice // resolve the scoped services a second time (cache hit path)
	uAll   = uSA | uSB | uSC | uSD | uGroup | uTA | uTB | uTwice
)

var (
	rtSA = reflect.TypeOf((*SA)(nil))
	rtSB = reflect.TypeOf((*SB)(nil))
	rtSC = reflect.TypeOf((*SC)(nil))
	rtSD = reflect.TypeOf((*SD)(nil))
	rtSG = reflect.TypeOf((*SG)(nil))
	rtTA = reflect.TypeOf((*TA)(nil))
	rtTB = reflect.TypeOf((*TB)(nil))
)

// customCtx is a context implementation the context package does not know: deriving a
// cancellable context from it starts a propagation goroutine that lives until the derived
// context is cancelled.
type customCtx struct{ done chan struct{} }

func (c *customCtx) Deadline() (time.Time, bool) { return time.Time{}, false }
func (c *customCtx) Done() <-chan struct{}       { return c.done }
func (c *customCtx) Err() error {
	select {
	case <-c.done:
		return context.Canceled
	default:
		return nil
	}
}
func (c *customCtx) Value(any) any { return nil }

type trackerKey struct{}

const allDisposable = uint16(1<<tSA | 1<<tSB | 1<<tSD | 1<<tSG | 1<<tTA)

// closeErrMask says which instance types created for the given scope will fail to Close.
// node: index in the per-cycle tree (-1: host scope / root scope).
func (e *env) closeErrMask(node int) uint16 {
	switch e.spec.CloseErr {
	case "kth":
		if node >= 0 && e.cycleNo%3 == 0 {
			return allDisposable
		}
	case "kind-SB":
		return 1 << tSB
	case "child-only":
		if node >= 0 && e.spec.Shape[node] >= 0 {
			return allDisposable
		}
	}
	return 0
}

type creator interface {
	CreateScope(context.Context) (godi.Scope, error)
}

type env struct {
	c    *eng.Ctx
	idx  int
	spec *Spec
	reg  *registry
	rng  *rand.Rand

	p          godi.Provider
	hosts      []godi.Scope // long-lived host scopes (outermost first)
	rootHandle godi.Scope   // Host "root": the provider's root scope
	hostSerial []int32
	long       context.Context
	longCancel context.CancelFunc
	custom     *customCtx
	held       []godi.Scope

	cycleNo              int
	baseG                int
	open                 int // scopes legitimately open: one watcher goroutine each
	baseGodi, baseProp   int // godi-framed / propagation goroutines left over by earlier cases of this process
	contaminated         bool
	contNoted            bool
	afterProviderClose   bool
	tailNormal           bool // fault case: the failed creations were already checked on their own
	knownGodi, knownProp int  // leftover goroutines already reported at an earlier checkpoint of this case
	openProp             int  // open scopes derived directly from the custom context: one propagation goroutine each

	viol     map[string]*pending
	inconcl  []string
	poisoned string
	getErrs  int
	nClosed  int
	nFailed  int
}

type pending struct {
	v eng.Violation
	n int
}

func newEnv(c *eng.Ctx, idx int, sp *Spec) *env {
	e := &env{c: c, idx: idx, spec: sp, viol: map[string]*pending{}}
	e.reg = newRegistry()
	e.rng = rand.New(rand.NewSource(sp.Seed))
	e.long, e.longCancel = context.WithCancel(context.Background())
	e.custom = &customCtx{done: make(chan struct{})}
	return e
}

func (e *env) cleanup() {
	e.held = nil
	e.hosts = nil
	e.rootHandle = nil
	if e.p != nil {
		_ = e.safely("provider.Close(cleanup)", func() { _ = e.p.Close() })
		e.p = nil
	}
	e.longCancel()
	close(e.custom.done)
}

// safely runs f and converts an escaping panic into a poisoned case.
func (e *env) safely(what string, f func()) (ok bool) {
	defer func() {
		if r := recover(); r != nil {
			ok = false
			if e.poisoned == "" {
				e.poisoned = fmt.Sprintf("panic escaped from %s: %v", what, r)
			}
		}
	}()
	f()
	return true
}

func (e *env) violation(clause, sig, detail string) {
	if p := e.viol[sig]; p != nil {
		p.n++
		if len(p.v.Detail) < 6000 {
			p.v.Detail += "\n--\n" + detail
		}
		return
	}
	e.viol[sig] = &pending{v: eng.Violation{Prop: "C14", Clause: clause, Sig: sig, Case: e.idx, CaseID: e.spec.canon(), Detail: "history: " + e.spec.describe() + "\n" + detail, Replay: e.spec}, n: 1}
}

func (e *env) flush() {
	keys := make([]string, 0, len(e.viol))
	for k := range e.viol {
		keys = append(keys, k)
	}
	sort.Strings(keys)
	for _, k := range keys {
		e.c.R.Violation(e.viol[k].v)
	}
	if e.poisoned != "" {
		e.c.R.Inconclusive(e.idx, e.poisoned)
	}
	for _, s := range e.inconcl {
		e.c.R.Inconclusive(e.idx, s)
	}
}

func (e *env) build(armed bool) error {
	c := godi.NewCollection()
	adds := []struct {
		f    any
		life int
		opts []godi.AddOption
	}{
		{newGS, 0, nil}, {newSA, 1, nil}, {newSB, 1, nil}, {newSC, 1, nil}, {newSD, 1, nil},
		{newSG1, 1, []godi.AddOption{godi.Group("g")}}, {newSG2, 1, []godi.AddOption{godi.Group("g")}},
		{newTA, 2, nil}, {newTB, 2, nil},
	}
	for _, a := range adds {
		var err error
		switch a.life {
		case 0:
			err = c.AddSingleton(a.f, a.opts...)
		case 1:
			err = c.AddScoped(a.f, a.opts...)
		default:
			err = c.AddTransient(a.f, a.opts...)
		}
		if err != nil {
			return fmt.Errorf("registration failed: %w", err)
		}
	}
	for _, i := range e.spec.Inits {
		if err := c.AddScoped(initFuncs[i]); err != nil {
			return fmt.Errorf("initializer registration failed: %w", err)
		}
	}
	e.reg.setOwner(-1, true)
	var p godi.Provider
	var err error
	ok := e.safely("Build", func() { p, err = c.Build() })
	e.reg.setOwner(-1, false)
	if !ok {
		return fmt.Errorf("%s", e.poisoned)
	}
	if err != nil {
		return err
	}
	e.p = p
	return nil
}

// newScopeRec allocates the record (and serial) of a scope about to be created.
func (e *env) newScopeRec(level int8) int32 {
	r := e.reg
	r.mu.Lock()
	s := int32(len(r.scopes))
	r.scopes = append(r.scopes, scopeRec{serial: s, level: level})
	r.mu.Unlock()
	return s
}

// create calls cr.CreateScope(ctx) (ctx wrapped with a tracker value when non-nil) and
// records weak pointer + Done channel of the result. Nothing strong is stored.
//
//go:noinline
func (e *env) create(cr creator, ctx context.Context, level int8) (godi.Scope, int32, error) {
	serial := e.newScopeRec(level)
	var tw weak.Pointer[tracker]
	hasT := false
	if ctx != nil {
		t := &tracker{serial: serial}
		tw = weak.Make(t)
		hasT = true
		ctx = context.WithValue(ctx, trackerKey{}, t)
	}
	e.reg.setOwner(serial, true)
	var sc godi.Scope
	var err error
	ok := e.safely("CreateScope", func() { sc, err = cr.CreateScope(ctx) })
	e.reg.setOwner(serial, false)
	r := e.reg
	r.mu.Lock()
	rec := &r.scopes[serial]
	rec.tw, rec.hasT = tw, hasT
	if !ok {
		rec.failed = true
		r.mu.Unlock()
		return nil, serial, fmt.Errorf("panic")
	}
	if err != nil || sc == nil {
		rec.failed = true
		r.mu.Unlock()
		if err == nil {
			err = fmt.Errorf("nil scope without error")
		}
		return nil, serial, err
	}
	rec.w = weak.Make((*byte)(reflect.ValueOf(sc).UnsafePointer()))
	rec.done = sc.Context().Done()
	r.mu.Unlock()
	return sc, serial, nil
}

func (e *env) get(sc godi.Scope, t reflect.Type) {
	v, err := sc.Get(t)
	if err != nil || v == nil {
		e.getErrs++
	}
}

// use resolves services in the scope according to the mask; nothing is kept.
//
//go:noinline
func (e *env) use(sc godi.Scope, serial int32, mask int) {
	e.reg.setOwner(serial, false)
	e.safely("Get", func() {
		rounds := 1
		if mask&uTwice != 0 {
			rounds = 2
		}
		for k := 0; k < rounds; k++ {
			if mask&uSA != 0 {
				e.get(sc, rtSA)
			}
			if mask&uSB != 0 {
				e.get(sc, rtSB)
			}
			if mask&uSC != 0 {
				e.get(sc, rtSC)
			}
			if mask&uSD != 0 {
				e.get(sc, rtSD)
			}
			if mask&uGroup != 0 {
				if vs, err := sc.GetGroup(rtSG, "g"); err != nil || len(vs) != 2 {
					e.getErrs++
				}
			}
			if mask&uTA != 0 {
				e.get(sc, rtTA)
			}
			if mask&uTB != 0 {
				e.get(sc, rtTB)
			}
		}
	})
}

func (e *env) markClosed(serial int32, by uint8, ctxErrNil bool) {
	r := e.reg
	r.mu.Lock()
	rec := &r.scopes[serial]
	if rec.closedBy == cbOpen {
		rec.closedBy = by
		e.nClosed++
	}
	if ctxErrNil {
		rec.errNil = true
	}
	r.mu.Unlock()
}

// closeScope closes synchronously and checks ctx.Err() on the spot.
func (e *env) closeScope(sc godi.Scope, serial int32, by uint8) {
	e.safely("scope.Close", func() { _ = sc.Close() })
	e.markClosed(serial, by, sc.Context().Err() == nil)
}

// ---- goroutine accounting ----

type gdump struct {
	godi, prop, other int
	quiescent         bool   // concluded before the bound: all candidates parked, twice, same ids
	allParked         bool   // every godi / propagation goroutine is parked in a channel wait
	ids               string // ids+states of those goroutines
	godiStacks        []string
	propStacks        []string
	otherStacks       []string
}

func dumpGoroutines() gdump {
	buf := make([]byte, 1<<20)
	for {
		n := runtime.Stack(buf, true)
		if n < len(buf) {
			buf = buf[:n]
			break
		}
		buf = make([]byte, 2*len(buf))
	}
	var d gdump
	d.allParked = true
	var ids []string
	note := func(s string) {
		hdr, _, _ := strings.Cut(s, "\n")
		id, state, _ := strings.Cut(strings.TrimPrefix(hdr, "goroutine "), " ")
		state = strings.Trim(state, "[]:")
		state, _, _ = strings.Cut(state, ",")
		if state != "chan receive" && state != "select" {
			d.allParked = false
		}
		ids = append(ids, id+":"+state)
	}
	for i, blk := range bytes.Split(buf, []byte("\n\n")) {
		if i == 0 {
			continue // the calling goroutine
		}
		s := string(blk)
		switch {
		case hasGodiFrame(s):
			d.godi++
			note(s)
			if len(d.godiStacks) < 3 {
				d.godiStacks = append(d.godiStacks, s)
			}
		case strings.Contains(s, "context.(*cancelCtx).propagateCancel"):
			d.prop++
			note(s)
			if len(d.propStacks) < 3 {
				d.propStacks = append(d.propStacks, s)
			}
		default:
			d.other++
			if len(d.otherStacks) < 6 {
				d.otherStacks = append(d.otherStacks, s)
			}
		}
	}
	sort.Strings(ids)
	d.ids = strings.Join(ids, " ")
	return d
}

func hasGodiFrame(stack string) bool {
	const root = "github.com/junioryono/godi/v4"
	rest := stack
	for {
		i := strings.Index(rest, root)
		if i < 0 {
			return false
		}
		rest = rest[i+len(root):]
		if !strings.HasPrefix(rest, "/verifh") {
			return true
		}
	}
}

// waitGoroutines polls (bounded) until the goroutine count is back to want. open/openProp
// are the numbers of godi-framed / context-propagation goroutines that may legitimately
// exist. It gives up before the bound only when the surplus is provably permanent: every
// candidate goroutine is parked in a channel wait in two consecutive dumps (same ids), so
// nothing runnable is left that could cancel a context while the harness is only polling.
func waitGoroutines(want, open, openProp int, bound time.Duration) (int, bool, *gdump) {
	deadline := time.Now().Add(bound)
	sleep := 50 * time.Microsecond
	var prev string
	slept := time.Duration(0)
	nextDump := 40 * time.Millisecond
	for i := 0; ; i++ {
		n := runtime.NumGoroutine()
		if n <= want {
			return n, true, nil
		}
		if i < 100 {
			runtime.Gosched()
			continue
		}
		if time.Now().After(deadline) {
			if open < 0 {
				return n, false, nil
			}
			d := dumpGoroutines()
			return n, false, &d
		}
		time.Sleep(sleep)
		slept += sleep
		if sleep < 5*time.Millisecond {
			sleep *= 2
		}
		if open >= 0 && slept >= nextDump {
			nextDump = slept + 60*time.Millisecond
			d := dumpGoroutines()
			if d.allParked && (d.godi > open || d.prop > openProp) {
				if prev != "" && prev == d.ids {
					d.quiescent = true
					return runtime.NumGoroutine(), false, &d
				}
				prev = d.ids
			} else {
				prev = ""
			}
		}
	}
}

const goroutineBound = 10 * time.Second

// checkGoroutines waits (bounded) for the goroutine count to return to the case baseline plus
// the watchers of the scopes that are legitimately open, and classifies any surplus.
// phase "failed-create": the only calls since the previous check were failing creations.
func (e *env) checkGoroutines(label, phase string) int {
	e.c.R.Count("goroutine_checks", 1)
	if e.contaminated {
		n, ok, _ := waitGoroutines(e.baseG+e.open+e.openProp+e.knownGodi+e.knownProp, -1, 0, 20*time.Millisecond)
		if !ok && !e.contNoted {
			e.contNoted = true
			e.inconcl = append(e.inconcl, fmt.Sprintf("%s: goroutine accounting skipped: the worker process already carries %d goroutines leaked by earlier cases (reported there); NumGoroutine=%d", label, e.baseG, n))
		}
		return n - e.baseG
	}
	openG, openP := e.baseGodi+e.open+e.knownGodi, e.baseProp+e.openProp+e.knownProp
	want := e.baseG + e.open + e.openProp + e.knownGodi + e.knownProp
	n, ok, d := waitGoroutines(want, openG, openP, goroutineBound)
	if ok {
		return n - e.baseG
	}
	how := fmt.Sprintf("%v after the last call", goroutineBound)
	if d.quiescent {
		how = "and are all parked in a channel wait in two consecutive dumps while nothing else can run"
	}
	switch {
	case d.godi > openG:
		clause, sig := "goroutine-leak", "C14/goroutine-leak:kind=scope-watcher:after="+e.closeFeature()
		if phase == "failed-create" {
			clause, sig = "failed-create-goroutine-leak", "C14/failed-create-goroutine-leak:where="+e.whereClass()
		}
		e.violation(clause, sig, fmt.Sprintf("%s: %d goroutine(s) with godi frames remain %s (only %d scope(s) are still open and may own one each); NumGoroutine=%d baseline=%d\n%s", label, d.godi-e.baseGodi, how, e.open, n, e.baseG, strings.Join(d.godiStacks, "\n\n")))
		e.knownGodi += d.godi - openG
	case d.prop > openP:
		clause, sig := "goroutine-leak", "C14/goroutine-leak:kind=context-propagation:after="+e.closeFeature()
		if phase == "failed-create" {
			// the propagation goroutine of the never-cancelled derived context: same clause as the context itself
			clause, sig = "failed-create-ctx-not-cancelled", "C14/failed-create-ctx-not-cancelled:where="+e.whereClass()
		}
		e.violation(clause, sig, fmt.Sprintf("%s: %d context-propagation goroutine(s) of contexts that godi derived from the caller's (never cancelled, non-std) context remain %s (expected %d): the derived context was never cancelled\n%s", label, d.prop-e.baseProp, how, e.openProp, strings.Join(d.propStacks, "\n\n")))
		e.knownProp += d.prop - openP
	default:
		e.inconcl = append(e.inconcl, fmt.Sprintf("%s: NumGoroutine=%d > expected %d after %v but no extra goroutine has a godi frame (godi=%d open=%d prop=%d other=%d): %s", label, n, want, goroutineBound, d.godi, e.open, d.prop, d.other, trim(strings.Join(d.otherStacks, "\n\n"), 1500)))
	}
	return n - e.baseG
}

// ---- checkpoints ----

type cpStats struct {
	Label      string `json:"label"`
	Cycles     int    `json:"cycles"`
	Goroutines int    `json:"goroutines_over_baseline"`
	OpenScopes int    `json:"open_scopes_owning_a_goroutine"`
	LiveScopes int    `json:"live_scopes"`
	LiveInsts  int    `json:"live_instances"`
	LiveCtx    int    `json:"live_ctx_trackers"`
	OpenCtx    int    `json:"uncancelled_ctx"`
	Checked    int    `json:"weak_checked"`
	HeapObjs   uint64 `json:"heap_objects"`
	HeapNet    int64  `json:"heap_objects_minus_harness_weak_records"`
	GCs        int    `json:"gc_cycles"`
}

func closeClass(by uint8) string { return closedByNames[by] }

func levelClass(l int8) string {
	if l == 0 {
		return "provider.CreateScope"
	}
	return "scope.CreateScope"
}

func (e *env) whereClass() string {
	switch e.spec.Where {
	case "build":
		return "Build"
	case "provider":
		return "provider.CreateScope"
	default:
		return "scope.CreateScope"
	}
}

// checkpoint verifies everything that must hold for the scopes closed (or failed) so far.
// final: provider.Close has returned (end of the history).
func (e *env) checkpoint(label string, cycles int, final bool) cpStats {
	st := cpStats{Label: label, Cycles: cycles}
	r := e.reg
	fault := e.spec.Kind == "fault"

	// 1. goroutines
	phase := "normal"
	if fault && !e.tailNormal {
		phase = "failed-create"
	}
	e.afterProviderClose = final && e.spec.Where != "build"
	st.Goroutines = e.checkGoroutines(label, phase)
	st.OpenScopes = e.open + e.openProp

	// 2. contexts of closed / failed scopes
	type agg struct {
		n   int
		exs []string
	}
	bad := map[string]*agg{}
	clauseOf := map[string]string{}
	add := func(clause, sig, ex string) {
		a := bad[sig]
		if a == nil {
			a = &agg{}
			bad[sig] = a
			clauseOf[sig] = clause
		}
		a.n++
		if len(a.exs) < 4 {
			a.exs = append(a.exs, ex)
		}
	}
	var nCtx, nCap int64
	r.mu.Lock()
	nScopes := len(r.scopes)
	for i := 0; i < nScopes; i++ {
		s := &r.scopes[i]
		if s.failed || s.closedBy == cbOpen {
			continue
		}
		nCtx++
		if !isClosed(s.done) || s.errNil {
			st.OpenCtx++
			add("ctx-not-cancelled", "C14/ctx-not-cancelled:via="+closeClass(s.closedBy)+":created-by="+levelClass(s.level),
				fmt.Sprintf("scope #%d (%s, closed via %s): scope.Context() not cancelled (Done closed=%v, Err()==nil right after the close=%v)", s.serial, levelClass(s.level), closeClass(s.closedBy), isClosed(s.done), s.errNil))
		}
	}
	srcNames := [...]string{"?", "constructor newSB(ctx)", "constructor newSC(scope).Context()", "initializer initCtx(ctx)"}
	for i := range r.dones {
		d := &r.dones[i]
		if d.owner < 0 {
			continue // root scope: its context is not a derived cancellable one
		}
		s := &r.scopes[d.owner]
		if !s.failed && s.closedBy == cbOpen {
			continue
		}
		nCap++
		if isClosed(d.done) {
			continue
		}
		st.OpenCtx++
		if !s.failed && !isClosed(s.done) {
			continue // implied by ctx-not-cancelled of the same scope, reported above
		}
		if s.failed {
			add("failed-create-ctx-not-cancelled", "C14/failed-create-ctx-not-cancelled:where="+e.whereClass(),
				fmt.Sprintf("failed creation #%d: the context injected into %s during the failed creation is still not cancelled", s.serial, srcNames[d.src]))
		} else {
			add("captured-ctx-not-cancelled", "C14/captured-ctx-not-cancelled:via="+closeClass(s.closedBy)+":created-by="+levelClass(s.level),
				fmt.Sprintf("scope #%d (closed via %s): the context injected into %s is not cancelled", s.serial, closeClass(s.closedBy), srcNames[d.src]))
		}
	}
	r.mu.Unlock()
	e.c.R.Count("ctx_checked", nCtx)
	e.c.R.Count("captured_ctx_checked", nCap)

	// 3. reachability: up to 5 GC cycles
	countLive := func(report bool) int {
		live := 0
		st.LiveScopes, st.LiveInsts, st.LiveCtx, st.Checked = 0, 0, 0, 0
		r.mu.Lock()
		defer r.mu.Unlock()
		for i := 0; i < len(r.scopes); i++ {
			s := &r.scopes[i]
			if !s.failed && s.closedBy == cbOpen {
				continue
			}
			if s.held {
				continue
			}
			if !s.failed {
				st.Checked++
				if s.w.Value() != nil {
					live++
					st.LiveScopes++
					if report {
						add("scope-retained", "C14/scope-retained:via="+closeClass(s.closedBy)+":created-by="+levelClass(s.level),
							fmt.Sprintf("scope #%d (%s, closed via %s) is still reachable after %d GC cycles", s.serial, levelClass(s.level), closeClass(s.closedBy), st.GCs))
					}
				}
			}
			if s.hasT {
				st.Checked++
				if s.tw.Value() != nil {
					live++
					st.LiveCtx++
					// a retained scope retains its context: only report the context on its own
					if report && (s.failed || s.w.Value() == nil) {
						if s.failed {
							add("failed-create-ctx-not-cancelled", "C14/failed-create-ctx-not-cancelled:where="+e.whereClass(),
								fmt.Sprintf("failed creation #%d: the caller's context value chain handed to CreateScope is still reachable after %d GC cycles (the derived context stays registered with the never-cancelled parent context)", s.serial, st.GCs))
						} else {
							add("ctx-retained", "C14/ctx-retained:via="+closeClass(s.closedBy)+":created-by="+levelClass(s.level),
								fmt.Sprintf("scope #%d (closed via %s): the context chain handed to CreateScope is still reachable after %d GC cycles", s.serial, closeClass(s.closedBy), st.GCs))
						}
					}
				}
			}
		}
		for i := range r.insts {
			in := &r.insts[i]
			if in.typ == tGS {
				continue
			}
			var s *scopeRec
			if in.owner >= 0 {
				s = &r.scopes[in.owner]
				if !s.failed && s.closedBy == cbOpen {
					continue
				}
			} else if !final {
				continue // root scope lives until provider.Close
			}
			st.Checked++
			if in.w.Value() == nil {
				continue
			}
			live++
			st.LiveInsts++
			if !report {
				continue
			}
			if s != nil && !s.failed && !s.held && s.w.Value() != nil {
				continue // implied by scope-retained of the owning scope
			}
			switch {
			case s == nil:
				add("instance-retained", "C14/instance-retained:via=provider-close:created-by=root-scope",
					fmt.Sprintf("%s instance #%d created in the root scope is still reachable after provider.Close and %d GC cycles", typeNames[in.typ], i, st.GCs))
			case s.failed:
				add("failed-create-instance-retained", "C14/failed-create-instance-retained:where="+e.whereClass(),
					fmt.Sprintf("failed creation #%d: %s instance #%d built for it is still reachable after %d GC cycles", s.serial, typeNames[in.typ], i, st.GCs))
			case s.held:
				add("closed-scope-retains-instances", "C14/closed-scope-retains-instances:via="+closeClass(s.closedBy),
					fmt.Sprintf("scope #%d was closed (via %s) and only its handle is kept by the caller, yet %s instance #%d it created is still reachable after %d GC cycles", s.serial, closeClass(s.closedBy), typeNames[in.typ], i, st.GCs))
			default:
				add("instance-retained", "C14/instance-retained:via="+closeClass(s.closedBy)+":created-by="+levelClass(s.level),
					fmt.Sprintf("%s instance #%d of scope #%d (%s, closed via %s) is still reachable after %d GC cycles", typeNames[in.typ], i, s.serial, levelClass(s.level), closeClass(s.closedBy), st.GCs))
			}
		}
		return live
	}
	for st.GCs < 5 {
		runtime.GC()
		st.GCs++
		if countLive(false) == 0 {
			break
		}
	}
	if st.LiveScopes+st.LiveInsts+st.LiveCtx > 0 {
		countLive(true)
	}
	e.c.R.Count("weak_checked", int64(st.Checked))
	e.c.R.Count("gc_cycles", int64(st.GCs))

	// 4. fault part, end of history: instances built for a failed creation closed exactly once
	if fault && final {
		r.mu.Lock()
		for i := range r.insts {
			in := &r.insts[i]
			if !in.disp || in.typ == tGS {
				continue
			}
			var failedOwner bool
			if in.owner >= 0 {
				failedOwner = r.scopes[in.owner].failed
			} else {
				failedOwner = e.spec.Where == "build"
			}
			if !failedOwner {
				continue
			}
			e.c.R.Count("failed_create_disposables_checked", 1)
			if in.closesAtReturn == 1 {
				e.c.R.Count("failed_create_disposables_closed_at_return", 1)
			}
			switch {
			case in.closes == 0:
				add("failed-create-instance-not-closed", "C14/failed-create-instance-not-closed:where="+e.whereClass(),
					fmt.Sprintf("failed creation #%d: disposable %s instance #%d built by an initializer before the failure was never closed (0 Close calls when %s returned: %v; 0 at the end of the history, after provider.Close)", in.owner, typeNames[in.typ], i, e.whereClass(), in.closesAtReturn == 0))
			case in.closes > 1:
				add("failed-create-instance-closed-twice", "C14/failed-create-instance-closed-twice:where="+e.whereClass(),
					fmt.Sprintf("failed creation #%d: disposable %s instance #%d was closed %d times", in.owner, typeNames[in.typ], i, in.closes))
			}
		}
		r.mu.Unlock()
	}

	sigs := make([]string, 0, len(bad))
	for s := range bad {
		sigs = append(sigs, s)
	}
	sort.Strings(sigs)
	for _, s := range sigs {
		a := bad[s]
		e.violation(clauseOf[s], s, fmt.Sprintf("%s (after %d cycles): %d occurrence(s), e.g.\n  %s", label, cycles, a.n, strings.Join(a.exs, "\n  ")))
	}

	var ms runtime.MemStats
	runtime.ReadMemStats(&ms)
	st.HeapObjs = ms.HeapObjects
	r.mu.Lock()
	st.HeapNet = int64(ms.HeapObjects) - int64(2*len(r.scopes)+len(r.insts))
	r.mu.Unlock()
	return st
}

func (e *env) closeFeature() string {
	if e.afterProviderClose {
		return "provider-close"
	}
	if e.spec.Kind == "fault" {
		return "close" // the fault-free parts of a fault case close explicitly; failed creations have their own clause
	}
	switch e.spec.Close {
	case "cancel", "cancel+close":
		return "cancel"
	case "provider-close":
		return "provider-close"
	default:
		return "close"
	}
}

func trim(s string, n int) string {
	if len(s) > n {
		return s[:n] + " …"
	}
	return s
}
