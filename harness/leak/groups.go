package leak

import (
	"context"
	"fmt"
	"reflect"
	"runtime"
	"weak"

	"github.com/junioryono/godi/v4"
	"github.com/junioryono/godi/v4/verifh/eng"
)

// Groups whose members have different lifetimes, in create-use-close cycles.
//
// Group "handlers": a singleton metrics handler registered first, two scoped audit handlers
// (each keeps the context.Context of its scope) and a transient one; another group starts with
// the scoped members. Every cycle creates a scope, resolves the groups (directly and through a
// group field of a scoped service) and closes the scope. "Neither the provider nor the parent
// scope keeps the scope or the instances it created reachable": after GC no scope of a finished
// cycle and no scoped / transient member created in one is alive.

type mgHandler interface{ Name() string }
type mgMetrics struct{}
type mgAudit struct {
	ctx context.Context
	n   int
}
type mgTrace struct{ ctx context.Context }

func (*mgMetrics) Name() string { return "metrics" }
func (a *mgAudit) Name() string { return fmt.Sprintf("audit%d", a.n) }
func (*mgTrace) Name() string   { return "trace" }

type mgRouterIn struct {
	godi.In
	Handlers []mgHandler `group:"handlers"`
	Late     []mgHandler `group:"late"`
}
type mgRouter struct{ hs []mgHandler }

func runMixedGroupCycles(c *eng.Ctx, idx int) bool {
	viol := func(clause, detail string) {
		c.R.Violation(eng.Violation{Prop: "C14", Clause: clause, Sig: "C14/" + clause + ":group-with-members-of-different-lifetimes", Case: idx, CaseID: "mixed-group-cycles", Detail: detail,
			Replay: map[string]any{"fixture": "mixed-group-cycles"}})
	}
	coll := godi.NewCollection()
	must := func(err error) {
		if err != nil {
			panic("mixed-group fixture: " + err.Error())
		}
	}
	as := godi.As[mgHandler]()
	must(coll.AddSingleton(func() *mgMetrics { return &mgMetrics{} }, as, godi.Group("handlers")))
	must(coll.AddScoped(func(ctx context.Context) *mgAudit { return &mgAudit{ctx, 1} }, as, godi.Group("handlers")))
	must(coll.AddScoped(func(ctx context.Context) *mgAudit { return &mgAudit{ctx, 2} }, as, godi.Group("handlers")))
	must(coll.AddTransient(func(ctx context.Context) *mgTrace { return &mgTrace{ctx} }, as, godi.Group("handlers")))
	must(coll.AddScoped(func(ctx context.Context) *mgAudit { return &mgAudit{ctx, 3} }, as, godi.Group("late")))
	must(coll.AddSingleton(func() *mgMetrics { return &mgMetrics{} }, as, godi.Group("late")))
	must(coll.AddScoped(func(in mgRouterIn) *mgRouter {
		return &mgRouter{append(append([]mgHandler{}, in.Handlers...), in.Late...)}
	}))
	prov, err := coll.Build()
	if err != nil {
		panic("mixed-group fixture does not build: " + err.Error())
	}
	cycles := c.Pick(60, 400)
	var weaks []weak.Pointer[byte]
	for i := 0; i < cycles; i++ {
		var sc godi.Scope
		if i%3 == 2 {
			parent, err := prov.CreateScope(context.Background())
			must(err)
			sc, err = parent.CreateScope(nil)
			must(err)
			defer parent.Close()
		} else {
			sc, err = prov.CreateScope(context.Background())
			must(err)
		}
		hs, err := godi.ResolveGroup[mgHandler](sc, "handlers")
		must(err)
		ls, err := godi.ResolveGroup[mgHandler](sc, "late")
		must(err)
		if i%2 == 0 {
			_, err = godi.Resolve[*mgRouter](sc)
			must(err)
		}
		if len(hs) != 4 || len(ls) != 2 {
			viol("group-members", fmt.Sprintf("cycle %d: groups of %d and %d members (want 4 and 2)", i, len(hs), len(ls)))
			break
		}
		weaks = append(weaks, weak.Make((*byte)(reflect.ValueOf(sc).UnsafePointer())))
		for _, h := range append(hs, ls...) {
			if _, single := h.(*mgMetrics); !single {
				weaks = append(weaks, weak.Make((*byte)(reflect.ValueOf(h).UnsafePointer())))
			}
		}
		hs, ls = nil, nil
		_ = sc.Close()
		sc = nil
		c.R.Count("mixed_group_cycles", 1)
	}
	for i := 0; i < 4; i++ {
		runtime.GC()
	}
	alive := 0
	for _, w := range weaks {
		if w.Value() != nil {
			alive++
		}
	}
	c.R.Count("weak_checked", int64(len(weaks)))
	// (nested cycles keep their parent open until the end of the case: the parent's scope is not
	// among the pointers that are checked)
	if alive > 0 {
		viol("instance-retained", fmt.Sprintf("with the provider still open and after 4 GC cycles %d of %d scopes / scoped and transient group members of closed scopes are still reachable", alive, len(weaks)))
	}
	_ = prov.Close()
	return true
}
