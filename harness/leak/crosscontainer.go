package leak

import (
	"fmt"
	"sync/atomic"

	"github.com/junioryono/godi/v4"
	"github.com/junioryono/godi/v4/verifh/eng"
)

// Two containers in one process register the SAME constructor (same parameter-object type); one of
// them registers the constructor's optional dependency - scoped, with a Close method -, the other
// does not (a tenant without tracing). Cycles alternate: a scope of the first is created, used and
// closed; then a scope of the second. "After a scope is closed ... neither the provider nor the
// parent scope keeps ... the instances it created reachable": nothing the closed scope created
// shows up anywhere again - not in the other container's services either, whatever the library
// recycles between constructor calls.

type ccTracer struct {
	id     int32
	closed atomic.Int32
}

func (t *ccTracer) Close() error { t.closed.Add(1); return nil }

type ccIn struct {
	godi.In
	Tracer *ccTracer `optional:"true"`
}
type ccHandler struct{ tracer *ccTracer }

type ccInPtr struct {
	godi.In
	Tracer *ccTracer `optional:"true"`
}
type ccJob struct{ tracer *ccTracer }

func runCrossContainerCycles(c *eng.Ctx, idx int) bool {
	viol := func(clause, detail string) {
		c.R.Violation(eng.Violation{Prop: "C14", Clause: clause, Sig: "C14/" + clause + ":two-containers-share-a-constructor", Case: idx, CaseID: "cross-container-cycles", Detail: detail,
			Replay: map[string]any{"fixture": "cross-container-cycles"}})
	}
	var made atomic.Int32
	newHandler := func(in ccIn) *ccHandler { return &ccHandler{in.Tracer} }
	newJob := func(in *ccInPtr) *ccJob { return &ccJob{in.Tracer} }
	build := func(withTracer bool, life godi.Lifetime) godi.Provider {
		coll := godi.NewCollection()
		add := coll.AddScoped
		if life == godi.Transient {
			add = coll.AddTransient
		}
		if err := add(newHandler); err != nil {
			panic("cross-container fixture: " + err.Error())
		}
		if err := add(newJob); err != nil {
			panic("cross-container fixture: " + err.Error())
		}
		if withTracer {
			if err := coll.AddScoped(func() *ccTracer { return &ccTracer{id: made.Add(1)} }); err != nil {
				panic("cross-container fixture: " + err.Error())
			}
		}
		p, err := coll.Build()
		if err != nil {
			panic("cross-container fixture does not build: " + err.Error())
		}
		return p
	}
	cycles := c.Pick(30, 150)
	leaked := 0
	for _, life := range []godi.Lifetime{godi.Scoped, godi.Transient} {
		a, b := build(true, godi.Scoped), build(false, life)
		for i := 0; i < cycles && leaked == 0; i++ {
			sa, err := a.CreateScope(nil)
			if err != nil {
				panic("cross-container fixture: " + err.Error())
			}
			h, err := godi.Resolve[*ccHandler](sa)
			if err != nil || h.tracer == nil {
				viol("fixture", fmt.Sprintf("container A does not inject its tracer: %v", err))
				return true
			}
			if _, err := godi.Resolve[*ccJob](sa); err != nil {
				viol("fixture", err.Error())
				return true
			}
			_ = sa.Close()
			sb, err := b.CreateScope(nil)
			if err != nil {
				panic("cross-container fixture: " + err.Error())
			}
			hb, err1 := godi.Resolve[*ccHandler](sb)
			jb, err2 := godi.Resolve[*ccJob](sb)
			switch {
			case err1 != nil || err2 != nil:
				viol("resolution-failed", fmt.Sprintf("container B: %v %v", err1, err2))
				leaked++
			case hb.tracer != nil || jb.tracer != nil:
				t := hb.tracer
				if t == nil {
					t = jb.tracer
				}
				viol("instance-of-a-closed-scope-handed-out", fmt.Sprintf("cycle %d: a service of container B (which registers no tracer) was constructed with tracer #%d - an instance created by a scope of container A that is closed (Close calls on it: %d): something keeps the closed scope's instances and hands them out again", i, t.id, t.closed.Load()))
				leaked++
			}
			_ = sb.Close()
			c.R.Count("cross_container_cycles", 1)
		}
		_ = a.Close()
		_ = b.Close()
	}
	return true
}
