package leak

import (
	"context"
	"fmt"
	"runtime"
	"sync"
	"sync/atomic"
	"time"

	"github.com/junioryono/godi/v4"
	"github.com/junioryono/godi/v4/verifh/eng"
)

// A scoped service with a worker goroutine bound to the scope's context.
//
// The usual Go shape of "a goroutine started for a scope": the constructor takes the injected
// context.Context and starts `go loop(ctx)`; Close waits until the loop has ended, so that no
// goroutine of the service outlives it. The scope's context is the only signal the loop gets.
// For "after a scope is closed, no goroutine started for it remains [and] the context derived
// for it is cancelled" to be reachable at all, the scope has to cancel its context no later than
// it asks such an instance to close - otherwise Close waits for a cancellation that only comes
// after it returns, and the scope is never closed.

type workerSvc struct {
	ctx     context.Context
	stopped chan struct{}
	w       *workerWorld
}

type workerWorld struct {
	running atomic.Int32
	blocked atomic.Int32 // Close calls that gave up waiting for the context
	closed  atomic.Int32
}

var (
	workerMu  sync.Mutex
	workerCur *workerWorld
)

const workerCloseBound = 10 * time.Second

func newWorkerSvc(ctx context.Context) *workerSvc {
	workerMu.Lock()
	w := workerCur
	workerMu.Unlock()
	s := &workerSvc{ctx: ctx, stopped: make(chan struct{}), w: w}
	if ctx.Done() == nil {
		close(s.stopped) // a context that can never be cancelled (the root scope's): no worker
		return s
	}
	w.running.Add(1)
	go func() {
		defer close(s.stopped)
		defer w.running.Add(-1)
		<-ctx.Done()
	}()
	return s
}

func (s *workerSvc) Close() error {
	s.w.closed.Add(1)
	select {
	case <-s.stopped:
	case <-time.After(workerCloseBound):
		// generous bound, reached only when the cancellation never comes while Close runs
		s.w.blocked.Add(1)
	}
	return nil
}

// runWorkerCycles: create-use-close cycles of top-level and nested scopes on contexts that nobody
// cancels; the scope's own Close is the only thing that ends the worker.
func runWorkerCycles(c *eng.Ctx, idx int) bool {
	w := &workerWorld{}
	workerMu.Lock()
	workerCur = w
	workerMu.Unlock()
	viol := func(clause, detail string) {
		c.R.Violation(eng.Violation{Prop: "C14", Clause: clause, Sig: "C14/" + clause + ":instance-with-a-worker-bound-to-the-scope-context", Case: idx, CaseID: "worker-cycles", Detail: detail,
			Replay: map[string]any{"fixture": "worker-cycles"}})
	}
	coll := godi.NewCollection()
	if err := coll.AddScoped(newWorkerSvc); err != nil {
		panic("worker fixture: " + err.Error())
	}
	prov, err := coll.Build()
	if err != nil {
		panic("worker fixture does not build: " + err.Error())
	}
	defer prov.Close()
	base := runtime.NumGoroutine()
	cycles := c.Pick(12, 60)
	kinds := []string{"top-level:background", "top-level:nil", "nested:nil", "nested:background", "nested:derived-from-parent"}
	for i := 0; i < cycles; i++ {
		kind := kinds[i%len(kinds)]
		var parent, sc godi.Scope
		var err error
		switch kind {
		case "top-level:background":
			sc, err = prov.CreateScope(context.Background())
		case "top-level:nil":
			sc, err = prov.CreateScope(nil)
		default:
			parent, err = prov.CreateScope(context.Background())
			if err == nil {
				switch kind {
				case "nested:nil":
					sc, err = parent.CreateScope(nil)
				case "nested:background":
					sc, err = parent.CreateScope(context.Background())
				default:
					sc, err = parent.CreateScope(context.WithValue(parent.Context(), workerKey{}, i))
				}
			}
		}
		if err != nil {
			panic("worker fixture: CreateScope: " + err.Error())
		}
		if _, err := godi.Resolve[*workerSvc](sc); err != nil {
			panic("worker fixture: resolve: " + err.Error())
		}
		ctx := sc.Context()
		before := w.blocked.Load()
		_ = sc.Close()
		if w.blocked.Load() != before {
			viol("close-cannot-complete", fmt.Sprintf("cycle %d (%s): the scope asked an instance to close while the scope's context was still live and did not cancel it for %v: an instance whose Close waits for its worker (which waits for the scope's context) can never be closed", i, kind, workerCloseBound))
			if parent != nil {
				_ = parent.Close()
			}
			break
		}
		if ctx.Err() == nil {
			viol("ctx-not-cancelled", fmt.Sprintf("cycle %d (%s): the scope's context is not cancelled after Close returned", i, kind))
		}
		if parent != nil {
			_ = parent.Close()
		}
		c.R.Count("worker_cycles", 1)
	}
	// bounded wait for watcher goroutines to end
	deadline := time.Now().Add(10 * time.Second)
	for (runtime.NumGoroutine() > base+2 || w.running.Load() != 0) && time.Now().Before(deadline) {
		time.Sleep(5 * time.Millisecond)
	}
	if n := w.running.Load(); n != 0 {
		viol("goroutine-leak", fmt.Sprintf("%d worker goroutines bound to the contexts of closed scopes are still running", n))
	}
	return true
}

type workerKey struct{}
