// Package leak is the runtime monitor of C14 ("closing a scope releases everything held on
// its behalf"): goroutine accounting, weak-pointer reachability, context cancellation and
// N-vs-2N growth over create/(nest)/use/close cycles, plus the fault enumeration of failing
// scope initializers. See /verif/DESIGN.md §3 C14 and §7.9.

package leak

import (
	"fmt"
	"github.com/junioryono/godi/v4/verifh/web"
	"math/rand"
	"os"
	"runtime"
	"time"

	"github.com/junioryono/godi/v4/verifh/eng"
)

func init() {
	eng.Register(&eng.Property{
		ID:    "C14",
		Level: "exploration",
		Race:  false,
		Rule: "cycles case = (host: provider | long-lived scope | long-lived nested scope) x (caller context: Background | nil | one long-lived never-cancelled cancellable | non-std context type | fresh cancellable per cycle) x (scope-tree shape as parent vector, per-child context kind) x (close mode: leaf-first | root-only with open children | creation-order incl. repeated Close | random order | cancel caller context | cancel+Close | left open until provider.Close | closed with handles held) x initializer set x resolution mask x (no Close() errors | every disposable of every 3rd cycle fails to Close | every SB instance fails to Close | only instances of child scopes fail to Close; the DisposalError returned by Close is ignored), run for N and 2N cycles (quick N=200/400, thorough N=5000/10000; the left-open mode is capped at N=2000, 1000 for trees of more than 4 scopes, because every open scope owns a goroutine); " +
			"fault case = (Build | provider.CreateScope | scope.CreateScope on child | on grandchild) x caller context x initializer order x failing position 1..m x (error | panic | dependency constructor error | dependency constructor panic) x 1 or several consecutive failing creations, embedded between fault-free cycles. " +
			"Non-trivial: at least one scope was created and then closed, or at least one creation failed with the planned fault actually fired; distinct = distinct canonical case descriptions.",
		Shards:        func(tier string) int { return map[string]int{"quick": 8, "thorough": 16}[tier] },
		Run:           run,
		NeedEvents:    []string{"scopes_closed", "failed_creations", "weak_checked", "goroutine_checks", "ctx_checked", "captured_ctx_checked", "close_errors_returned"},
		ShardTimeoutS: func(tier string) int { return map[string]int{"quick": 240, "thorough": 1500}[tier] },
		Assumptions: []string{
			"runtime.NumGoroutine and runtime.Stack(all) see every goroutine started by godi; a goroutine is attributed to godi by a godi frame (or godi 'created by') in its stack, and to a context godi derived from the caller's non-std context by the context-propagation frame (the harness never derives from that context itself)",
			"an object is 'released' when weak.Pointer.Value() is nil after at most 5 runtime.GC() cycles; the harness keeps ids, weak pointers and Done channels only",
			"a leftover goroutine is reported before the 10 s bound only when every candidate goroutine is parked in a channel wait in two consecutive dumps while the harness issues no further calls (nothing runnable is left that could cancel its context)",
			"boundedness for unbounded N is decided as exact accounting at N and 2N; heap-object counts are information only",
			"closes of instances built for a failed creation are counted at the end of the history (after provider.Close); whether they were already closed when the failing call returned is reported as information",
		},
	})
}

var fixedShapes = [][]int{
	{-1},
	{-1, 0},
	{-1, 0, 1},
	{-1, 0, 0, 0},
	{-1, 0, 0, 1, 1, 2, 2},
	{-1, -1, 0, 1},
	{-1, 0, 1, 2},
}

var childCtxKinds = []string{"inherit", "parentctx", "bg", "long"}

func randShape(rng *rand.Rand) []int {
	n := 2 + rng.Intn(7)
	sh := make([]int, n)
	sh[0] = -1
	for i := 1; i < n; i++ {
		if rng.Intn(6) == 0 {
			sh[i] = -1
		} else {
			sh[i] = rng.Intn(i)
		}
	}
	return sh
}

func randInits(rng *rand.Rand, allowEmpty bool) []int {
	if allowEmpty && rng.Intn(3) == 0 {
		return []int{}
	}
	p := rng.Perm(len(initFns))
	if rng.Intn(3) == 0 {
		p = p[:2+rng.Intn(len(p)-2)]
	}
	return p
}

func randUse(rng *rand.Rand) int {
	switch rng.Intn(4) {
	case 0:
		return uAll
	case 1:
		return uSC | uTA // SC pulls SB, SA and the context; TA pulls TB
	default:
		return 1 + rng.Intn(uAll)
	}
}

func fillChildCtx(rng *rand.Rand, shape []int) []string {
	out := make([]string, len(shape))
	for i := range shape {
		if shape[i] < 0 {
			out[i] = "-"
		} else {
			out[i] = childCtxKinds[rng.Intn(len(childCtxKinds))]
		}
	}
	return out
}

// cases builds the fixed case list of (tier, seed).
func cases(c *eng.Ctx) []*Spec {
	rng := rand.New(rand.NewSource(c.Seed*7919 + 14))
	var out []*Spec
	n := c.Pick(200, 5000)
	hosts := []string{"provider", "scope", "nested", "root"}
	type mk struct {
		mode  string
		kinds []string
	}
	plain := []string{"bg", "nil", "long", "custom"}
	modes := []mk{
		{"leaf-first", plain}, {"root-only", plain}, {"creation-order", plain}, {"random", plain},
		{"provider-close", plain}, {"held", plain},
		{"cancel", []string{"percycle"}}, {"cancel+close", []string{"percycle"}},
	}
	for _, host := range hosts {
		for _, m := range modes {
			for _, kind := range m.kinds {
				var shapes [][]int
				if c.Thorough() {
					shapes = append(shapes, fixedShapes...)
					shapes = append(shapes, randShape(rng), randShape(rng))
				} else {
					// one nested fixed shape + one random shape
					shapes = append(shapes, fixedShapes[1+rng.Intn(len(fixedShapes)-1)], randShape(rng))
				}
				for _, sh := range shapes {
					sp := &Spec{Kind: "cycles", N: n, Host: host, Parent: kind, Shape: sh, ChildCtx: fillChildCtx(rng, sh), Close: m.mode,
						Inits: randInits(rng, true), Use: randUse(rng), Seed: rng.Int63()}
					if host != "provider" && rng.Intn(2) == 0 {
						sp.HostClose = "explicit"
					}
					if m.mode == "provider-close" && sp.N > 2000 {
						sp.N = 2000
					}
					if m.mode == "provider-close" && len(sh) > 4 && c.Thorough() {
						sp.N = 1000
					}
					out = append(out, sp)
				}
			}
		}
	}

	// close-error workload: some disposable instances return an error from Close(), so the
	// scope's Close returns a DisposalError (ignored); every release oracle must hold unchanged
	for _, host := range hosts {
		for _, m := range modes {
			for _, variant := range []string{"kth", "kind-SB", "child-only"} {
				kinds := m.kinds
				if !c.Thorough() {
					kinds = []string{m.kinds[rng.Intn(len(m.kinds))]}
				}
				for _, kind := range kinds {
					// nested shapes only: the parent's Close must report (and survive) its child's error
					shapes := [][]int{fixedShapes[1+rng.Intn(len(fixedShapes)-1)]}
					if c.Thorough() {
						shapes = append(shapes, append([]int{-1, 0}, randShape(rng)[2:]...))
					}
					for _, sh := range shapes {
						sp := &Spec{Kind: "cycles", N: n, Host: host, Parent: kind, Shape: sh, ChildCtx: fillChildCtx(rng, sh), Close: m.mode,
							Inits: randInits(rng, true), Use: randUse(rng) | uSA | uSB | uTA, Seed: rng.Int63(), CloseErr: variant}
						if host != "provider" && rng.Intn(2) == 0 {
							sp.HostClose = "explicit"
						}
						if m.mode == "provider-close" && sp.N > 2000 {
							sp.N = 2000
						}
						if m.mode == "provider-close" && len(sh) > 4 && c.Thorough() {
							sp.N = 1000
						}
						out = append(out, sp)
					}
				}
			}
		}
	}

	// contexts that are already done when the scope is created (a request aborted before its
	// scope is requested): the scope is created and closed right away by its watcher; the
	// explicit Close of the cycle is then the idempotent second one. Everything must still be
	// released. Roots with a done context are leaves (a child could not be created on them);
	// "done" children hang below a live root.
	for _, host := range hosts {
		for _, mode := range []string{"leaf-first", "creation-order", "random", "held"} {
			out = append(out, &Spec{Kind: "cycles", N: n, Host: host, Parent: "done", Shape: []int{-1, -1}, ChildCtx: []string{"", ""}, Close: mode,
				Inits: randInits(rng, true), Use: randUse(rng), Seed: rng.Int63()})
			out = append(out, &Spec{Kind: "cycles", N: n, Host: host, Parent: plain[rng.Intn(len(plain))], Shape: []int{-1, 0, 0}, ChildCtx: []string{"", "done", "done"}, Close: mode,
				Inits: randInits(rng, true), Use: randUse(rng), Seed: rng.Int63()})
		}
	}

	// fault enumeration
	orders := [][]int{{0, 1, 2, 3, 4}, {1, 0, 2, 3, 4}}
	extra := c.Pick(2, 10)
	for i := 0; i < extra; i++ {
		orders = append(orders, randInits(rng, false))
	}
	wheres := []string{"provider", "child", "grandchild", "build"}
	kinds := []string{fkErr, fkPanic, fkDepE, fkDepP}
	for _, where := range wheres {
		parents := []string{"bg", "long", "custom"}
		if where == "build" {
			parents = []string{"bg"}
		}
		for _, parent := range parents {
			for _, ord := range orders {
				for pos := range ord {
					for _, fk := range kinds {
						if _, _, ok := faultFn(ord, pos, fk); !ok {
							continue
						}
						sp := &Spec{Kind: "fault", Parent: parent, Inits: ord, Use: randUse(rng), Seed: rng.Int63(), Where: where, Pos: pos, FKind: fk, Repeat: 1}
						if where != "build" && rng.Intn(3) == 0 {
							sp.Repeat = 2 + rng.Intn(4)
						}
						out = append(out, sp)
					}
				}
			}
		}
	}
	return out
}

func run(c *eng.Ctx) {
	list := cases(c)
	procBase := runtime.NumGoroutine()
	defer func() {
		// create-vs-close races: own workload, own case indices after the list
		for v := 0; v < 6; v++ {
			idx := len(list) + v
			if !c.Mine(idx) {
				continue
			}
			settle(procBase)
			c.R.Begin(idx)
			nt := runCreateCloseRace(c, idx, v)
			c.R.End(idx, eng.Hash("c14-race", v), nt)
		}
		if idx := len(list) + 6; c.Mine(idx) {
			settle(procBase)
			c.R.Begin(idx)
			nt := runCreateCloseSteered(c, idx)
			c.R.End(idx, eng.Hash("c14-steered"), nt)
		}
		// the scope middleware installed on two levels of one route, every web integration:
		// nothing of either level's scope survives the request
		{
			n := len(list) + 8
			web.RunNestedInstall(c, "C14", func() (int, bool) { i := n; n++; return i, c.Mine(i) })
			// requests rejected by a configured middleware, every web integration
			m := len(list) + 300
			web.RunRejectedRequests(c, "C14", func() (int, bool) { i := m; m++; return i, c.Mine(i) })
		}
		if idx := len(list) + 7; c.Mine(idx) {
			settle(procBase)
			c.R.Begin(idx)
			nt := runWorkerCycles(c, idx)
			c.R.End(idx, eng.Hash("c14-worker"), nt)
		}
		if idx := len(list) + 401; c.Mine(idx) {
			settle(procBase)
			c.R.Begin(idx)
			nt := runMixedGroupCycles(c, idx)
			c.R.End(idx, eng.Hash("c14-mixed-groups"), nt)
		}
		if idx := len(list) + 405; c.Mine(idx) {
			settle(procBase)
			c.R.Begin(idx)
			nt := runFailingCloseCycles(c, idx)
			c.R.End(idx, eng.Hash("c14-failing-close"), nt)
		}
		if idx := len(list) + 404; c.Mine(idx) {
			settle(procBase)
			c.R.Begin(idx)
			nt := runAliasedInstanceCycles(c, idx)
			c.R.End(idx, eng.Hash("c14-aliased-instances"), nt)
		}
		if idx := len(list) + 403; c.Mine(idx) {
			settle(procBase)
			c.R.Begin(idx)
			nt := runCrossContainerCycles(c, idx)
			c.R.End(idx, eng.Hash("c14-cross-container"), nt)
		}
		if idx := len(list) + 402; c.Mine(idx) {
			settle(procBase)
			c.R.Begin(idx)
			nt := runRefusedCreations(c, idx)
			c.R.End(idx, eng.Hash("c14-refused-creations"), nt)
		}
		if idx := len(list) + 400; c.Mine(idx) {
			settle(procBase)
			c.R.Begin(idx)
			nt := runUowCycles(c, idx)
			c.R.End(idx, eng.Hash("c14-uow"), nt)
		}
	}()
	for idx, sp := range list {
		if !c.Mine(idx) {
			continue
		}
		c.R.Begin(idx)
		t0 := time.Now()
		nontrivial := runCase(c, idx, sp, procBase)
		if os.Getenv("VERIF_C14_TIMING") != "" {
			fmt.Fprintf(os.Stderr, "case %d %.3fs %s\n", idx, time.Since(t0).Seconds(), sp.canon())
		}
		c.R.End(idx, eng.Hash(sp.canon()), nontrivial)
	}
}

func runCase(c *eng.Ctx, idx int, sp *Spec, procBase int) bool {
	// let leftovers of the previous case drain, then take this case's baseline
	settle(procBase)
	e := newEnv(c, idx, sp)
	e.baseG = runtime.NumGoroutine()
	switch {
	case e.baseG > procBase+2000:
		e.contaminated = true // dumps would dominate the run; the leak was reported by the cases that caused it
	case e.baseG > procBase:
		d := dumpGoroutines()
		e.baseGodi, e.baseProp = d.godi, d.prop
	}
	var stats []cpStats
	if sp.Kind == "fault" {
		stats = e.runFault()
	} else {
		stats = e.runCycles()
	}
	r := e.reg
	r.mu.Lock()
	nScopes, nInsts, nCloses, nInits := len(r.scopes), len(r.insts), r.nCloses, len(r.inits)
	nCloseErrs := r.nCloseErrs
	nCreated := 0
	for i := range r.scopes {
		if !r.scopes[i].failed {
			nCreated++
		}
	}
	r.mu.Unlock()
	c.R.Count("scopes_created", int64(nCreated))
	c.R.Count("scopes_closed", int64(e.nClosed))
	c.R.Count("instances_created", int64(nInsts))
	c.R.Count("close_events", nCloses)
	c.R.Count("close_errors_returned", nCloseErrs)
	if sp.CloseErr != "" {
		c.R.Count("cases_cycles_with_close_errors", 1)
	}
	c.R.Count("initializer_invocations", int64(nInits))
	c.R.Count("cases_"+sp.Kind, 1)
	bornDone := sp.Parent == "done"
	for _, k := range sp.ChildCtx {
		if k == "done" {
			bornDone = true
		}
	}
	if bornDone {
		// resolutions race the watcher that closes a scope whose context was done at creation
		c.R.Count("cases_with_contexts_done_at_creation", 1)
		c.R.Count("resolutions_refused_by_scopes_born_cancelled", int64(e.getErrs))
	} else if e.getErrs > 0 {
		c.R.Count("unexpected_get_errors", int64(e.getErrs))
		e.inconcl = append(e.inconcl, "a fault-free resolution failed (not judged by C14)")
	}
	if len(stats) >= 2 && sp.Kind == "cycles" {
		c.R.Count("heap_objects_delta_N_to_2N_info", stats[1].HeapNet-stats[0].HeapNet)
	}
	e.flush()
	if wantSample(c, sp) {
		c.R.Sample(map[string]any{"case": sp, "checkpoints": stats, "scopes": nScopes, "failed_creations": e.nFailed, "instances": nInsts, "close_events": nCloses, "close_errors_returned": nCloseErrs})
	}
	nontrivial := e.poisoned == "" && (e.nClosed > 0 || e.nFailed > 0)
	e.cleanup()
	return nontrivial
}

var sampled = map[string]int{}

// wantSample keeps the samples balanced between the two parts (the reporter keeps four).
func wantSample(c *eng.Ctx, sp *Spec) bool {
	key, max := sp.Kind, 2
	if sp.Kind == "cycles" {
		max = 1
		if sp.CloseErr != "" {
			key = "cycles/close-err"
		}
	}
	if !c.R.WantSample() || sampled[key] >= max {
		return false
	}
	sampled[key]++
	return true
}

// settle lets the leftovers of the previous case drain (its cleanup cancelled the contexts
// they wait on): returns when the count is back to the process baseline or has stopped moving.
func settle(procBase int) {
	last, same := -1, 0
	for i := 0; i < 400; i++ {
		n := runtime.NumGoroutine()
		if n <= procBase {
			return
		}
		if n == last {
			same++
			if same >= 4 {
				return
			}
		} else {
			last, same = n, 0
		}
		runtime.Gosched()
		time.Sleep(2 * time.Millisecond)
	}
}
