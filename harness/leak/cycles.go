package leak

import (
	"context"
	"fmt"

	"github.com/junioryono/godi/v4"
)

// rootCtx returns the context handed to CreateScope for a per-cycle root scope.
func (e *env) rootCtx(kind string, percycle context.Context) context.Context {
	switch kind {
	case "bg":
		return context.Background()
	case "nil":
		return nil
	case "long":
		return e.long
	case "custom":
		return e.custom
	case "percycle", "done":
		return percycle
	}
	panic("leak: unknown parent kind " + kind)
}

// setupHosts creates the long-lived host scope(s) the per-cycle roots are created from.
func (e *env) setupHosts() bool {
	depth := 0
	switch e.spec.Host {
	case "scope":
		depth = 1
	case "nested":
		depth = 2
	}
	if e.spec.Host == "root" {
		// the provider's own root scope (what a singleton constructor gets as its Scope, what
		// Resolve[godi.Scope](provider) returns): per-cycle scopes are opened from it
		root, err := godi.Resolve[godi.Scope](e.p)
		if err != nil || root == nil {
			e.poisoned = fmt.Sprintf("Resolve[godi.Scope](provider) failed: %v", err)
			return false
		}
		e.rootHandle = root
		return true
	}
	var cr creator = e.p
	for i := 0; i < depth; i++ {
		var ctx context.Context = e.long
		if i == 1 {
			ctx = nil // inherit the outer host's context
		}
		e.reg.setCloseErr(e.closeErrMask(-1))
		sc, serial, err := e.create(cr, ctx, int8(i))
		if err != nil {
			e.poisoned = fmt.Sprintf("host scope creation failed: %v", err)
			return false
		}
		e.open++
		e.use(sc, serial, e.spec.Use)
		e.hosts = append(e.hosts, sc)
		e.hostSerial = append(e.hostSerial, serial)
		cr = sc
	}
	return true
}

// cycle executes one create/(nest)/use/close cycle. Everything it touches is local, so
// nothing stays referenced from the harness after it returns.
//
//go:noinline
func (e *env) cycle() {
	sp := e.spec
	n := len(sp.Shape)
	scs := make([]godi.Scope, n)
	sers := make([]int32, n)
	closed := make([]bool, n)
	var pctx context.Context
	var pcancel context.CancelFunc
	if sp.Parent == "percycle" {
		pctx, pcancel = context.WithCancel(context.Background())
	}
	if sp.Parent == "done" {
		pctx, pcancel = context.WithCancel(context.Background())
		pcancel() // already done when CreateScope sees it
	}
	var hostCr creator = e.p
	baseLevel := int8(0)
	if len(e.hosts) > 0 {
		hostCr = e.hosts[len(e.hosts)-1]
		baseLevel = int8(len(e.hosts))
	}
	if e.rootHandle != nil {
		hostCr, baseLevel = e.rootHandle, 1
	}
	levels := make([]int8, n)
	for i := 0; i < n; i++ {
		var cr creator
		var ctx context.Context
		if sp.Shape[i] < 0 {
			cr = hostCr
			levels[i] = baseLevel
			ctx = e.rootCtx(sp.Parent, pctx)
		} else {
			par := scs[sp.Shape[i]]
			cr = par
			levels[i] = levels[sp.Shape[i]] + 1
			switch sp.ChildCtx[i] {
			case "inherit":
				ctx = nil
			case "parentctx":
				ctx = par.Context()
			case "bg":
				ctx = context.Background()
			case "long":
				ctx = e.long
			case "done":
				dctx, dcancel := context.WithCancel(context.Background())
				dcancel()
				ctx = dctx
			}
		}
		e.reg.setCloseErr(e.closeErrMask(i))
		sc, serial, err := e.create(cr, ctx, levels[i])
		if err != nil {
			if e.poisoned == "" {
				e.poisoned = fmt.Sprintf("unexpected CreateScope failure in a fault-free cycle: %v", err)
			}
			// close what exists and stop
			for j := i - 1; j >= 0; j-- {
				e.closeScope(scs[j], sers[j], cbClose)
			}
			if pcancel != nil {
				pcancel()
			}
			return
		}
		scs[i], sers[i] = sc, serial
		e.use(sc, serial, sp.Use)
	}

	// closeSub marks the descendants of i that are still open as closed by their ancestor
	var closeSub func(i int)
	closeSub = func(i int) {
		for j := i + 1; j < n; j++ {
			if sp.Shape[j] == i && !closed[j] {
				closed[j] = true
				// no on-the-spot Err() check here: when the descendant's context derives from the
				// ancestor's, the descendant's own watcher may be the closer and can still be
				// running when the ancestor's Close returns; the checkpoint checks its Done channel
				e.markClosed(sers[j], cbAncestor, false)
				closeSub(j)
			}
		}
	}
	closeOne := func(i int) {
		if closed[i] {
			// idempotent extra Close on an already closed scope
			e.safely("scope.Close", func() { _ = scs[i].Close() })
			return
		}
		closed[i] = true
		e.closeScope(scs[i], sers[i], cbClose)
		closeSub(i)
	}

	switch sp.Close {
	case "leaf-first", "held":
		for i := n - 1; i >= 0; i-- {
			closeOne(i)
		}
		if sp.Close == "held" {
			e.reg.mu.Lock()
			for i := 0; i < n; i++ {
				e.reg.scopes[sers[i]].held = true
			}
			e.reg.mu.Unlock()
			e.held = append(e.held, scs...)
		}
	case "root-only":
		for i := 0; i < n; i++ {
			if sp.Shape[i] < 0 {
				closeOne(i)
			}
		}
	case "creation-order":
		for i := 0; i < n; i++ {
			closeOne(i)
		}
	case "random":
		for _, i := range e.rng.Perm(n) {
			closeOne(i)
		}
	case "cancel", "cancel+close":
		pcancel()
		for i := 0; i < n; i++ {
			// contexts derived from the cancelled one are cancelled synchronously; scopes on
			// other contexts are closed asynchronously by their ancestor's watcher
			derived := sp.Shape[i] < 0 || sp.ChildCtx[i] == "inherit" || sp.ChildCtx[i] == "parentctx"
			if derived {
				// only meaningful when the whole chain up to the root is derived
				for j := sp.Shape[i]; j >= 0; j = sp.Shape[j] {
					if !(sp.Shape[j] < 0 || sp.ChildCtx[j] == "inherit" || sp.ChildCtx[j] == "parentctx") {
						derived = false
					}
				}
			}
			e.markClosed(sers[i], cbCancel, derived && scs[i].Context().Err() == nil)
		}
		if sp.Close == "cancel+close" {
			for i := n - 1; i >= 0; i-- {
				e.safely("scope.Close", func() { _ = scs[i].Close() })
			}
		}
	case "provider-close":
		e.open += n
		if sp.Parent == "custom" {
			for i := 0; i < n; i++ {
				if sp.Shape[i] < 0 {
					e.openProp++
				}
			}
		}
	default:
		panic("leak: unknown close mode " + sp.Close)
	}
	if pcancel != nil && sp.Close != "cancel" && sp.Close != "cancel+close" {
		// not a close path: release the harness's own per-cycle context after the scopes are closed
		if sp.Close != "provider-close" {
			pcancel()
		}
	}
}

// runCycles is the normal-flow case: N cycles, checkpoint, N more, checkpoint, close hosts,
// provider.Close, final checkpoint.
func (e *env) runCycles() (stats []cpStats) {
	sp := e.spec
	e.reg.setCloseErr(e.closeErrMask(-1))
	if err := e.build(false); err != nil {
		e.poisoned = "Build failed: " + err.Error()
		return
	}
	// a few root-scope resolutions (released by provider.Close)
	e.reg.setOwner(-1, false)
	e.safely("provider.Get", func() {
		if sp.Use&uSB != 0 {
			if _, err := e.p.Get(rtSB); err != nil {
				e.getErrs++
			}
		}
		if sp.Use&uTA != 0 {
			if _, err := e.p.Get(rtTA); err != nil {
				e.getErrs++
			}
		}
	})
	if !e.setupHosts() {
		return
	}
	for round := 1; round <= 2; round++ {
		for i := 0; i < sp.N && e.poisoned == ""; i++ {
			e.cycleNo++
			e.cycle()
		}
		if e.poisoned != "" {
			return
		}
		stats = append(stats, e.checkpoint(fmt.Sprintf("after %d cycles, provider open", round*sp.N), round*sp.N, false))
	}
	// N vs 2N: every retained object / leftover goroutine is already a violation of its own
	// clause at the checkpoint where it is seen (with the counts at N and at 2N in the
	// witness); the comparison itself is recorded as information.
	if len(stats) == 2 {
		e.c.R.Count("n_vs_2n_comparisons", 1)
		a, b := stats[0], stats[1]
		if b.LiveScopes+b.LiveInsts+b.LiveCtx > a.LiveScopes+a.LiveInsts+a.LiveCtx || b.Goroutines-b.OpenScopes > a.Goroutines-a.OpenScopes {
			e.c.R.Count("n_vs_2n_growth_seen", 1)
		}
	}
	// held handles: verified above that the closed scopes no longer hold their instances; drop them
	if len(e.held) > 0 {
		e.held = nil
		e.reg.mu.Lock()
		for i := range e.reg.scopes {
			e.reg.scopes[i].held = false
		}
		e.reg.mu.Unlock()
		stats = append(stats, e.checkpoint("after releasing the held handles", 2*sp.N, false))
	}
	// hosts
	if len(e.hosts) > 0 && sp.HostClose == "explicit" {
		// closing a parent with open children (provider-close mode) or without
		outer := e.hosts[0]
		e.closeScope(outer, e.hostSerial[0], cbClose)
		for i := 1; i < len(e.hosts); i++ {
			e.markClosed(e.hostSerial[i], cbAncestor, false)
		}
		e.open -= len(e.hosts)
		e.hosts = nil
		if sp.Close == "provider-close" {
			// every per-cycle scope hangs below the host: all closed by their ancestor
			e.reg.mu.Lock()
			for i := range e.reg.scopes {
				if s := &e.reg.scopes[i]; s.closedBy == cbOpen && !s.failed {
					s.closedBy = cbAncestor
					e.nClosed++
				}
			}
			e.reg.mu.Unlock()
			e.open, e.openProp = 0, 0
		}
		stats = append(stats, e.checkpoint("after closing the host scope", 2*sp.N, false))
	}
	e.hosts = nil
	e.rootHandle = nil
	// provider.Close releases everything
	e.safely("provider.Close", func() { _ = e.p.Close() })
	e.reg.mu.Lock()
	for i := range e.reg.scopes {
		if s := &e.reg.scopes[i]; s.closedBy == cbOpen && !s.failed {
			s.closedBy = cbProvider
			e.nClosed++
		}
	}
	e.reg.mu.Unlock()
	e.open, e.openProp = 0, 0
	stats = append(stats, e.checkpoint("after provider.Close", 2*sp.N, true))
	return
}
