// poolgen deterministically generates ../pool/gen_types.go and ../pool/gen_ctors.go.
// Run: go run ./poolgen   (from /verif/harness); the output is committed.
package main

import (
	"bytes"
	"fmt"
	"go/format"
	"math/rand"
	"os"
	"strings"
)

type dep struct {
	target   string
	form     string
	key      string
	group    string
	optional bool
	field    string // In-struct field name (In style) / param name
	anon     bool   // In style: the field is embedded (anonymous); its name is the type's base name
}

type out struct {
	typ   string // identity type name
	impl  string // concrete type name
	key   string
	group string
	field string
	extra string // extra struct tag (ignored Out fields)
}

type ctor struct {
	name, family string
	inStyle      bool
	deps         []dep
	outs         []out
	ignoredOuts  []out // Out-struct fields tagged inject:"-" (set by the ctor, must not be registered)
	hasErr       bool
	void         bool
	resultObj    bool
	inertFirst   bool   // result objects: the inject:"-" fields and an unexported field come BEFORE the live fields
	markerLast   bool   // the godi.In / godi.Out marker is the LAST field of the parameter / result object
	closure      string // non-empty: the constructor is a closure made by the factory of that name (shared code pointer)
	ptrObj       bool   // the parameter / result object is taken / returned through a POINTER to the struct
}

var (
	kTypes   = []string{"K0", "K1", "K2", "K3"}
	sTypes   = []string{"S0", "S1", "S2", "S3", "S4", "S5", "S6", "S7"}
	allTypes = append(append([]string{}, kTypes...), sTypes...)
	disp     = map[string]bool{"K0": true, "K1": true, "K2": true, "K3": true, "S0": true, "S1": true, "S2": true, "S3": true}
	ctors    []*ctor
)

func goType(identity string) string {
	if strings.HasPrefix(identity, "I") {
		return identity
	}
	switch identity {
	case "Scope":
		return "godi.Scope"
	case "Provider":
		return "godi.Provider"
	case "Context":
		return "context.Context"
	}
	return "*" + identity
}

func mkDep(target, form string) dep {
	d := dep{target: target, form: form}
	switch form {
	case "FKeyed":
		d.key = "k"
	case "FGroup":
		d.group = "g"
	case "FOpt":
		d.optional = true
	case "FOptKeyed":
		d.key = "k"
		d.optional = true
	case "FIface":
		d.target = "I" + target
	case "FIfaceGroup":
		d.target = "IA"
		d.group = "g"
	case "FOptGroup":
		d.group = "g"
		d.optional = true
	case "FScope":
		d.target = "Scope"
	case "FProvider":
		d.target = "Provider"
	case "FContext":
		d.target = "Context"
	}
	return d
}

func (d dep) goType() string {
	t := goType(d.target)
	if d.group != "" {
		return "[]" + t
	}
	return t
}

func (d dep) tag() string {
	var parts []string
	if d.key != "" {
		parts = append(parts, fmt.Sprintf(`name:"%s"`, d.key))
	}
	if d.group != "" {
		parts = append(parts, fmt.Sprintf(`group:"%s"`, d.group))
	}
	if d.optional {
		parts = append(parts, `optional:"true"`)
	}
	if d.form == "FIgnored" {
		parts = append(parts, `inject:"-"`)
	}
	if len(parts) == 0 {
		return ""
	}
	return " `" + strings.Join(parts, " ") + "`"
}

func simpleOut(t string) []out { return []out{{typ: t, impl: t}} }

func add(c *ctor) *ctor {
	for i := range c.deps {
		if c.deps[i].field == "" {
			if c.deps[i].form == "FUnexported" {
				c.deps[i].field = fmt.Sprintf("priv%d", i)
			} else if c.deps[i].form == "FEmbedded" || c.deps[i].form == "FEmbeddedIgn" {
				c.deps[i].field = fmt.Sprintf("E%d", i)
			} else if c.deps[i].anon {
				c.deps[i].field = c.deps[i].target // Context / Scope / Provider: the base name of the embedded interface type
			} else if c.deps[i].form == "FAnon" {
				c.deps[i].field = c.deps[i].target // an embedded field is named after its type
			} else {
				c.deps[i].field = fmt.Sprintf("D%d", i)
			}
		}
	}
	for i := range c.outs {
		if c.outs[i].field == "" {
			c.outs[i].field = fmt.Sprintf("O%d", i)
		}
		if c.outs[i].impl == "" {
			c.outs[i].impl = strings.TrimPrefix(c.outs[i].typ, "I")
		}
	}
	ctors = append(ctors, c)
	return c
}

func maskDeps(mask int, universe []string, form string) []dep {
	var ds []dep
	for j, t := range universe {
		if mask&(1<<j) != 0 {
			ds = append(ds, mkDep(t, form))
		}
	}
	return ds
}

var uniformForms = []string{"FPlain", "FKeyed", "FGroup", "FOpt", "FIface"}
var mixedForms = []string{"", "FPlain", "FKeyed", "FGroup", "FOpt", "FIface"}

func main() {
	// family pos: K_i x mask over K0..K3, positional plain pointers
	for i, t := range kTypes {
		for mask := 0; mask < 16; mask++ {
			add(&ctor{name: fmt.Sprintf("PosA_%d_%d", i, mask), family: "posA", deps: maskDeps(mask, kTypes, "FPlain"), outs: simpleOut(t)})
			add(&ctor{name: fmt.Sprintf("PosB_%d_%d", i, mask), family: "posB", deps: maskDeps(mask, kTypes, "FPlain"), outs: simpleOut(t), hasErr: true})
		}
	}
	// family inU: uniform edge form, In struct
	for i, t := range kTypes {
		for mask := 0; mask < 16; mask++ {
			for _, f := range uniformForms {
				add(&ctor{name: fmt.Sprintf("InU_%d_%d_%s", i, mask, f[1:]), family: "inU", inStyle: true, deps: maskDeps(mask, kTypes, f), outs: simpleOut(t), hasErr: true})
			}
		}
	}
	// family inM: per-target form over K0..K2 for consumers K0..K2
	for i := 0; i < 3; i++ {
		for f0 := range mixedForms {
			for f1 := range mixedForms {
				for f2 := range mixedForms {
					var ds []dep
					for j, fi := range []int{f0, f1, f2} {
						if mixedForms[fi] != "" {
							ds = append(ds, mkDep(kTypes[j], mixedForms[fi]))
						}
					}
					add(&ctor{name: fmt.Sprintf("InM_%d_%d%d%d", i, f0, f1, f2), family: "inM", inStyle: true, deps: ds, outs: simpleOut(kTypes[i]), hasErr: true})
				}
			}
		}
	}
	// family S: seeded random variants over all 12 types
	rng := rand.New(rand.NewSource(20261004))
	const sVariants = 24
	sForms := []struct {
		f string
		w int
	}{{"FPlain", 40}, {"FIface", 10}, {"FKeyed", 15}, {"FGroup", 14}, {"FOpt", 10}, {"FOptKeyed", 5}, {"FIfaceGroup", 3}, {"FOptGroup", 3}}
	pickForm := func() string {
		n := rng.Intn(100)
		for _, sf := range sForms {
			if n < sf.w {
				return sf.f
			}
			n -= sf.w
		}
		return "FPlain"
	}
	for si, t := range sTypes {
		for v := 0; v < sVariants; v++ {
			nd := 0
			if v > 0 {
				nd = rng.Intn(5)
			}
			var ds []dep
			inStyle := rng.Intn(2) == 0
			for k := 0; k < nd; k++ {
				var target string
				if rng.Intn(100) < 78 {
					lower := append(append([]string{}, kTypes...), sTypes[:si]...)
					target = lower[rng.Intn(len(lower))]
				} else {
					target = allTypes[rng.Intn(len(allTypes))]
				}
				f := pickForm()
				if f != "FPlain" && f != "FIface" {
					inStyle = true
				}
				ds = append(ds, mkDep(target, f))
			}
			add(&ctor{name: fmt.Sprintf("SV_%d_%d", si, v), family: "S", inStyle: inStyle && nd > 0, deps: ds, outs: simpleOut(t), hasErr: rng.Intn(2) == 0})
		}
	}

	// specials -------------------------------------------------------------------
	sp := func(c *ctor) { c.family = "special"; add(c) }
	P := func(ts ...string) []dep {
		var ds []dep
		for _, t := range ts {
			ds = append(ds, mkDep(t, "FPlain"))
		}
		return ds
	}
	O := func(ts ...string) []out {
		var os []out
		for _, t := range ts {
			os = append(os, out{typ: t, impl: strings.TrimPrefix(t, "I")})
		}
		return os
	}
	// multi-return
	sp(&ctor{name: "MR_K0K1", outs: O("K0", "K1")})
	sp(&ctor{name: "MR_K0K1_d", deps: P("K2"), outs: O("K0", "K1")})
	sp(&ctor{name: "MR_K0K1e", outs: O("K0", "K1"), hasErr: true})
	sp(&ctor{name: "MR_K2K3e", deps: P("K0"), outs: O("K2", "K3"), hasErr: true})
	sp(&ctor{name: "MR_S0S4", outs: O("S0", "S4")})
	sp(&ctor{name: "MR_S1S2S5e", outs: O("S1", "S2", "S5"), hasErr: true})
	sp(&ctor{name: "MR_K1K1", outs: O("K1", "K1")})
	sp(&ctor{name: "MR_S6S7", deps: P("S0"), outs: O("S6", "S7")})
	sp(&ctor{name: "MR_K0S0", outs: O("K0", "S0")})
	sp(&ctor{name: "MR_K1S1e", deps: P("K0"), outs: O("K1", "S1"), hasErr: true})
	// result objects
	sp(&ctor{name: "OutP_K0K1", resultObj: true, outs: O("K0", "K1")})
	sp(&ctor{name: "OutP_K2K3_d", resultObj: true, deps: P("K0"), outs: O("K2", "K3")})
	sp(&ctor{name: "OutN_K0K1", resultObj: true, outs: []out{{typ: "K0", key: "k"}, {typ: "K1"}}})
	sp(&ctor{name: "OutNN_K0K0", resultObj: true, outs: []out{{typ: "K0", key: "k"}, {typ: "K0", key: "k2"}}})
	sp(&ctor{name: "OutG_K0K1", resultObj: true, outs: []out{{typ: "K0", group: "g"}, {typ: "K1"}}})
	sp(&ctor{name: "OutGG_K0", resultObj: true, outs: []out{{typ: "K0", group: "g"}, {typ: "K0", group: "g"}}})
	sp(&ctor{name: "OutE_S0S4", resultObj: true, outs: O("S0", "S4"), hasErr: true})
	sp(&ctor{name: "OutS_S1S5", resultObj: true, deps: P("K0"), outs: O("S1", "S5")})
	sp(&ctor{name: "OutIgn_K0", resultObj: true, outs: O("K0"), ignoredOuts: []out{{typ: "K1", impl: "K1", field: "Ign"}}})
	sp(&ctor{name: "OutI_K2", resultObj: true, outs: []out{{typ: "IK2", impl: "K2"}, {typ: "K3"}}})
	sp(&ctor{name: "OutP_K0S0", resultObj: true, outs: O("K0", "S0")})
	// initializers
	sp(&ctor{name: "Void0", void: true})
	sp(&ctor{name: "Void0b", void: true})
	sp(&ctor{name: "VoidK0", void: true, deps: P("K0")})
	sp(&ctor{name: "VoidK1", void: true, deps: P("K1")})
	sp(&ctor{name: "VoidS0", void: true, deps: P("S0")})
	sp(&ctor{name: "VoidS4", void: true, deps: P("S4")})
	sp(&ctor{name: "VoidScope", void: true, deps: []dep{mkDep("", "FScope"), mkDep("", "FContext")}})
	sp(&ctor{name: "VoidIn", void: true, inStyle: true, deps: []dep{mkDep("K2", "FPlain"), mkDep("K3", "FGroup")}})
	sp(&ctor{name: "ErrOnly0", void: true, hasErr: true})
	sp(&ctor{name: "ErrOnly0b", void: true, hasErr: true})
	sp(&ctor{name: "ErrOnlyK1", void: true, hasErr: true, deps: P("K1")})
	sp(&ctor{name: "ErrOnlyS1", void: true, hasErr: true, deps: P("S1")})
	sp(&ctor{name: "ErrOnlyK2K3", void: true, hasErr: true, deps: P("K2", "K3")})
	// built-in injectables
	for _, t := range []string{"K0", "K1", "K2", "K3", "S0", "S4", "S5"} {
		sp(&ctor{name: "BIpos_" + t, deps: []dep{mkDep("", "FScope"), mkDep("", "FProvider"), mkDep("", "FContext")}, outs: simpleOut(t)})
		sp(&ctor{name: "BIin_" + t, inStyle: true, deps: []dep{mkDep("", "FScope"), mkDep("", "FProvider"), mkDep("", "FContext")}, outs: simpleOut(t), hasErr: true})
	}
	sp(&ctor{name: "BIdep_S6", deps: []dep{mkDep("", "FScope"), mkDep("K0", "FPlain"), mkDep("", "FContext")}, outs: simpleOut("S6")})
	sp(&ctor{name: "BIkeyedOpt_S7", inStyle: true, deps: []dep{{target: "Scope", form: "FOptKeyed", key: "k", optional: true}, {target: "Context", form: "FOptKeyed", key: "k", optional: true}}, outs: simpleOut("S7"), hasErr: true})
	// same type twice, ignored / unexported fields
	sp(&ctor{name: "Twice_K0", deps: P("K1", "K1"), outs: simpleOut("K0")})
	sp(&ctor{name: "Twice_S4", deps: P("S0", "S0", "S5"), outs: simpleOut("S4")})
	sp(&ctor{name: "TwiceIn_K2", inStyle: true, deps: []dep{mkDep("K1", "FPlain"), mkDep("K1", "FPlain"), mkDep("K1", "FGroup")}, outs: simpleOut("K2"), hasErr: true})
	sp(&ctor{name: "InIgn_K0", inStyle: true, deps: []dep{mkDep("K1", "FPlain"), {target: "K2", form: "FIgnored"}, {target: "K3", form: "FUnexported"}}, outs: simpleOut("K0"), hasErr: true})
	sp(&ctor{name: "InIgn_S4", inStyle: true, deps: []dep{{target: "K0", form: "FIgnored"}, mkDep("K1", "FOpt"), {target: "K1", form: "FUnexported"}, mkDep("K2", "FGroup")}, outs: simpleOut("S4")})
	// interface-typed returns
	sp(&ctor{name: "RetI_K0", outs: []out{{typ: "IK0", impl: "K0"}}})
	sp(&ctor{name: "RetI_K1", deps: P("K0"), outs: []out{{typ: "IK1", impl: "K1"}}, hasErr: true})
	// decoys
	sp(&ctor{name: "NewDec0", outs: simpleOut("Dec0")})
	sp(&ctor{name: "NewDec1", outs: simpleOut("Dec1")})
	sp(&ctor{name: "NewDec2", outs: simpleOut("Dec2")})
	// leaves with (T, error) for every type, two copies (keyed / grouped duplicates)
	for _, t := range allTypes {
		sp(&ctor{name: "Leaf_" + t + "_a", outs: simpleOut(t), hasErr: true})
		sp(&ctor{name: "Leaf_" + t + "_b", outs: simpleOut(t), hasErr: true})
		sp(&ctor{name: "Leaf_" + t + "_c", outs: simpleOut(t)})
	}

	// appended later (keeps the ids of everything above stable)
	// In structs with embedded structs whose promoted exported fields are not parameters
	sp(&ctor{name: "InEmb_K0", inStyle: true, deps: []dep{mkDep("K1", "FPlain"), {target: "K2", form: "FEmbedded"}, {target: "K3", form: "FEmbedded"}}, outs: simpleOut("K0"), hasErr: true})
	sp(&ctor{name: "InEmb_S4", inStyle: true, deps: []dep{{target: "K0", form: "FEmbeddedIgn"}, mkDep("K1", "FOpt"), mkDep("K2", "FGroup")}, outs: simpleOut("S4")})
	sp(&ctor{name: "InEmb_K2", inStyle: true, deps: []dep{mkDep("K0", "FPlain"), {target: "K1", form: "FEmbedded"}, {target: "K0", form: "FEmbeddedIgn"}}, outs: simpleOut("K2"), hasErr: true})
	sp(&ctor{name: "InEmb_S5", inStyle: true, deps: []dep{{target: "S0", form: "FEmbedded"}}, outs: simpleOut("S5")})
	// a field carrying both a name and a group tag (a descriptor cannot have both: the Add call must be rejected)
	sp(&ctor{name: "OutNG_K0K1", resultObj: true, outs: []out{{typ: "K0", key: "k", group: "g"}, {typ: "K1"}}})
	sp(&ctor{name: "OutNG_K1S0", resultObj: true, outs: []out{{typ: "K1"}, {typ: "S0", key: "k", group: "g"}}})

	// REQUIRED keyed dependencies on the built-in types: only the unkeyed identity is a built-in
	// injectable, and reserved types cannot be registered, so these can never be satisfied
	sp(&ctor{name: "BIkeyedReq_S6", inStyle: true, deps: []dep{{target: "Context", form: "FKeyed", key: "k"}}, outs: simpleOut("S6"), hasErr: true})
	sp(&ctor{name: "BIkeyedReq_S7", inStyle: true, deps: []dep{mkDep("", "FScope"), {target: "Scope", form: "FKeyed", key: "k"}}, outs: simpleOut("S7")})
	sp(&ctor{name: "BIkeyedReq_S5", inStyle: true, deps: []dep{{target: "Provider", form: "FKeyed", key: "k"}, mkDep("", "FContext")}, outs: simpleOut("S5")})
	// a grouped field followed by two fields that collide with each other (rejected inside the call, after a group member)
	sp(&ctor{name: "OutGDup_K0K1K1", resultObj: true, outs: []out{{typ: "K0", group: "g"}, {typ: "K1"}, {typ: "K1"}}})
	sp(&ctor{name: "OutGDup_K2K3", resultObj: true, outs: []out{{typ: "K2", group: "g"}, {typ: "K2", group: "h"}, {typ: "K3", key: "k"}, {typ: "K3", key: "k"}}})
	// names and groups that contain a space (legal: any non-empty string), in In and Out struct tags
	sp(&ctor{name: "InSp_K0", inStyle: true, deps: []dep{{target: "K1", form: "FKeyed", key: "a b"}, {target: "K2", form: "FGroup", group: "g h"}}, outs: simpleOut("K0"), hasErr: true})
	sp(&ctor{name: "OutSp_K1K2", resultObj: true, outs: []out{{typ: "K1", key: "a b"}, {typ: "K2", group: "g h"}}})
	// one parameter object consuming two groups of ONE element type, and a single service next to a group of its type
	sp(&ctor{name: "InGG_K0", inStyle: true, deps: []dep{{target: "K1", form: "FGroup", group: "g"}, {target: "K1", form: "FGroup", group: "h"}}, outs: simpleOut("K0"), hasErr: true})
	sp(&ctor{name: "InSG_K0", inStyle: true, deps: []dep{mkDep("K1", "FPlain"), {target: "K1", form: "FGroup", group: "g"}}, outs: simpleOut("K0")})
	// a parameter-object field carrying both a name and a group tag is filled with the group
	// (the builder looks at the group tag first), so the group is what it depends on
	sp(&ctor{name: "InNG_K0", inStyle: true, deps: []dep{{target: "K1", form: "FGroup", key: "x", group: "g"}}, outs: simpleOut("K0"), hasErr: true})
	sp(&ctor{name: "InNG_S4", inStyle: true, deps: []dep{{target: "K2", form: "FGroup", key: "k", group: "g"}, mkDep("K1", "FOpt")}, outs: simpleOut("S4")})
	// two fields of ONE Go type that are different services (two names; a name and none)
	sp(&ctor{name: "InKK_K0", inStyle: true, deps: []dep{{target: "K1", form: "FKeyed", key: "a"}, {target: "K1", form: "FKeyed", key: "b"}}, outs: simpleOut("K0"), hasErr: true})
	sp(&ctor{name: "InKU_K0", inStyle: true, deps: []dep{{target: "K1", form: "FKeyed", key: "k"}, mkDep("K1", "FPlain")}, outs: simpleOut("K0")})
	sp(&ctor{name: "InUK_K2", inStyle: true, deps: []dep{mkDep("K3", "FPlain"), {target: "K3", form: "FKeyed", key: "k"}}, outs: simpleOut("K2")})
	// anonymous (embedded) fields of a service type are parameters like any other exported field
	sp(&ctor{name: "InAnon_K0", inStyle: true, deps: []dep{{target: "K1", form: "FAnon"}}, outs: simpleOut("K0"), hasErr: true})
	sp(&ctor{name: "InAnon_S4", inStyle: true, deps: []dep{{target: "K2", form: "FAnon"}, mkDep("K3", "FPlain"), {target: "IK1", form: "FAnon"}}, outs: simpleOut("S4")})
	sp(&ctor{name: "InAnon_K2", inStyle: true, deps: []dep{mkDep("K0", "FPlain"), {target: "K3", form: "FAnon"}}, outs: simpleOut("K2")})
	// built-in injectables in fields tagged optional:"true": still the scope's own context / scope / provider
	sp(&ctor{name: "BIopt_S6", inStyle: true, deps: []dep{{target: "Context", form: "FContext", optional: true}, {target: "Scope", form: "FScope", optional: true}, {target: "Provider", form: "FProvider", optional: true}}, outs: simpleOut("S6")})
	sp(&ctor{name: "BIopt_K3", inStyle: true, deps: []dep{{target: "Scope", form: "FScope", optional: true}, mkDep("K0", "FOpt"), {target: "Context", form: "FContext"}}, outs: simpleOut("K3"), hasErr: true})
	// parameter / result objects whose godi.In / godi.Out marker is not the first field
	sp(&ctor{name: "InLast_K0", inStyle: true, markerLast: true, deps: []dep{mkDep("K1", "FPlain"), mkDep("K2", "FOpt")}, outs: simpleOut("K0"), hasErr: true})
	sp(&ctor{name: "InLast_S4", inStyle: true, markerLast: true, deps: []dep{mkDep("K3", "FGroup"), mkDep("K0", "FKeyed")}, outs: simpleOut("S4")})
	sp(&ctor{name: "OutLast_K2K3", resultObj: true, markerLast: true, deps: P("K0"), outs: []out{{typ: "K2"}, {typ: "K3", key: "k"}}})
	sp(&ctor{name: "OutLast_S5S6", resultObj: true, markerLast: true, outs: []out{{typ: "S5"}, {typ: "S6", group: "g"}}})
	// closures of one function literal (made by one factory): every constructor of a group has
	// the same code pointer and the same type and differs only in what it captured
	for _, t := range []string{"K0", "K1", "S0", "S4"} {
		for _, sfx := range []string{"a", "b", "c"} {
			sp(&ctor{name: "Clo_" + t + "_" + sfx, closure: "leaf_" + t, outs: simpleOut(t), hasErr: sfx != "c" && false})
		}
	}
	for _, sfx := range []string{"a", "b"} {
		sp(&ctor{name: "CloDep_K2_" + sfx, closure: "dep_K2", deps: P("K0", "K1"), outs: simpleOut("K2"), hasErr: true})
		sp(&ctor{name: "CloIn_K3_" + sfx, closure: "in_K3", inStyle: true, deps: []dep{mkDep("K0", "FPlain"), mkDep("K1", "FOpt")}, outs: simpleOut("K3")})
	}
	// a service that needs no disposal, built from a parameter object whose first field is another
	// such service and whose second field is optional (and registered)
	sp(&ctor{name: "InOptAfter_S7", inStyle: true, deps: []dep{mkDep("S5", "FPlain"), mkDep("S6", "FOpt")}, outs: simpleOut("S7")})
	sp(&ctor{name: "InOptAfter_S4", inStyle: true, deps: []dep{mkDep("S5", "FPlain"), mkDep("S6", "FOpt")}, outs: simpleOut("S4")})
	// fields the container must skip (ignored, unexported) standing BEFORE live fields
	sp(&ctor{name: "InIgnMid_K0", inStyle: true, deps: []dep{{target: "K2", form: "FIgnored"}, {target: "K3", form: "FUnexported"}, mkDep("K1", "FPlain"), mkDep("K2", "FGroup")}, outs: simpleOut("K0"), hasErr: true})
	sp(&ctor{name: "InIgnMid_S4", inStyle: true, deps: []dep{{target: "K0", form: "FUnexported"}, mkDep("K1", "FOpt"), {target: "K2", form: "FIgnored"}, mkDep("K3", "FKeyed")}, outs: simpleOut("S4")})
	sp(&ctor{name: "OutIgnMid_K2K3", resultObj: true, inertFirst: true, outs: []out{{typ: "K2"}, {typ: "K3", key: "k"}}, ignoredOuts: []out{{typ: "S0", impl: "S0", field: "Ign"}}})
	sp(&ctor{name: "OutIgnMid_S5S6", resultObj: true, inertFirst: true, markerLast: true, outs: []out{{typ: "S5"}, {typ: "S6", group: "g"}}, ignoredOuts: []out{{typ: "S1", impl: "S1", field: "Ign"}}})
	// built-in injectables as EMBEDDED fields of a parameter object (a request-bound helper that "is" a context)
	sp(&ctor{name: "BIanon_S6", inStyle: true, deps: []dep{{target: "Context", form: "FContext", anon: true}, {target: "Scope", form: "FScope", anon: true}, {target: "Provider", form: "FProvider"}}, outs: simpleOut("S6")})
	sp(&ctor{name: "BIanon_K3", inStyle: true, deps: []dep{mkDep("K0", "FOpt"), {target: "Scope", form: "FScope", anon: true}, {target: "Provider", form: "FProvider", anon: true}}, outs: simpleOut("K3"), hasErr: true})
	// parameter / result objects handled through a pointer to the struct
	sp(&ctor{name: "InPtr_K0", inStyle: true, ptrObj: true, deps: []dep{mkDep("K1", "FPlain"), mkDep("K2", "FOpt"), mkDep("K3", "FGroup")}, outs: simpleOut("K0"), hasErr: true})
	sp(&ctor{name: "InPtr_S4", inStyle: true, ptrObj: true, deps: []dep{mkDep("K0", "FKeyed"), mkDep("K1", "FPlain")}, outs: simpleOut("S4")})
	sp(&ctor{name: "InPtr_K2", inStyle: true, ptrObj: true, markerLast: true, deps: []dep{mkDep("K0", "FPlain"), mkDep("", "FContext")}, outs: simpleOut("K2")})
	sp(&ctor{name: "OutPtr_K2K3", resultObj: true, ptrObj: true, deps: P("K0"), outs: []out{{typ: "K2"}, {typ: "K3", key: "k"}}, hasErr: true})
	sp(&ctor{name: "OutPtr_S5S6", resultObj: true, ptrObj: true, outs: []out{{typ: "S5"}, {typ: "S6", group: "g"}}})
	sp(&ctor{name: "OutPtr_K0K1", resultObj: true, ptrObj: true, markerLast: true, outs: []out{{typ: "K0"}, {typ: "K1"}}})
	// result objects with exactly ONE live field (keyed, with an error result, grouped, with a
	// dependency, marker last): the documented equivalent of As + Name
	sp(&ctor{name: "Out1_K0k", resultObj: true, outs: []out{{typ: "K0", key: "k"}}})
	sp(&ctor{name: "Out1_K1e", resultObj: true, outs: []out{{typ: "K1"}}, hasErr: true})
	sp(&ctor{name: "Out1_K2g", resultObj: true, deps: P("K0"), outs: []out{{typ: "K2", group: "g"}}})
	sp(&ctor{name: "Out1_S5", resultObj: true, markerLast: true, outs: []out{{typ: "S5"}}})
	sp(&ctor{name: "Out1_S0p", resultObj: true, ptrObj: true, outs: []out{{typ: "S0"}}, hasErr: true})
	writeTypes()
	writeCtors()
}

func emit(path string, buf *bytes.Buffer) {
	src, err := format.Source(buf.Bytes())
	if err != nil {
		_ = os.WriteFile(path+".broken", buf.Bytes(), 0o644)
		panic(fmt.Sprintf("format %s: %v", path, err))
	}
	if err := os.WriteFile(path, src, 0o644); err != nil {
		panic(err)
	}
}

func writeTypes() {
	var b bytes.Buffer
	b.WriteString("// Code generated by poolgen. DO NOT EDIT.\n\npackage pool\n\nimport (\n\t\"context\"\n\t\"reflect\"\n\n\t\"github.com/junioryono/godi/v4\"\n\t\"github.com/junioryono/godi/v4/verifh/rt\"\n)\n\n")
	b.WriteString("// IA and IB are implemented by every service type.\ntype IA interface {\n\trt.Carrier\n\tIsA()\n}\ntype IB interface {\n\trt.Carrier\n\tIsB()\n}\n\n")
	for _, t := range allTypes {
		fmt.Fprintf(&b, "type %s struct{ rt.Inst }\n", t)
		fmt.Fprintf(&b, "func (x *%s) Is%s() {}\nfunc (x *%s) IsA() {}\nfunc (x *%s) IsB() {}\n", t, t, t, t)
		if disp[t] {
			fmt.Fprintf(&b, "func (x *%s) Close() error { return rt.OnClose(&x.Inst) }\n", t)
		}
		fmt.Fprintf(&b, "type I%s interface {\n\trt.Carrier\n\tIs%s()\n}\n\n", t, t)
	}
	b.WriteString(`// Decoys: almost-Close methods that the container must never call.
type Dec0 struct{ rt.Inst }

func (x *Dec0) Close() { rt.OnDecoy(&x.Inst, "Close()") }

type Dec1 struct{ rt.Inst }

func (x *Dec1) Close(ctx context.Context) error { rt.OnDecoy(&x.Inst, "Close(ctx)"); return nil }

type Dec2 struct{ rt.Inst }

func (x *Dec2) Shutdown() error { rt.OnDecoy(&x.Inst, "Shutdown()"); return nil }

`)
	b.WriteString("// Types maps identity type names to their description.\nvar Types = map[string]TypeInfo{\n")
	for _, t := range allTypes {
		fmt.Fprintf(&b, "\t%q: {Name: %q, RT: reflect.TypeOf((*%s)(nil)), Disposable: %v, NewValue: func() any { return &%s{} }},\n", t, t, t, disp[t], t)
		fmt.Fprintf(&b, "\t%q: {Name: %q, RT: reflect.TypeOf((*I%s)(nil)).Elem(), Iface: true, Impl: []string{%q}},\n", "I"+t, "I"+t, t, t)
	}
	for _, t := range []string{"Dec0", "Dec1", "Dec2"} {
		fmt.Fprintf(&b, "\t%q: {Name: %q, RT: reflect.TypeOf((*%s)(nil)), NewValue: func() any { return &%s{} }},\n", t, t, t, t)
	}
	var impl []string
	for _, t := range allTypes {
		impl = append(impl, fmt.Sprintf("%q", t))
	}
	fmt.Fprintf(&b, "\t\"IA\": {Name: \"IA\", RT: reflect.TypeOf((*IA)(nil)).Elem(), Iface: true, Impl: []string{%s}},\n", strings.Join(impl, ", "))
	fmt.Fprintf(&b, "\t\"IB\": {Name: \"IB\", RT: reflect.TypeOf((*IB)(nil)).Elem(), Iface: true, Impl: []string{%s}},\n", strings.Join(impl, ", "))
	b.WriteString("\t\"Scope\": {Name: \"Scope\", RT: reflect.TypeOf((*godi.Scope)(nil)).Elem(), Iface: true},\n")
	b.WriteString("\t\"Provider\": {Name: \"Provider\", RT: reflect.TypeOf((*godi.Provider)(nil)).Elem(), Iface: true},\n")
	b.WriteString("\t\"Context\": {Name: \"Context\", RT: reflect.TypeOf((*context.Context)(nil)).Elem(), Iface: true},\n")
	b.WriteString("}\n\n")
	b.WriteString("var asOpts = map[string]godi.AddOption{\n")
	for _, t := range allTypes {
		fmt.Fprintf(&b, "\t%q: godi.As[I%s](),\n", "I"+t, t)
	}
	b.WriteString("\t\"IA\": godi.As[IA](),\n\t\"IB\": godi.As[IB](),\n")
	b.WriteString("\t\"Scope\": godi.As[godi.Scope](),\n\t\"Provider\": godi.As[godi.Provider](),\n\t\"Context\": godi.As[context.Context](),\n")
	b.WriteString("}\n\n")
	// generic resolve wrappers (godi.Resolve[T] needs a static T)
	b.WriteString("// ResolveFn / ResolveKeyedFn / ResolveGroupFn call the generic godi.Resolve* helpers.\nvar ResolveFn = map[string]func(godi.Provider) (any, error){\n")
	gnames := append([]string{}, allTypes...)
	for _, t := range allTypes {
		gnames = append(gnames, "I"+t)
	}
	gnames = append(gnames, "IA", "IB", "Dec0", "Dec1", "Dec2", "Scope", "Provider", "Context")
	for _, t := range gnames {
		fmt.Fprintf(&b, "\t%q: func(p godi.Provider) (any, error) { v, err := godi.Resolve[%s](p); if err != nil { return nil, err }; return v, nil },\n", t, goType(t))
	}
	b.WriteString("}\n\nvar ResolveKeyedFn = map[string]func(godi.Provider, any) (any, error){\n")
	for _, t := range gnames {
		fmt.Fprintf(&b, "\t%q: func(p godi.Provider, k any) (any, error) { v, err := godi.ResolveKeyed[%s](p, k); if err != nil { return nil, err }; return v, nil },\n", t, goType(t))
	}
	b.WriteString("}\n\nvar ResolveGroupFn = map[string]func(godi.Provider, string) ([]any, error){\n")
	for _, t := range gnames {
		fmt.Fprintf(&b, "\t%q: func(p godi.Provider, g string) ([]any, error) { vs, err := godi.ResolveGroup[%s](p, g); if err != nil { return nil, err }; out := make([]any, len(vs)); for i, v := range vs { out[i] = v }; return out, nil },\n", t, goType(t))
	}
	b.WriteString("}\n\n// TypeNames lists the concrete service type names.\nvar TypeNames = []string{")
	for i, t := range allTypes {
		if i > 0 {
			b.WriteString(", ")
		}
		fmt.Fprintf(&b, "%q", t)
	}
	b.WriteString("}\n")
	emit("pool/gen_types.go", &b)
}

var closureDone = map[string]bool{}

func writeCtors() {
	var b bytes.Buffer
	b.WriteString("// Code generated by poolgen. DO NOT EDIT.\n\npackage pool\n\nimport (\n\t\"context\"\n\n\t\"github.com/junioryono/godi/v4\"\n\t\"github.com/junioryono/godi/v4/verifh/rt\"\n)\n\nvar _ context.Context\nvar _ godi.In\n\n")
	for id, c := range ctors {
		// parameter list
		var params, argExprs []string
		if c.inStyle {
			fmt.Fprintf(&b, "type in_%s struct {\n", c.name)
			if !c.markerLast {
				b.WriteString("\tgodi.In\n")
			}
			// exported fields of embedded structs are promoted into the In struct but are not
			// parameters: an unexported embedded struct and an embedded struct tagged inject:"-"
			var embPriv, embIgn []dep
			for _, d := range c.deps {
				switch d.form {
				case "FEmbedded":
					embPriv = append(embPriv, d)
				case "FEmbeddedIgn":
					embIgn = append(embIgn, d)
				case "FAnon":
					fmt.Fprintf(&b, "\t%s%s\n", d.goType(), d.tag())
				case "FContext", "FScope", "FProvider":
					if d.anon {
						fmt.Fprintf(&b, "\t%s%s\n", d.goType(), d.tag())
					} else {
						fmt.Fprintf(&b, "\t%s %s%s\n", d.field, d.goType(), d.tag())
					}
				default:
					fmt.Fprintf(&b, "\t%s %s%s\n", d.field, d.goType(), d.tag())
				}
				argExprs = append(argExprs, "in."+d.field)
			}
			if len(embPriv) > 0 {
				fmt.Fprintf(&b, "\temb_%s\n", c.name)
			}
			if len(embIgn) > 0 {
				fmt.Fprintf(&b, "\tEmb_%s `inject:\"-\"`\n", c.name)
			}
			if c.markerLast {
				b.WriteString("\tgodi.In\n")
			}
			b.WriteString("}\n\n")
			if len(embPriv) > 0 {
				fmt.Fprintf(&b, "type emb_%s struct {\n", c.name)
				for _, d := range embPriv {
					fmt.Fprintf(&b, "\t%s %s\n", d.field, d.goType())
				}
				b.WriteString("}\n\n")
			}
			if len(embIgn) > 0 {
				fmt.Fprintf(&b, "type Emb_%s struct {\n", c.name)
				for _, d := range embIgn {
					fmt.Fprintf(&b, "\t%s %s\n", d.field, d.goType())
				}
				b.WriteString("}\n\n")
			}
			params = []string{"in in_" + c.name}
			if c.ptrObj {
				params = []string{"in *in_" + c.name}
			}
		} else {
			for i, d := range c.deps {
				params = append(params, fmt.Sprintf("a%d %s", i, d.goType()))
				argExprs = append(argExprs, fmt.Sprintf("a%d", i))
			}
		}
		// result list
		var results []string
		if c.resultObj {
			fmt.Fprintf(&b, "type out_%s struct {\n", c.name)
			if !c.markerLast {
				b.WriteString("\tgodi.Out\n")
			}
			if c.inertFirst {
				for _, o := range c.ignoredOuts {
					fmt.Fprintf(&b, "\t%s %s `inject:\"-\"`\n", o.field, goType(o.typ))
				}
				b.WriteString("\tprivNote string\n")
			}
			for _, o := range c.outs {
				tag := ""
				var parts []string
				if o.key != "" {
					parts = append(parts, fmt.Sprintf(`name:"%s"`, o.key))
				}
				if o.group != "" {
					parts = append(parts, fmt.Sprintf(`group:"%s"`, o.group))
				}
				if len(parts) > 0 {
					tag = " `" + strings.Join(parts, " ") + "`"
				}
				fmt.Fprintf(&b, "\t%s %s%s\n", o.field, goType(o.typ), tag)
			}
			if !c.inertFirst {
				for _, o := range c.ignoredOuts {
					fmt.Fprintf(&b, "\t%s %s `inject:\"-\"`\n", o.field, goType(o.typ))
				}
			}
			if c.markerLast {
				b.WriteString("\tgodi.Out\n")
			}
			b.WriteString("}\n\n")
			results = []string{"out_" + c.name}
			if c.ptrObj {
				results = []string{"*out_" + c.name}
			}
		} else {
			for _, o := range c.outs {
				results = append(results, goType(o.typ))
			}
		}
		if c.hasErr {
			results = append(results, "error")
		}
		resSig := ""
		switch len(results) {
		case 0:
		case 1:
			resSig = " " + results[0]
		default:
			resSig = " (" + strings.Join(results, ", ") + ")"
		}
		idExpr := fmt.Sprintf("%d", id)
		emitBody := true
		if c.closure != "" {
			// closures of ONE function literal: same code pointer, same type, different captured id
			idExpr = "id"
			if closureDone[c.closure] {
				fmt.Fprintf(&b, "var %s = mk_%s(%d)\n\n", c.name, c.closure, id)
				emitBody = false
			} else {
				closureDone[c.closure] = true
				fmt.Fprintf(&b, "var %s = mk_%s(%d)\n\n//go:noinline\nfunc mk_%s(id int) func(%s)%s {\n\treturn func(%s)%s {\n", c.name, c.closure, id, c.closure, strings.Join(params, ", "), resSig, strings.Join(params, ", "), resSig)
			}
		} else {
			fmt.Fprintf(&b, "func %s(%s)%s {\n", c.name, strings.Join(params, ", "), resSig)
		}
		if !emitBody {
			continue
		}
		var outPtrs, outTypes []string
		for i, o := range c.outs {
			fmt.Fprintf(&b, "\to%d := &%s{}\n", i, o.impl)
			outPtrs = append(outPtrs, fmt.Sprintf("&o%d.Inst", i))
			outTypes = append(outTypes, fmt.Sprintf("%q", o.impl))
		}
		for i, o := range c.ignoredOuts {
			fmt.Fprintf(&b, "\tig%d := &%s{}\n", i, o.impl)
			outPtrs = append(outPtrs, fmt.Sprintf("&ig%d.Inst", i))
			outTypes = append(outTypes, fmt.Sprintf("%q", o.impl))
		}
		call := fmt.Sprintf("rt.Construct(%s, []*rt.Inst{%s}, []string{%s}", idExpr, strings.Join(outPtrs, ", "), strings.Join(outTypes, ", "))
		for _, a := range argExprs {
			call += ", " + a
		}
		call += ")"
		// zero results
		zero := func(withErr string) string {
			var zs []string
			if c.resultObj && c.ptrObj {
				zs = append(zs, "&out_"+c.name+"{}")
			} else if c.resultObj {
				zs = append(zs, "out_"+c.name+"{}")
			} else {
				for range c.outs {
					zs = append(zs, "nil")
				}
			}
			if c.hasErr {
				zs = append(zs, withErr)
			}
			return strings.Join(zs, ", ")
		}
		okRet := func() string {
			var rs []string
			if c.resultObj {
				var fs []string
				for i, o := range c.outs {
					fs = append(fs, fmt.Sprintf("%s: o%d", o.field, i))
				}
				for i, o := range c.ignoredOuts {
					fs = append(fs, fmt.Sprintf("%s: ig%d", o.field, i))
				}
				amp := ""
				if c.ptrObj {
					amp = "&"
				}
				rs = append(rs, amp+"out_"+c.name+"{"+strings.Join(fs, ", ")+"}")
			} else {
				for i := range c.outs {
					rs = append(rs, fmt.Sprintf("o%d", i))
				}
			}
			if c.hasErr {
				rs = append(rs, "nil")
			}
			return strings.Join(rs, ", ")
		}
		switch {
		case c.void && !c.hasErr:
			fmt.Fprintf(&b, "\t_, _ = %s\n", call)
		case c.void && c.hasErr:
			fmt.Fprintf(&b, "\tif act, err := %s; act == rt.RetErr {\n\t\treturn err\n\t}\n\treturn nil\n", call)
		case c.hasErr:
			fmt.Fprintf(&b, "\tswitch act, err := %s; act {\n\tcase rt.RetErr:\n\t\treturn %s\n\tcase rt.RetNil:\n\t\treturn %s\n\t}\n\treturn %s\n", call, zero("err"), zero("nil"), okRet())
		default:
			fmt.Fprintf(&b, "\tif act, _ := %s; act == rt.RetNil {\n\t\treturn %s\n\t}\n\treturn %s\n", call, zero(""), okRet())
		}
		if c.closure != "" {
			b.WriteString("\t}\n")
		}
		b.WriteString("}\n\n")
	}
	// metadata
	b.WriteString("// Ctors is the metadata of every generated constructor, indexed by id.\nvar Ctors = []Meta{\n")
	for id, c := range ctors {
		fmt.Fprintf(&b, "\t{ID: %d, Name: %q, Fn: %s, Family: %q, InStyle: %v, HasErr: %v, Void: %v, ResultObj: %v, IgnoredOuts: %d,\n\t\tDeps: []Dep{", id, c.name, c.name, c.family, c.inStyle, c.hasErr, c.void, c.resultObj, len(c.ignoredOuts))
		for _, d := range c.deps {
			fmt.Fprintf(&b, "{Target: %q, Form: %s, Key: %q, Group: %q, Optional: %v}, ", d.target, d.form, d.key, d.group, d.optional)
		}
		b.WriteString("},\n\t\tOuts: []Out{")
		for _, o := range c.outs {
			fmt.Fprintf(&b, "{Type: %q, Impl: %q, Key: %q, Group: %q}, ", o.typ, o.impl, o.key, o.group)
		}
		b.WriteString("}},\n")
	}
	b.WriteString("}\n\n")
	// index tables
	idx := map[string]int{}
	for id, c := range ctors {
		idx[c.name] = id
	}
	b.WriteString("// PosA[i][mask] / PosB[i][mask]: positional constructors of K_i depending on the masked K types.\nvar PosA = [4][16]int{\n")
	for i := 0; i < 4; i++ {
		b.WriteString("\t{")
		for m := 0; m < 16; m++ {
			fmt.Fprintf(&b, "%d, ", idx[fmt.Sprintf("PosA_%d_%d", i, m)])
		}
		b.WriteString("},\n")
	}
	b.WriteString("}\nvar PosB = [4][16]int{\n")
	for i := 0; i < 4; i++ {
		b.WriteString("\t{")
		for m := 0; m < 16; m++ {
			fmt.Fprintf(&b, "%d, ", idx[fmt.Sprintf("PosB_%d_%d", i, m)])
		}
		b.WriteString("},\n")
	}
	b.WriteString("}\n\n// UniformForms are the forms of family InU, in index order.\nvar UniformForms = [5]Form{FPlain, FKeyed, FGroup, FOpt, FIface}\n\n// InU[i][mask][f]\nvar InU = [4][16][5]int{\n")
	for i := 0; i < 4; i++ {
		b.WriteString("\t{\n")
		for m := 0; m < 16; m++ {
			b.WriteString("\t\t{")
			for _, f := range uniformForms {
				fmt.Fprintf(&b, "%d, ", idx[fmt.Sprintf("InU_%d_%d_%s", i, m, f[1:])])
			}
			b.WriteString("},\n")
		}
		b.WriteString("\t},\n")
	}
	b.WriteString("}\n\n// MixedForms[f]: 0 = no edge; otherwise the form (family InM).\nvar MixedForms = [6]Form{0, FPlain, FKeyed, FGroup, FOpt, FIface}\n\n// InM[i][f0][f1][f2]\nvar InM = [3][6][6][6]int{\n")
	for i := 0; i < 3; i++ {
		b.WriteString("\t{\n")
		for f0 := 0; f0 < 6; f0++ {
			b.WriteString("\t\t{\n")
			for f1 := 0; f1 < 6; f1++ {
				b.WriteString("\t\t\t{")
				for f2 := 0; f2 < 6; f2++ {
					fmt.Fprintf(&b, "%d, ", idx[fmt.Sprintf("InM_%d_%d%d%d", i, f0, f1, f2)])
				}
				b.WriteString("},\n")
			}
			b.WriteString("\t\t},\n")
		}
		b.WriteString("\t},\n")
	}
	b.WriteString("}\n\n// SVar[si]: ids of the random variants of S_si.\nvar SVar = [8][]int{\n")
	for si := 0; si < 8; si++ {
		b.WriteString("\t{")
		for v := 0; ; v++ {
			id, ok := idx[fmt.Sprintf("SV_%d_%d", si, v)]
			if !ok {
				break
			}
			fmt.Fprintf(&b, "%d, ", id)
		}
		b.WriteString("},\n")
	}
	b.WriteString("}\n")
	emit("pool/gen_ctors.go", &b)
}
