// Package graphx monitors internal/graph against a plain reference digraph (C19, and the
// graph halves of C05 and C06).
package graphx

import (
	"fmt"
	"reflect"
	"sort"
	"strings"

	"github.com/junioryono/godi/v4/internal/graph"
	"github.com/junioryono/godi/v4/internal/reflection"
	"github.com/junioryono/godi/v4/verifh/pool"
)

// Ident is a node identity of the test universe.
type Ident struct {
	Name  string
	Type  reflect.Type
	Key   any
	Group string
}

func (i Ident) NodeKey() graph.NodeKey {
	return graph.NodeKey{Type: i.Type, Key: i.Key, Group: i.Group}
}

// Universe of node identities: 3 types x {nil,"k"} keys plus grouped ones.
var Universe = []Ident{
	{Name: "A", Type: pool.T("K0")},
	{Name: "B", Type: pool.T("K1")},
	{Name: "C", Type: pool.T("K2")},
	{Name: "Ak", Type: pool.T("K0"), Key: "k"},
	{Name: "Bk", Type: pool.T("K1"), Key: "k"},
	{Name: "Ck", Type: pool.T("K2"), Key: 7},
	{Name: "Ag", Type: pool.T("K0"), Key: 1, Group: "g"},
	{Name: "Bg", Type: pool.T("K1"), Key: 1, Group: "g"},
	{Name: "D", Type: pool.T("K3")},
	{Name: "E", Type: pool.T("S0")},
	{Name: "F", Type: pool.T("S1")},
	{Name: "G", Type: pool.T("S2")},
	// the same type and key as A / Ak, told apart by the group alone (a service built from the
	// group of its own type: the nodes Build creates for `func(hs []Handler) Handler`)
	{Name: "Ah", Type: pool.T("K0"), Group: "h"},
	{Name: "Akh", Type: pool.T("K0"), Key: "k", Group: "h"},
}

var nameOf = map[graph.NodeKey]string{}

func init() {
	for _, u := range Universe {
		nameOf[u.NodeKey()] = u.Name
	}
}

// KeyName renders a node key with the universe's short names.
func KeyName(k graph.NodeKey) string {
	if n, ok := nameOf[k]; ok {
		return n
	}
	return k.String()
}

// fakeProvider implements graph.Provider.
type fakeProvider struct {
	id   Ident
	deps []*reflection.Dependency
	tag  int
}

func (f *fakeProvider) GetType() reflect.Type                     { return f.id.Type }
func (f *fakeProvider) GetKey() any                               { return f.id.Key }
func (f *fakeProvider) GetGroup() string                          { return f.id.Group }
func (f *fakeProvider) GetDependencies() []*reflection.Dependency { return f.deps }

// NewProvider makes a provider for identity idx depending on the given identities.
func NewProvider(u []Ident, self int, deps []int, tag int) graph.Provider {
	p := &fakeProvider{id: u[self], tag: tag}
	for i, d := range deps {
		p.deps = append(p.deps, &reflection.Dependency{Type: u[d].Type, Key: u[d].Key, Group: u[d].Group, Index: i})
	}
	return p
}

// Ref is the plain reference digraph: nodes (with or without provider) and an ordered
// dependency list per node.
type Ref struct {
	nodes map[int]bool  // idx -> has provider
	edges map[int][]int // idx -> dependency sequence
	tags  map[int]int   // idx -> provider tag (identity of the provider object)
}

func NewRef() *Ref { return &Ref{nodes: map[int]bool{}, edges: map[int][]int{}, tags: map[int]int{}} }

func (r *Ref) Clone() *Ref {
	c := NewRef()
	for k, v := range r.nodes {
		c.nodes[k] = v
	}
	for k, v := range r.edges {
		c.edges[k] = append([]int(nil), v...)
	}
	for k, v := range r.tags {
		c.tags[k] = v
	}
	return c
}

// Add inserts/replaces a provider unconditionally.
func (r *Ref) Add(self int, deps []int, tag int) {
	r.nodes[self] = true
	r.tags[self] = tag
	r.edges[self] = append([]int(nil), deps...)
	for _, d := range deps {
		if _, ok := r.nodes[d]; !ok {
			r.nodes[d] = false
		}
	}
}

// Remove deletes the node and every edge from or to it.
func (r *Ref) Remove(self int) {
	if _, ok := r.nodes[self]; !ok {
		return
	}
	delete(r.nodes, self)
	delete(r.edges, self)
	delete(r.tags, self)
	for k, ds := range r.edges {
		var nd []int
		for _, d := range ds {
			if d != self {
				nd = append(nd, d)
			}
		}
		r.edges[k] = nd
	}
}

func (r *Ref) Clear() {
	r.nodes = map[int]bool{}
	r.edges = map[int][]int{}
	r.tags = map[int]int{}
}

// Cyclic reports whether the digraph has a directed cycle (iterative colouring).
func (r *Ref) Cyclic() bool {
	color := map[int]int{}
	var visit func(n int) bool
	visit = func(n int) bool {
		color[n] = 1
		for _, d := range r.edges[n] {
			switch color[d] {
			case 1:
				return true
			case 0:
				if visit(d) {
					return true
				}
			}
		}
		color[n] = 2
		return false
	}
	for n := range r.nodes {
		if color[n] == 0 && visit(n) {
			return true
		}
	}
	return false
}

// HasEdge reports whether from depends directly on to.
func (r *Ref) HasEdge(from, to int) bool {
	for _, d := range r.edges[from] {
		if d == to {
			return true
		}
	}
	return false
}

func (r *Ref) Nodes() []int {
	var ns []int
	for n := range r.nodes {
		ns = append(ns, n)
	}
	sort.Ints(ns)
	return ns
}

func (r *Ref) dependents(n int) map[int]bool {
	out := map[int]bool{}
	for k, ds := range r.edges {
		for _, d := range ds {
			if d == n {
				out[k] = true
			}
		}
	}
	return out
}

func (r *Ref) transitive(n int) map[int]bool {
	seen := map[int]bool{n: true}
	out := map[int]bool{}
	stack := []int{n}
	for len(stack) > 0 {
		c := stack[len(stack)-1]
		stack = stack[:len(stack)-1]
		for _, d := range r.edges[c] {
			if !seen[d] {
				seen[d] = true
				out[d] = true
				stack = append(stack, d)
			}
		}
	}
	return out
}

func (r *Ref) hasDupEdges() bool {
	for _, ds := range r.edges {
		s := map[int]bool{}
		for _, d := range ds {
			if s[d] {
				return true
			}
			s[d] = true
		}
	}
	return false
}

// depth = longest path to a dependency-free node (acyclic graphs only).
func (r *Ref) depths() map[int]int {
	memo := map[int]int{}
	var f func(n int) int
	f = func(n int) int {
		if v, ok := memo[n]; ok {
			return v
		}
		best := 0
		for _, d := range r.edges[n] {
			if v := f(d) + 1; v > best {
				best = v
			}
		}
		memo[n] = best
		return best
	}
	for n := range r.nodes {
		f(n)
	}
	return memo
}

func (r *Ref) String(u []Ident) string {
	var parts []string
	for _, n := range r.Nodes() {
		var ds []string
		for _, d := range r.edges[n] {
			ds = append(ds, u[d].Name)
		}
		mark := ""
		if !r.nodes[n] {
			mark = "?"
		}
		parts = append(parts, fmt.Sprintf("%s%s->[%s]", u[n].Name, mark, strings.Join(ds, ",")))
	}
	return strings.Join(parts, " ")
}

func setNames(u []Ident, s map[int]bool) string {
	var ns []string
	for k := range s {
		ns = append(ns, u[k].Name)
	}
	sort.Strings(ns)
	return strings.Join(ns, ",")
}

func keysToSet(u []Ident, ks []graph.NodeKey) (map[int]bool, string) {
	idx := map[graph.NodeKey]int{}
	for i, id := range u {
		idx[id.NodeKey()] = i
	}
	out := map[int]bool{}
	for _, k := range ks {
		i, ok := idx[k]
		if !ok {
			return nil, "unknown node key " + k.String()
		}
		out[i] = true
	}
	return out, ""
}

func eqSet(a, b map[int]bool) bool {
	if len(a) != len(b) {
		return false
	}
	for k := range a {
		if !b[k] {
			return false
		}
	}
	return true
}

// Compare checks every public query of g against the reference. degreesFresh says whether
// the documented cycle check (or an immediate add/remove) ran since the last mutation, i.e.
// whether degree-based answers are meant to be current. It returns "" or the first mismatch.
func Compare(g *graph.DependencyGraph, r *Ref, u []Ident) string {
	if g.Size() != len(r.nodes) {
		return fmt.Sprintf("Size()=%d, reference has %d nodes", g.Size(), len(r.nodes))
	}
	refCyclic := r.Cyclic()
	for i, id := range u {
		_, want := r.nodes[i]
		if got := g.HasNode(id.Type, id.Key, id.Group); got != want {
			return fmt.Sprintf("HasNode(%s)=%v, reference %v", id.Name, got, want)
		}
		node := g.GetNode(id.Type, id.Key, id.Group)
		if (node != nil) != want {
			return fmt.Sprintf("GetNode(%s)!=nil is %v, reference %v", id.Name, node != nil, want)
		}
		deps := g.GetDependencies(id.Type, id.Key, id.Group)
		if !want {
			if len(deps) != 0 {
				return fmt.Sprintf("GetDependencies(%s) non-empty for absent node", id.Name)
			}
			continue
		}
		wantDeps := r.edges[i]
		if len(deps) != len(wantDeps) {
			return fmt.Sprintf("GetDependencies(%s) has %d entries, reference %d (%v)", id.Name, len(deps), len(wantDeps), names(u, wantDeps))
		}
		for j := range deps {
			if deps[j] != u[wantDeps[j]].NodeKey() {
				return fmt.Sprintf("GetDependencies(%s)[%d]=%s, reference %s", id.Name, j, KeyName(deps[j]), u[wantDeps[j]].Name)
			}
		}
		if (node.Provider != nil) != r.nodes[i] {
			return fmt.Sprintf("node %s: has provider %v, reference %v", id.Name, node.Provider != nil, r.nodes[i])
		}
		if fp, ok := node.Provider.(*fakeProvider); ok && fp.tag != r.tags[i] {
			return fmt.Sprintf("node %s: holds provider #%d, reference #%d (stale provider after replace)", id.Name, fp.tag, r.tags[i])
		}
		gotDependents, bad := keysToSet(u, g.GetDependents(id.Type, id.Key, id.Group))
		if bad != "" {
			return "GetDependents(" + id.Name + "): " + bad
		}
		if wd := r.dependents(i); !eqSet(gotDependents, wd) {
			return fmt.Sprintf("GetDependents(%s)={%s}, reference {%s}", id.Name, setNames(u, gotDependents), setNames(u, wd))
		}
		gotTrans, bad := keysToSet(u, g.GetTransitiveDependencies(id.Type, id.Key, id.Group))
		if bad != "" {
			return "GetTransitiveDependencies(" + id.Name + "): " + bad
		}
		if wt := r.transitive(i); !eqSet(gotTrans, wt) {
			return fmt.Sprintf("GetTransitiveDependencies(%s)={%s}, reference {%s}", id.Name, setNames(u, gotTrans), setNames(u, wt))
		}
		// degrees: zero/non-zero always; exact when the graph has no duplicate edges
		wIn, wOut := 0, len(r.edges[i])
		for _, ds := range r.edges {
			for _, d := range ds {
				if d == i {
					wIn++
				}
			}
		}
		if (node.InDegree == 0) != (wIn == 0) || (node.OutDegree == 0) != (wOut == 0) {
			return fmt.Sprintf("node %s: in/out degree %d/%d, reference %d/%d", id.Name, node.InDegree, node.OutDegree, wIn, wOut)
		}
		if !r.hasDupEdges() && (node.InDegree != wIn || node.OutDegree != wOut) {
			return fmt.Sprintf("node %s: in/out degree %d/%d, reference %d/%d", id.Name, node.InDegree, node.OutDegree, wIn, wOut)
		}
	}
	// roots / leaves (degree based)
	wantRoots, wantLeaves := map[int]bool{}, map[int]bool{}
	for n := range r.nodes {
		if len(r.dependents(n)) == 0 {
			wantRoots[n] = true
		}
		if len(r.edges[n]) == 0 {
			wantLeaves[n] = true
		}
	}
	var rk, lk []graph.NodeKey
	for _, n := range g.GetRoots() {
		rk = append(rk, n.Key)
	}
	for _, n := range g.GetLeaves() {
		lk = append(lk, n.Key)
	}
	if len(rk) != len(wantRoots) {
		return fmt.Sprintf("GetRoots() returned %d nodes, reference {%s}", len(rk), setNames(u, wantRoots))
	}
	if gr, bad := keysToSet(u, rk); bad != "" || !eqSet(gr, wantRoots) {
		return fmt.Sprintf("GetRoots()={%s}%s, reference {%s}", setNames(u, gr), bad, setNames(u, wantRoots))
	}
	if len(lk) != len(wantLeaves) {
		return fmt.Sprintf("GetLeaves() returned %d nodes, reference {%s}", len(lk), setNames(u, wantLeaves))
	}
	if gl, bad := keysToSet(u, lk); bad != "" || !eqSet(gl, wantLeaves) {
		return fmt.Sprintf("GetLeaves()={%s}%s, reference {%s}", setNames(u, gl), bad, setNames(u, wantLeaves))
	}
	// acyclicity
	if got := g.IsAcyclic(); got != !refCyclic {
		return fmt.Sprintf("IsAcyclic()=%v, reference acyclic=%v", got, !refCyclic)
	}
	// topological order
	sorted, err := g.TopologicalSort()
	if refCyclic {
		if err == nil {
			return "TopologicalSort() succeeded on a cyclic graph"
		}
		return ""
	}
	if err != nil {
		return "TopologicalSort() failed on an acyclic graph: " + err.Error()
	}
	if msg := CheckTopo(sorted, r, u); msg != "" {
		return msg
	}
	// second call (cached) must be equally valid
	sorted2, err := g.TopologicalSort()
	if err != nil {
		return "TopologicalSort() (second call) failed: " + err.Error()
	}
	if msg := CheckTopo(sorted2, r, u); msg != "" {
		return "cached " + msg
	}
	// depths
	g.CalculateDepths()
	wd := r.depths()
	for i, id := range u {
		if _, ok := r.nodes[i]; !ok {
			continue
		}
		if n := g.GetNode(id.Type, id.Key, id.Group); n != nil && n.Depth != wd[i] {
			return fmt.Sprintf("depth(%s)=%d, reference %d", id.Name, n.Depth, wd[i])
		}
	}
	return ""
}

func names(u []Ident, idx []int) []string {
	var ns []string
	for _, i := range idx {
		ns = append(ns, u[i].Name)
	}
	return ns
}

// CheckTopo verifies that sorted lists every node exactly once with dependencies first.
func CheckTopo(sorted []*graph.Node, r *Ref, u []Ident) string {
	idx := map[graph.NodeKey]int{}
	for i, id := range u {
		idx[id.NodeKey()] = i
	}
	pos := map[int]int{}
	for p, n := range sorted {
		if n == nil {
			return "TopologicalSort() returned a nil node"
		}
		i, ok := idx[n.Key]
		if !ok {
			return "TopologicalSort() returned unknown node " + n.Key.String()
		}
		if _, dup := pos[i]; dup {
			return fmt.Sprintf("TopologicalSort() lists %s twice", u[i].Name)
		}
		pos[i] = p
	}
	if len(pos) != len(r.nodes) {
		return fmt.Sprintf("TopologicalSort() lists %d nodes, reference has %d", len(pos), len(r.nodes))
	}
	for n, ds := range r.edges {
		for _, d := range ds {
			if pos[d] >= pos[n] {
				return fmt.Sprintf("TopologicalSort(): %s (pos %d) before its dependency %s (pos %d)", u[n].Name, pos[n], u[d].Name, pos[d])
			}
		}
	}
	return ""
}
