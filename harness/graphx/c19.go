package graphx

import (
	"errors"
	"fmt"
	"math/rand"
	"runtime"
	"strings"
	"sync"

	"github.com/junioryono/godi/v4/internal/graph"
	"github.com/junioryono/godi/v4/verifh/eng"
)

// Op is one graph mutation of a C19 sequence.
type Op struct {
	Kind string // add | defer (deferred add + cycle check) | deferonly (deferred add, check pending) | detect (the cycle check) | remove | clear
	Self int
	Deps []int
}

func (o Op) String(u []Ident) string {
	switch o.Kind {
	case "clear":
		return "Clear"
	case "remove":
		return "Remove(" + u[o.Self].Name + ")"
	case "detect":
		return "DetectCycles"
	}
	k := "Add"
	if o.Kind == "defer" {
		k = "AddDeferred+DetectCycles"
	}
	if o.Kind == "deferonly" {
		k = "AddDeferred"
	}
	return fmt.Sprintf("%s(%s->[%s])", k, u[o.Self].Name, strings.Join(names(u, o.Deps), ","))
}

// seqState runs ops against the real graph and the reference side by side.
type seqState struct {
	g      *graph.DependencyGraph
	r      *Ref
	u      []Ident
	tag    int
	stats  map[string]int64
	answer string // digest of the last answers, for the non-triviality rule
	// pending: deferred adds whose completing cycle check has not run yet. Queries are only
	// specified once the check has run, so nothing is compared while pending; removes and clears
	// are applied to both sides, immediate adds are skipped.
	pending bool
	// provider VALUES handed to the graph so far, per (node, dependency list): every third
	// registration of an identical declaration hands in the very same value again (a module
	// listed twice passes the same descriptor twice)
	provs map[string]graph.Provider
	ptags map[string]int
	nreg  int
	// cur: the provider value each node of the graph currently holds
	cur map[int]graph.Provider
	// a BYSTANDER graph: built once, in the middle of the sequence, from the very provider values
	// the main graph holds (two Builds of one collection hand the same descriptors to two
	// graphs), and never touched again: its answers stay those of its own reference, whatever
	// happens to the main graph
	by    *graph.DependencyGraph
	byRef *Ref
}

// startBystander builds the bystander from the main graph's current provider values.
func (s *seqState) startBystander() {
	if s.by != nil || s.pending || s.r.Cyclic() || len(s.r.nodes) == 0 {
		return
	}
	g := graph.NewDependencyGraph()
	for _, n := range s.r.Nodes() {
		p, ok := s.cur[n]
		if !ok {
			return
		}
		if err := g.AddProviderDeferred(p); err != nil {
			return
		}
	}
	if g.DetectCycles() != nil {
		return
	}
	if Compare(g, s.r, s.u) != "" {
		return // the main sequence reports what is wrong with such a graph
	}
	s.by, s.byRef = g, s.r.Clone()
	s.stats["bystander_graphs"]++
}

func (s *seqState) checkBystander() string {
	if s.by == nil {
		return ""
	}
	s.stats["bystander_comparisons"]++
	return Compare(s.by, s.byRef, s.u)
}

// provider returns the provider value (and its tag) for this registration.
func (s *seqState) provider(o Op) (graph.Provider, int) {
	if s.provs == nil {
		s.provs, s.ptags = map[string]graph.Provider{}, map[string]int{}
	}
	key := fmt.Sprint(o.Self, o.Deps)
	s.nreg++
	if p, ok := s.provs[key]; ok && s.nreg%3 != 0 {
		s.stats["same_provider_value_registered_again"]++
		return p, s.ptags[key]
	}
	s.tag++
	p := NewProvider(s.u, o.Self, o.Deps, s.tag)
	s.provs[key], s.ptags[key] = p, s.tag
	return p, s.tag
}

func (s *seqState) setCur(n int, p graph.Provider) {
	if s.cur == nil {
		s.cur = map[int]graph.Provider{}
	}
	s.cur[n] = p
}

func newSeqState(u []Ident) *seqState {
	return &seqState{g: graph.NewDependencyGraph(), r: NewRef(), u: u, stats: map[string]int64{}}
}

// apply executes one op on both sides and returns a mismatch description or "".
func (s *seqState) apply(o Op) (clause, msg string) {
	switch o.Kind {
	case "clear":
		s.g.Clear()
		s.r.Clear()
		s.cur = nil
		s.pending = false
		s.stats["clear"]++
	case "remove":
		id := s.u[o.Self]
		s.g.RemoveProvider(id.Type, id.Key, id.Group)
		s.r.Remove(o.Self)
		delete(s.cur, o.Self)
		s.stats["remove"]++
		if s.pending {
			s.stats["remove_while_deferred_pending"]++
		}
	case "deferonly":
		prov, tag := s.provider(o)
		if err := s.g.AddProviderDeferred(prov); err != nil {
			return "defer-error", "AddProviderDeferred failed: " + err.Error()
		}
		s.r.Add(o.Self, o.Deps, tag)
		s.setCur(o.Self, prov)
		s.pending = true
		s.stats["defer_pending"]++
	case "detect":
		err := s.g.DetectCycles()
		if (err != nil) != s.r.Cyclic() {
			return "detect-cycles", fmt.Sprintf("DetectCycles()=%v, reference cyclic=%v", err, s.r.Cyclic())
		}
		if s.pending {
			s.stats["deferred_batch_completed"]++
		}
		s.pending = false
	case "add":
		if s.pending {
			s.stats["add_skipped_while_pending"]++
			return "", ""
		}
		if s.r.Cyclic() {
			// immediate adds are only specified on graphs that passed the cycle check
			s.stats["add_skipped_on_cyclic"]++
			return "", ""
		}
		prov, tag := s.provider(o)
		_, replacing := s.r.nodes[o.Self]
		trial := s.r.Clone()
		trial.Add(o.Self, o.Deps, tag)
		err := s.g.AddProvider(prov)
		if trial.Cyclic() {
			s.stats["add_rejected_expected"]++
			if err == nil {
				return "add-accepts-cycle", "AddProvider accepted an edge set that closes a cycle"
			}
			var ce *graph.CircularDependencyError
			if !errors.As(err, &ce) {
				return "add-error-class", "AddProvider rejection is not a CircularDependencyError: " + err.Error()
			}
			// reference unchanged
			if m := Compare(s.g, s.r, s.u); m != "" {
				return "rejected-add-not-rolled-back", m
			}
			return "", ""
		}
		if err != nil {
			return "add-rejects-acyclic", "AddProvider rejected an acyclic addition: " + err.Error()
		}
		s.r = trial
		s.setCur(o.Self, prov)
		if replacing && s.r.nodes[o.Self] {
			s.stats["replace"]++
		}
		s.stats["add"]++
	case "defer":
		prov, tag := s.provider(o)
		if err := s.g.AddProviderDeferred(prov); err != nil {
			return "defer-error", "AddProviderDeferred failed: " + err.Error()
		}
		s.r.Add(o.Self, o.Deps, tag)
		s.setCur(o.Self, prov)
		err := s.g.DetectCycles() // the documented completion of deferred adds
		if (err != nil) != s.r.Cyclic() {
			return "detect-cycles", fmt.Sprintf("DetectCycles()=%v, reference cyclic=%v", err, s.r.Cyclic())
		}
		s.pending = false
		s.stats["defer"]++
	}
	if s.pending {
		return "", ""
	}
	if m := Compare(s.g, s.r, s.u); m != "" {
		return "query-mismatch:" + o.Kind, m
	}
	s.stats["compared_states"]++
	return "", ""
}

func seqString(u []Ident, ops []Op) string {
	var ps []string
	for _, o := range ops {
		ps = append(ps, o.String(u))
	}
	return strings.Join(ps, " ; ")
}

// classify turns a mismatch into a signature that names the operation pattern, not the ids.
func c19Sig(clause string, ops []Op, upto int) string {
	// feature: kind of the failing op, whether it replaced / had zero deps, whether a rejection preceded
	o := ops[upto]
	feat := o.Kind
	if o.Kind == "add" || o.Kind == "defer" {
		if len(o.Deps) == 0 {
			feat += ":nodeps"
		}
	}
	if o.Kind == "detect" {
		// name what happened while the deferred batch was pending
		for j := upto - 1; j >= 0 && ops[j].Kind != "detect" && ops[j].Kind != "defer" && ops[j].Kind != "clear"; j-- {
			if ops[j].Kind == "remove" {
				feat += ":remove-while-pending"
				break
			}
		}
	}
	return "C19/" + clause + ":" + feat
}

// small alphabet for the exhaustive part: 3 identities, every dependency subset
func smallAlphabet() []Op {
	var ops []Op
	for self := 0; self < 3; self++ {
		for mask := 0; mask < 8; mask++ {
			var deps []int
			for j := 0; j < 3; j++ {
				if mask&(1<<j) != 0 {
					deps = append(deps, j)
				}
			}
			ops = append(ops, Op{Kind: "add", Self: self, Deps: deps})
			ops = append(ops, Op{Kind: "defer", Self: self, Deps: deps})
			ops = append(ops, Op{Kind: "deferonly", Self: self, Deps: deps})
		}
		ops = append(ops, Op{Kind: "remove", Self: self})
	}
	ops = append(ops, Op{Kind: "clear"})
	ops = append(ops, Op{Kind: "detect"})
	return ops
}

func runSeq(c *eng.Ctx, u []Ident, ops []Op, caseIdx int, stats map[string]int64) (violated bool, nontrivial bool) {
	s := newSeqState(u)
	s.stats = stats
	mutated := false
	for i, o := range ops {
		before := s.r.String(u)
		clause, msg := s.apply(o)
		if s.r.String(u) != before {
			mutated = true
		}
		if clause == "" {
			if m := s.checkBystander(); m != "" {
				clause, msg = "bystander-graph-changed", "a second graph that was given the same provider values and has not been touched since answers differently after this step on the FIRST graph: "+m
			}
			if i == len(ops)/3 {
				s.startBystander()
			}
		}
		if clause != "" {
			c.R.Violation(eng.Violation{Prop: "C19", Clause: clause, Sig: c19Sig(clause, ops, i), Case: caseIdx, CaseID: fmt.Sprintf("seq-%d", caseIdx),
				Detail: fmt.Sprintf("after step %d of [%s]: %s\nreference graph: %s", i+1, seqString(u, ops), msg, s.r.String(u)),
				Replay: map[string]any{"ops": seqString(u, ops), "failing_step": i + 1}})
			return true, mutated
		}
	}
	return false, mutated
}

func init() {
	eng.Register(&eng.Property{
		ID:    "C19",
		Level: "exploration",
		Rule: "cases are sequences of AddProvider / AddProviderDeferred+DetectCycles / RemoveProvider / Clear over a pool of node identities (types x keys x groups); " +
			"after EVERY step every public query is compared with a map-of-lists reference digraph. Deferred adds also occur in batches (several AddProviderDeferred, removes and clears in between, then one DetectCycles); nothing is compared while a batch is pending. Exhaustive part: all sequences of length <=3 (quick) / <=4 (thorough) over a 77-op alphabet on 3 identities (every dependency subset x add / deferred+check / deferred-only, remove, clear, the check); " +
			"random part: seeded sequences of length 30-200 over 12 identities. A case is non-trivial when at least one step changed the reference graph; distinct = distinct op sequences.",
		Shards: func(tier string) int { return 16 },
		Run:    runC19,
		Assumptions: []string{
			"immediate AddProvider is exercised only on graphs that passed the cycle check (the statement's 'deferred and completed by the documented cycle check')",
			"depths are compared only on graphs the reference knows to be acyclic",
			"exact in/out degrees are compared only when no provider lists the same dependency twice; zero/non-zero (roots, leaves) always",
		},
		NeedEvents: []string{"compared_states", "add", "defer", "remove", "deferred_batch_completed", "remove_while_deferred_pending", "concurrent_sort_vs_mutation_rounds"},
	})
}

func runC19(c *eng.Ctx) {
	u3 := Universe[:3]
	alpha := smallAlphabet()
	n := len(alpha)
	maxLen := c.Pick(3, 4)
	stats := map[string]int64{}
	// exhaustive part: block = first two ops (n*n blocks); sequences of length 1 and 2 are
	// covered as prefixes (every prefix state is compared after every step).
	caseIdx := 0
	total := 1
	for i := 0; i < maxLen; i++ {
		total *= n
	}
	for a := 0; a < n; a++ {
		for b := 0; b < n; b++ {
			idx := caseIdx
			caseIdx++
			if !c.Mine(idx) {
				continue
			}
			c.R.Begin(idx)
			var cnt, nt int64
			var rec func(prefix []Op)
			rec = func(prefix []Op) {
				if len(prefix) == maxLen {
					cnt++
					v, m := runSeq(c, u3, prefix, idx, stats)
					if m {
						nt++
					}
					_ = v
					return
				}
				for k := 0; k < n; k++ {
					rec(append(prefix[:len(prefix):len(prefix)], alpha[k]))
				}
			}
			rec([]Op{alpha[a], alpha[b]})
			c.R.AddEnumerated(cnt, nt)
			c.R.ExhaustiveProgress(fmt.Sprintf("all op sequences of length %d over the 77-op alphabet on 3 identities", maxLen), total, int(cnt))
			c.R.End(idx, eng.Hash("c19-block", a, b, maxLen), false)
		}
	}
	// random part
	nRandom := c.Pick(2000, 60000)
	for k := 0; k < nRandom; k++ {
		idx := caseIdx
		caseIdx++
		if !c.Mine(idx) {
			continue
		}
		rng := rand.New(rand.NewSource(c.Seed*1_000_003 + int64(k)))
		ops := randomSeq(rng, Universe, 30+rng.Intn(171))
		c.R.Begin(idx)
		_, m := runSeq(c, Universe, ops, idx, stats)
		if c.R.WantSample() {
			short := ops
			if len(short) > 12 {
				short = short[:12]
			}
			c.R.Sample(map[string]any{"kind": "random-sequence", "length": len(ops), "first_ops": seqString(Universe, short)})
		}
		c.R.End(idx, eng.Hash("c19-rand", seqString(Universe, ops)), m)
	}
	for k, v := range stats {
		c.R.Count(k, v)
	}
	runC19Concurrent(c, func() (int, bool) { i := caseIdx; caseIdx++; return i, c.Mine(i) })
}

func randomSeq(rng *rand.Rand, u []Ident, n int) []Op {
	ops := make([]Op, 0, n)
	// work on a sub-universe so that collisions (replace, cycles) are frequent
	size := 3 + rng.Intn(len(u)-2)
	perm := rng.Perm(len(u))[:size]
	for i := 0; i < n; i++ {
		self := perm[rng.Intn(size)]
		switch x := rng.Intn(100); {
		case x < 3:
			ops = append(ops, Op{Kind: "clear"})
		case x < 20:
			ops = append(ops, Op{Kind: "remove", Self: self})
		default:
			nd := rng.Intn(4)
			if rng.Intn(5) == 0 {
				nd = 0
			}
			var deps []int
			for j := 0; j < nd; j++ {
				deps = append(deps, perm[rng.Intn(size)])
			}
			kind := "add"
			if x >= 65 {
				kind = "defer"
			}
			if x >= 85 {
				kind = "deferonly"
			}
			if x >= 97 {
				ops = append(ops, Op{Kind: "detect"})
				continue
			}
			ops = append(ops, Op{Kind: kind, Self: self, Deps: deps})
		}
	}
	return ops
}

// ---- concurrent use of the graph (it carries its own lock) -----------------------------
//
// One goroutine asks for the topological order of a large graph whose cache is dirty while
// another one mutates the graph. Afterwards (quiescent again) the reference digraph has
// received the same mutation and every answer must agree with it: a cached order that
// predates the mutation is a stale answer.

type bigIdent struct{ n int }

func runC19Concurrent(c *eng.Ctx, alloc func() (int, bool)) {
	rounds := c.Pick(16, 96)
	const nNodes = 30000
	// a big universe: one type, int keys
	u := make([]Ident, nNodes+8)
	for i := range u {
		u[i] = Ident{Name: fmt.Sprintf("n%d", i), Type: Universe[0].Type, Key: i}
	}
	for k := 0; k < rounds; k++ {
		idx, mine := alloc()
		if !mine {
			continue
		}
		c.R.Begin(idx)
		g := graph.NewDependencyGraphWithCapacity(nNodes)
		ref := NewRef()
		rng := rand.New(rand.NewSource(c.Seed*31 + int64(k)))
		for i := 0; i < nNodes; i++ {
			var deps []int
			if i > 0 {
				deps = append(deps, rng.Intn(i))
				if i > 10 && rng.Intn(3) == 0 {
					deps = append(deps, rng.Intn(i))
				}
			}
			_ = g.AddProviderDeferred(NewProvider(u, i, deps, i+1))
			ref.Add(i, deps, i+1)
		}
		if err := g.DetectCycles(); err != nil {
			c.R.Violation(eng.Violation{Prop: "C19", Clause: "detect-cycles", Sig: "C19/detect-cycles:big-dag", Case: idx, CaseID: "concurrent", Detail: "DetectCycles reports a cycle in a forward-edge DAG: " + err.Error()})
			c.R.End(idx, eng.Hash("c19-conc", k), false)
			continue
		}
		start := make(chan struct{})
		var wg sync.WaitGroup
		var sorted []*graph.Node
		var sortErr error
		wg.Add(2)
		go func() { defer wg.Done(); <-start; sorted, sortErr = g.TopologicalSort() }()
		extra := nNodes + k%8
		mutKind := k % 3
		go func() {
			defer wg.Done()
			<-start
			for i := 0; i < 1+k%5; i++ {
				runtime.Gosched()
			}
			switch mutKind {
			case 0:
				_ = g.AddProvider(NewProvider(u, extra, []int{nNodes - 1}, extra+1))
			case 1:
				_ = g.AddProviderDeferred(NewProvider(u, extra, []int{0, nNodes / 2}, extra+1))
			default:
				id := u[nNodes-1]
				g.RemoveProvider(id.Type, id.Key, id.Group)
			}
		}()
		close(start)
		wg.Wait()
		switch mutKind {
		case 0:
			ref.Add(extra, []int{nNodes - 1}, extra+1)
		case 1:
			ref.Add(extra, []int{0, nNodes / 2}, extra+1)
			_ = g.DetectCycles() // documented completion of the deferred add
		default:
			ref.Remove(nNodes - 1)
		}
		_ = sorted
		// quiescent: the answers must describe the graph that now exists
		var msg string
		if sortErr != nil && mutKind != 1 {
			// (a sort that overlaps a DEFERRED add may see it before its documented completion
			// by DetectCycles; only the immediate mutations leave the graph queryable at all times)
			msg = "TopologicalSort (concurrent with a mutation) failed on an acyclic graph: " + sortErr.Error()
		} else if g.Size() != len(ref.nodes) {
			msg = fmt.Sprintf("Size()=%d, reference has %d nodes", g.Size(), len(ref.nodes))
		} else if after, err := g.TopologicalSort(); err != nil {
			msg = "TopologicalSort after the mutation failed: " + err.Error()
		} else {
			msg = CheckTopo(after, ref, u)
		}
		if msg != "" {
			c.R.Violation(eng.Violation{Prop: "C19", Clause: "stale-answer-after-concurrent-mutation", Sig: "C19/stale-answer-after-concurrent-mutation:toposort-vs-" + []string{"add", "deferred-add", "remove"}[mutKind], Case: idx, CaseID: "concurrent",
				Detail: fmt.Sprintf("TopologicalSort on a dirty %d-node graph overlapped one %s; afterwards (quiescent): %s", nNodes, []string{"AddProvider", "AddProviderDeferred+DetectCycles", "RemoveProvider"}[mutKind], msg)})
		}
		c.R.Count("concurrent_sort_vs_mutation_rounds", 1)
		c.R.End(idx, eng.Hash("c19-conc", k), true)
	}
}
