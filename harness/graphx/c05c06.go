package graphx

import (
	"errors"
	"fmt"
	"math/rand"
	"strings"

	"github.com/junioryono/godi/v4/internal/graph"
	"github.com/junioryono/godi/v4/verifh/eng"
)

// Alloc hands out global case indexes (shared with the container half of the property).
type Alloc func() (idx int, mine bool)

func digraphOf(u []Ident, n int, bits int) *Ref {
	r := NewRef()
	for i := 0; i < n; i++ {
		var deps []int
		for j := 0; j < n; j++ {
			if bits&(1<<(i*n+j)) != 0 {
				deps = append(deps, j)
			}
		}
		r.Add(i, deps, i+1)
	}
	return r
}

// checkPath verifies that a reported cycle path is a closed walk along reference edges.
func checkPath(r *Ref, u []Ident, path []graph.NodeKey) string {
	if len(path) == 0 {
		return "empty path"
	}
	idx := map[graph.NodeKey]int{}
	for i, id := range u {
		idx[id.NodeKey()] = i
	}
	var ns []int
	var names []string
	for _, k := range path {
		i, ok := idx[k]
		if !ok {
			return "path contains unknown node " + k.String()
		}
		ns = append(ns, i)
		names = append(names, u[i].Name)
	}
	if len(ns) > 1 && ns[len(ns)-1] == ns[0] {
		ns = ns[:len(ns)-1]
	}
	for i := range ns {
		a, b := ns[i], ns[(i+1)%len(ns)]
		if !r.HasEdge(a, b) {
			return fmt.Sprintf("path %s: %s does not depend on %s", strings.Join(names, "->"), u[a].Name, u[b].Name)
		}
	}
	return ""
}

func graphShape(r *Ref) string {
	// coarse feature for signatures: self-loop / 2-cycle / longer, with or without extra edges
	for n, ds := range r.edges {
		for _, d := range ds {
			if d == n {
				return "self-loop"
			}
		}
	}
	return "multi-node"
}

// checkDigraph inserts the reference digraph into real graphs in three ways and compares.
func checkDigraph(c *eng.Ctx, prop string, caseIdx int, r *Ref, u []Ident, order []int, stats map[string]int64, desc func() string) {
	viol := func(clause, sig, msg string) {
		c.R.Violation(eng.Violation{Prop: prop, Clause: clause, Sig: prop + "/" + clause + ":" + sig, Case: caseIdx, CaseID: fmt.Sprintf("graph-%d", caseIdx), Detail: msg + "\ngraph: " + desc(), Replay: map[string]any{"graph": desc()}})
	}
	cyclic := r.Cyclic()
	if cyclic {
		stats["graph_cyclic"]++
	} else {
		stats["graph_acyclic"]++
	}
	stats["graph_digraphs"]++
	// (i) deferred + DetectCycles
	g := graph.NewDependencyGraph()
	for _, n := range order {
		if err := g.AddProviderDeferred(NewProvider(u, n, r.edges[n], r.tags[n])); err != nil {
			viol("graph-deferred-add-error", "any", err.Error())
			return
		}
	}
	err := g.DetectCycles()
	if (err != nil) != cyclic {
		viol("graph-cycle-verdict", "deferred:"+graphShape(r), fmt.Sprintf("DetectCycles()=%v but reference cyclic=%v", err != nil, cyclic))
	}
	if err != nil && cyclic {
		var ce *graph.CircularDependencyError
		if !errors.As(err, &ce) {
			viol("graph-cycle-error-class", "deferred", fmt.Sprintf("DetectCycles error is %T", err))
		} else if msg := checkPath(r, u, ce.Path); msg != "" {
			viol("graph-reported-path-not-a-cycle", "deferred:"+graphShape(r), msg)
		}
		stats["graph_paths_checked"]++
	}
	if g.IsAcyclic() == cyclic {
		viol("graph-cycle-verdict", "isacyclic:"+graphShape(r), fmt.Sprintf("IsAcyclic()=%v but reference cyclic=%v", !cyclic, cyclic))
	}
	// second call answers from the cache: must agree
	if err2 := g.DetectCycles(); (err2 != nil) != cyclic {
		viol("graph-cycle-verdict", "cached:"+graphShape(r), fmt.Sprintf("second DetectCycles()=%v but reference cyclic=%v", err2 != nil, cyclic))
	}
	if !cyclic {
		sorted, err := g.TopologicalSort()
		if err != nil {
			viol("graph-toposort-fails-on-dag", "deferred", err.Error())
		} else if msg := CheckTopo(sorted, r, u); msg != "" {
			viol("graph-toposort-invalid", "deferred", msg)
		}
		stats["graph_toposorts"]++
	} else if _, err := g.TopologicalSort(); err == nil {
		viol("graph-toposort-accepts-cycle", "deferred", "TopologicalSort succeeded on a cyclic graph")
	}
	// (iv) grow, sort, grow, sort: the graph of (i) has been sorted (its order may be cached); now
	// further providers WITHOUT dependencies arrive through the deferred door (then one through
	// the immediate door), each batch followed by the documented cycle check and another sort:
	// every node is listed, dependencies first
	if !cyclic {
		r4 := r.Clone()
		added := 0
		for n := range u {
			if r4.nodes[n] || added >= 3 {
				continue
			}
			added++
			tag := 9000 + n
			var aerr error
			if added == 3 {
				aerr = g.AddProvider(NewProvider(u, n, nil, tag))
			} else {
				aerr = g.AddProviderDeferred(NewProvider(u, n, nil, tag))
			}
			if aerr != nil {
				viol("graph-deferred-add-error", "after-sort", aerr.Error())
				break
			}
			r4.Add(n, nil, tag)
			if err := g.DetectCycles(); err != nil {
				viol("graph-cycle-verdict", "after-sort:leaf-added", fmt.Sprintf("DetectCycles()=%v after a dependency-free provider was added to an acyclic graph", err))
				break
			}
			sorted, err := g.TopologicalSort()
			if err != nil {
				viol("graph-toposort-fails-on-dag", "after-sort:leaf-added", err.Error())
				break
			}
			if msg := CheckTopo(sorted, r4, u); msg != "" {
				viol("graph-toposort-invalid", "after-sort:leaf-added", fmt.Sprintf("after the graph had been sorted once and %s (no dependencies) was added: %s", u[n].Name, msg))
				break
			}
			stats["graph_toposorts_after_growth"]++
		}
	}
	// (iii) one node removed while every add is still deferred (no DetectCycles in between), then
	// the documented cycle check: verdict and order of what is left
	if len(order) >= 2 {
		g3 := graph.NewDependencyGraph()
		for _, n := range order {
			if err := g3.AddProviderDeferred(NewProvider(u, n, r.edges[n], r.tags[n])); err != nil {
				viol("graph-deferred-add-error", "any", err.Error())
				return
			}
		}
		victim := order[(caseIdx+len(order)/2)%len(order)]
		g3.RemoveProvider(u[victim].Type, u[victim].Key, u[victim].Group)
		r3 := r.Clone()
		r3.Remove(victim)
		cyc3 := r3.Cyclic()
		err3 := g3.DetectCycles()
		if (err3 != nil) != cyc3 {
			viol("graph-cycle-verdict", "removed-while-pending:"+graphShape(r3), fmt.Sprintf("after deferred adds and RemoveProvider(%s), DetectCycles()=%v but reference cyclic=%v", u[victim].Name, err3 != nil, cyc3))
		} else if !cyc3 {
			sorted, err := g3.TopologicalSort()
			if err != nil {
				viol("graph-toposort-fails-on-dag", "removed-while-pending", fmt.Sprintf("after deferred adds and RemoveProvider(%s): %v", u[victim].Name, err))
			} else if msg := CheckTopo(sorted, r3, u); msg != "" {
				viol("graph-toposort-invalid", "removed-while-pending", msg)
			}
			stats["graph_toposorts_after_remove_while_pending"]++
		}
	}
	// (ii) incremental AddProvider in the given order: every add that keeps the prefix graph
	// acyclic must be accepted; one that closes a cycle must be rejected and leave the graph unchanged.
	g2 := graph.NewDependencyGraph()
	ref2 := NewRef()
	for _, n := range order {
		trial := ref2.Clone()
		trial.Add(n, r.edges[n], r.tags[n])
		err := g2.AddProvider(NewProvider(u, n, r.edges[n], r.tags[n]))
		if trial.Cyclic() {
			if err == nil {
				viol("graph-add-accepts-cycle", "incremental:"+graphShape(trial), fmt.Sprintf("AddProvider(%s) accepted a cycle-closing provider", u[n].Name))
				return
			}
			var ce *graph.CircularDependencyError
			if errors.As(err, &ce) {
				if msg := checkPath(trial, u, ce.Path); msg != "" {
					viol("graph-reported-path-not-a-cycle", "incremental:"+graphShape(trial), msg)
				}
				stats["graph_paths_checked"]++
			} else {
				viol("graph-cycle-error-class", "incremental", fmt.Sprintf("AddProvider error is %T", err))
			}
			// the rejected add was rolled back: the verdict (asked again, possibly from a cache
			// that was valid before the add) is still "acyclic"
			if err := g2.DetectCycles(); err != nil {
				viol("graph-cycle-verdict", "after-rejected-add:"+graphShape(ref2), fmt.Sprintf("after AddProvider(%s) was rejected and rolled back, DetectCycles()=%v on a graph the reference knows to be acyclic", u[n].Name, err))
				return
			}
			if !g2.IsAcyclic() {
				viol("graph-cycle-verdict", "after-rejected-add:isacyclic:"+graphShape(ref2), "IsAcyclic()=false after a rejected add was rolled back")
				return
			}
			stats["graph_verdicts_after_rejected_add"]++
			continue
		}
		if err != nil {
			viol("graph-add-rejects-acyclic", "incremental", fmt.Sprintf("AddProvider(%s) rejected: %v", u[n].Name, err))
			return
		}
		ref2 = trial
		// ask between mutations too, so that later steps meet a clean (cached) verdict
		if err := g2.DetectCycles(); err != nil {
			viol("graph-cycle-verdict", "after-accepted-add:"+graphShape(ref2), fmt.Sprintf("after the accepted AddProvider(%s), DetectCycles()=%v", u[n].Name, err))
			return
		}
		stats["graph_verdicts_between_adds"]++
	}
	if g2.IsAcyclic() != true {
		viol("graph-cycle-verdict", "incremental-result", "graph built from accepted AddProvider calls is reported cyclic")
	}
	if sorted, err := g2.TopologicalSort(); err != nil {
		viol("graph-toposort-fails-on-dag", "incremental", err.Error())
	} else if msg := CheckTopo(sorted, ref2, u); msg != "" {
		viol("graph-toposort-invalid", "incremental", msg)
	}
}

// RunSmallDigraphs enumerates ALL digraphs on 1..4 labelled nodes (self-loops included).
func RunSmallDigraphs(c *eng.Ctx, prop string, alloc Alloc) {
	u := []Ident{Universe[0], Universe[1], Universe[2], Universe[8]}
	stats := map[string]int64{}
	total := 2 + 16 + 512 + 65536
	for n := 1; n <= 4; n++ {
		count := 1 << (n * n)
		blocks := 1
		if n == 4 {
			blocks = 64
		}
		per := count / blocks
		for blk := 0; blk < blocks; blk++ {
			idx, mine := alloc()
			if !mine {
				continue
			}
			c.R.Begin(idx)
			var cnt, nt int64
			for bits := blk * per; bits < (blk+1)*per; bits++ {
				r := digraphOf(u, n, bits)
				fwd := make([]int, n)
				rev := make([]int, n)
				for i := 0; i < n; i++ {
					fwd[i] = i
					rev[i] = n - 1 - i
				}
				b := bits
				desc := func() string { return fmt.Sprintf("n=%d %s", n, r.String(u)) }
				_ = b
				checkDigraph(c, prop, idx, r, u, fwd, stats, desc)
				if n > 1 {
					checkDigraph(c, prop, idx, r, u, rev, stats, desc)
				}
				cnt++
				if bits != 0 {
					nt++
				}
			}
			c.R.AddEnumerated(cnt, nt)
			c.R.ExhaustiveProgress("all digraphs on 1..4 labelled nodes incl. self-loops", total, int(cnt))
			c.R.End(idx, eng.Hash(prop, "small-digraphs", n, blk), false)
		}
	}
	for k, v := range stats {
		c.R.Count(k, v)
	}
}

// RunRandomDigraphs checks seeded random graphs of 5..40 nodes over keyed/grouped identities.
func RunRandomDigraphs(c *eng.Ctx, prop string, alloc Alloc, n int) {
	stats := map[string]int64{}
	// a bigger universe: 40 identities made from the 12 base types x keys
	var u []Ident
	for i := 0; i < 40; i++ {
		base := Universe[i%len(Universe)]
		id := Ident{Name: fmt.Sprintf("N%d", i), Type: base.Type}
		switch i % 3 {
		case 1:
			id.Key = fmt.Sprintf("key%d", i)
		case 2:
			id.Key = i
			id.Group = fmt.Sprintf("grp%d", i%4)
		default:
			id.Key = int64(i) // distinct dynamic type
		}
		u = append(u, id)
	}
	for k := 0; k < n; k++ {
		idx, mine := alloc()
		if !mine {
			continue
		}
		rng := rand.New(rand.NewSource(c.Seed*999_983 + int64(k)))
		size := 5 + rng.Intn(36)
		perm := rng.Perm(len(u))[:size]
		r := NewRef()
		// mostly-forward edges (DAG-ish) plus a few random back edges in half of the cases
		back := k%2 == 0
		for a := 0; a < size; a++ {
			var deps []int
			for e := rng.Intn(4); e > 0 && a > 0; e-- {
				deps = append(deps, perm[rng.Intn(a)])
			}
			if back && rng.Intn(12) == 0 {
				deps = append(deps, perm[a+rng.Intn(size-a)])
			}
			r.Add(perm[a], deps, a+1)
		}
		order := append([]int{}, perm...)
		rng.Shuffle(len(order), func(i, j int) { order[i], order[j] = order[j], order[i] })
		c.R.Begin(idx)
		checkDigraph(c, prop, idx, r, u, order, stats, func() string { return r.String(u) })
		if c.R.WantSample() && k%2 == 0 {
			c.R.Sample(map[string]any{"kind": "random-digraph", "nodes": size, "cyclic": r.Cyclic(), "graph": r.String(u)})
		}
		c.R.End(idx, eng.Hash(prop, "rand-digraph", r.String(u)), true)
	}
	for k, v := range stats {
		c.R.Count(k, v)
	}
}
