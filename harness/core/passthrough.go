package core

import (
	"fmt"
	"sync"

	"github.com/junioryono/godi/v4"
	"github.com/junioryono/godi/v4/verifh/eng"
)

// A constructor that hands out one of its dependencies as its own product.
//
// `func(db *DB, ...) Pinger { return db }` registers, under another type, an instance that an
// earlier registration created. How often such an instance is closed is not judged here (the
// container cannot know who owns it). What IS judged: the order rules for everything else stay
// intact - the bookkeeping for the doubly registered instance must not disturb the order in
// which the other singletons / scoped instances are closed (dependents before the dependencies
// they received, reverse creation order).

type ptWorld struct {
	mu     sync.Mutex
	events []string
	seq    map[string]int // first close position per name
}

var (
	ptMu  sync.Mutex
	ptCur *ptWorld
)

func ptGet() *ptWorld { ptMu.Lock(); defer ptMu.Unlock(); return ptCur }

func ptClose(name string) {
	if w := ptGet(); w != nil {
		w.mu.Lock()
		if _, ok := w.seq[name]; !ok {
			w.seq[name] = len(w.events)
		}
		w.events = append(w.events, "close "+name)
		w.mu.Unlock()
	}
}
func ptMade(name string) {
	if w := ptGet(); w != nil {
		w.mu.Lock()
		w.events = append(w.events, "create "+name)
		w.mu.Unlock()
	}
}

type ptCfg struct{}
type ptDB struct{}
type ptRepo struct{ cfg *ptCfg }
type ptSvc struct{ repo *ptRepo }
type ptCache struct{ svc *ptSvc }
type ptPinger interface{ Ping() }

func (*ptDB) Ping()           {}
func (*ptDB) Close() error    { ptClose("db"); return nil }
func (*ptRepo) Close() error  { ptClose("repo"); return nil }
func (*ptSvc) Close() error   { ptClose("service"); return nil }
func (*ptCache) Close() error { ptClose("cache"); return nil }

func ptNewCfg() *ptCfg                          { return &ptCfg{} }
func ptNewDB() *ptDB                            { ptMade("db"); return &ptDB{} }
func ptNewRepo(c *ptCfg) *ptRepo                { ptMade("repo"); return &ptRepo{c} }
func ptNewSvc(r *ptRepo) *ptSvc                 { ptMade("service"); return &ptSvc{r} }
func ptNewCache(s *ptSvc) *ptCache              { ptMade("cache"); return &ptCache{s} }
func ptNewPinger(db *ptDB, c *ptCache) ptPinger { ptMade("pinger(=db)"); return db }

// RunPassthrough checks the close order of repo <- service <- cache when db is also registered
// as ptPinger by a late constructor, for singletons (provider.Close) and scoped services (scope.Close).
func RunPassthrough(c *eng.Ctx, next func() (int, bool)) {
	for _, life := range []godi.Lifetime{godi.Singleton, godi.Scoped} {
		idx, mine := next()
		if !mine {
			continue
		}
		c.R.Begin(idx)
		w := &ptWorld{seq: map[string]int{}}
		ptMu.Lock()
		ptCur = w
		ptMu.Unlock()
		func() {
			defer func() {
				if p := recover(); p != nil {
					c.R.Violation(eng.Violation{Prop: "C11", Clause: "panic", Sig: "C11/panic:passthrough", Case: idx, CaseID: "passthrough", Detail: fmt.Sprintf("panic: %v", p)})
				}
			}()
			coll := godi.NewCollection()
			for _, ctor := range []any{ptNewCfg, ptNewDB, ptNewRepo, ptNewSvc, ptNewCache, ptNewPinger} {
				if err := eqAdd(coll, life, ctor); err != nil {
					c.R.Inconclusive(idx, "passthrough fixture registration refused: "+err.Error())
					return
				}
			}
			prov, err := coll.Build()
			if err != nil {
				c.R.Inconclusive(idx, "passthrough fixture does not build: "+err.Error())
				return
			}
			s, _ := prov.CreateScope(nil)
			if s != nil {
				_, _ = godi.Resolve[ptPinger](s)
				_, _ = godi.Resolve[*ptCache](s)
				_ = s.Close()
			}
			_ = prov.Close()
		}()
		w.mu.Lock()
		seq, ev := w.seq, append([]string{}, w.events...)
		w.mu.Unlock()
		ptMu.Lock()
		ptCur = nil
		ptMu.Unlock()
		pairs := 0
		for _, p := range [][2]string{{"cache", "service"}, {"service", "repo"}, {"cache", "repo"}} {
			a, okA := seq[p[0]]
			b, okB := seq[p[1]]
			if !okA || !okB {
				continue
			}
			pairs++
			if a > b {
				c.R.Violation(eng.Violation{Prop: "C11", Clause: "dependency-closed-before-dependent", Sig: "C11/dependency-closed-before-dependent:instance-registered-twice-by-a-passthrough-constructor:" + lifeName(life), Case: idx, CaseID: "passthrough-" + lifeName(life),
					Detail: fmt.Sprintf("%s was closed before %s, which received it (directly or indirectly) as a dependency; events: %v", p[1], p[0], ev)})
				break
			}
		}
		c.R.Count("ordered_pairs_checked", int64(pairs))
		c.R.Count("passthrough_cases", 1)
		c.R.End(idx, eng.Hash("c11-passthrough", int(life)), pairs > 0)
	}
}

// ---- outputs of one constructor invocation that are built from each other -------------------
//
// A result object / multi-return constructor may build a later output from an earlier one
// (`Tiered: NewTieredCache(local, remote)` after `Local`, `Remote`; `Health: &HealthChecker{db}`
// after `Database: db`). The later output received the earlier ones as dependencies, so it is
// closed before them - whichever output was asked for first.

type chLocal struct{}
type chRemote struct{}
type chTiered struct {
	l *chLocal
	r *chRemote
}
type chUser struct{ t *chTiered }

func (*chLocal) Close() error  { ptClose("local"); return nil }
func (*chRemote) Close() error { ptClose("remote"); return nil }
func (*chTiered) Close() error { ptClose("tiered"); return nil }

type chOut struct {
	godi.Out
	Local  *chLocal
	Remote *chRemote
	Tiered *chTiered
}

func chNewCaches() chOut {
	l, r := &chLocal{}, &chRemote{}
	ptMade("local, remote, tiered(local, remote)")
	return chOut{Local: l, Remote: r, Tiered: &chTiered{l, r}}
}
func chNewCachesMR() (*chLocal, *chRemote, *chTiered) {
	o := chNewCaches()
	return o.Local, o.Remote, o.Tiered
}
func chNewUser(t *chTiered) *chUser { return &chUser{t} }

// RunChainedOutputs: the LAST output is the first one asked for.
func RunChainedOutputs(c *eng.Ctx, next func() (int, bool)) {
	for _, form := range []string{"out-struct", "multi-return"} {
		for _, life := range []godi.Lifetime{godi.Scoped, godi.Transient, godi.Singleton} {
			idx, mine := next()
			if !mine {
				continue
			}
			c.R.Begin(idx)
			rounds := 1
			if life == godi.Singleton {
				rounds = 24 // which output Build reaches first follows map order
			}
			pairs := 0
			reported := false
			for round := 0; round < rounds && !reported; round++ {
				w := &ptWorld{seq: map[string]int{}}
				ptMu.Lock()
				ptCur = w
				ptMu.Unlock()
				func() {
					defer func() { _ = recover() }()
					coll := godi.NewCollection()
					ctor := any(chNewCaches)
					if form == "multi-return" {
						ctor = chNewCachesMR
					}
					if err := eqAdd(coll, life, ctor); err != nil {
						return
					}
					userLife := life
					if life == godi.Transient {
						userLife = godi.Scoped
					}
					_ = eqAdd(coll, userLife, chNewUser)
					prov, err := coll.Build()
					if err != nil {
						return
					}
					s, _ := prov.CreateScope(nil)
					if s != nil {
						_, _ = godi.Resolve[*chTiered](s) // the last output first
						_, _ = godi.Resolve[*chUser](s)
						if life != godi.Transient {
							_, _ = godi.Resolve[*chLocal](s)
						}
						_ = s.Close()
					}
					_ = prov.Close()
				}()
				w.mu.Lock()
				ev := append([]string{}, w.events...)
				// first "close tiered" vs first "close local"/"close remote" AFTER it was created in the same invocation:
				// with transients several invocations exist; the event list is per invocation order, so judge per contiguous close block
				pos := map[string][]int{}
				for i, e := range ev {
					if len(e) > 6 && e[:6] == "close " {
						pos[e[6:]] = append(pos[e[6:]], i)
					}
				}
				w.mu.Unlock()
				ptMu.Lock()
				ptCur = nil
				ptMu.Unlock()
				n := len(pos["tiered"])
				for _, dep := range []string{"local", "remote"} {
					if len(pos[dep]) != n {
						continue
					}
					for k := 0; k < n; k++ {
						pairs++
						// the k-th closed tiered belongs to the k-th closed local only when closes go invocation by invocation; judge the aggregate instead:
					}
				}
				if n > 0 && len(pos["local"]) > 0 && len(pos["remote"]) > 0 {
					firstDep := pos["local"][0]
					if pos["remote"][0] < firstDep {
						firstDep = pos["remote"][0]
					}
					// every tiered instance holds a local and a remote of its own invocation; if ANY dependency is closed before the first tiered, a tiered was still open
					if firstDep < pos["tiered"][0] {
						reported = true
						c.R.Violation(eng.Violation{Prop: "C11", Clause: "dependency-closed-before-dependent", Sig: "C11/dependency-closed-before-dependent:outputs-of-one-invocation-built-from-each-other:" + form + ":" + lifeName(life), Case: idx, CaseID: "chained-outputs-" + form + "-" + lifeName(life),
							Detail: fmt.Sprintf("the constructor builds its last output (tiered) from its earlier outputs (local, remote); the last output was resolved first; a dependency was closed while the output built from it was still open; events: %v", ev)})
					}
				}
			}
			c.R.Count("ordered_pairs_checked", int64(pairs))
			c.R.Count("chained_output_cases", 1)
			c.R.End(idx, eng.Hash("c11-chained-outputs", form, int(life)), pairs > 0)
		}
	}
}
