package core

import (
	"errors"
	"fmt"
	"math/rand"
	"strings"

	"github.com/junioryono/godi/v4"
	"github.com/junioryono/godi/v4/verifh/eng"
	"github.com/junioryono/godi/v4/verifh/pool"
)

// ---------------------------------------------------------------- C04

func init() {
	eng.Register(&eng.Property{
		ID: "C04", Level: "exploration",
		Rule: "cases: (a) function-value kinds (top-level, noinline closures of one literal, method values, generic instantiations, reflect.MakeFunc with equal/different signatures), each registered under its own name and resolved; " +
			"(b) all pairs of registration forms from the pool (plain/keyed/grouped/aliased, instance values, In objects with name/optional/group/ignore tags, Out objects, multi-return, (T,error)); (c) seeded random buildable sets. " +
			"Every identity of the universe (44 type names x {nil,k,k2} keys and {g,h} groups) is resolved and every constructor argument is joined with the registration that produced it. Non-trivial: provider built and >=1 constructor received >=1 injected argument; distinct = canonical spec hash.",
		Shards:      func(tier string) int { return 16 },
		Run:         runC04,
		NeedEvents:  []string{"ctor_invocations", "universe_probes", "args_checked", "funckind_resolutions"},
		Assumptions: []string{"optional dependencies are never combined with a failing provider constructor (DESIGN.md §7.2)"},
	})
}

func argsChecked(o *Obs) int64 {
	var n int64
	for _, run := range o.Runs {
		n += int64(len(run.Args))
	}
	return n
}

func runC04(c *eng.Ctx) {
	BuildDoors = true // Build / BuildWithContext / BuildWithOptions in turn (a function of the spec)
	cr := &caseRunner{c: c, prop: "C04"}
	defer func() {
		RunEqualValues(c, "C04", cr.next)
		RunZeroValuedOutputs(c, cr.next)
		RunVariadic(c, "C04", cr.next)
		RunSameNamedParamObjects(c, cr.next)
	}()
	finish := func(idx int, r *Run, kind string) {
		o := Digest(r)
		report(c, "C04", idx, r, MonC04(r, o))
		countObs(c, r, o)
		na := argsChecked(o)
		c.R.Count("args_checked", na)
		if c.R.WantSample() && na > 0 && kind != "pair" {
			c.R.Sample(sampleOf(r, map[string]any{"kind": kind}))
		}
		c.R.End(idx, eng.Hash(kind, r.Spec.Canon()), r.Built && na > 0)
	}
	// (a) function kinds
	for k := 0; k < len(funcKindCases); k++ {
		idx, mine := cr.next()
		if !mine {
			continue
		}
		c.R.Begin(idx)
		fk := funcKindCases[k]
		fs, n := fk.run()
		c.R.Count("funckind_resolutions", int64(n))
		for _, f := range fs {
			c.R.Violation(eng.Violation{Prop: "C04", Clause: f.Clause, Sig: "C04/" + f.Clause + ":" + f.Sig, Case: idx, CaseID: "funckind-" + fk.name, Detail: f.Detail})
		}
		if c.R.WantSample() {
			c.R.Sample(map[string]any{"kind": "function-value-kind", "name": fk.name, "resolutions": n})
		}
		c.R.End(idx, eng.Hash("funckind", fk.name), n > 0)
	}
	// (a') overlapping resolutions of constructors that share their code pointer
	for _, kind := range []string{"closures", "method-values"} {
		for _, life := range []godi.Lifetime{godi.Scoped, godi.Transient} {
			idx, mine := cr.next()
			if !mine {
				continue
			}
			c.R.Begin(idx)
			fs, n := overlappingSharedCode(kind, life)
			c.R.Count("funckind_resolutions", int64(n))
			c.R.Count("funckind_overlapping_resolutions", int64(n))
			for _, f := range fs {
				c.R.Violation(eng.Violation{Prop: "C04", Clause: f.Clause, Sig: "C04/" + f.Clause + ":" + f.Sig, Case: idx, CaseID: "funckind-overlap-" + kind, Detail: f.Detail})
			}
			c.R.End(idx, eng.Hash("funckind-overlap", kind, life), n > 0)
		}
	}
	// (b) pairs of forms
	forms := formCatalogue()
	for a := 0; a < len(forms); a++ {
		for b := a; b < len(forms); b++ {
			idx, mine := cr.next()
			if !mine {
				continue
			}
			s := &Spec{}
			s.Regs = append(s.Regs, forms[a].regs...)
			// skip pairs that would collide on constructors
			used := map[int]bool{}
			for _, r := range s.Regs {
				used[r.Ctor] = true
			}
			clash := false
			for _, r := range forms[b].regs {
				if r.Ctor >= 0 && used[r.Ctor] {
					clash = true
				}
			}
			if a == b || clash {
				// a form alone
				if a != b {
					continue
				}
			} else {
				s.Regs = append(s.Regs, forms[b].regs...)
			}
			switch {
			case forms[a].rebuildAfter() > 0:
				s.RebuildAfter = forms[a].rebuildAfter()
			case a != b && forms[b].rebuildAfter() > 0:
				s.RebuildAfter = len(forms[a].regs) + forms[b].rebuildAfter()
			}
			m := NewModel(s)
			rejected := false
			for i := range m.Regs {
				if !m.Accepted(i) {
					rejected = true
				}
			}
			if rejected || m.Class != ClsOK {
				continue // the pair collides on an identity or is not buildable: not a wiring case
			}
			c.R.Begin(idx)
			r := NewRun(s, m, nil, nil)
			r.Build()
			if r.Built {
				sc := r.Do(Op{Kind: OpCreate, Scope: 0, CtxKind: 1})
				ProbeAll(r, sc.NewScope)
				c.R.Count("universe_probes", int64(len(ProbeTypes)*(len(ProbeKeys)+len(ProbeGroups))))
				ProbeRegistered(r, 0)
				r.Finish()
			} else {
				report(c, "C04", idx, r, []Finding{{"buildable-forms-rejected", forms[a].name + "+" + forms[b].name, fmt.Sprintf("Build failed for a pair of supported registration forms: %v", r.BuildErr)}})
			}
			finish(idx, r, "pair")
		}
	}
	// (b0) members of one group registered around Remove steps (see shrunkGroupSpecs): the group
	// delivers every member's own instance, for every lifetime
	for _, l := range allLifetimes {
		for _, s := range shrunkGroupSpecs(l) {
			idx, mine := cr.next()
			if !mine {
				continue
			}
			m := NewModel(s)
			if m.Class != ClsOK {
				panic("harness fixture of C04 (shrunk-collection groups) is not buildable: " + m.Class.String())
			}
			c.R.Begin(idx)
			c.R.Count("shrunk_collection_group_specs", 1)
			r := NewRun(s, m, nil, nil)
			r.Build()
			if r.Built {
				sc := r.Do(Op{Kind: OpCreate, Scope: 0, CtxKind: 1})
				ProbeAll(r, sc.NewScope)
				ProbeRegistered(r, 0)
				r.Finish()
			} else {
				report(c, "C04", idx, r, []Finding{{"buildable-forms-rejected", "group-members-around-remove", fmt.Sprintf("Build failed for group members registered around Remove steps: %v", r.BuildErr)}})
			}
			finish(idx, r, "shrunk-group")
		}
	}
	// (b1) a service swapped for another constructor of another lifetime between two Builds of
	// one collection (see SwapSpecs): the second provider is wired from the final registrations
	for _, s := range SwapSpecs(false) {
		idx, mine := cr.next()
		if !mine {
			continue
		}
		m := NewModel(s)
		c.R.Begin(idx)
		c.R.Count("swap_specs", 1)
		r := NewRun(s, m, nil, nil)
		r.Build()
		if r.Built {
			sc := r.Do(Op{Kind: OpCreate, Scope: 0, CtxKind: 1})
			ProbeAll(r, sc.NewScope)
			ProbeRegistered(r, 0)
			r.Finish()
		} else {
			report(c, "C04", idx, r, []Finding{{"buildable-forms-rejected", "service-swapped-between-two-builds", fmt.Sprintf("Build failed after a service was swapped for one of another lifetime: %v", r.BuildErr)}})
		}
		finish(idx, r, "swap")
	}
	// (b') an Add call that is refused half-way (a later output collides with an existing
	// registration) after an earlier output of it was a group member / a plain identity / an
	// alias: the call returns an error, and nothing of it shows up in the wiring
	for _, l := range []godi.Lifetime{godi.Singleton, godi.Scoped, godi.Transient} {
		refused := []struct {
			name string
			regs []Reg
			bad  int // index of the registration that must be refused
		}{
			{"out-struct-after-its-group-field", []Reg{mkReg("Leaf_K1_a", l), mkReg("Leaf_K0_b", l, withGroup("g")), mkReg("OutG_K0K1", l), mkReg("Leaf_K0_c", l, withGroup("g")), mkReg("InU_3_1_Group", l)}, 2},
			{"multi-return-after-its-first-output", []Reg{mkReg("Leaf_K1_b", l), mkReg("MR_K0K1", l), mkReg("Leaf_K0_a", l), mkReg("PosA_2_1", l)}, 1},
			{"aliases-after-the-first-alias", []Reg{mkReg("Leaf_K1_a", l, withAs("IA")), mkReg("Leaf_K0_a", l, withAs("IK0", "IA")), mkReg("Leaf_K0_b", l, withAs("IK0")), mkReg("InU_2_1_Iface", l)}, 1},
			{"two-group-fields-then-a-collision", []Reg{mkReg("Leaf_K1_c", l), mkReg("OutG_K0K1", l), mkReg("InU_3_1_Group", l)}, 1},
		}
		for _, rf := range refused {
			idx, mine := cr.next()
			if !mine {
				continue
			}
			s := &Spec{Regs: rf.regs}
			m := NewModel(s)
			if m.Class != ClsOK || m.Accepted(rf.bad) {
				panic(fmt.Sprintf("harness fixture %q of C04 (refused Add calls) is not what it is meant to be: class %s, registration %d accepted=%v", rf.name, m.Class, rf.bad, m.Accepted(rf.bad)))
			}
			c.R.Begin(idx)
			c.R.Count("refused_add_call_cases", 1)
			r := NewRun(s, m, nil, nil)
			r.Build()
			if r.Built {
				sc := r.Do(Op{Kind: OpCreate, Scope: 0, CtxKind: 1})
				ProbeAll(r, sc.NewScope)
				ProbeRegistered(r, 0)
				r.Finish()
			}
			finish(idx, r, "refused-add:"+rf.name)
		}
	}
	// (c) random
	n := c.Pick(1000, 40000)
	for k := 0; k < n; k++ {
		idx, mine := cr.next()
		if !mine {
			continue
		}
		rng := cr.rng(idx)
		full := k%5 == 4
		s, m := GenSpec(rng, GenOpts{Want: ClsOK, Specials: true, Values: true, MultiAlias: full || k%3 == 1, OutGroup: full, MultiOpt: full, Removes: k%3 == 1, Rebuild: k%4 == 1, Sibling: true})
		if s == nil {
			continue
		}
		c.R.Begin(idx)
		r := NewRun(s, m, nil, nil)
		r.Build()
		if k%3 == 2 {
			// the collection is emptied and partly refilled after Build: the provider keeps
			// wiring exactly what was registered when it was built
			r.EditCollectionAfterBuild()
			c.R.Count("collection_edited_after_build", 1)
		}
		if r.Built {
			GenScript(rng, r, 1+rng.Intn(3), 5+rng.Intn(10), 0)
			sc := r.Do(Op{Kind: OpCreate, Scope: 0, CtxKind: 1})
			if k%4 == 0 {
				ProbeAll(r, sc.NewScope)
				c.R.Count("universe_probes", int64(len(ProbeTypes)*(len(ProbeKeys)+len(ProbeGroups))))
			} else {
				ProbeRegistered(r, sc.NewScope)
				ProbeForeignKeys(r, sc.NewScope)
			}
			r.Finish()
		}
		finish(idx, r, "random")
	}
}

type formCase struct {
	name string
	regs []Reg
}

// formRebuild: forms (by name prefix) whose collection is built and used once after that many of
// the form's registrations, then extended with the rest and built again.
var formRebuild = map[string]int{"in-opt-added-after-first-build-": 1, "group-extended-after-first-build-": 2}

func (f formCase) rebuildAfter() int {
	for p, n := range formRebuild {
		if strings.HasPrefix(f.name, p) {
			return n
		}
	}
	return 0
}

// formCatalogue: one small registration cluster per supported form; pairs are combined.
func formCatalogue() []formCase {
	L := []godi.Lifetime{godi.Singleton, godi.Scoped, godi.Transient}
	var out []formCase
	for _, l := range L {
		ln := lifeName(l)
		out = append(out,
			formCase{"plain-" + ln, []Reg{mkReg("Leaf_S0_a", l)}},
			formCase{"keyed-" + ln, []Reg{mkReg("Leaf_S1_a", l, withName("k"))}},
			formCase{"keyed2-" + ln, []Reg{mkReg("Leaf_S1_b", l, withName("k2"))}},
			formCase{"group2-" + ln, []Reg{mkReg("Leaf_S2_a", l, withGroup("g")), mkReg("Leaf_S2_b", l, withGroup("g"))}},
			formCase{"alias-" + ln, []Reg{mkReg("Leaf_S3_a", l, withAs("IS3"))}},
			formCase{"alias-keyed-" + ln, []Reg{mkReg("Leaf_S3_b", l, withAs("IS3"), withName("k"))}},
			formCase{"alias-group-" + ln, []Reg{mkReg("Leaf_S4_a", l, withAs("IA"), withGroup("h")), mkReg("Leaf_S5_a", l, withAs("IA"), withGroup("h"))}},
			formCase{"value-" + ln, []Reg{{Ctor: -1, Value: "S6", Life: l}}},
			formCase{"value-keyed-" + ln, []Reg{{Ctor: -1, Value: "S6", Life: l, Name: "k"}}},
			formCase{"value-alias-" + ln, []Reg{{Ctor: -1, Value: "S7", Life: l, As: []string{"IS7"}}}},
			formCase{"values-of-one-type-aliased-and-keyed-" + ln, []Reg{{Ctor: -1, Value: "S7", Life: l, Name: "k", As: []string{"IS7", "IA"}}, {Ctor: -1, Value: "S7", Life: l, Name: "k2", As: []string{"IS7", "IA"}}, {Ctor: -1, Value: "S7", Life: l}}},
			formCase{"values-of-one-type-aliased-and-grouped-" + ln, []Reg{{Ctor: -1, Value: "S6", Life: l, Group: "g", As: []string{"IS6", "IB"}}, {Ctor: -1, Value: "S6", Life: l, Group: "g", As: []string{"IS6", "IB"}}, {Ctor: -1, Value: "S6", Life: l, As: []string{"IS6"}}}},
			formCase{"values-of-one-type-aliased-consumed-" + ln, []Reg{{Ctor: -1, Value: "K0", Life: l, Name: "k"}, {Ctor: -1, Value: "K0", Life: l, As: []string{"IK0"}}, mkReg("InU_2_1_Iface", l), mkReg("InU_3_1_Keyed", l)}},
			formCase{"multiret-" + ln, []Reg{mkReg("MR_K0K1", l)}},
			formCase{"multiret-err-dep-" + ln, []Reg{mkReg("Leaf_K0_b", l), mkReg("MR_K2K3e", l)}},
			formCase{"out-plain-" + ln, []Reg{mkReg("OutP_K0K1", l)}},
			formCase{"out-named-" + ln, []Reg{mkReg("OutNN_K0K0", l)}},
			formCase{"out-ignored-field-" + ln, []Reg{mkReg("OutIgn_K0", l)}},
			formCase{"out-iface-" + ln, []Reg{mkReg("OutI_K2", l)}},
			formCase{"ret-iface-" + ln, []Reg{mkReg("RetI_K0", l)}},
			formCase{"in-all-tags-" + ln, []Reg{mkReg("Leaf_K1_a", l), mkReg("Leaf_K2_a", l, withGroup("g")), mkReg("Leaf_K2_b", l, withGroup("g")), mkReg("InIgn_S4", l)}},
			formCase{"in-ignored-" + ln, []Reg{mkReg("Leaf_K1_b", l), mkReg("InIgn_K0", l)}},
			formCase{"in-embedded-" + ln, []Reg{mkReg("Leaf_K1_b", l), mkReg("Leaf_K2_a", l), mkReg("Leaf_K3_a", l), mkReg("InEmb_K0", l)}},
			formCase{"in-embedded-unregistered-" + ln, []Reg{mkReg("Leaf_K1_b", l), mkReg("InEmb_K0", l)}},
			formCase{"in-embedded-ignored-" + ln, []Reg{mkReg("Leaf_K0_a", l), mkReg("Leaf_K1_a", l), mkReg("Leaf_K2_a", l, withGroup("g")), mkReg("InEmb_S4", l)}},
			formCase{"in-embedded-both-" + ln, []Reg{mkReg("Leaf_K0_a", l), mkReg("Leaf_K1_a", l), mkReg("InEmb_K2", l)}},
			formCase{"in-embedded-only-" + ln, []Reg{mkReg("Leaf_S0_a", l), mkReg("InEmb_S5", l)}},
			formCase{"in-opt-added-after-first-build-" + ln, []Reg{mkReg("InU_3_4_Opt", l), mkReg("PosA_2_0", l)}},
			formCase{"group-extended-after-first-build-" + ln, []Reg{mkReg("InU_3_4_Group", l), mkReg("Leaf_K2_b", l, withGroup("g")), mkReg("Leaf_K2_c", l, withGroup("g"))}},
			formCase{"in-tag-values-with-spaces-" + ln, []Reg{mkReg("Leaf_K1_a", l, withName("a b")), mkReg("Leaf_K1_b", l), mkReg("Leaf_K2_a", l, withGroup("g h")), mkReg("Leaf_K2_b", l, withGroup("g h")), mkReg("Leaf_K2_c", l), mkReg("InSp_K0", l)}},
			formCase{"out-tag-values-with-spaces-" + ln, []Reg{mkReg("OutSp_K1K2", l), mkReg("Leaf_K1_c", l), mkReg("Leaf_K2_c", l, withGroup("g h")), mkReg("InSp_K0", l)}},
			formCase{"in-keyed-" + ln, []Reg{mkReg("Leaf_K1_c", l, withName("k")), mkReg("InU_3_2_Keyed", l)}},
			formCase{"in-opt-present-" + ln, []Reg{mkReg("PosA_2_0", l), mkReg("InU_3_4_Opt", l)}},
			formCase{"in-opt-absent-" + ln, []Reg{mkReg("InU_3_5_Opt", l)}},
			formCase{"in-group-empty-" + ln, []Reg{mkReg("InU_3_8_Group", l)}},
			formCase{"twice-" + ln, []Reg{mkReg("PosB_1_0", l), mkReg("Twice_K0", l)}},
			// a group with a dozen members (more than the tests and the documentation ever use): all of
			// them, once each, in registration order - resolved as a group and injected
			formCase{"group-of-12-" + ln, []Reg{
				mkReg("PosA_2_0", l, withGroup("g")), mkReg("PosB_2_0", l, withGroup("g")), mkReg("InU_2_0_Plain", l, withGroup("g")), mkReg("InU_2_0_Keyed", l, withGroup("g")),
				mkReg("InU_2_0_Group", l, withGroup("g")), mkReg("InU_2_0_Opt", l, withGroup("g")), mkReg("InU_2_0_Iface", l, withGroup("g")), mkReg("InM_2_000", l, withGroup("g")),
				mkReg("Leaf_K2_a", l, withGroup("g")), mkReg("Leaf_K2_b", l, withGroup("g")), mkReg("Leaf_K2_c", l, withGroup("g")), mkReg("BIpos_K2", l, withGroup("g")),
				mkReg("InU_3_4_Group", l)}},
		)
	}
	// forms behind open findings (full profile): each gets its own signature when it fails
	out = append(out,
		formCase{"alias2-singleton", []Reg{mkReg("Leaf_S3_c", godi.Singleton, withAs("IS3", "IB"))}},
		formCase{"multiret-named-scoped", []Reg{mkReg("MR_S0S4", godi.Scoped, withName("k"))}},
		formCase{"multiret-grouped-scoped", []Reg{mkReg("MR_S6S7", godi.Scoped, withGroup("g")), mkReg("Leaf_S0_b", godi.Scoped)}},
		formCase{"out-groupfield-scoped", []Reg{mkReg("OutG_K0K1", godi.Scoped)}},
		formCase{"out-groupfield2-transient", []Reg{mkReg("OutGG_K0", godi.Transient)}},
	)
	return out
}

// ---------------------------------------------------------------- C07

func init() {
	eng.Register(&eng.Property{
		ID: "C07", Level: "exploration",
		Rule: "exhaustive part: every DAG on 3 labelled services x 27 lifetime assignments x every per-edge dependency form {plain, name:, group:, optional, alias} (family InM), and for 4 services every DAG x 81 lifetime assignments x one form per set (families Pos/InU; a seeded sample in quick, all in thorough); " +
			"random part: larger seeded sets. Oracle: Build fails with LifetimeConflictError exactly when some singleton/transient declares a dependency whose registration is scoped; after a successful Build everything singleton/transient constructors received is scanned for instances of scoped registrations. " +
			"Non-trivial: >=1 dependency edge; distinct = canonical spec hash.",
		Shards:     func(tier string) int { return 16 },
		Run:        runC07,
		NeedEvents: []string{"builds_ok", "builds_conflict", "args_scanned"},
	})
}

// kSpec builds the spec for K-types 0..n-1 with per-node constructor ids, lifetimes and the
// identity form each target must be registered under to satisfy the consumers' edge forms.
func checkVerdictC07(r *Run) []Finding {
	m := r.Model
	cls := r.Results[0].Class
	switch {
	case m.Class == ClsLifetime:
		if r.Built {
			return nil // soundness is decided by the captive scan; completeness here:
		}
	}
	var fs []Finding
	feat := conflictFeature(m)
	if m.Class == ClsLifetime && r.Built {
		fs = append(fs, Finding{"conflict-accepted", feat, "Build succeeded although a singleton/transient declares a dependency on a scoped registration"})
	}
	if m.Class == ClsLifetime && !r.Built && cls != "lifetime" {
		fs = append(fs, Finding{"conflict-wrong-error", feat + ":" + cls, fmt.Sprintf("Build failed, but not with a lifetime-conflict error: %s %v", cls, r.BuildErr)})
	}
	if m.Class == ClsOK && !r.Built && cls == "lifetime" {
		fs = append(fs, Finding{"false-conflict", feat, fmt.Sprintf("Build reports a lifetime conflict for a set where only scoped services depend on scoped ones: %v", r.BuildErr)})
	}
	return fs
}

// conflictFeature names the (consumer lifetime, dependency form) classes of conflicting edges.
func conflictFeature(m *Model) string {
	set := map[string]bool{}
	for i := range m.Regs {
		ri := &m.Regs[i]
		if !m.Accepted(i) || ri.Life == godi.Scoped {
			continue
		}
		for _, b := range ri.Binds {
			for _, t := range b.Targets {
				if m.Regs[t.Reg].Life == godi.Scoped {
					set[lifeName(ri.Life)+"->scoped:"+b.Dep.Form.String()] = true
				}
			}
		}
	}
	var ks []string
	for k := range set {
		ks = append(ks, k)
	}
	sortStrings(ks)
	if len(ks) > 2 {
		ks = ks[:2]
	}
	if len(ks) == 0 {
		return "no-conflict"
	}
	return strings.Join(ks, ",")
}

func sortStrings(s []string) {
	for i := 1; i < len(s); i++ {
		for j := i; j > 0 && s[j] < s[j-1]; j-- {
			s[j], s[j-1] = s[j-1], s[j]
		}
	}
}

// identity form a target must be registered under for a given edge form
func applyTargetForm(r *Reg, t string, f pool.Form) {
	switch f {
	case pool.FKeyed:
		r.Name = "k"
	case pool.FGroup:
		r.Group = "g"
	case pool.FIface:
		r.As = []string{"I" + t}
	}
}

func runC07(c *eng.Ctx) {
	BuildDoors = true // Build / BuildWithContext / BuildWithOptions in turn (a function of the spec)
	cr := &caseRunner{c: c, prop: "C07"}
	defer func() { RunSameConstructor(c, "C07", cr.next); RunPartialOutputs(c, "C07", cr.next); RunLateScopedGroupMember(c, cr.next) }()
	lifes := allLifetimes
	exec := func(idx int, s *Spec, m *Model, kind string, quiet bool) {
		r := NewRun(s, m, nil, nil)
		r.Build()
		if r.Built {
			a := r.Do(Op{Kind: OpCreate, Scope: 0, CtxKind: 1})
			b := r.Do(Op{Kind: OpCreate, Scope: a.NewScope, CtxKind: 0})
			ProbeRegistered(r, a.NewScope)
			ProbeRegistered(r, b.NewScope)
			ProbeRegistered(r, 0)
			r.Finish()
		}
		o := Digest(r)
		fs := checkVerdictC07(r)
		fs = append(fs, MonC07Captive(r, o)...)
		report(c, "C07", idx, r, fs)
		c.R.Count("args_scanned", argsChecked(o))
		c.R.Count("ctor_invocations", int64(len(o.Runs)))
		switch {
		case r.Built:
			c.R.Count("builds_ok", 1)
		case r.Results[0].Class == "lifetime":
			c.R.Count("builds_conflict", 1)
		default:
			c.R.Count("builds_other_failure", 1)
		}
		if !quiet && c.R.WantSample() && m.Conflict {
			c.R.Sample(sampleOf(r, map[string]any{"kind": kind, "model_class": m.Class.String()}))
		}
	}
	// --- exhaustive 3-service space with per-edge forms (InM) ---
	// targets' identity form is per target (all consumers of a target use the same form), so the
	// space is: per target form f_j in {plain,keyed,group,opt,iface} (5^3) x edge masks (DAG) x 27 lifetimes.
	dags3 := enumerateDAGs(3)
	formsPerTarget := []int{1, 2, 3, 4, 5} // indexes into pool.MixedForms
	total3 := len(dags3) * 27 * 125
	// blocks: one journaled case per DAG; inside: 27*125 specs
	for di, dag := range dags3 {
		idx, mine2 := cr.next()
		if !mine2 {
			continue
		}
		c.R.Begin(idx)
		var cnt, nt int64
		for tf := 0; tf < 125; tf++ {
			tforms := [3]int{formsPerTarget[tf%5], formsPerTarget[(tf/5)%5], formsPerTarget[tf/25]}
			for la := 0; la < 27; la++ {
				ls := [3]godi.Lifetime{lifes[la%3], lifes[(la/3)%3], lifes[la/9]}
				s := &Spec{}
				for i := 0; i < 3; i++ {
					var f [3]int
					for j := 0; j < 3; j++ {
						if dag[i]&(1<<j) != 0 {
							f[j] = tforms[j]
						}
					}
					r := Reg{Ctor: pool.InM[i][f[0]][f[1]][f[2]], Life: ls[i]}
					applyTargetForm(&r, pool.TypeNames[i], pool.MixedForms[tforms[i]])
					s.Regs = append(s.Regs, r)
				}
				m := NewModel(s)
				if m.Class != ClsOK && m.Class != ClsLifetime {
					continue
				}
				cnt++
				if dagEdges4(dag) > 0 {
					nt++
				}
				exec(idx, s, m, "exhaustive-3", cnt > 3)
			}
		}
		c.R.AddEnumerated(cnt, nt)
		c.R.ExhaustiveProgress("all DAGs on 3 services x 27 lifetime assignments x 125 per-target edge forms", total3, 27*125)
		c.R.End(idx, eng.Hash("c07-dag3", di), false)
	}
	// --- 4-service space, one form per set ---
	dags4 := enumerateDAGs(4)
	sample := c.Pick(5000, len(dags4)*81*5)
	total4 := len(dags4) * 81 * 5
	per := total4 / 64 // journal blocks
	done := 0
	for blk := 0; blk < 64; blk++ {
		idx, mine2 := cr.next()
		if !mine2 {
			continue
		}
		c.R.Begin(idx)
		var cnt, nt int64
		lo, hi := blk*per, (blk+1)*per
		if blk == 63 {
			hi = total4
		}
		// quick: a seeded sample of the block; thorough: all of it
		step := 1
		if sample < total4 {
			step = total4 / sample
		}
		off := int(c.Seed) % step
		if off < 0 {
			off = -off
		}
		for x := lo + off; x < hi; x += step {
			di, rest := x/(81*5), x%(81*5)
			la, fi := rest/5, rest%5
			dag := dags4[di]
			form := pool.UniformForms[fi]
			s := &Spec{}
			for i := 0; i < 4; i++ {
				ls := lifes[(la/pow3(i))%3]
				var r Reg
				if form == pool.FPlain && (x/7)%2 == 0 {
					if (x/3)%2 == 0 {
						r = Reg{Ctor: pool.PosA[i][dag[i]], Life: ls}
					} else {
						r = Reg{Ctor: pool.PosB[i][dag[i]], Life: ls}
					}
				} else {
					r = Reg{Ctor: pool.InU[i][dag[i]][fi], Life: ls}
				}
				applyTargetForm(&r, pool.TypeNames[i], form)
				s.Regs = append(s.Regs, r)
			}
			m := NewModel(s)
			if m.Class != ClsOK && m.Class != ClsLifetime {
				continue
			}
			cnt++
			if dagEdges4(dag) > 0 {
				nt++
			}
			exec(idx, s, m, "enumerated-4", true)
		}
		done += int(cnt)
		c.R.AddEnumerated(cnt, nt)
		if sample >= total4 {
			c.R.ExhaustiveProgress("all DAGs on 4 services x 81 lifetime assignments x 5 uniform edge forms", total4, hi-lo)
		}
		c.R.End(idx, eng.Hash("c07-dag4", blk, c.Seed), false)
	}
	// --- every unusual declaration form x every dependency slot: valid, and captive through that slot ---
	runSlotSpecs(cr, map[string]bool{"valid": true, "captive": true}, func(idx int, s *Spec, m *Model, kind string) {
		exec(idx, s, m, kind, false)
	}, func(idx int, s *Spec) { c.R.End(idx, eng.Hash("c07-slot", s.Canon()), true) })
	// --- ready values as the depended-on registration: a value registered with AddScoped (plain,
	// keyed, in a group, under an alias, under an alias and a key) is a scoped registration like
	// any other; every consumer lifetime x every value lifetime ---
	for _, vl := range lifes {
		for _, cl := range lifes {
			vforms := []struct {
				val  Reg
				cons string
			}{
				{Reg{Ctor: -1, Value: "K0", Life: vl}, "InU_2_1_Plain"},
				{Reg{Ctor: -1, Value: "K0", Life: vl, Name: "k"}, "InU_2_1_Keyed"},
				{Reg{Ctor: -1, Value: "K0", Life: vl, Group: "g"}, "InU_2_1_Group"},
				{Reg{Ctor: -1, Value: "K0", Life: vl, As: []string{"IK0"}}, "InU_2_1_Iface"},
				{Reg{Ctor: -1, Value: "K0", Life: vl, As: []string{"IK0", "IA"}}, "InU_2_1_Iface"},
				{Reg{Ctor: -1, Value: "K0", Life: vl}, "InU_2_1_Opt"},
			}
			for _, vf := range vforms {
				idx, mine := cr.next()
				if !mine {
					continue
				}
				s := &Spec{Regs: []Reg{vf.val, mkReg(vf.cons, cl)}}
				if idx%2 == 1 {
					s.Regs[0], s.Regs[1] = s.Regs[1], s.Regs[0]
				}
				m := NewModel(s)
				if m.Class != ClsOK && m.Class != ClsLifetime {
					panic(fmt.Sprintf("harness fixture of C07 (ready values, %s) has model class %s", vf.cons, m.Class))
				}
				c.R.Begin(idx)
				c.R.Count("value_provider_specs", 1)
				exec(idx, s, m, "value-provider", true)
				c.R.End(idx, eng.Hash("c07-value", s.Canon()), true)
			}
		}
	}
	// --- directed: registrations with several identities of which one was removed again ---
	rm := func(t, key string) Reg { return Reg{Remove: true, RmType: t, RmKey: key, Tail: true} }
	var directed []*Spec
	for _, life := range []godi.Lifetime{godi.Singleton, godi.Transient} {
		for _, which := range []int{0, 1} {
			mr := []string{"K2", "K3"}[which]
			directed = append(directed,
				&Spec{Regs: []Reg{mkReg("Leaf_K0_a", godi.Scoped), mkReg("MR_K2K3e", life), rm(mr, "")}},
				&Spec{Regs: []Reg{mkReg("Leaf_K0_a", godi.Scoped), mkReg("OutP_K2K3_d", life), rm(mr, "")}},
				&Spec{Regs: []Reg{mkReg("Leaf_K0_a", godi.Scoped), mkReg("PosA_1_1", life, withAs("IK1", "IA")), rm([]string{"IK1", "IA"}[which], "")}},
				&Spec{Regs: []Reg{mkReg("Leaf_K0_a", godi.Scoped, withName("k")), mkReg("InU_1_1_Keyed", life, withAs("IK1", "IB"), withName("k2")), rm([]string{"IK1", "IB"}[which], "k2")}},
				&Spec{Regs: []Reg{mkReg("Leaf_K0_a", godi.Scoped, withGroup("g")), mkReg("InU_1_1_Group", life, withAs("IK1", "IA")), rm([]string{"IK1", "IA"}[which], "")}},
				// control: only scoped services depend on scoped ones
				&Spec{Regs: []Reg{mkReg("Leaf_K0_a", godi.Scoped), mkReg("MR_K2K3e", godi.Scoped), rm(mr, "")}},
			)
		}
	}
	// the SCOPED side is the multi-output registration: the only scoped Add call of the set loses
	// one output to Remove, a singleton / transient depends on the output that stays
	for _, life := range []godi.Lifetime{godi.Singleton, godi.Transient} {
		directed = append(directed,
			&Spec{Regs: []Reg{mkReg("MR_K0K1", godi.Scoped), rm("K0", ""), mkReg("PosA_2_2", life)}},
			&Spec{Regs: []Reg{mkReg("OutP_K0K1", godi.Scoped), rm("K0", ""), mkReg("PosA_2_2", life)}},
			&Spec{Regs: []Reg{mkReg("OutP_K0K1", godi.Scoped), rm("K1", ""), mkReg("PosA_2_1", life)}},
			&Spec{Regs: []Reg{mkReg("MR_S1S2S5e", godi.Scoped), rm("S1", ""), rm("S5", ""), mkReg("SV_3_12", life), mkReg("Leaf_S0_a", godi.Singleton)}},
			&Spec{Regs: []Reg{mkReg("Leaf_K1_a", godi.Scoped, withAs("IK1", "IA")), rm("IA", ""), mkReg("InU_0_2_Iface", life)}},
		)
	}
	// two dependencies of one element type in one parameter object: two groups, or a single service
	// plus a group - the scoped registration sits behind the LATER field
	for _, life := range []godi.Lifetime{godi.Singleton, godi.Transient} {
		directed = append(directed,
			&Spec{Regs: []Reg{mkReg("Leaf_K1_a", godi.Singleton, withGroup("g")), mkReg("Leaf_K1_b", godi.Scoped, withGroup("h")), mkReg("InGG_K0", life)}},
			&Spec{Regs: []Reg{mkReg("Leaf_K1_a", godi.Singleton), mkReg("Leaf_K1_b", godi.Scoped, withGroup("g")), mkReg("InSG_K0", life)}},
			&Spec{Regs: []Reg{mkReg("Leaf_K1_a", godi.Singleton), mkReg("Leaf_K1_b", godi.Scoped, withGroup("g")), mkReg("TwiceIn_K2", life)}},
			// control: the scoped member behind the FIRST field
			&Spec{Regs: []Reg{mkReg("Leaf_K1_a", godi.Scoped, withGroup("g")), mkReg("Leaf_K1_b", godi.Singleton, withGroup("h")), mkReg("InGG_K0", life)}},
		)
	}
	// the set that matters is the final one: a Build in the middle must not make a difference
	for _, life := range []godi.Lifetime{godi.Singleton, godi.Transient} {
		directed = append(directed,
			&Spec{RebuildAfter: 1, Regs: []Reg{mkReg("PosA_0_2", life), mkReg("Leaf_K1_a", godi.Scoped)}},
			&Spec{RebuildAfter: 1, Regs: []Reg{mkReg("InU_0_2_Group", life), mkReg("Leaf_K1_a", godi.Scoped, withGroup("g"))}},
			&Spec{RebuildAfter: 2, Regs: []Reg{mkReg("Leaf_K1_b", godi.Singleton, withGroup("g")), mkReg("InU_0_2_Group", life), mkReg("Leaf_K1_a", godi.Scoped, withGroup("g"))}},
			&Spec{RebuildAfter: 1, Regs: []Reg{mkReg("InU_0_2_Opt", life), mkReg("Leaf_K1_a", godi.Scoped)}},
			&Spec{RebuildAfter: 1, Regs: []Reg{mkReg("InU_0_2_Keyed", life), mkReg("Leaf_K1_a", godi.Scoped, withName("k"))}},
			&Spec{RebuildAfter: 1, Regs: []Reg{mkReg("InU_0_2_Iface", life), mkReg("Leaf_K1_a", godi.Scoped, withAs("IK1"))}},
		)
	}
	// a service swapped for one of another lifetime between two Builds (same number of registrations)
	directed = append(directed, SwapSpecs(true)...)
	directed = append(directed, SwapSpecs(false)...)
	for _, s := range directed {
		idx, mine2 := cr.next()
		if !mine2 {
			continue
		}
		m := NewModel(s)
		c.R.Begin(idx)
		exec(idx, s, m, "directed-remove", false)
		c.R.End(idx, eng.Hash("c07-directed", s.Canon()), true)
	}
	// --- random larger sets (both classes) ---
	n := c.Pick(600, 20000)
	for k := 0; k < n; k++ {
		idx, mine2 := cr.next()
		if !mine2 {
			continue
		}
		rng := cr.rng(idx)
		want := ClsOK
		if k%2 == 1 {
			want = ClsLifetime
		}
		s, m := GenSpec(rng, GenOpts{Want: want, Specials: k%3 == 0 || k%4 >= 2, Values: true, Removes: k%4 >= 2, MultiAlias: k%4 >= 2, Rebuild: k%3 == 1, Sibling: true})
		if s == nil {
			continue
		}
		c.R.Begin(idx)
		exec(idx, s, m, "random", false)
		c.R.End(idx, eng.Hash("c07-rand", s.Canon()), len(flatEdges(m)) > 0)
	}
}

func flatEdges(m *Model) [][2]int {
	var es [][2]int
	for i, ds := range m.Edges {
		for _, d := range ds {
			es = append(es, [2]int{i, d})
		}
	}
	return es
}

func pow3(i int) int {
	p := 1
	for ; i > 0; i-- {
		p *= 3
	}
	return p
}

func dagEdges4(d [4]int) int {
	n := 0
	for _, m := range d {
		for ; m > 0; m &= m - 1 {
			n++
		}
	}
	return n
}

// enumerateDAGs returns all labelled DAGs on n<=4 nodes as per-node dependency masks.
func enumerateDAGs(n int) [][4]int {
	var out [][4]int
	pairs := n * n
	for bits := 0; bits < 1<<pairs; bits++ {
		var d [4]int
		ok := true
		for i := 0; i < n && ok; i++ {
			for j := 0; j < n; j++ {
				if bits&(1<<(i*n+j)) != 0 {
					if i == j {
						ok = false
						break
					}
					d[i] |= 1 << j
				}
			}
		}
		if !ok || maskCyclic(d, n) {
			continue
		}
		out = append(out, d)
	}
	return out
}

func maskCyclic(d [4]int, n int) bool {
	color := [4]int{}
	var visit func(i int) bool
	visit = func(i int) bool {
		color[i] = 1
		for j := 0; j < n; j++ {
			if d[i]&(1<<j) != 0 {
				if color[j] == 1 || (color[j] == 0 && visit(j)) {
					return true
				}
			}
		}
		color[i] = 2
		return false
	}
	for i := 0; i < n; i++ {
		if color[i] == 0 && visit(i) {
			return true
		}
	}
	return false
}

// ---------------------------------------------------------------- C08

func init() {
	eng.Register(&eng.Property{
		ID: "C08", Level: "exploration",
		Rule: "cases are seeded registration sets: valid ones (acceptance direction: Build must succeed; includes empty groups, absent optional dependencies, scope initializers depending on singletons) and the same sets with a random subset of dependency providers left unregistered (soundness direction: if Build still succeeds, resolving every registered identity in a fresh scope and on the provider must never fail with ErrServiceNotFound), for all three lifetimes and all constructor forms of the dependent incl. initializers. " +
			"Non-trivial: >=1 declared dependency; distinct = canonical spec hash.",
		Shards:     func(tier string) int { return 16 },
		Run:        runC08,
		NeedEvents: []string{"builds_ok", "builds_failed", "resolutions_after_build"},
	})
}

func missingFeature(m *Model) string {
	set := map[string]bool{}
	for i := range m.Regs {
		ri := &m.Regs[i]
		if !m.Accepted(i) {
			continue
		}
		for _, b := range ri.Binds {
			if b.Kind == BindMissing {
				f := lifeName(ri.Life)
				if ri.Void {
					f += "-initializer"
				}
				set[f+":"+b.Dep.Form.String()] = true
			}
		}
	}
	var ks []string
	for k := range set {
		ks = append(ks, k)
	}
	sortStrings(ks)
	if len(ks) > 2 {
		ks = ks[:2]
	}
	return strings.Join(ks, ",")
}

// acceptFeature names what is special about a valid spec (for false-rejection signatures).
func acceptFeature(m *Model, err error) string {
	var fs []string
	hasInitSingleton, hasGroupDepSingleton := false, false
	for i := range m.Regs {
		ri := &m.Regs[i]
		if !m.Accepted(i) || ri.Meta == nil {
			continue
		}
		for _, b := range ri.Binds {
			for _, t := range b.Targets {
				if ri.Void && ri.Life == godi.Scoped && m.Regs[t.Reg].Life == godi.Singleton {
					hasInitSingleton = true
				}
				if ri.Life == godi.Singleton && b.Kind == BindGroup && len(m.Edges[t.Reg]) > 0 {
					hasGroupDepSingleton = true
				}
			}
		}
	}
	if hasInitSingleton {
		fs = append(fs, "scoped-initializer-needs-singleton")
	}
	if hasGroupDepSingleton {
		fs = append(fs, "singleton-consumes-group-with-deps")
	}
	if m.HasMultiAlias {
		fs = append(fs, "multi-alias")
	}
	if m.HasMultiOutOpt {
		fs = append(fs, "multi-return+name/group")
	}
	if m.HasOutGroup {
		fs = append(fs, "out-groupfield")
	}
	if len(fs) == 0 {
		fs = append(fs, "plain")
	}
	return strings.Join(fs, ",") + ":" + Classify(err)
}

func runC08(c *eng.Ctx) {
	BuildDoors = true // Build / BuildWithContext / BuildWithOptions in turn (a function of the spec)
	cr := &caseRunner{c: c, prop: "C08"}
	defer func() { RunLateRegistration(c, cr.next); RunBuildTimeScope(c, cr.next); RunVariadic(c, "C08", cr.next); RunZeroSingleResults(c, cr.next); RunRefusedThenValid(c, "C08", cr.next); RunRemovedInitializers(c, cr.next) }()
	exec := func(idx int, s *Spec, m *Model, kind string) {
		r := NewRun(s, m, nil, nil)
		r.Build()
		if idx%2 == 0 {
			// half of the cases: the collection is emptied (and partly refilled) after Build; what
			// Build accepted stays resolvable from the provider it returned
			r.EditCollectionAfterBuild()
			c.R.Count("collection_edited_after_build", 1)
		}
		var fs []Finding
		if r.Built {
			a := r.Do(Op{Kind: OpCreate, Scope: 0, CtxKind: 1})
			if a.Class != "ok" {
				if errors.Is(a.Err, godi.ErrServiceNotFound) {
					fs = append(fs, Finding{"not-found-after-build", "create-scope:" + missingFeature(m), fmt.Sprintf("Build succeeded but CreateScope fails with service-not-found: %v", a.Err)})
				} else if m.Class == ClsOK {
					fs = append(fs, Finding{"scope-creation-fails", acceptFeature(m, a.Err), fmt.Sprintf("Build succeeded on a valid set but CreateScope fails: %v", a.Err)})
				}
			}
			ProbeRegistered(r, a.NewScope)
			ProbeRegistered(r, 0)
			r.Finish()
			for i := range r.Results {
				res := &r.Results[i]
				if res.Op == 0 || res.Class == "skipped" {
					continue
				}
				c.R.Count("resolutions_after_build", 1)
				if res.Err != nil && errors.Is(res.Err, godi.ErrServiceNotFound) {
					fs = append(fs, Finding{"not-found-after-build", missingFeature(m), fmt.Sprintf("Build succeeded but op%d %s fails with service-not-found: %v", res.Op, r.Ops[res.Op].String(), res.Err)})
					break
				}
			}
		} else if m.Class == ClsOK {
			if r.BuildPanic != nil {
				fs = append(fs, Finding{"build-panics", "", fmt.Sprintf("Build panicked: %v", r.BuildPanic)})
			} else {
				fs = append(fs, Finding{"valid-set-rejected", acceptFeature(m, r.BuildErr), fmt.Sprintf("Build failed on a set with no cycle, no lifetime conflict and no missing required dependency: %v", r.BuildErr)})
			}
		}
		report(c, "C08", idx, r, fs)
		if r.Built {
			c.R.Count("builds_ok", 1)
		} else {
			c.R.Count("builds_failed", 1)
		}
		c.R.Count("model_"+m.Class.String(), 1)
		if c.R.WantSample() && m.Class == ClsMissing {
			c.R.Sample(sampleOf(r, map[string]any{"kind": kind, "model_class": m.Class.String(), "missing": missingFeature(m)}))
		}
		nd := 0
		for i := range m.Regs {
			nd += len(m.Regs[i].Binds)
		}
		c.R.End(idx, eng.Hash("c08", kind, s.Canon()), nd > 0)
	}
	directed := []*Spec{
		// D14: scoped initializer that takes a singleton
		{Regs: []Reg{mkReg("Leaf_K0_a", godi.Singleton), mkReg("VoidK0", godi.Scoped)}},
		{Regs: []Reg{mkReg("Leaf_K1_a", godi.Singleton), mkReg("ErrOnlyK1", godi.Scoped)}},
		// D13: missing dependency of a scoped / transient service / initializer
		{Regs: []Reg{mkReg("PosA_0_2", godi.Scoped)}},
		{Regs: []Reg{mkReg("PosB_0_2", godi.Transient)}},
		{Regs: []Reg{mkReg("InU_0_2_Keyed", godi.Scoped), mkReg("Leaf_K1_a", godi.Scoped)}},
		{Regs: []Reg{mkReg("VoidK1", godi.Scoped)}},
		{Regs: []Reg{mkReg("PosA_0_2", godi.Singleton)}},
		// a REQUIRED keyed dependency on a built-in type can never be satisfied (only the unkeyed identity is built in)
		{Regs: []Reg{mkReg("BIkeyedReq_S6", godi.Scoped)}},
		{Regs: []Reg{mkReg("BIkeyedReq_S6", godi.Transient)}},
		{Regs: []Reg{mkReg("BIkeyedReq_S7", godi.Scoped)}},
		{Regs: []Reg{mkReg("BIkeyedReq_S7", godi.Transient), mkReg("Leaf_K0_a", godi.Singleton)}},
		{Regs: []Reg{mkReg("BIkeyedReq_S5", godi.Scoped), mkReg("BIkeyedReq_S6", godi.Singleton)}},
		{Regs: []Reg{mkReg("BIkeyedReq_S5", godi.Transient)}},
		// a collection that was built successfully, then lost a dependency through Remove / RemoveKeyed, and is built again
		{RebuildAfter: 2, Regs: []Reg{mkReg("Leaf_K1_a", godi.Scoped), mkReg("PosA_0_2", godi.Scoped), {Remove: true, RmType: "K1", Tail: true}}},
		{RebuildAfter: 2, Regs: []Reg{mkReg("Leaf_K1_a", godi.Singleton), mkReg("PosB_0_2", godi.Transient), {Remove: true, RmType: "K1", Tail: true}, mkReg("Leaf_S0_a", godi.Scoped)}},
		{RebuildAfter: 2, Regs: []Reg{mkReg("Leaf_K1_c", godi.Scoped, withName("k")), mkReg("InU_0_2_Keyed", godi.Scoped), {Remove: true, RmType: "K1", RmKey: "k", Tail: true}}},
		{RebuildAfter: 3, Regs: []Reg{mkReg("Leaf_K1_a", godi.Scoped), mkReg("VoidK1", godi.Scoped), mkReg("Leaf_S0_a", godi.Singleton), {Remove: true, RmType: "K1", Tail: true}}},
		// RemoveKeyed with an int key that equals a group member's position removes nothing: the
		// member is still validated (missing dependency -> Build fails) / still built and served
		{Regs: []Reg{mkReg("PosA_1_1", godi.Scoped, withGroup("g")), {Remove: true, RmType: "K1", RmInt: 1, Tail: true}}},
		{Regs: []Reg{mkReg("Leaf_K1_a", godi.Transient, withGroup("g")), mkReg("PosA_1_1", godi.Transient, withGroup("g")), {Remove: true, RmType: "K1", RmInt: 2, Tail: true}}},
		{Regs: []Reg{mkReg("Leaf_K0_a", godi.Singleton), mkReg("PosA_1_1", godi.Singleton, withGroup("g")), mkReg("InU_2_2_Group", godi.Singleton), {Remove: true, RmType: "K1", RmInt: 1, Tail: true}}},
		// ... and the converse: the missing dependency arrives after the first (failed) Build
		{RebuildAfter: 1, Regs: []Reg{mkReg("PosA_0_2", godi.Scoped), mkReg("Leaf_K1_a", godi.Scoped)}},
		// acceptance: empty group, absent optional
		{Regs: []Reg{mkReg("InU_0_6_Group", godi.Singleton), mkReg("InU_1_4_Opt", godi.Singleton)}},
		// D11: singleton consuming a group whose members have dependencies
		{Regs: []Reg{mkReg("Leaf_K0_a", godi.Singleton), mkReg("PosA_1_1", godi.Singleton, withGroup("g")), mkReg("PosB_1_1", godi.Singleton, withGroup("g")), mkReg("InU_2_2_Group", godi.Singleton)}},
	}
	// a service swapped for one of another lifetime between two Builds: the second Build accepts
	// exactly the valid final sets
	directed = append(directed, SwapSpecs(false)...)
	directed = append(directed, SwapSpecs(true)...)
	// acceptance: a constructor that names the same dependency identity more than once
	for _, l := range allLifetimes {
		depLife := godi.Transient
		if l == godi.Scoped {
			depLife = godi.Scoped
		}
		directed = append(directed,
			&Spec{Regs: []Reg{mkReg("Leaf_K1_a", depLife), mkReg("Twice_K0", l)}},
			&Spec{Regs: []Reg{mkReg("Leaf_K1_b", godi.Singleton), mkReg("Leaf_K1_a", depLife, withGroup("g")), mkReg("TwiceIn_K2", l)}},
			&Spec{Regs: []Reg{mkReg("Leaf_S0_a", depLife), mkReg("Leaf_S5_a", godi.Singleton), mkReg("Twice_S4", l), mkReg("VoidS4", godi.Scoped)}},
		)
	}

	for _, s := range directed {
		idx, mine := cr.next()
		if !mine {
			continue
		}
		c.R.Begin(idx)
		exec(idx, s, NewModel(s), "directed")
	}
	// every unusual declaration form x every dependency slot: valid, and with that slot's provider missing
	runSlotSpecs(cr, map[string]bool{"valid": true, "missing": true}, exec, nil)
	n := c.Pick(2000, 50000)
	for k := 0; k < n; k++ {
		idx, mine := cr.next()
		if !mine {
			continue
		}
		rng := cr.rng(idx)
		full := k%6 == 5
		s, m := GenSpec(rng, GenOpts{Want: ClsOK, Specials: true, Values: k%4 == 0, MultiAlias: full || k%3 == 2, OutGroup: full, MultiOpt: full, Removes: k%3 == 2, Rebuild: k%5 == 0 || k%6 == 2, Sibling: true})
		if s == nil {
			continue
		}
		if k%2 == 1 {
			// leave a random subset of dependency providers unregistered
			s2 := dropProviders(rng, s, m)
			m2 := NewModel(s2)
			if m2.Class == ClsOK || m2.Class == ClsMissing {
				s, m = s2, m2
			}
		}
		c.R.Begin(idx)
		exec(idx, s, m, "random")
	}
}

// dropProviders removes 1..3 registrations that other registrations depend on.
func dropProviders(rng *rand.Rand, s *Spec, m *Model) *Spec {
	depended := map[int]bool{}
	for _, ds := range m.Edges {
		for _, d := range ds {
			depended[d] = true
		}
	}
	var cands []int
	for i := range s.Regs {
		if depended[i] {
			cands = append(cands, i)
		}
	}
	if len(cands) == 0 {
		return s
	}
	drop := map[int]bool{}
	for k := 0; k < 1+rng.Intn(3); k++ {
		drop[cands[rng.Intn(len(cands))]] = true
	}
	out := &Spec{}
	for i, r := range s.Regs {
		if !drop[i] {
			out.Regs = append(out.Regs, r)
		}
	}
	return out
}
