package core

import (
	"context"
	"fmt"
	"time"

	"github.com/junioryono/godi/v4"
	"github.com/junioryono/godi/v4/verifh/eng"
)

// The three Build doors and the root scope's context.
//
// Build, BuildWithContext(ctx) and BuildWithOptions(BuildTimeout) all produce a provider whose
// singletons "receive the provider's own root scope and its context". The context of the Build
// CALL - a start-up context that is cancelled or times out once start-up is over - is not the
// context of that root scope: after Build has returned (and the build context has been cancelled,
// as BuildWithOptions does itself on return) the context injected into singletons is live, scopes
// opened from the root scope without a context of their own are usable, and no value of the
// build context has leaked into them.

type bcKey struct{}

type bcWorker struct {
	ctx context.Context
	sc  godi.Scope
}

func bcNewWorker(ctx context.Context, sc godi.Scope) *bcWorker { return &bcWorker{ctx, sc} }

type bcJob struct{ ctx context.Context }

func bcNewJob(ctx context.Context) *bcJob { return &bcJob{ctx} }

func RunBuildDoorsRootContext(c *eng.Ctx, next func() (int, bool)) {
	for _, door := range []string{"Build", "BuildWithContext:cancelled-after-build", "BuildWithContext:deadline-in-the-past-after-build", "BuildWithOptions:timeout"} {
		idx, mine := next()
		if !mine {
			continue
		}
		c.R.Begin(idx)
		viol := func(clause, detail string) {
			c.R.Violation(eng.Violation{Prop: "C18", Clause: clause, Sig: "C18/" + clause + ":root-scope-context:" + door, Case: idx, CaseID: "build-door-" + door,
				Detail: door + ": " + detail, Replay: map[string]any{"fixture": "build-doors-root-context", "door": door}})
		}
		func() {
			defer func() {
				if p := recover(); p != nil {
					viol("api-call-panics", fmt.Sprintf("panic: %v", p))
				}
			}()
			coll := godi.NewCollection()
			if err := coll.AddSingleton(bcNewWorker); err != nil {
				panic(err)
			}
			if err := coll.AddScoped(bcNewJob); err != nil {
				panic(err)
			}
			var prov godi.Provider
			var err error
			switch door {
			case "Build":
				prov, err = coll.Build()
			case "BuildWithContext:cancelled-after-build":
				ctx, cancel := context.WithCancel(context.WithValue(context.Background(), bcKey{}, "build-call"))
				prov, err = coll.BuildWithContext(ctx)
				cancel()
			case "BuildWithContext:deadline-in-the-past-after-build":
				ctx, cancel := context.WithTimeout(context.WithValue(context.Background(), bcKey{}, "build-call"), 200*time.Millisecond)
				prov, err = coll.BuildWithContext(ctx)
				<-ctx.Done() // start-up is over, its deadline passes
				cancel()
			default:
				prov, err = coll.BuildWithOptions(&godi.ProviderOptions{BuildTimeout: time.Minute})
			}
			if err != nil {
				panic("build-doors fixture does not build: " + err.Error())
			}
			defer prov.Close()
			c.R.Count("build_door_cases", 1)
			w, err := godi.Resolve[*bcWorker](prov)
			if err != nil {
				viol("registered-identity-fails", fmt.Sprintf("Resolve[*bcWorker](provider): %v", err))
				return
			}
			if w.ctx == nil || w.sc == nil {
				viol("builtin-nil", "the singleton received a nil context / scope")
				return
			}
			if e := w.ctx.Err(); e != nil {
				viol("root-context-done", fmt.Sprintf("the context injected into a singleton is done after Build returned: %v", e))
			}
			if v := w.ctx.Value(bcKey{}); v != nil {
				viol("foreign-context-value", fmt.Sprintf("the root scope's context carries a value of the context of the Build call: %v", v))
			}
			if _, has := w.ctx.Deadline(); has {
				viol("foreign-context-deadline", "the root scope's context carries a deadline (nothing gave it one)")
			}
			// the documented background-worker layout: one scope per job, opened from the injected scope
			for i := 0; i < 3; i++ {
				js, err := w.sc.CreateScope(nil)
				if err != nil {
					viol("child-of-root-scope-unusable", fmt.Sprintf("job %d: CreateScope(nil) on the injected root scope: %v", i, err))
					break
				}
				job, err := godi.Resolve[*bcJob](js)
				if err != nil {
					viol("child-of-root-scope-unusable", fmt.Sprintf("job %d: resolving in a scope opened from the root scope: %v", i, err))
				} else if e := job.ctx.Err(); e != nil {
					viol("child-of-root-scope-unusable", fmt.Sprintf("job %d: the context injected in a scope opened from the root scope is already done: %v", i, e))
				}
				_ = js.Close()
			}
		}()
		c.R.End(idx, eng.Hash("c18-build-doors", door), true)
	}
}
