package core

import (
	"context"
	"fmt"

	"github.com/junioryono/godi/v4"
	"github.com/junioryono/godi/v4/verifh/eng"
)

// A singleton constructor that opens (and closes) a scope while Build is running, in a set that
// also has a scope initializer depending on a singleton which does not exist yet at that moment.
//
// The set has no cycle (the constructor only takes the Provider), no lifetime conflict and no
// missing dependency, and its constructors succeed as long as the container lets them: C08 says
// Build succeeds, and "scope initializer functions that depend on singletons never make it fail".
// After Build every fresh scope runs the initializer exactly once with THE singleton.

type bsWarmer struct{ scopes int }
type bsStore struct{ w *bsWarmer }
type bsOther struct{}

type bsWorld struct {
	inits    int
	initArgs []*bsStore
	initW    []*bsWarmer
}

var bsCur *bsWorld

func bsNewWarmer(p godi.Provider) (*bsWarmer, error) {
	sc, err := p.CreateScope(context.Background())
	if err != nil {
		return nil, fmt.Errorf("warm-up scope: %w", err)
	}
	defer sc.Close()
	return &bsWarmer{scopes: 1}, nil
}
func bsNewStore(w *bsWarmer) *bsStore { return &bsStore{w} }
func bsNewOther() *bsOther            { return &bsOther{} }
func bsInitStore(s *bsStore)          { bsCur.inits++; bsCur.initArgs = append(bsCur.initArgs, s) }
func bsInitWarmer(w *bsWarmer)        { bsCur.inits++; bsCur.initW = append(bsCur.initW, w) }
func bsInitOther(o *bsOther)          { bsCur.inits++ }

// RunBuildTimeScope: which singleton the initializer takes x registration order.
func RunBuildTimeScope(c *eng.Ctx, next func() (int, bool)) {
	inits := []struct {
		name string
		fn   any
	}{{"initializer-takes-a-dependent-of-the-scope-opener", bsInitStore}, {"initializer-takes-the-scope-opener", bsInitWarmer}, {"initializer-takes-an-unrelated-singleton", bsInitOther}}
	for vi, iv := range inits {
		for rot := 0; rot < 4; rot++ {
			idx, mine := next()
			if !mine {
				continue
			}
			c.R.Begin(idx)
			viol := func(clause, detail string) {
				c.R.Violation(eng.Violation{Prop: "C08", Clause: clause, Sig: "C08/" + clause + ":singleton-constructor-opens-a-scope-during-Build:" + iv.name, Case: idx, CaseID: fmt.Sprintf("build-time-scope-%d-%d", vi, rot), Detail: detail,
					Replay: map[string]any{"fixture": "build-time-scope", "initializer": iv.name, "rotation": rot}})
			}
			func() {
				defer func() {
					if p := recover(); p != nil {
						viol("build-panics", fmt.Sprintf("panic: %v", p))
					}
				}()
				bsCur = &bsWorld{}
				coll := godi.NewCollection()
				type reg struct {
					fn     any
					scoped bool
				}
				regs := []reg{{bsNewWarmer, false}, {bsNewStore, false}, {bsNewOther, false}, {iv.fn, true}}
				for i := range regs {
					r := regs[(i+rot)%len(regs)]
					var err error
					if r.scoped {
						err = coll.AddScoped(r.fn)
					} else {
						err = coll.AddSingleton(r.fn)
					}
					if err != nil {
						panic("build-time-scope fixture: registration refused: " + err.Error())
					}
				}
				prov, err := coll.Build()
				c.R.Count("build_time_scope_cases", 1)
				if err != nil {
					viol("valid-set-rejected", fmt.Sprintf("Build failed on a set with no cycle, no lifetime conflict and no missing dependency (a singleton constructor opens a scope through the injected Provider; a scope initializer takes a singleton): %v", err))
					return
				}
				defer prov.Close()
				store, e1 := godi.Resolve[*bsStore](prov)
				warmer, e2 := godi.Resolve[*bsWarmer](prov)
				if e1 != nil || e2 != nil {
					viol("not-found-after-build", fmt.Sprintf("singletons not resolvable after Build: %v / %v", e1, e2))
					return
				}
				before := bsCur.inits
				sc, err := prov.CreateScope(context.Background())
				if err != nil {
					viol("scope-creation-fails", fmt.Sprintf("CreateScope after the successful Build fails: %v", err))
					return
				}
				defer sc.Close()
				if got := bsCur.inits - before; got != 1 {
					viol("initializer-count", fmt.Sprintf("the scope initializer ran %d times for one fresh scope (want 1)", got))
				}
				for _, a := range bsCur.initArgs {
					if a != store {
						viol("initializer-argument", "a scope initializer received another *bsStore than the singleton the provider serves")
					}
				}
				for _, w := range bsCur.initW {
					if w != warmer {
						viol("initializer-argument", "a scope initializer received another *bsWarmer than the singleton the provider serves")
					}
				}
			}()
			c.R.End(idx, eng.Hash("c08-build-time-scope", vi, rot), true)
		}
	}
}
