package core

import (
	"context"
	"errors"
	"fmt"
	"sync"

	"github.com/junioryono/godi/v4"
	"github.com/junioryono/godi/v4/verifh/eng"
	"github.com/junioryono/godi/v4/verifh/pool"
)

// A registration that arrives while Build is starting.
//
// The collection is safe for concurrent use, so an Add call may interleave with a Build. Whatever
// Build then decides, it decides for ONE registry: the set it validated is the set the provider
// serves. BuildWithContext polls its context before it starts; a context whose first Done() call
// runs the late Add makes the interleaving deterministic (no timing involved). Accepted outcomes:
// Build rejects the set (the late registration has a missing dependency), or the provider does not
// know the late registration. Not accepted: the provider serves a registration whose required
// dependency nobody validated ("service not found" for the DEPENDENCY after a successful Build).

type lateCtx struct {
	context.Context
	once sync.Once
	f    func()
}

func (l *lateCtx) Done() <-chan struct{} {
	l.once.Do(l.f)
	return l.Context.Done()
}

func RunLateRegistration(c *eng.Ctx, next func() (int, bool)) {
	for _, life := range []godi.Lifetime{godi.Scoped, godi.Transient, godi.Singleton} {
		for _, form := range []string{"plain", "keyed", "group"} {
			idx, mine := next()
			if !mine {
				continue
			}
			c.R.Begin(idx)
			viol := func(clause, detail string) {
				c.R.Violation(eng.Violation{Prop: "C08", Clause: clause, Sig: "C08/" + clause + ":registration-racing-build-start:" + form + ":" + lifeName(life), Case: idx, CaseID: "late-registration-" + form + "-" + lifeName(life), Detail: detail,
					Replay: map[string]any{"fixture": "late-registration", "form": form, "lifetime": lifeName(life)}})
			}
			func() {
				defer func() {
					if p := recover(); p != nil {
						viol("build-panics", fmt.Sprintf("panic: %v", p))
					}
				}()
				coll := godi.NewCollection()
				_ = coll.AddSingleton(pool.ByName("Leaf_S0_a").Fn)
				// consumer K0 with a required dependency on K1 (plain / name:"k" / non-optional keyed) - K1 is never registered
				consumer := map[string]string{"plain": "PosA_0_2", "keyed": "InU_0_2_Keyed", "group": "PosB_0_2"}[form]
				var addErr error
				ctx := &lateCtx{Context: context.Background(), f: func() {
					addErr = eqAdd(coll, life, pool.ByName(consumer).Fn)
				}}
				prov, err := coll.BuildWithContext(ctx)
				c.R.Count("late_registration_builds", 1)
				if addErr != nil {
					c.R.Inconclusive(idx, "the late Add was refused: "+addErr.Error())
					return
				}
				if err != nil || prov == nil {
					c.R.Count("late_registration_build_rejected", 1)
					return // the late registration was seen and rejected: fine
				}
				defer prov.Close()
				sc, serr := prov.CreateScope(nil)
				if serr != nil {
					if errors.Is(serr, godi.ErrServiceNotFound) {
						viol("not-found-after-build", "Build succeeded, CreateScope fails with service-not-found: "+serr.Error())
					}
					return
				}
				defer sc.Close()
				_, gerr := sc.Get(pool.T("K0"))
				if gerr == nil {
					viol("invalid-set-accepted", "Build succeeded and the consumer resolved although its required dependency K1 is not registered")
					return
				}
				var re *godi.ResolutionError
				var rev godi.ResolutionError
				missing := ""
				if errors.As(gerr, &re) && re.ServiceType != nil {
					missing = re.ServiceType.String()
				} else if errors.As(gerr, &rev) && rev.ServiceType != nil {
					missing = rev.ServiceType.String()
				}
				c.R.Count("late_registration_build_accepted", 1)
				if errors.Is(gerr, godi.ErrServiceNotFound) && missing != pool.T("K0").String() {
					viol("not-found-after-build", fmt.Sprintf("Add%s(%s) completed while BuildWithContext was starting; Build succeeded, the provider knows the late registration, and resolving it fails with service-not-found for its dependency: %v", lifeName(life), consumer, trimErr(gerr)))
				}
			}()
			c.R.End(idx, eng.Hash("late-registration", form, int(life)), true)
		}
	}
}
