package core

import (
	"errors"
	"fmt"
	"sync"

	"github.com/junioryono/godi/v4"
	"github.com/junioryono/godi/v4/verifh/eng"
)

// Disposables of func kind.
//
// `type FnCloser func() error` with a Close method is the usual adapter for "run this at
// shutdown". One constructor invocation hands out several of them (named result-object fields, or
// two return values), all closures of ONE function literal, each capturing its own resource:
// same type, same code pointer, not comparable with ==. Each is an instance of its own: closed
// exactly once by the owner's Close (C10), and when one of them fails the owner's Close says so
// and still closes the others (C12).

type FnCloser func() error

func (f FnCloser) Close() error { return f() }

type FnCloser2 func() error // a second func type for the multi-return form

func (f FnCloser2) Close() error { return f() }

type fdWorld struct {
	mu     sync.Mutex
	made   int
	closed map[int]int
	failID map[int]bool // hook ids (creation order) whose Close fails
}

var (
	fdMu  sync.Mutex
	fdCur *fdWorld
)

type fdErr struct{ id int }

func (e *fdErr) Error() string { return fmt.Sprintf("cleanup hook %d failed", e.id) }

func fdHook() func() error {
	fdMu.Lock()
	w := fdCur
	fdMu.Unlock()
	w.mu.Lock()
	id := w.made
	w.made++
	w.mu.Unlock()
	return func() error { // the one literal every hook is a closure of
		w.mu.Lock()
		w.closed[id]++
		fail := w.failID[id]
		w.mu.Unlock()
		if fail {
			return &fdErr{id}
		}
		return nil
	}
}

type fdOut struct {
	godi.Out
	Data  FnCloser `name:"data"`
	Index FnCloser `name:"index"`
	Spool FnCloser `name:"spool"`
}

func fdCtorOut() fdOut {
	return fdOut{Data: fdHook(), Index: fdHook(), Spool: fdHook()}
}
func fdCtorMR() (FnCloser, FnCloser2) { return fdHook(), FnCloser2(fdHook()) }

type fdGroupOut struct {
	godi.Out
	A FnCloser `group:"hooks"`
	B FnCloser `group:"hooks"`
}

func fdCtorGroup() fdGroupOut { return fdGroupOut{A: fdHook(), B: fdHook()} }

// RunFuncDisposables: forms x lifetimes x which hook fails; prop is C10 (exactly once) or C12
// (errors reported, idempotent).
func RunFuncDisposables(c *eng.Ctx, prop string, next func() (int, bool)) {
	for _, form := range []string{"result-object-named-fields", "multi-return", "result-object-group-fields"} {
		for _, life := range []godi.Lifetime{godi.Singleton, godi.Scoped, godi.Transient} {
			for _, failing := range []int{-1, 0, 1} { // none / the first / the second hook of every invocation
				idx, mine := next()
				if !mine {
					continue
				}
				c.R.Begin(idx)
				for _, f := range fdCase(form, life, failing) {
					// C10 judges the conservation clauses; C12 judges everything (its oracle includes
					// "every owned instance gets exactly one close event whatever fails")
					errClause := f.Clause == "close-error-swallowed" || f.Clause == "close-error-spurious" || f.Clause == "close-error-not-disposal" || f.Clause == "second-close-not-nil"
					if prop != "C12" && errClause {
						continue
					}
					c.R.Violation(eng.Violation{Prop: prop, Clause: f.Clause, Sig: prop + "/" + f.Clause + ":func-typed-disposables:" + form + ":" + lifeName(life), Case: idx, CaseID: fmt.Sprintf("func-disposables-%s-%s-%d", form, lifeName(life), failing),
						Detail: f.Detail, Replay: map[string]any{"fixture": "func-disposables", "form": form, "lifetime": lifeName(life), "failing": failing}})
				}
				c.R.Count("func_disposable_cases", 1)
				c.R.End(idx, eng.Hash("func-disposables", prop, form, int(life), failing), true)
			}
		}
	}
}

func fdCase(form string, life godi.Lifetime, failing int) (fs []Finding) {
	w := &fdWorld{closed: map[int]int{}, failID: map[int]bool{}}
	fdMu.Lock()
	fdCur = w
	fdMu.Unlock()
	add := func(clause, format string, a ...any) {
		fs = append(fs, Finding{clause, form, fmt.Sprintf("%s, %s, failing hook %d: ", form, lifeName(life), failing) + fmt.Sprintf(format, a...)})
	}
	defer func() {
		if p := recover(); p != nil {
			add("panic", "panic: %v", p)
		}
	}()
	per := 3
	coll := godi.NewCollection()
	var err error
	switch form {
	case "result-object-named-fields":
		err = eqAdd(coll, life, fdCtorOut)
	case "multi-return":
		per = 2
		err = eqAdd(coll, life, fdCtorMR)
	default:
		per = 2
		err = eqAdd(coll, life, fdCtorGroup)
	}
	if err != nil {
		panic("func-disposables fixture: registration refused: " + err.Error())
	}
	// the failing hook of EVERY invocation fails (ids are handed out in creation order)
	if failing >= 0 {
		for inv := 0; inv < 64; inv++ {
			w.failID[inv*per+failing] = true
		}
	}
	prov, err := coll.Build()
	if err != nil {
		panic("func-disposables fixture does not build: " + err.Error())
	}
	use := func(p godi.Provider) {
		switch form {
		case "result-object-named-fields":
			_, _ = godi.ResolveKeyed[FnCloser](p, "index")
			_, _ = godi.ResolveKeyed[FnCloser](p, "data")
			_, _ = godi.ResolveKeyed[FnCloser](p, "spool")
		case "multi-return":
			_, _ = godi.Resolve[FnCloser2](p)
			_, _ = godi.Resolve[FnCloser](p)
		default:
			_, _ = godi.ResolveGroup[FnCloser](p, "hooks")
		}
	}
	parent, _ := prov.CreateScope(nil)
	var child godi.Scope
	if parent != nil {
		child, _ = parent.CreateScope(nil)
		use(parent)
	}
	if child != nil {
		use(child)
	}
	use(prov)
	// which hooks exist before any Close, per owner: everything made so far by non-singleton
	// lifetimes belongs to parent / child / root scope; we only need totals
	w.mu.Lock()
	for id, n := range w.closed {
		if n > 0 {
			add("closed-early", "hook %d was closed before any Close call", id)
		}
	}
	madeBefore := w.made
	w.mu.Unlock()
	failedIn := func(lo, hi int) int { // failing hooks among ids [lo,hi) that were closed by now exactly once more
		n := 0
		for id := lo; id < hi; id++ {
			if w.failID[id] {
				n++
			}
		}
		return n
	}
	checkErr := func(what string, cerr error, newlyClosedFailing int) {
		var de *godi.DisposalError
		switch {
		case newlyClosedFailing > 0 && cerr == nil:
			add("close-error-swallowed", "%s disposed %d hook(s) whose Close returned an error and returned nil", what, newlyClosedFailing)
		case newlyClosedFailing > 0 && !errors.As(cerr, &de):
			add("close-error-not-disposal", "%s returned %T (%v), not a DisposalError", what, cerr, cerr)
		case newlyClosedFailing == 0 && cerr != nil:
			add("close-error-spurious", "%s returned %v although no Close method it ran failed", what, cerr)
		}
	}
	closedFailing := func() int {
		w.mu.Lock()
		defer w.mu.Unlock()
		n := 0
		for id, k := range w.closed {
			if k > 0 && w.failID[id] {
				n++
			}
		}
		return n
	}
	_ = failedIn
	_ = madeBefore
	if parent != nil {
		before := closedFailing()
		cerr := parent.Close() // closes the child too
		checkErr("parent.Close (child scope included)", cerr, closedFailing()-before)
		if again := parent.Close(); again != nil {
			add("second-close-not-nil", "the second parent.Close returned %v", again)
		}
	}
	before := closedFailing()
	cerr := prov.Close()
	checkErr("provider.Close", cerr, closedFailing()-before)
	if again := prov.Close(); again != nil {
		add("second-close-not-nil", "the second provider.Close returned %v", again)
	}
	w.mu.Lock()
	defer w.mu.Unlock()
	for id := 0; id < w.made; id++ {
		switch n := w.closed[id]; {
		case n == 0:
			add("never-closed", "cleanup hook %d (of %d made) was never closed", id, w.made)
		case n > 1:
			add("closed-twice", "cleanup hook %d was closed %d times", id, n)
		}
	}
	return fs
}
