package core

import (
	"errors"
	"fmt"

	"github.com/junioryono/godi/v4"
	"github.com/junioryono/godi/v4/verifh/eng"
)

// Variadic constructors.
//
// `func NewServer(opts ...Option) *Server` is an ordinary Go function, and its last parameter
// has an ordinary type: []Option. As a constructor it declares a dependency on the service
// registered under the slice type []Option (plain or keyed through a parameter object is not
// possible here - it is a positional parameter). A registration set in which that slice type is
// registered has no missing dependency, no cycle and no lifetime conflict: Build accepts it
// (C08), the constructor runs with exactly the registered slice (C04), and nothing panics.

type VaOpt struct{ N int }
type vaServer struct {
	first *vaDep
	opts  []*VaOpt
}
type vaDep struct{ n int }
type vaWorld struct {
	optCalls, srvCalls int
	handed             []*VaOpt
}

var vaCur *vaWorld

func vaNewOpts() []*VaOpt {
	vaCur.optCalls++
	vaCur.handed = []*VaOpt{{1}, {2}, {3}}
	return vaCur.handed
}
func vaNewDep() *vaDep { return &vaDep{7} }
func vaNewServer(d *vaDep, opts ...*VaOpt) *vaServer {
	vaCur.srvCalls++
	return &vaServer{d, opts}
}
func vaNewServerOnly(opts ...*VaOpt) (*vaServer, error) {
	vaCur.srvCalls++
	return &vaServer{nil, opts}, nil
}

// RunVariadic: {leading plain parameter, variadic only} x consumer lifetimes x provider lifetimes (valid pairs).
func RunVariadic(c *eng.Ctx, prop string, next func() (int, bool)) {
	// the slice type the variadic parameter stands for is NOT registered: a required dependency is
	// missing - Build refuses, or (whatever it decides) what it accepts does not fail with
	// "service not found" when resolved from a fresh scope
	if prop == "C08" {
		for _, form := range []string{"plain+variadic", "variadic-only"} {
			for _, life := range []godi.Lifetime{godi.Singleton, godi.Scoped, godi.Transient} {
				idx, mine := next()
				if !mine {
					continue
				}
				c.R.Begin(idx)
				feat := form + ":" + lifeName(life) + ":slice-type-not-registered"
				func() {
					vaCur = &vaWorld{}
					coll := godi.NewCollection()
					if err := coll.AddSingleton(vaNewDep); err != nil {
						panic(err)
					}
					var err error
					if form == "plain+variadic" {
						err = eqAdd(coll, life, vaNewServer)
					} else {
						err = eqAdd(coll, life, vaNewServerOnly)
					}
					if err != nil {
						return // refused at registration: nothing is promised
					}
					c.R.Count("variadic_constructor_cases", 1)
					prov, err := coll.Build()
					if err != nil {
						return
					}
					defer prov.Close()
					sc, err := prov.CreateScope(nil)
					if err != nil {
						return
					}
					defer sc.Close()
					if _, err := godi.Resolve[*vaServer](sc); err != nil && errors.Is(err, godi.ErrServiceNotFound) {
						c.R.Violation(eng.Violation{Prop: "C08", Clause: "not-found-after-build", Sig: "C08/not-found-after-build:variadic-constructor:" + feat, Case: idx, CaseID: "variadic-" + feat,
							Detail: feat + ": Build succeeded, and resolving the registered service from a fresh scope fails with 'service not found': " + trimErr(err), Replay: map[string]any{"fixture": "variadic-constructor", "form": form, "lifetime": lifeName(life), "slice_registered": false}})
					}
				}()
				c.R.End(idx, eng.Hash("variadic-missing", feat), true)
			}
		}
	}
	for _, form := range []string{"plain+variadic", "variadic-only"} {
		for _, life := range []godi.Lifetime{godi.Singleton, godi.Scoped, godi.Transient} {
			for _, optLife := range []godi.Lifetime{godi.Singleton, godi.Transient} {
				idx, mine := next()
				if !mine {
					continue
				}
				c.R.Begin(idx)
				feat := form + ":" + lifeName(life) + "<-" + lifeName(optLife)
				viol := func(clause, detail string) {
					c.R.Violation(eng.Violation{Prop: prop, Clause: clause, Sig: prop + "/" + clause + ":variadic-constructor:" + feat, Case: idx, CaseID: "variadic-" + feat,
						Detail: feat + ": " + detail, Replay: map[string]any{"fixture": "variadic-constructor", "form": form, "lifetime": lifeName(life), "slice_lifetime": lifeName(optLife)}})
				}
				func() {
					defer func() {
						if p := recover(); p != nil {
							viol("api-call-panics", fmt.Sprintf("panic: %v", p))
						}
					}()
					vaCur = &vaWorld{}
					coll := godi.NewCollection()
					must := func(err error) {
						if err != nil {
							panic("variadic fixture: registration refused: " + err.Error())
						}
					}
					must(eqAdd(coll, optLife, vaNewOpts))
					must(coll.AddSingleton(vaNewDep))
					if form == "plain+variadic" {
						must(eqAdd(coll, life, vaNewServer))
					} else {
						must(eqAdd(coll, life, vaNewServerOnly))
					}
					c.R.Count("variadic_constructor_cases", 1)
					prov, err := coll.Build()
					if err != nil {
						if prop == "C08" {
							viol("valid-set-rejected", fmt.Sprintf("Build failed although the slice type the variadic parameter stands for is registered, there is no cycle and no lifetime conflict, and no constructor failed: %v", err))
						} else {
							viol("registered-identity-fails", fmt.Sprintf("Build: %v", err))
						}
						return
					}
					defer prov.Close()
					sc, err := prov.CreateScope(nil)
					if err != nil {
						panic("variadic fixture: CreateScope: " + err.Error())
					}
					defer sc.Close()
					srv, err := godi.Resolve[*vaServer](sc)
					if err != nil {
						if prop == "C08" {
							viol("resolution-fails-after-build", fmt.Sprintf("Build succeeded, but resolving the service from a fresh scope fails: %v", err))
						} else {
							viol("registered-identity-fails", fmt.Sprintf("Resolve[*vaServer]: %v", err))
						}
						return
					}
					if prop != "C04" {
						return
					}
					if form == "plain+variadic" && (srv.first == nil || srv.first.n != 7) {
						viol("arg-missing", "the leading plain parameter did not receive the registered *vaDep")
					}
					if len(srv.opts) != 3 || len(vaCur.handed) != 3 || srv.opts[0] != vaCur.handed[0] || srv.opts[2] != vaCur.handed[2] {
						viol("arg-wrong-producer", fmt.Sprintf("the variadic parameter received %d elements; the registered []*VaOpt has %d (the slice itself is the dependency)", len(srv.opts), len(vaCur.handed)))
					}
				}()
				c.R.End(idx, eng.Hash("variadic", prop, feat), true)
			}
		}
	}
}
