package core

import (
	"context"
	"errors"
	"fmt"
	"math"
	"reflect"

	"github.com/junioryono/godi/v4"
	"github.com/junioryono/godi/v4/verifh/eng"
	"github.com/junioryono/godi/v4/verifh/pool"
	"github.com/junioryono/godi/v4/verifh/rt"
)

// fuzz constructors / values (top-level: no shared code pointers)
func fzVoid()                            {}
func fzErrOnly() error                   { return nil }
func fzIntParam(i int) *pool.K0          { return &pool.K0{} }
func fzVariadic(xs ...*pool.K1) *pool.K0 { return &pool.K0{} }
func fzChanRet() chan int                { return nil }
func fzChanParam(c chan int) *pool.K0    { return &pool.K0{} }
func fzTwoErr() (error, error)           { return nil, nil }
func fzErrFirst() (error, *pool.K0)      { return nil, &pool.K0{} }
func fzThree() (*pool.K0, *pool.K1, int) { return &pool.K0{}, &pool.K1{}, 0 }
func fzMapRet() map[string]int           { return map[string]int{} }
func fzSliceRet() []*pool.K0             { return []*pool.K0{} }
func fzFuncRet() func()                  { return func() {} }
func fzIfaceRet() any                    { return 1 }
func fzInPtr(in *fzIn) *pool.K0          { return &pool.K0{} }
func fzInBadGroup(in fzInBad) *pool.K0   { return &pool.K0{} }
func fzOutEmpty() fzOutE                 { return fzOutE{} }
func fzOutPtr() *fzOutP                  { return nil }
func fzTwoIn(a fzIn, b fzIn) *pool.K0    { return &pool.K0{} }
func fzStructRet() fzPlain               { return fzPlain{} }
func fzUnsafe(p uintptr) *pool.K0        { return &pool.K0{} }
func fzK0() *pool.K0                     { return &pool.K0{} }
func fzK0b() *pool.K0                    { return &pool.K0{} }
func fzNeedsK1(k *pool.K1) *pool.K2      { return &pool.K2{} }

// last results of concrete types that implement error (not the error interface itself)
func fzStructErr() (*pool.K0, rt.ZeroErr)      { return &pool.K0{}, rt.ZeroErr{} }
func fzIntErr() (*pool.K0, rt.CodeErr)         { return &pool.K0{}, 0 }
func fzPtrErrNil() (*pool.K0, *rt.SentinelErr) { return &pool.K0{}, nil }
func fzPtrErrSet() (*pool.K0, *rt.SentinelErr) { return nil, &rt.SentinelErr{Ctor: -2, Nth: -2} }
func fzStructErrOnly() rt.ZeroErr              { return rt.ZeroErr{} }

// interface implemented by pointer receivers (fzPR) and by value receivers (fzVR)
type fzIface interface{ FzMark() }
type fzPR struct{ n int }
type fzVR struct{ n int }

func (p *fzPR) FzMark() {}
func (v fzVR) FzMark()  {}

func fzValPtrRecv() fzPR  { return fzPR{1} }
func fzValValRecv() fzVR  { return fzVR{1} }
func fzPtrPtrRecv() *fzPR { return &fzPR{1} }

type fzConsumer struct{}
type fzIfaceIn struct {
	godi.In
	Dep fzIface
}
type fzIfaceGroupIn struct {
	godi.In
	Deps []fzIface `group:"fz"`
}

func fzTakesIface(d fzIface) *fzConsumer              { return &fzConsumer{} }
func fzTakesIfaceIn(in fzIfaceIn) *fzConsumer         { return &fzConsumer{} }
func fzTakesIfaceGroup(in fzIfaceGroupIn) *fzConsumer { return &fzConsumer{} }

// multi-output constructors whose LATER outputs cannot be registered
type fzOutResG struct {
	godi.Out
	Svc  *pool.K0
	Hook *pool.K1        `group:"hooks"`
	Ctx  context.Context `group:"contexts"`
}
type fzOutResP struct {
	godi.Out
	Svc *pool.K0
	Sc  godi.Scope
}
type fzOutDupG struct {
	godi.Out
	Hook *pool.K1 `group:"hooks"`
	A    *pool.K0
	B    *pool.K0
}

func fzOutResGrouped() fzOutResG {
	return fzOutResG{Svc: &pool.K0{}, Hook: &pool.K1{}, Ctx: context.Background()}
}
func fzOutResPlain() fzOutResP          { return fzOutResP{Svc: &pool.K0{}} }
func fzMRScope() (*pool.K0, godi.Scope) { return &pool.K0{}, nil }
func fzOutDupAfterGroup() fzOutDupG     { return fzOutDupG{Hook: &pool.K1{}, A: &pool.K0{}, B: &pool.K0{}} }

// outputs that are struct VALUES of a comparable type whose interface-typed field holds an
// uncomparable dynamic value (a func): comparing two of them with == panics at run time
type fzRuleV struct {
	Rule  any
	Field string
}
type fzOutRules struct {
	godi.Out
	A fzRuleV `group:"rules"`
	B fzRuleV `group:"rules"`
}

func fzRules() fzOutRules {
	return fzOutRules{A: fzRuleV{Rule: func() {}, Field: "f"}, B: fzRuleV{Rule: func() {}, Field: "f"}}
}
func fzRulesMR() (fzRuleV, fzRuleV) {
	return fzRuleV{Rule: func() {}, Field: "f"}, fzRuleV{Rule: []int{1}, Field: "f"}
}

type fzIn struct {
	godi.In
	A *pool.K1 `optional:"true"`
}
type fzInBad struct {
	godi.In
	G *pool.K1 `group:"g"` // group field that is not a slice
}
type fzOutE struct{ godi.Out }
type fzOutP struct {
	godi.Out
	A *pool.K0
}
type fzPlain struct{ N int }
type fzKey struct {
	A int
	B string
}

type nilOpt struct{}

func fuzzServices() []struct {
	name string
	v    any
} {
	var nilFn func() *pool.K0
	var nilPtr *pool.K0
	var nilIface any
	return []struct {
		name string
		v    any
	}{
		{"nil", nil}, {"nil-iface", nilIface}, {"typed-nil-func", nilFn}, {"typed-nil-ptr", nilPtr},
		{"int", 0}, {"string", ""}, {"empty-struct", struct{}{}}, {"struct", fzPlain{3}}, {"ptr-struct", &fzPlain{4}},
		{"map", map[string]int{}}, {"slice", []int{1}}, {"chan", make(chan int)}, {"nil-map", map[string]int(nil)},
		{"void", fzVoid}, {"err-only", fzErrOnly}, {"int-param", fzIntParam}, {"variadic", fzVariadic},
		{"chan-ret", fzChanRet}, {"chan-param", fzChanParam}, {"two-errors", fzTwoErr}, {"error-first", fzErrFirst},
		{"three-returns-last-int", fzThree}, {"map-ret", fzMapRet}, {"slice-ret", fzSliceRet}, {"func-ret", fzFuncRet},
		{"any-ret", fzIfaceRet}, {"in-pointer", fzInPtr}, {"in-bad-group", fzInBadGroup}, {"out-empty", fzOutEmpty},
		{"out-pointer", fzOutPtr}, {"two-in-structs", fzTwoIn}, {"struct-ret", fzStructRet}, {"uintptr-param", fzUnsafe},
		{"reflect-value", reflect.ValueOf(fzK0)}, {"reflect-type", reflect.TypeOf(0)}, {"good", fzK0},
		{"struct-typed-error-result", fzStructErr}, {"int-typed-error-result", fzIntErr}, {"pointer-typed-error-result-nil", fzPtrErrNil},
		{"pointer-typed-error-result-set", fzPtrErrSet}, {"struct-typed-error-only", fzStructErrOnly},
		{"out-reserved-type-grouped-last", fzOutResGrouped}, {"out-reserved-type-plain-last", fzOutResPlain}, {"multi-return-reserved-type-last", fzMRScope},
		{"out-duplicate-after-group-field", fzOutDupAfterGroup},
		{"out-values-with-uncomparable-dynamic-field", fzRules}, {"multi-return-values-with-uncomparable-dynamic-field", fzRulesMR},
	}
}

func fuzzOptionSets() []struct {
	name string
	opts []godi.AddOption
} {
	return []struct {
		name string
		opts []godi.AddOption
	}{
		{"none", nil}, {"group", []godi.AddOption{godi.Group("things")}}, {"nil-option", []godi.AddOption{nil}}, {"name-empty", []godi.AddOption{godi.Name("")}},
		{"group-empty", []godi.AddOption{godi.Group("")}}, {"name+group", []godi.AddOption{godi.Name("a"), godi.Group("b")}},
		{"name-backquote", []godi.AddOption{godi.Name("a`b")}}, {"group-backquote", []godi.AddOption{godi.Group("`")}},
		{"as-unimplemented", []godi.AddOption{godi.As[pool.IS7]()}}, {"as-nonInterface", []godi.AddOption{godi.As[int]()}},
		{"as-error", []godi.AddOption{godi.As[error]()}}, {"as-any", []godi.AddOption{godi.As[any]()}},
		{"name-twice", []godi.AddOption{godi.Name("a"), godi.Name("b")}}, {"as+group", []godi.AddOption{godi.As[pool.IK0](), godi.Group("g")}},
	}
}

// guarded runs f under recover and reports an escaping panic.
func guarded(f func()) (pan any) {
	defer func() { pan = recover() }()
	f()
	return nil
}

func runC15Fuzz(c *eng.Ctx, cr *caseRunner) {
	viol := func(idx int, clause, feat, detail string) {
		c.R.Violation(eng.Violation{Prop: "C15", Clause: clause, Sig: "C15/" + clause + ":" + feat, Case: idx, CaseID: fmt.Sprintf("fuzz-%d", idx), Detail: detail})
	}
	svcs := fuzzServices()
	optSets := fuzzOptionSets()
	// registration fuzz: every service value x option set x lifetime
	for si, sv := range svcs {
		idx, mine := cr.next()
		if !mine {
			continue
		}
		c.R.Begin(idx)
		for _, os := range optSets {
			for li, life := range allLifetimes {
				coll := godi.NewCollection()
				var err error
				pan := guarded(func() {
					switch life {
					case godi.Singleton:
						err = coll.AddSingleton(sv.v, os.opts...)
					case godi.Scoped:
						err = coll.AddScoped(sv.v, os.opts...)
					default:
						err = coll.AddTransient(sv.v, os.opts...)
					}
				})
				c.R.Count("fuzz_calls", 1)
				if pan != nil {
					viol(idx, "api-call-panics", "Add:"+sv.name+":"+os.name, fmt.Sprintf("Add%s(%s, %s) panicked: %v", lifeName(life), sv.name, os.name, pan))
					continue
				}
				// a rejected call leaves no partial state: the collection was fresh, so it must be empty
				if err != nil {
					c.R.Count("rejected_adds_checked_for_partial_state", 1)
					if n, sl := coll.Count(), coll.ToSlice(); n != 0 || len(sl) != 0 {
						viol(idx, "partial-state-after-rejected-Add", sv.name+":"+os.name, fmt.Sprintf("Add%s(%s, %s) returned %v but left %d registration(s) behind in a fresh collection (ToSlice: %d)", lifeName(life), sv.name, os.name, trimErr(err), n, len(sl)))
					}
				}
				// whatever was accepted must not make Build / CreateScope / Get / Close panic
				if err == nil && li == si%3 {
					pan := guarded(func() {
						p, berr := coll.Build()
						c.R.Count("fuzz_calls", 1)
						if berr != nil || p == nil {
							return
						}
						sc, serr := p.CreateScope(nil)
						if serr == nil {
							for _, d := range coll.ToSlice() {
								if d != nil && d.Type != nil {
									_, _ = sc.Get(d.Type)
									if d.Key != nil {
										_, _ = sc.GetKeyed(d.Type, d.Key)
									}
									if d.Group != "" {
										_, _ = sc.GetGroup(d.Type, d.Group)
									}
									c.R.Count("fuzz_calls", 3)
								}
							}
							_ = sc.Close()
						}
						_ = p.Close()
					})
					if pan != nil {
						viol(idx, "api-call-panics", "use-after-accepted-Add:"+sv.name+":"+os.name, fmt.Sprintf("after Add%s(%s, %s) was accepted, Build/CreateScope/Get/Close panicked: %v", lifeName(life), sv.name, os.name, pan))
					}
				}
			}
		}
		if c.R.WantSample() && si%9 == 0 {
			c.R.Sample(map[string]any{"kind": "api-fuzz", "service_value": sv.name, "option_sets": len(optSets)})
		}
		c.R.End(idx, eng.Hash("c15-fuzz-add", sv.name), true)
	}
	// whatever an Add call with As accepted must be usable BY CONSUMERS of that interface
	// (positional parameter, parameter-object field, group slice) without a panic: results
	// handed out by value whose interface is implemented by the pointer type only, by the value
	// type, and pointer results
	{
		type aliasCase struct {
			name string
			ctor any
		}
		aliasCases := []aliasCase{
			{"value-result-pointer-receiver", fzValPtrRecv}, {"value-result-value-receiver", fzValValRecv}, {"pointer-result-pointer-receiver", fzPtrPtrRecv},
		}
		consumers := []struct {
			name string
			ctor any
			opts func() []godi.AddOption
		}{
			{"positional", fzTakesIface, nil}, {"in-field", fzTakesIfaceIn, nil}, {"group-slice", fzTakesIfaceGroup, func() []godi.AddOption { return []godi.AddOption{godi.Group("fz")} }},
		}
		for _, ac := range aliasCases {
			idx, mine := cr.next()
			if !mine {
				continue
			}
			c.R.Begin(idx)
			for _, cons := range consumers {
				for _, life := range allLifetimes {
					coll := godi.NewCollection()
					opts := []godi.AddOption{godi.As[fzIface]()}
					if cons.opts != nil {
						opts = append(opts, cons.opts()...)
					}
					var addErr error
					pan := guarded(func() {
						switch life {
						case godi.Singleton:
							addErr = coll.AddSingleton(ac.ctor, opts...)
						case godi.Scoped:
							addErr = coll.AddScoped(ac.ctor, opts...)
						default:
							addErr = coll.AddTransient(ac.ctor, opts...)
						}
					})
					c.R.Count("fuzz_calls", 1)
					if pan != nil {
						viol(idx, "api-call-panics", "Add-As:"+ac.name, fmt.Sprintf("Add%s(%s, As[iface]) panicked: %v", lifeName(life), ac.name, pan))
						continue
					}
					if addErr != nil {
						c.R.Count("alias_adds_rejected", 1)
						continue // rejected up front: fine
					}
					c.R.Count("alias_adds_accepted", 1)
					consLife := godi.Transient
					if life == godi.Scoped {
						consLife = godi.Scoped
					}
					pan = guarded(func() {
						if consLife == godi.Scoped {
							_ = coll.AddScoped(cons.ctor)
						} else {
							_ = coll.AddTransient(cons.ctor)
						}
						p, berr := coll.Build()
						c.R.Count("fuzz_calls", 2)
						if berr != nil || p == nil {
							return
						}
						defer p.Close()
						sc, serr := p.CreateScope(nil)
						if serr != nil {
							return
						}
						defer sc.Close()
						_, _ = sc.Get(reflect.TypeOf((*fzConsumer)(nil)))
						_, _ = godi.Resolve[*fzConsumer](sc)
						_, _ = godi.Resolve[fzIface](sc)
						_, _ = godi.ResolveGroup[fzIface](sc, "fz")
						c.R.Count("fuzz_calls", 4)
					})
					if pan != nil {
						viol(idx, "api-call-panics", "consumer-of-accepted-alias:"+ac.name+":"+cons.name, fmt.Sprintf("Add%s(%s, As[iface]) was accepted; resolving a consumer that takes the interface as %s panicked: %v", lifeName(life), ac.name, cons.name, pan))
					}
				}
			}
			c.R.End(idx, eng.Hash("c15-fuzz-alias", ac.name), true)
		}
	}
	// collection / provider / scope entry points with odd arguments
	type call struct {
		name string
		f    func(coll godi.Collection, p godi.Provider, sc godi.Scope)
	}
	k0 := pool.T("K0")
	keys := []struct {
		name string
		k    any
	}{{"nil", nil}, {"empty-string", ""}, {"int", 7}, {"struct", fzKey{1, "x"}}, {"array", [2]int{1, 2}}, {"pointer", &fzKey{}}, {"nan", math.NaN()}, {"bool", true}, {"typed-nil-ptr", (*int)(nil)}, {"reflect-type", reflect.TypeOf(0)}}
	var calls []call
	for _, kk := range keys {
		kk := kk
		calls = append(calls,
			call{"GetKeyed(key=" + kk.name + ")", func(_ godi.Collection, p godi.Provider, sc godi.Scope) {
				_, _ = sc.GetKeyed(k0, kk.k)
				_, _ = p.GetKeyed(k0, kk.k)
			}},
			call{"ContainsKeyed/RemoveKeyed(key=" + kk.name + ")", func(coll godi.Collection, _ godi.Provider, _ godi.Scope) {
				_ = coll.ContainsKeyed(k0, kk.k)
				coll.RemoveKeyed(k0, kk.k)
			}},
			call{"ResolveKeyed(key=" + kk.name + ")", func(_ godi.Collection, p godi.Provider, sc godi.Scope) { _, _ = godi.ResolveKeyed[*pool.K0](sc, kk.k) }},
			call{"RemoveKeyed-module(key=" + kk.name + ")", func(coll godi.Collection, _ godi.Provider, _ godi.Scope) {
				_ = coll.AddModules(godi.RemoveKeyed[*pool.K0](kk.k))
			}},
		)
	}
	calls = append(calls,
		call{"Get(nil)", func(_ godi.Collection, p godi.Provider, sc godi.Scope) { _, _ = sc.Get(nil); _, _ = p.Get(nil) }},
		call{"GetKeyed(nil,nil)", func(_ godi.Collection, p godi.Provider, sc godi.Scope) {
			_, _ = sc.GetKeyed(nil, nil)
			_, _ = p.GetKeyed(nil, "k")
		}},
		call{"GetGroup(nil,'')", func(_ godi.Collection, p godi.Provider, sc godi.Scope) {
			_, _ = sc.GetGroup(nil, "")
			_, _ = p.GetGroup(k0, "")
			_, _ = sc.GetGroup(k0, "nope")
		}},
		call{"Get(unregistered)", func(_ godi.Collection, p godi.Provider, sc godi.Scope) {
			_, _ = sc.Get(reflect.TypeOf(0))
			_, _ = p.Get(reflect.TypeOf((*error)(nil)).Elem())
		}},
		call{"CreateScope(nil)", func(_ godi.Collection, p godi.Provider, sc godi.Scope) {
			if s2, err := sc.CreateScope(nil); err == nil {
				_ = s2.Close()
			}
			if s3, err := p.CreateScope(nil); err == nil {
				_ = s3.Close()
			}
		}},
		call{"CreateScope(cancelled ctx)", func(_ godi.Collection, p godi.Provider, _ godi.Scope) {
			ctx, cancel := context.WithCancel(context.Background())
			cancel()
			if s2, err := p.CreateScope(ctx); err == nil {
				_, _ = s2.Get(k0)
				_ = s2.Close()
			}
		}},
		call{"Resolve(nil provider)", func(_ godi.Collection, _ godi.Provider, _ godi.Scope) {
			_, _ = godi.Resolve[*pool.K0](nil)
			_, _ = godi.ResolveKeyed[*pool.K0](nil, "k")
			_, _ = godi.ResolveGroup[*pool.K0](nil, "g")
		}},
		call{"Resolve(mismatched T)", func(_ godi.Collection, p godi.Provider, sc godi.Scope) {
			_, _ = godi.Resolve[int](sc)
			_, _ = godi.Resolve[pool.K0](sc)
			_, _ = godi.ResolveGroup[*pool.K0](sc, "")
			_, _ = godi.ResolveKeyed[*pool.K0](sc, nil)
			_, _ = godi.Resolve[error](p)
		}},
		call{"FromContext(nil / no scope)", func(_ godi.Collection, _ godi.Provider, _ godi.Scope) {
			_, _ = godi.FromContext(nil) //nolint
			_, _ = godi.FromContext(context.Background())
		}},
		call{"Contains/Remove(nil)", func(coll godi.Collection, _ godi.Provider, _ godi.Scope) {
			_ = coll.Contains(nil)
			_ = coll.ContainsKeyed(nil, nil)
			coll.Remove(nil)
			coll.RemoveKeyed(nil, nil)
			_ = coll.Count()
			_ = coll.ToSlice()
		}},
		call{"AddModules(nil, nested nil)", func(coll godi.Collection, _ godi.Provider, _ godi.Scope) {
			_ = coll.AddModules()
			_ = coll.AddModules(nil, nil)
			_ = coll.AddModules(godi.NewModule("", nil, godi.NewModule("x"), nil))
			_ = coll.AddModules(godi.AddSingleton(nil), godi.AddScoped(nil, nil), godi.AddTransient(0))
		}},
		call{"module options applied to a nil Collection", func(_ godi.Collection, _ godi.Provider, _ godi.Scope) {
			// a ModuleOption is an exported func(Collection) error: calling it is an API call
			_ = godi.AddSingleton(pool.Ctors[0].Fn)(nil)
			_ = godi.AddScoped(pool.Ctors[0].Fn)(nil)
			_ = godi.AddTransient(pool.Ctors[0].Fn, godi.Name("k"))(nil)
			_ = godi.Remove[*pool.K0]()(nil)
			_ = godi.RemoveKeyed[*pool.K0]("k")(nil)
			_ = godi.NewModule("m", godi.AddSingleton(pool.Ctors[0].Fn), godi.Remove[*pool.K1]())(nil)
		}},
		call{"Build variants", func(coll godi.Collection, _ godi.Provider, _ godi.Scope) {
			ctx, cancel := context.WithCancel(context.Background())
			cancel()
			if p, err := coll.BuildWithContext(ctx); err == nil {
				_ = p.Close()
			}
			if p, err := coll.BuildWithContext(nil); err == nil { //nolint
				_ = p.Close()
			}
			if p, err := coll.BuildWithOptions(nil); err == nil {
				_ = p.Close()
			}
			if p, err := coll.BuildWithOptions(&godi.ProviderOptions{BuildTimeout: 1}); err == nil {
				_ = p.Close()
			}
			if p, err := coll.BuildWithOptions(&godi.ProviderOptions{BuildTimeout: -5}); err == nil {
				_ = p.Close()
			}
		}},
		call{"use after Close", func(_ godi.Collection, p godi.Provider, sc godi.Scope) {
			_ = sc.Close()
			_ = sc.Close()
			_, _ = sc.Get(k0)
			_, _ = sc.GetKeyed(k0, "k")
			_, _ = sc.GetGroup(k0, "g")
			_, _ = sc.CreateScope(context.Background())
			_ = sc.Context()
			_ = sc.Provider()
			_ = p.Close()
			_ = p.Close()
			_, _ = p.Get(k0)
			_, _ = p.GetKeyed(k0, "k")
			_, _ = p.GetGroup(k0, "g")
			_, _ = p.CreateScope(nil)
			_ = p.ID()
			_, _ = sc.Get(k0)
			_, _ = godi.Resolve[*pool.K0](sc)
		}},
	)
	for ci, cl := range calls {
		idx, mine := cr.next()
		if !mine {
			continue
		}
		c.R.Begin(idx)
		coll := godi.NewCollection()
		_ = coll.AddSingleton(fzK0)
		_ = coll.AddScoped(fzK0b, godi.Name("k"))
		_ = coll.AddTransient(pool.ByName("Leaf_K1_a").Fn, godi.Group("g"))
		_ = coll.AddScoped(fzNeedsK1)
		p, err := coll.Build()
		var sc godi.Scope
		if err == nil {
			sc, err = p.CreateScope(context.Background())
		}
		if err != nil {
			// the fixture itself is not buildable on this tree (e.g. fzNeedsK1 has no K1): use a smaller one
			coll = godi.NewCollection()
			_ = coll.AddSingleton(fzK0)
			_ = coll.AddScoped(fzK0b, godi.Name("k"))
			p, err = coll.Build()
			if err == nil {
				sc, err = p.CreateScope(context.Background())
			}
		}
		if err != nil {
			c.R.Inconclusive(idx, "fuzz fixture does not build: "+err.Error())
			c.R.End(idx, eng.Hash("c15-fuzz-call", cl.name), false)
			continue
		}
		pan := guarded(func() { cl.f(coll, p, sc) })
		c.R.Count("fuzz_calls", 1)
		if pan != nil {
			viol(idx, "api-call-panics", "call:"+stripKey(cl.name), fmt.Sprintf("%s panicked: %v", cl.name, pan))
		}
		_ = guarded(func() { _ = sc.Close(); _ = p.Close() })
		if c.R.WantSample() && ci%10 == 0 {
			c.R.Sample(map[string]any{"kind": "api-fuzz-call", "call": cl.name})
		}
		c.R.End(idx, eng.Hash("c15-fuzz-call", cl.name), true)
	}
	// Must* helpers panic by contract (and only then)
	idx, mine := cr.next()
	if mine {
		c.R.Begin(idx)
		coll := godi.NewCollection()
		_ = coll.AddSingleton(fzK0)
		p, err := coll.Build()
		if err == nil {
			if pan := guarded(func() { _ = godi.MustResolve[*pool.K0](p) }); pan != nil {
				viol(idx, "must-panics-on-success", "MustResolve", fmt.Sprintf("MustResolve of a registered service panicked: %v", pan))
			}
			if pan := guarded(func() { _ = godi.MustResolve[*pool.K1](p) }); pan == nil {
				viol(idx, "must-does-not-panic", "MustResolve", "MustResolve of an unregistered service did not panic")
			}
			if pan := guarded(func() { _ = godi.MustResolveKeyed[*pool.K1](p, "k") }); pan == nil {
				viol(idx, "must-does-not-panic", "MustResolveKeyed", "MustResolveKeyed of an unregistered service did not panic")
			}
			if pan := guarded(func() { _ = godi.MustResolveGroup[*pool.K1](p, "g") }); pan != nil {
				viol(idx, "must-panics-on-success", "MustResolveGroup", fmt.Sprintf("MustResolveGroup of an empty group panicked: %v", pan))
			}
			c.R.Count("fuzz_calls", 4)
			_ = p.Close()
		}
		c.R.End(idx, eng.Hash("c15-must"), true)
	}
}

func stripKey(s string) string {
	for i := 0; i < len(s); i++ {
		if s[i] == '(' {
			return s[:i]
		}
	}
	return s
}

// runC15Classes probes that the class errors stay distinguishable through every wrapper.
func runC15Classes(c *eng.Ctx, cr *caseRunner) {
	type probe struct {
		name string
		run  func() (error, string) // returns the error and the class it must classify as
	}
	dup := func(c godi.Collection) error { return c.AddSingleton(pool.ByName("Leaf_K0_a").Fn) }
	probes := []probe{
		{"already-registered:direct", func() (error, string) {
			coll := godi.NewCollection()
			_ = dup(coll)
			return coll.AddSingleton(pool.ByName("Leaf_K0_b").Fn), "already-registered"
		}},
		{"already-registered:keyed", func() (error, string) {
			coll := godi.NewCollection()
			_ = coll.AddScoped(pool.ByName("Leaf_K0_a").Fn, godi.Name("k"))
			return coll.AddTransient(pool.ByName("Leaf_K0_b").Fn, godi.Name("k")), "already-registered"
		}},
		{"already-registered:alias", func() (error, string) {
			coll := godi.NewCollection()
			_ = coll.AddScoped(pool.ByName("Leaf_K0_a").Fn, pool.AsOption("IK0"))
			return coll.AddScoped(pool.ByName("Leaf_K0_b").Fn, pool.AsOption("IK0")), "already-registered"
		}},
		{"already-registered:multi-return", func() (error, string) {
			coll := godi.NewCollection()
			_ = coll.AddSingleton(pool.ByName("Leaf_K1_a").Fn)
			return coll.AddSingleton(pool.ByName("MR_K0K1").Fn), "already-registered"
		}},
		{"already-registered:out-field", func() (error, string) {
			coll := godi.NewCollection()
			_ = coll.AddSingleton(pool.ByName("Leaf_K1_a").Fn)
			return coll.AddSingleton(pool.ByName("OutP_K0K1").Fn), "already-registered"
		}},
		{"already-registered:module-nested", func() (error, string) {
			coll := godi.NewCollection()
			return coll.AddModules(godi.NewModule("outer", godi.NewModule("inner", godi.AddSingleton(pool.ByName("Leaf_K0_a").Fn), godi.AddSingleton(pool.ByName("Leaf_K0_b").Fn)))), "already-registered"
		}},
		{"circular:build", func() (error, string) {
			coll := godi.NewCollection()
			_ = coll.AddScoped(pool.ByName("PosA_0_2").Fn)
			_ = coll.AddScoped(pool.ByName("PosA_1_1").Fn)
			_, err := coll.Build()
			return err, "circular"
		}},
		{"circular:build-with-context", func() (error, string) {
			coll := godi.NewCollection()
			_ = coll.AddSingleton(pool.ByName("PosA_0_1").Fn)
			_, err := coll.BuildWithContext(context.Background())
			return err, "circular"
		}},
		{"lifetime:build", func() (error, string) {
			coll := godi.NewCollection()
			_ = coll.AddScoped(pool.ByName("Leaf_K1_a").Fn)
			_ = coll.AddSingleton(pool.ByName("PosA_0_2").Fn)
			_, err := coll.Build()
			return err, "lifetime"
		}},
		{"lifetime:build-with-options", func() (error, string) {
			coll := godi.NewCollection()
			_ = coll.AddScoped(pool.ByName("Leaf_K1_a").Fn)
			_ = coll.AddTransient(pool.ByName("PosB_0_2").Fn)
			_, err := coll.BuildWithOptions(&godi.ProviderOptions{})
			return err, "lifetime"
		}},
		{"not-found:get", func() (error, string) {
			coll := godi.NewCollection()
			_ = dup(coll)
			p, _ := coll.Build()
			defer p.Close()
			_, err := p.Get(pool.T("K1"))
			return err, "not-found"
		}},
		{"not-found:generic-keyed", func() (error, string) {
			coll := godi.NewCollection()
			_ = dup(coll)
			p, _ := coll.Build()
			defer p.Close()
			_, err := godi.ResolveKeyed[*pool.K0](p, "zzz")
			return err, "not-found"
		}},
		{"scope-disposed:get", func() (error, string) {
			coll := godi.NewCollection()
			_ = dup(coll)
			p, _ := coll.Build()
			defer p.Close()
			sc, _ := p.CreateScope(nil)
			_ = sc.Close()
			_, err := godi.Resolve[*pool.K0](sc)
			return err, "scope-disposed"
		}},
		{"scope-disposed:create-child", func() (error, string) {
			coll := godi.NewCollection()
			_ = dup(coll)
			p, _ := coll.Build()
			defer p.Close()
			sc, _ := p.CreateScope(nil)
			_ = sc.Close()
			_, err := sc.CreateScope(nil)
			return err, "scope-disposed"
		}},
		{"provider-disposed:get", func() (error, string) {
			coll := godi.NewCollection()
			_ = dup(coll)
			p, _ := coll.Build()
			_ = p.Close()
			_, err := godi.ResolveGroup[*pool.K0](p, "g")
			return err, "provider-disposed"
		}},
		{"provider-disposed:create-scope", func() (error, string) {
			coll := godi.NewCollection()
			_ = dup(coll)
			p, _ := coll.Build()
			_ = p.Close()
			_, err := p.CreateScope(context.Background())
			return err, "provider-disposed"
		}},
	}
	// "... distinguishable ... through every Build": the same classes when the failing set was
	// reached by editing a collection that had been built successfully before (a service swapped
	// for one of another lifetime, a dependency replaced by one that closes a cycle), with the
	// first provider closed or still alive
	for i, s := range SwapSpecs(true) {
		s := s
		probes = append(probes, probe{fmt.Sprintf("lifetime:second-build-after-swap:%s:%d", pool.Ctors[s.Regs[2].Ctor].Name, i%4), func() (error, string) {
			r := NewRun(s, NewModel(s), nil, nil)
			r.Build()
			r.Finish()
			if r.BuildPanic != nil {
				panic(r.BuildPanic)
			}
			return r.BuildErr, "lifetime"
		}})
	}
	for _, keep := range []bool{false, true} {
		for _, life := range allLifetimes {
			s := &Spec{RebuildAfter: 2, KeepSibling: keep, Regs: []Reg{mkReg("Leaf_K1_a", life), mkReg("PosA_0_2", life), {Remove: true, RmType: "K1", Tail: true}, tailReg(mkReg("PosA_1_1", life))}}
			probes = append(probes, probe{fmt.Sprintf("circular:second-build-after-swap:%s:sibling-alive=%v", lifeName(life), keep), func() (error, string) {
				r := NewRun(s, NewModel(s), nil, nil)
				r.Build()
				r.Finish()
				if r.BuildPanic != nil {
					panic(r.BuildPanic)
				}
				return r.BuildErr, "circular"
			}})
		}
	}
	for _, pr := range probes {
		idx, mine := cr.next()
		if !mine {
			continue
		}
		c.R.Begin(idx)
		var err error
		var want string
		pan := guarded(func() { err, want = pr.run() })
		c.R.Count("class_probes", 1)
		switch {
		case pan != nil:
			c.R.Violation(eng.Violation{Prop: "C15", Clause: "api-call-panics", Sig: "C15/api-call-panics:class-probe:" + pr.name, Case: idx, CaseID: pr.name, Detail: fmt.Sprintf("%s panicked: %v", pr.name, pan)})
		case err == nil:
			c.R.Violation(eng.Violation{Prop: "C15", Clause: "failure-not-reported", Sig: "C15/failure-not-reported:" + pr.name, Case: idx, CaseID: pr.name, Detail: pr.name + ": the call returned no error"})
		case Classify(err) != want:
			c.R.Violation(eng.Violation{Prop: "C15", Clause: "class-not-distinguishable", Sig: "C15/class-not-distinguishable:" + pr.name, Case: idx, CaseID: pr.name, Detail: fmt.Sprintf("%s: errors.Is/As classify the error as %q, want %q: %v", pr.name, Classify(err), want, trimErr(err))})
		}
		if pr.name == "already-registered:module-nested" && err != nil {
			var me godi.ModuleError
			var mp *godi.ModuleError
			if !errors.As(err, &me) && !errors.As(err, &mp) {
				c.R.Violation(eng.Violation{Prop: "C15", Clause: "class-not-distinguishable", Sig: "C15/class-not-distinguishable:module-error", Case: idx, CaseID: pr.name, Detail: "errors.As(ModuleError) fails on an error returned through nested modules"})
			}
		}
		if c.R.WantSample() && want == "circular" {
			c.R.Sample(map[string]any{"kind": "class-probe", "probe": pr.name, "classified_as": Classify(err)})
		}
		c.R.End(idx, eng.Hash("c15-class", pr.name), true)
	}
}
