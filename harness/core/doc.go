// Package core — see /verif/DESIGN.md.
package core
