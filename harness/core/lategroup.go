package core

import (
	"fmt"
	"reflect"
	"time"

	"github.com/junioryono/godi/v4"
	"github.com/junioryono/godi/v4/verifh/eng"
)

// "If Build succeeds, no singleton and no transient can EVER be constructed with an instance of a
// scoped registration": also not after the collection the provider came from was edited. The set
// is valid when it is built (a transient / singleton consumer of a group whose members are all
// singletons or transients); afterwards a SCOPED member joins the group on the collection (alone,
// or next to other edits). A second Build is refused - and the provider built before must keep
// constructing its consumers from the registrations it was validated with.

type lgPlugin struct {
	name   string
	scoped bool
}
type lgIn struct {
	godi.In
	Plugins []*lgPlugin `group:"plugins"`
}
type lgHost struct{ plugins []*lgPlugin }
type lgOther struct{}

// RunLateScopedGroupMember is part of C07.
func RunLateScopedGroupMember(c *eng.Ctx, next func() (int, bool)) {
	for _, consumer := range []godi.Lifetime{godi.Transient, godi.Singleton} {
		for _, edit := range []string{"scoped-member-added", "unrelated-service-added-then-scoped-member", "scoped-member-added-then-unrelated-removed", "scoped-member-added-through-a-module", "scoped-member-added-twice-builds-in-between"} {
			idx, mine := next()
			if !mine {
				continue
			}
			c.R.Begin(idx)
			feat := edit + ":" + lifeName(consumer) + "<-scoped:group"
			viol := func(clause, detail string) {
				c.R.Violation(eng.Violation{Prop: "C07", Clause: clause, Sig: "C07/" + clause + ":member-registered-after-Build:" + feat, Case: idx, CaseID: "late-group-member-" + feat,
					Detail: feat + ": " + detail, Replay: map[string]any{"fixture": "late-scoped-group-member", "edit": edit, "consumer": lifeName(consumer)}})
			}
			done := make(chan struct{})
			var pan any
			var captive []string
			var resolved int
			var secondBuildOK bool
			go func() {
				defer close(done)
				defer func() { pan = recover() }()
				coll := godi.NewCollection()
				must := func(err error) {
					if err != nil {
						panic("late-group-member fixture: " + err.Error())
					}
				}
				must(coll.AddSingleton(func() *lgPlugin { return &lgPlugin{name: "a"} }, godi.Group("plugins")))
				must(coll.AddTransient(func() *lgPlugin { return &lgPlugin{name: "b"} }, godi.Group("plugins")))
				must(eqAdd(coll, consumer, func(in lgIn) *lgHost { return &lgHost{in.Plugins} }))
				p1, err := coll.Build()
				must(err)
				defer func() { _ = p1.Close() }()
				late := func() error {
					return coll.AddScoped(func() *lgPlugin { return &lgPlugin{name: "late", scoped: true} }, godi.Group("plugins"))
				}
				switch edit {
				case "scoped-member-added":
					must(late())
				case "unrelated-service-added-then-scoped-member":
					must(coll.AddSingleton(func() *lgOther { return &lgOther{} }))
					must(late())
				case "scoped-member-added-then-unrelated-removed":
					must(late())
					must(coll.AddSingleton(func() *lgOther { return &lgOther{} }))
					coll.Remove(reflect.TypeOf((*lgOther)(nil)))
				case "scoped-member-added-through-a-module":
					must(coll.AddModules(godi.NewModule("late", godi.AddScoped(func() *lgPlugin { return &lgPlugin{name: "late", scoped: true} }, godi.Group("plugins")))))
				case "scoped-member-added-twice-builds-in-between":
					must(late())
					if p, err := coll.Build(); err == nil {
						secondBuildOK = true
						_ = p.Close()
					}
					must(late())
				}
				if p, err := coll.Build(); err == nil {
					secondBuildOK = true
					_ = p.Close()
				}
				// the provider built BEFORE the edit
				for _, from := range []string{"new-scope", "root"} {
					var res godi.Provider = p1
					if from == "new-scope" {
						sc, err := p1.CreateScope(nil)
						must(err)
						defer func() { _ = sc.Close() }()
						res = sc
					}
					for k := 0; k < 2; k++ {
						h, err := godi.Resolve[*lgHost](res)
						if err != nil || h == nil {
							continue
						}
						resolved++
						for _, pl := range h.plugins {
							if pl != nil && pl.scoped {
								captive = append(captive, fmt.Sprintf("%s consumer resolved from %s received plugin %q of the scoped registration", lifeName(consumer), from, pl.name))
							}
						}
					}
				}
			}()
			if v := eng.AwaitOrDiagnose(done, 20*time.Second); !v.Done {
				c.R.Inconclusive(idx, "late-group-member case did not finish within the watchdog")
				c.R.Abandon(idx)
				continue
			}
			if pan != nil {
				panic(fmt.Sprintf("harness fixture of C07 (late scoped group member, %s): %v", feat, pan))
			}
			if len(captive) > 0 {
				viol("captive-instance", fmt.Sprintf("the provider was built from a valid set; a scoped member was registered in the group on the collection afterwards; %d deliveries: %s", len(captive), captive[0]))
			}
			if secondBuildOK {
				viol("conflict-accepted", "Build of the edited collection succeeded although a "+lifeName(consumer)+" consumes a group that now has a scoped member")
			}
			c.R.Count("late_group_member_cases", 1)
			c.R.Count("late_group_member_consumer_resolutions", int64(resolved))
			c.R.End(idx, eng.Hash("c07-late-group-member", feat), resolved > 0)
		}
	}
}
