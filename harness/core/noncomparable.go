package core

import (
	"fmt"
	"sync"

	"github.com/junioryono/godi/v4"
	"github.com/junioryono/godi/v4/verifh/eng"
)

// Disposables of NON-COMPARABLE types - a slice of connections, a map of handles - that have a
// Close method. They are instances like any other: one that the container created and serves
// under several identities (As aliases) is still ONE instance, "closed exactly once" when its
// owner is closed; two instances of one constructor call are two.

type ncCell struct{ closes int }
type NcConns []*ncCell
type NcHandles map[string]*ncCell
type NcCloser interface{ Close() error }
type NcLener interface{ Len() int }

var ncMu sync.Mutex

func (c NcConns) Close() error {
	ncMu.Lock()
	defer ncMu.Unlock()
	for _, x := range c {
		x.closes++
	}
	return nil
}
func (c NcConns) Len() int { return len(c) }
func (h NcHandles) Close() error {
	ncMu.Lock()
	defer ncMu.Unlock()
	for _, x := range h {
		x.closes++
	}
	return nil
}
func (h NcHandles) Len() int { return len(h) }

// RunNonComparableDisposables runs the catalogue for C10.
func RunNonComparableDisposables(c *eng.Ctx, next func() (int, bool)) {
	for _, kind := range []string{"slice", "map"} {
		for _, form := range []string{"plain", "two-aliases"} {
			for _, life := range allLifetimes {
				idx, mine := next()
				if !mine {
					continue
				}
				c.R.Begin(idx)
				feat := kind + ":" + form + ":" + lifeName(life)
				viol := func(clause, detail string) {
					c.R.Violation(eng.Violation{Prop: "C10", Clause: clause, Sig: "C10/" + clause + ":non-comparable-disposable:" + feat, Case: idx, CaseID: "non-comparable-disposable-" + feat,
						Detail: feat + ": " + detail, Replay: map[string]any{"fixture": "non-comparable-disposables", "kind": kind, "form": form, "lifetime": lifeName(life)}})
				}
				func() {
					defer func() {
						if p := recover(); p != nil {
							viol("panic", fmt.Sprintf("panic: %v", p))
						}
					}()
					var cells []*ncCell
					mk := func() *ncCell {
						ncMu.Lock()
						defer ncMu.Unlock()
						x := &ncCell{}
						cells = append(cells, x)
						return x
					}
					var ctor any
					if kind == "slice" {
						ctor = func() NcConns { return NcConns{mk()} }
					} else {
						ctor = func() NcHandles { return NcHandles{"a": mk()} }
					}
					var opts []godi.AddOption
					switch form {
					case "two-aliases":
						opts = []godi.AddOption{godi.As[NcCloser](), godi.As[NcLener]()}
					}
					coll := godi.NewCollection()
					if err := eqAdd(coll, life, ctor, opts...); err != nil {
						c.R.Inconclusive(idx, "fixture registration refused: "+err.Error())
						return
					}
					prov, err := coll.Build()
					if err != nil {
						c.R.Inconclusive(idx, "fixture does not build: "+err.Error())
						return
					}
					use := func(p godi.Provider) {
						switch form {
						case "plain":
							if kind == "slice" {
								_, _ = godi.Resolve[NcConns](p)
							} else {
								_, _ = godi.Resolve[NcHandles](p)
							}
						case "two-aliases":
							_, _ = godi.Resolve[NcLener](p)
							_, _ = godi.Resolve[NcCloser](p)
						default:
							_, _ = godi.Resolve[NcLener](p)
						}
					}
					for i := 0; i < 3; i++ {
						sc, err := prov.CreateScope(nil)
						if err != nil {
							viol("scope-creation-failed", err.Error())
							return
						}
						use(sc)
						if i == 1 {
							use(sc)
						}
						_ = sc.Close()
					}
					_ = prov.Close()
					ncMu.Lock()
					defer ncMu.Unlock()
					for i, x := range cells {
						if x.closes != 1 {
							viol("close-count", fmt.Sprintf("instance %d of %d (a %s with a Close method, created by the container) was closed %d times after every scope and the provider were closed", i, len(cells), kind, x.closes))
							break
						}
					}
					c.R.Count("non_comparable_disposables_created", int64(len(cells)))
				}()
				c.R.End(idx, eng.Hash("c10-non-comparable", feat), true)
			}
		}
	}
}
