package core

import (
	"errors"
	"fmt"
	"math/rand"
	"reflect"
	"sort"
	"strings"

	"github.com/junioryono/godi/v4"
	"github.com/junioryono/godi/v4/internal/graph"
	"github.com/junioryono/godi/v4/verifh/eng"
	"github.com/junioryono/godi/v4/verifh/graphx"
	"github.com/junioryono/godi/v4/verifh/pool"
)

// ---------------------------------------------------------------- C05 (container half)

// cycleNode is a node of the model's identity graph as godi may name it in a reported path.
type cycleNode struct {
	reg   int      // >= 0: a registration
	group GroupKey // otherwise: a consumed group (intermediate node)
}

var typeNameOf = func() map[reflect.Type]string {
	m := map[reflect.Type]string{}
	for name, ti := range pool.Types {
		m[ti.RT] = name
	}
	return m
}()

// mapNodeKey maps a graph.NodeKey of a reported path onto the model.
func mapNodeKey(m *Model, k graph.NodeKey) (cycleNode, bool) {
	tn := typeNameOf[k.Type]
	if tn == "" {
		return cycleNode{}, false
	}
	if k.Group != "" {
		gk := GroupKey{tn, k.Group}
		if k.Key == nil {
			return cycleNode{reg: -1, group: gk}, true
		}
		// member: numeric key = 1-based position in the group
		if idx, ok := k.Key.(int); ok && idx >= 1 && idx <= len(m.Groups[gk]) {
			return cycleNode{reg: m.Groups[gk][idx-1].Reg}, true
		}
		return cycleNode{}, false
	}
	key := ""
	if k.Key != nil {
		s, ok := k.Key.(string)
		if !ok {
			return cycleNode{}, false
		}
		key = s
	}
	if p, ok := m.Services[IdentKey{tn, key}]; ok {
		return cycleNode{reg: p.Reg}, true
	}
	return cycleNode{}, false
}

// checkCyclePath verifies that the reported path is a closed walk along model dependencies.
// Group nodes are contracted: reg -> group -> member counts as the edge reg -> member.
func checkCyclePath(m *Model, path []graph.NodeKey) string {
	if len(path) == 0 {
		return "the reported path is empty"
	}
	var regs []int
	names := make([]string, len(path))
	for i, k := range path {
		names[i] = k.String()
		n, ok := mapNodeKey(m, k)
		if !ok {
			return fmt.Sprintf("path element %d (%s) is not a registered identity (path: %s)", i, k.String(), strings.Join(names[:i+1], " -> "))
		}
		if n.reg >= 0 {
			regs = append(regs, n.reg)
		}
	}
	for i := range path {
		names[i] = path[i].String()
	}
	if len(regs) == 0 {
		return "the reported path contains no registration"
	}
	// drop an explicit closing repetition
	if len(regs) > 1 && regs[len(regs)-1] == regs[0] {
		regs = regs[:len(regs)-1]
	}
	for i := range regs {
		a, b := regs[i], regs[(i+1)%len(regs)]
		if !m.HasEdge(a, b) {
			return fmt.Sprintf("reported path %s: %s does not depend on %s", strings.Join(names, " -> "), m.Describe(a), m.Describe(b))
		}
	}
	return ""
}

func cycleFeature(m *Model) string {
	cyc := m.findCycle()
	if cyc == nil {
		return "acyclic"
	}
	forms := map[string]bool{}
	lifes := map[string]bool{}
	for i, a := range cyc {
		b := cyc[(i+1)%len(cyc)]
		lifes[lifeName(m.Regs[a].Life)] = true
		for _, bd := range m.Regs[a].Binds {
			for _, t := range bd.Targets {
				if t.Reg == b {
					forms[bd.Dep.Form.String()] = true
				}
			}
		}
	}
	var fs, ls []string
	for f := range forms {
		fs = append(fs, f)
	}
	for l := range lifes {
		ls = append(ls, l)
	}
	sort.Strings(fs)
	sort.Strings(ls)
	return "cycle-via:" + strings.Join(fs, "+") + ":" + strings.Join(ls, "+")
}

func init() {
	eng.Register(&eng.Property{
		ID: "C05", Level: "exploration",
		Rule: "graph component: ALL digraphs on 1..4 labelled nodes incl. self-loops (2+16+512+65536), each inserted deferred+DetectCycles and incrementally with AddProvider in two insertion orders, plus seeded random graphs of 5-40 nodes with keyed/grouped identities; oracle: IsAcyclic/DetectCycles agree with an independent DFS, and a reported Path is a closed walk along inserted edges. " +
			"Container level: digraphs over K0..K3 realised with plain / keyed / group / optional / alias / parameter-object edges and all-same or conflict-free lifetimes (a seeded sample in quick, all 65536 x forms in thorough) plus random larger sets; oracle: Build fails with CircularDependencyError exactly when the model's identity graph (group edges expanded to members) has a cycle, the reported path maps edge by edge onto model dependencies, and after a successful Build every identity resolves (a stack overflow kills the worker and is attributed to the journaled case). " +
			"Non-trivial: >=1 edge; distinct = digraph/spec hash.",
		Shards:     func(tier string) int { return 16 },
		Run:        runC05,
		NeedEvents: []string{"graph_digraphs", "graph_cyclic", "graph_acyclic", "builds_ok", "builds_circular"},
		Assumptions: []string{"both path conventions are accepted (closing node repeated or not); group placeholder nodes in a reported path are contracted before the edge-by-edge comparison",
			"runtime stack limit of the worker is lowered to 64 MB so that non-terminating resolution is reported quickly"},
	})
}

func runC05(c *eng.Ctx) {
	BuildDoors = true // Build / BuildWithContext / BuildWithOptions in turn (a function of the spec)
	cr := &caseRunner{c: c, prop: "C05"}
	runC05Graph(c, cr)
	RunInitializerCycles(c, cr.next)
	RunLiveProviderVsCyclicEdit(c, cr.next)
	RunRefusedThenValid(c, "C05", cr.next)
	RunRetryTerminates(c, cr.next)
	lifeSets := [][4]godi.Lifetime{
		{godi.Singleton, godi.Singleton, godi.Singleton, godi.Singleton},
		{godi.Scoped, godi.Scoped, godi.Scoped, godi.Scoped},
		{godi.Transient, godi.Transient, godi.Transient, godi.Transient},
		{godi.Scoped, godi.Singleton, godi.Scoped, godi.Transient}, // may conflict: filtered by the model
	}
	var exec func(idx int, s *Spec, m *Model, kind string)
	execInner := func(idx int, s *Spec, m *Model, kind string) {
		r := NewRun(s, m, nil, nil)
		r.Build()
		cls := r.Results[0].Class
		var fs []Finding
		feat := cycleFeature(m)
		if s.RebuildAfter > 0 {
			feat += ":after-an-earlier-build-of-the-collection"
		}
		switch {
		case m.Cyclic && r.Built:
			fs = append(fs, Finding{"cycle-accepted", feat, "Build succeeded although the registered services contain a dependency cycle: " + describeCycle(m)})
		case m.Cyclic && cls != "circular":
			// "fails with a circular-dependency error exactly when ... contains a directed cycle":
			// prescribed also when the set has a further defect
			other := ""
			if m.Conflict {
				other += ":also-lifetime-conflict"
			}
			if m.Missing {
				other += ":also-missing-dependency"
			}
			fs = append(fs, Finding{"cycle-wrong-error", feat + ":" + cls + other, fmt.Sprintf("Build failed, but not with a circular-dependency error (%s): %v", cls, trimErr(r.BuildErr))})
		case !m.Cyclic && cls == "circular":
			fs = append(fs, Finding{"false-cycle", feat, fmt.Sprintf("Build reports a dependency cycle but the dependency relation is acyclic: %v", trimErr(r.BuildErr))})
		}
		if cls == "circular" && m.Cyclic {
			var ce *godi.CircularDependencyError
			if errors.As(r.BuildErr, &ce) {
				if msg := checkCyclePath(m, ce.Path); msg != "" {
					fs = append(fs, Finding{"reported-path-not-a-cycle", pathShape(m), msg})
				}
				c.R.Count("paths_checked", 1)
			}
		}
		if r.Built {
			// termination: resolve everything in a fresh scope (a cycle that slipped through
			// overflows the stack; the journal attributes the crash to this case)
			a := r.Do(Op{Kind: OpCreate, Scope: 0, CtxKind: 1})
			ProbeRegistered(r, a.NewScope)
			b := r.Do(Op{Kind: OpCreate, Scope: 0, CtxKind: 1})
			ProbeRegisteredReverse(r, b.NewScope)
			ProbeRegistered(r, 0)
			r.Finish()
			c.R.Count("builds_ok", 1)
			c.R.Count("resolutions_terminated", int64(len(r.Ops)))
		} else if cls == "circular" {
			c.R.Count("builds_circular", 1)
		} else {
			c.R.Count("builds_other_failure", 1)
		}
		report(c, "C05", idx, r, fs)
		if c.R.WantSample() && m.Cyclic && kind == "random" {
			c.R.Sample(sampleOf(r, map[string]any{"kind": kind, "model_cycle": describeCycle(m)}))
		}
	}
	exec = func(idx int, s *Spec, m *Model, kind string) {
		cr.guard(idx, func() string { return "spec:\n  " + strings.Join(s.Lines(), "\n  ") }, func() { execInner(idx, s, m, kind) })
		// the same cyclic set reached in two steps: the longest buildable prefix is built (and used)
		// first, the registrations that close the cycle follow, and the Build under observation comes
		// last - "exactly when the registered services contain a cycle" is about the final set,
		// whatever an earlier Build of the collection concluded
		if m.Cyclic && s.RebuildAfter == 0 {
			for k := len(s.Regs) - 1; k >= 1; k-- {
				if NewModel(&Spec{Regs: s.Regs[:k]}).Class != ClsOK {
					continue
				}
				s2 := &Spec{Regs: s.Regs, RebuildAfter: k}
				m2 := NewModel(s2)
				if !m2.Cyclic {
					panic("harness: the model of a spec changed with RebuildAfter")
				}
				c.R.Count("cyclic_sets_built_before_the_cycle_was_closed", 1)
				cr.guard(idx, func() string { return "spec:\n  " + strings.Join(s2.Lines(), "\n  ") }, func() { execInner(idx, s2, m2, kind+"+built-before-the-cycle-was-closed") })
				break
			}
		}
	}
	// directed witnesses
	directed := []*Spec{
		// D10: cycle through a group edge (singleton and scoped)
		{Regs: []Reg{mkReg("InU_0_2_Group", godi.Singleton), mkReg("PosA_1_1", godi.Singleton, withGroup("g"))}},
		{Regs: []Reg{mkReg("InU_0_2_Group", godi.Scoped), mkReg("PosA_1_1", godi.Scoped, withGroup("g"))}},
		// D15: diamond next to a cycle
		{Regs: []Reg{mkReg("PosA_0_6", godi.Scoped), mkReg("PosA_1_8", godi.Scoped), mkReg("PosA_2_8", godi.Scoped), mkReg("PosA_3_1", godi.Scoped)}},
		// self-loop, keyed cycle, alias cycle, optional cycle
		{Regs: []Reg{mkReg("PosA_0_1", godi.Scoped)}},
		{Regs: []Reg{mkReg("InU_0_2_Keyed", godi.Scoped, withName("k")), mkReg("InU_1_1_Keyed", godi.Scoped, withName("k"))}},
		{Regs: []Reg{mkReg("InU_0_2_Iface", godi.Transient, withAs("IK0")), mkReg("InU_1_1_Iface", godi.Transient, withAs("IK1"))}},
		{Regs: []Reg{mkReg("InU_0_2_Opt", godi.Scoped), mkReg("InU_1_1_Opt", godi.Scoped)}},
		// acyclic: a member of group h depends on group g of the SAME type (same index in its group)
		{Regs: []Reg{mkReg("InU_1_2_Group", godi.Scoped, withGroup("h")), mkReg("Leaf_K1_a", godi.Scoped, withGroup("g")), mkReg("Leaf_K1_b", godi.Scoped, withGroup("g"))}},
		{Regs: []Reg{mkReg("Leaf_K1_c", godi.Transient, withGroup("g")), mkReg("InU_1_2_Group", godi.Scoped, withGroup("h")), mkReg("InU_0_2_Group", godi.Scoped, withName("k"))}},
		// acyclic: one output of a multi-output Add call is removed and registered again by a
		// constructor that depends on an output that stays (first and second output, multi-return
		// and result object): every resolution must still terminate
		{Regs: []Reg{mkReg("MR_K0K1", godi.Scoped), {Remove: true, RmType: "K0", Tail: true}, tailReg(mkReg("PosA_0_2", godi.Scoped))}},
		{Regs: []Reg{mkReg("MR_K0K1", godi.Scoped), {Remove: true, RmType: "K1", Tail: true}, tailReg(mkReg("PosA_1_1", godi.Scoped))}},
		{Regs: []Reg{mkReg("OutP_K0K1", godi.Scoped), {Remove: true, RmType: "K0", Tail: true}, tailReg(mkReg("PosA_0_2", godi.Scoped))}},
		{Regs: []Reg{mkReg("MR_K0K1", godi.Singleton), {Remove: true, RmType: "K0", Tail: true}, tailReg(mkReg("PosA_0_2", godi.Singleton))}},
		{Regs: []Reg{mkReg("MR_K0K1", godi.Transient), {Remove: true, RmType: "K0", Tail: true}, tailReg(mkReg("PosA_0_2", godi.Scoped))}},
		// acyclic: keyed and unkeyed registration of one type depending on each other's identity
		{Regs: []Reg{mkReg("InU_1_2_Keyed", godi.Scoped), mkReg("Leaf_K1_a", godi.Scoped, withName("k"))}},
	}
	for _, s := range directed {
		idx, mine := cr.next()
		if !mine {
			continue
		}
		c.R.Begin(idx)
		m := NewModel(s)
		exec(idx, s, m, "directed")
		c.R.End(idx, eng.Hash("c05-directed", s.Canon()), true)
	}
	// a cycle next to another defect (a lifetime conflict on the cycle, a missing required
	// dependency on or off the cycle): "exactly when ... contains a directed cycle" still asks
	// for the circular-dependency error
	for _, s := range []*Spec{
		{Regs: []Reg{mkReg("PosA_0_2", godi.Singleton), mkReg("PosA_1_1", godi.Scoped)}},                                                                     // K0(K1) singleton <-> K1(K0) scoped
		{Regs: []Reg{mkReg("PosA_0_2", godi.Transient), mkReg("PosA_1_1", godi.Scoped)}},                                                                     // transient <-> scoped
		{Regs: []Reg{mkReg("PosA_0_2", godi.Scoped), mkReg("PosA_1_1", godi.Scoped), mkReg("PosA_2_8", godi.Scoped)}},                                        // cycle K0<->K1, K2 needs the unregistered K3
		{Regs: []Reg{mkReg("PosA_0_6", godi.Scoped), mkReg("PosA_1_1", godi.Scoped)}},                                                                        // K0(K1,K2) with K2 missing, K1(K0)
		{Regs: []Reg{mkReg("InU_0_2_Keyed", godi.Singleton, withName("k")), mkReg("InU_1_1_Keyed", godi.Scoped, withName("k"))}},                             // keyed cycle + conflict
		{Regs: []Reg{mkReg("InU_0_2_Group", godi.Singleton), mkReg("PosA_1_1", godi.Scoped, withGroup("g"))}},                                                // group cycle + conflict
		{Regs: []Reg{mkReg("PosA_3_8", godi.Singleton), mkReg("PosA_0_2", godi.Scoped), mkReg("Leaf_K1_a", godi.Scoped), mkReg("PosB_2_1", godi.Singleton)}}, // self-loop K3(K3) + unrelated conflict K2(K0 scoped)
	} {
		idx, mine := cr.next()
		if !mine {
			continue
		}
		c.R.Begin(idx)
		m := NewModel(s)
		if !m.Cyclic || (!m.Conflict && !m.Missing) {
			panic("harness fixture of C05 (cycle next to another defect) does not have both defects:\n  " + strings.Join(s.Lines(), "\n  "))
		}
		c.R.Count("cycle_with_second_defect_specs", 1)
		exec(idx, s, m, "cycle+other-defect")
		c.R.End(idx, eng.Hash("c05-two-defects", s.Canon()), true)
	}
	// every unusual declaration form x every dependency slot: valid, and with the cycle closed through that slot
	runSlotSpecs(cr, map[string]bool{"valid": true, "cycle": true}, exec, func(idx int, s *Spec) {
		c.R.End(idx, eng.Hash("c05-slot", s.Canon()), true)
	})
	// digraphs over K0..K3: 65536 masks x 5 uniform forms (+ positional) x lifetime sets
	const nDigraphs = 65536
	total := nDigraphs * 5
	sample := c.Pick(3000, total)
	step := total / sample
	if step < 1 {
		step = 1
	}
	off := int(c.Seed % int64(step))
	if off < 0 {
		off = -off
	}
	const blocks = 128
	per := total / blocks
	for blk := 0; blk < blocks; blk++ {
		idx, mine := cr.next()
		if !mine {
			continue
		}
		c.R.Begin(idx)
		var cnt, nt int64
		for x := blk*per + off; x < (blk+1)*per; x += step {
			g, fi := x/5, x%5
			var d [4]int
			for i := 0; i < 4; i++ {
				d[i] = (g >> (4 * i)) & 15
			}
			form := pool.UniformForms[fi]
			ls := lifeSets[(x/11)%len(lifeSets)]
			s := &Spec{}
			for i := 0; i < 4; i++ {
				var r Reg
				if form == pool.FPlain && (x/13)%2 == 0 {
					r = Reg{Ctor: pool.PosA[i][d[i]], Life: ls[i]}
				} else {
					r = Reg{Ctor: pool.InU[i][d[i]][fi], Life: ls[i]}
				}
				applyTargetForm(&r, pool.TypeNames[i], form)
				s.Regs = append(s.Regs, r)
			}
			m := NewModel(s)
			if m.Conflict || m.Missing {
				continue
			}
			cnt++
			if g != 0 {
				nt++
			}
			exec(idx, s, m, "digraph4")
		}
		c.R.AddEnumerated(cnt, nt)
		if sample >= total {
			c.R.ExhaustiveProgress("all 65536 digraphs over K0..K3 x 5 uniform edge forms (conflict-free lifetime sets)", total, per)
		}
		c.R.End(idx, eng.Hash("c05-blk", blk, c.Seed, sample), false)
	}
	// random larger sets, cyclic and acyclic
	n := c.Pick(800, 20000)
	for k := 0; k < n; k++ {
		idx, mine := cr.next()
		if !mine {
			continue
		}
		rng := cr.rng(idx)
		s, m := genCyclic(rng, k%2 == 0)
		if s == nil {
			continue
		}
		c.R.Begin(idx)
		exec(idx, s, m, "random")
		c.R.End(idx, eng.Hash("c05-rand", s.Canon()), len(flatEdges(m)) > 0)
	}
}

func tailReg(r Reg) Reg { r.Tail = true; return r }

func trimErr(err error) string {
	if err == nil {
		return "<nil>"
	}
	s := err.Error()
	if i := strings.Index(s, "\nTo resolve"); i > 0 {
		s = s[:i]
	}
	if len(s) > 500 {
		s = s[:500] + "…"
	}
	return s
}

func describeCycle(m *Model) string {
	cyc := m.findCycle()
	if cyc == nil {
		return "(none)"
	}
	var ps []string
	for _, r := range cyc {
		ps = append(ps, m.Describe(r))
	}
	return strings.Join(ps, "  ->  ") + "  -> (back to first)"
}

// pathShape: feature of the graph around the cycle (has a node outside the cycle that is
// reachable from it or not) — coarse, only used to separate signatures.
func pathShape(m *Model) string {
	cyc := m.findCycle()
	in := map[int]bool{}
	for _, r := range cyc {
		in[r] = true
	}
	branching := false
	for _, r := range cyc {
		for _, d := range m.Edges[r] {
			if !in[d] {
				branching = true
			}
		}
	}
	if branching {
		return "cycle-with-side-branches"
	}
	return "bare-cycle"
}

func runC05Graph(c *eng.Ctx, cr *caseRunner) {
	alloc := func() (int, bool) { return cr.next() }
	graphx.RunSmallDigraphs(c, "C05", alloc)
	graphx.RunRandomDigraphs(c, "C05", alloc, c.Pick(400, 20000))
}

// genCyclic makes a random spec whose only possible defect is a dependency cycle.
func genCyclic(rng *rand.Rand, wantCycle bool) (*Spec, *Model) {
	s, m := GenSpec(rng, GenOpts{Want: ClsOK, Specials: rng.Intn(3) == 0})
	if s == nil || !wantCycle {
		return s, m
	}
	used := map[int]bool{}
	for _, r := range s.Regs {
		used[r.Ctor] = true
	}
	for attempt := 0; attempt < 12; attempt++ {
		i := rng.Intn(len(s.Regs))
		ri := &m.Regs[i]
		if ri.Meta == nil || len(ri.Meta.Outs) != 1 || ri.Meta.Void || ri.Meta.Family == "special" {
			continue
		}
		cands := candidates[ri.Meta.Outs[0].Type]
		start := rng.Intn(len(cands))
		for k := 0; k < len(cands); k++ {
			id := cands[(start+k)%len(cands)]
			if used[id] {
				continue
			}
			trial := &Spec{Regs: append([]Reg{}, s.Regs...)}
			trial.Regs[i].Ctor = id
			tm := NewModel(trial)
			if tm.Class == ClsCircular {
				return trial, tm
			}
		}
	}
	return s, m
}

// ---------------------------------------------------------------- C06

func init() {
	eng.Register(&eng.Property{
		ID: "C06", Level: "exploration",
		Rule: "graph component: every DAG among ALL digraphs on 1..4 labelled nodes and seeded random DAGs (5-40 nodes): TopologicalSort lists each node once with dependencies first, repeated (cached) calls stay valid, both insertion orders. " +
			"Container level: each seeded registration set is built R times in one process (every Build re-randomises map iteration) and under P random permutations of the registration order (relative order of grouped registrations preserved): the verdict class must be the same every time, the resolved object graphs must be isomorphic (identity -> constructor + canonical arguments), and every singleton's constructor must finish before any singleton that depends on it (also through groups) starts. " +
			"Non-trivial: >=2 registrations with >=1 dependency edge; distinct = canonical spec hash.",
		Shards:     func(tier string) int { return 16 },
		Run:        runC06,
		NeedEvents: []string{"graph_toposorts", "builds_total", "order_pairs_checked", "permutations"},
	})
}

// canonTree renders the object graph below an instance: constructor name + canonical args.
func canonTree(r *Run, o *Obs, id int64, depth int) string {
	p, ok := o.Produced[id]
	if !ok {
		return "?"
	}
	if p.Value {
		// a ready value is named by what it was registered as (and its position among equally
		// registered values of the type): WHICH value serves an identity is part of the wiring
		sig := func(g Reg) string { return g.Value + "|" + g.Name + "|" + g.Group + "|" + strings.Join(g.As, ",") }
		me := r.Spec.Regs[p.Reg]
		n := 0
		for i, g := range r.Spec.Regs {
			if i == p.Reg {
				break
			}
			if !g.Remove && g.Ctor < 0 && sig(g) == sig(me) {
				n++
			}
		}
		return fmt.Sprintf("value:%s#%d", sig(me), n)
	}
	if depth > 12 {
		return "…"
	}
	name := fmt.Sprintf("%s#%d", pool.Ctors[p.Run.Ctor].Name, p.Out)
	var as []string
	for _, a := range p.Run.Args {
		switch a.Kind {
		case 'i':
			as = append(as, canonTree(r, o, a.IDs[0], depth+1))
		case 's', 'n':
			var es []string
			for _, e := range a.IDs {
				es = append(es, canonTree(r, o, e, depth+1))
			}
			as = append(as, "["+strings.Join(es, ",")+"]")
		default:
			as = append(as, string(a.Kind))
		}
	}
	return name + "(" + strings.Join(as, ",") + ")"
}

type buildOutcome struct {
	class string
	canon string // canonical object graph of everything resolvable
	order string // problems with singleton construction order ("" = fine)
	pairs int
	run   *Run
}

func buildAndDescribe(s *Spec, m *Model) buildOutcome {
	r := NewRun(s, m, nil, nil)
	r.Build()
	out := buildOutcome{class: r.Results[0].Class, run: r}
	if !r.Built {
		return out
	}
	a := r.Do(Op{Kind: OpCreate, Scope: 0, CtxKind: 1})
	ProbeRegistered(r, a.NewScope)
	r.Finish()
	o := Digest(r)
	var lines []string
	for i := range r.Results {
		res := &r.Results[i]
		op := r.Ops[res.Op]
		if op.Kind != OpGet && op.Kind != OpGetGroup {
			continue
		}
		var ts []string
		for _, in := range res.Insts {
			if in != nil {
				ts = append(ts, canonTree(r, o, in.ID, 0))
			}
		}
		lines = append(lines, fmt.Sprintf("%s/%s/%s=%s:%s", op.Type, op.Key, op.Group, res.Class, strings.Join(ts, "|")))
	}
	sort.Strings(lines)
	out.canon = strings.Join(lines, "\n")
	// singleton order: exit of dependency before enter of dependent
	for i := range m.Regs {
		if !m.Accepted(i) || m.Regs[i].Life != godi.Singleton {
			continue
		}
		runsI := o.Successful(i)
		if len(runsI) == 0 {
			continue
		}
		for _, d := range m.Edges[i] {
			if m.Regs[d].Life != godi.Singleton || m.Regs[d].Meta == nil {
				continue
			}
			runsD := o.Successful(d)
			if len(runsD) == 0 {
				continue
			}
			out.pairs++
			if runsD[0].ExitSeq > runsI[0].EnterSeq {
				out.order = fmt.Sprintf("singleton %s started (seq %d) before its dependency %s finished (seq %d)", m.Describe(i), runsI[0].EnterSeq, m.Describe(d), runsD[0].ExitSeq)
			}
		}
	}
	return out
}

func permuteSpec(rng *rand.Rand, s *Spec) *Spec {
	p := &Spec{Regs: append([]Reg{}, s.Regs...)}
	shuffleKeepingGroups(rng, p)
	return p
}

func runC06(c *eng.Ctx) {
	cr := &caseRunner{c: c, prop: "C06"}
	defer func() { RunSameConstructor(c, "C06", cr.next); RunBuildTimeOpener(c, cr.next) }()
	alloc := func() (int, bool) { return cr.next() }
	graphx.RunSmallDigraphs(c, "C06", alloc)
	graphx.RunRandomDigraphs(c, "C06", alloc, c.Pick(300, 10000))
	R, P := c.Pick(8, 32), c.Pick(4, 8)
	check := func(idx int, s *Spec, kind string) {
		m := NewModel(s)
		base := buildAndDescribe(s, m)
		var fs []Finding
		feat := acceptFeature(m, base.run.BuildErr)
		c.R.Count("builds_total", 1)
		c.R.Count("order_pairs_checked", int64(base.pairs))
		if base.order != "" {
			fs = append(fs, Finding{"dependency-constructed-late", feat, base.order})
		}
		cmp := func(o buildOutcome, what string) {
			c.R.Count("builds_total", 1)
			c.R.Count("order_pairs_checked", int64(o.pairs))
			if o.order != "" {
				fs = append(fs, Finding{"dependency-constructed-late", feat, what + ": " + o.order})
			}
			if o.class != base.class {
				fs = append(fs, Finding{"verdict-differs", feat, fmt.Sprintf("%s: Build verdict %q, first build %q (%s | %s)", what, o.class, base.class, trimErr(o.run.BuildErr), trimErr(base.run.BuildErr))})
				return
			}
			if o.canon != base.canon {
				fs = append(fs, Finding{"object-graph-differs", feat, fmt.Sprintf("%s: resolved object graph differs from the first build:\n--- first\n%s\n--- this\n%s", what, trimTo(base.canon, 1500), trimTo(o.canon, 1500))})
			}
		}
		for k := 1; k < R; k++ {
			cmp(buildAndDescribe(s, m), fmt.Sprintf("rebuild %d", k))
		}
		rng := cr.rng(idx)
		for k := 0; k < P; k++ {
			ps := permuteSpec(rng, s)
			cmp(buildAndDescribe(ps, NewModel(ps)), fmt.Sprintf("permutation %d", k))
			c.R.Count("permutations", 1)
		}
		report(c, "C06", idx, base.run, fs)
		if c.R.WantSample() && len(flatEdges(m)) > 1 {
			c.R.Sample(sampleOf(base.run, map[string]any{"kind": kind, "rebuilds": R, "permutations": P, "verdict": base.class}))
		}
		c.R.End(idx, eng.Hash("c06", s.Canon()), len(s.Regs) >= 2 && len(flatEdges(m)) >= 1)
	}
	directed := []*Spec{
		// D11: singleton consuming a group whose members have dependencies
		{Regs: []Reg{mkReg("Leaf_K0_a", godi.Singleton), mkReg("PosA_1_1", godi.Singleton, withGroup("g")), mkReg("PosB_1_1", godi.Singleton, withGroup("g")), mkReg("InU_2_2_Group", godi.Singleton)}},
		{Regs: []Reg{mkReg("Leaf_K0_a", godi.Singleton), mkReg("PosA_1_1", godi.Singleton), mkReg("PosA_2_3", godi.Singleton), mkReg("PosA_3_7", godi.Singleton)}},
		// one identity of a multi-identity singleton registration removed and registered again by
		// another constructor: which of the two unordered singletons is built first must not decide
		// who serves the identity (several consumers, so that many independent nodes exist)
		{Regs: []Reg{mkReg("Leaf_K0_a", godi.Singleton, withAs("IK0", "IA")), mkReg("InU_2_1_Iface", godi.Singleton), mkReg("InU_3_1_Iface", godi.Singleton),
			{Remove: true, RmType: "IK0", Tail: true}, tailReg(mkReg("Leaf_K0_b", godi.Singleton, withAs("IK0")))}},
		{Regs: []Reg{mkReg("MR_K0K1", godi.Singleton), mkReg("PosA_2_3", godi.Singleton), mkReg("PosB_3_2", godi.Singleton),
			{Remove: true, RmType: "K1", Tail: true}, tailReg(mkReg("Leaf_K1_b", godi.Singleton))}},
		{Regs: []Reg{mkReg("OutP_K0K1", godi.Singleton), mkReg("PosA_2_1", godi.Singleton), mkReg("PosB_3_1", godi.Singleton),
			{Remove: true, RmType: "K0", Tail: true}, tailReg(mkReg("Leaf_K0_c", godi.Singleton))}},
		// ready values: several values of one Go type in one collection (under keys, in a group, under
		// aliases), consumed by constructors - which value serves which identity is the registrations'
		// business, not the order of the calls
		{Regs: []Reg{{Ctor: -1, Value: "K1", Life: godi.Singleton, Name: "k"}, {Ctor: -1, Value: "K1", Life: godi.Singleton}, mkReg("InU_0_2_Keyed", godi.Singleton), mkReg("PosA_2_2", godi.Scoped)}},
		{Regs: []Reg{{Ctor: -1, Value: "K0", Life: godi.Singleton, Group: "g"}, {Ctor: -1, Value: "K0", Life: godi.Singleton, Group: "g"}, {Ctor: -1, Value: "K0", Life: godi.Singleton}, mkReg("InU_3_1_Group", godi.Singleton), mkReg("PosA_1_1", godi.Transient)}},
		{Regs: []Reg{{Ctor: -1, Value: "S7", Life: godi.Singleton, Name: "k", As: []string{"IS7", "IA"}}, {Ctor: -1, Value: "S7", Life: godi.Singleton, Name: "k2", As: []string{"IS7", "IA"}}, {Ctor: -1, Value: "S7", Life: godi.Scoped}}},
	}
	for di, s := range directed {
		idx, mine := cr.next()
		if !mine {
			continue
		}
		if m := NewModel(s); m.Class != ClsOK {
			panic(fmt.Sprintf("harness fixture %d of C06 (directed) is not buildable: %s", di, m.Class))
		}
		c.R.Begin(idx)
		check(idx, s, "directed")
	}
	// a registration that was removed again is not part of the set: the verdict of the collection with
	// the history equals the verdict of a collection that only ever saw what is left (here: a scoped
	// service that a longer-lived one would have captured through an OPTIONAL dependency)
	for _, life := range []godi.Lifetime{godi.Singleton, godi.Transient} {
		for hi, pair := range [][2]*Spec{
			{{Regs: []Reg{mkReg("Leaf_K1_a", godi.Scoped), mkReg("InU_0_2_Opt", life), {Remove: true, RmType: "K1", Tail: true}}},
				{Regs: []Reg{mkReg("InU_0_2_Opt", life)}}},
			{{Regs: []Reg{mkReg("Leaf_K1_a", godi.Scoped), {Remove: true, RmType: "K1", Tail: true}, tailReg(mkReg("InU_0_2_Opt", life))}},
				{Regs: []Reg{mkReg("InU_0_2_Opt", life)}}},
			{{RebuildAfter: 1, Regs: []Reg{mkReg("Leaf_K1_a", godi.Scoped), {Remove: true, RmType: "K1", Tail: true}, tailReg(mkReg("InU_0_2_Opt", life)), tailReg(mkReg("PosA_2_1", godi.Scoped))}},
				{Regs: []Reg{mkReg("InU_0_2_Opt", life), mkReg("PosA_2_1", godi.Scoped)}}},
			{{Regs: []Reg{mkReg("Leaf_K1_a", godi.Scoped), mkReg("InU_0_2_Opt", life), {Remove: true, RmType: "K1", Tail: true}, tailReg(mkReg("Leaf_K1_b", life))}},
				{Regs: []Reg{mkReg("InU_0_2_Opt", life), mkReg("Leaf_K1_b", life)}}},
		} {
			idx, mine := cr.next()
			if !mine {
				continue
			}
			hist, net := pair[0], pair[1]
			mh, mn := NewModel(hist), NewModel(net)
			if mh.Class != ClsOK || mn.Class != ClsOK {
				panic(fmt.Sprintf("harness fixture %d of C06 (history vs what is left) is not buildable: %s / %s", hi, mh.Class, mn.Class))
			}
			c.R.Begin(idx)
			c.R.Count("history_vs_remaining_set_pairs", 1)
			bh, bn := buildAndDescribe(hist, mh), buildAndDescribe(net, mn)
			var fs []Finding
			if bh.class != bn.class {
				fs = append(fs, Finding{"verdict-differs", "removed-registration-still-counts:" + lifeName(life) + ":" + bh.class, fmt.Sprintf("Build verdict %q for the collection with the history, %q for a collection that only ever saw the remaining registrations (%s | %s)\nhistory:\n  %s", bh.class, bn.class, trimErr(bh.run.BuildErr), trimErr(bn.run.BuildErr), strings.Join(hist.Lines(), "\n  "))})
			}
			report(c, "C06", idx, bh.run, fs)
			c.R.End(idx, eng.Hash("c06-history-vs-net", hi, int(life)), true)
		}
	}
	// every unusual declaration form, every slot served: same verdict and object graph under
	// rebuilds and permutations, dependencies constructed first
	runSlotSpecs(cr, map[string]bool{"valid": true}, func(idx int, s *Spec, m *Model, kind string) { check(idx, s, kind) }, nil)
	n := c.Pick(400, 8000)
	for k := 0; k < n; k++ {
		idx, mine := cr.next()
		if !mine {
			continue
		}
		rng := cr.rng(idx)
		lifes := []godi.Lifetime{godi.Singleton, godi.Singleton, godi.Scoped, godi.Transient}
		full := k%6 == 5
		var s *Spec
		if k%5 == 3 {
			s, _ = genCyclic(rng, true)
		} else {
			s, _ = GenSpec(rng, GenOpts{Want: ClsOK, Specials: k%3 == 0, Values: k%3 == 1, Lifetimes: lifes, MultiAlias: full, OutGroup: full, Removes: k%4 == 2, Rebuild: k%7 == 3})
		}
		if s == nil {
			continue
		}
		kind := "random"
		if k%8 == 5 || k%8 == 1 {
			// history independence of the verdict: the set is built once while it is valid, then a
			// REQUIRED dependency is removed and Build runs again. The verdict must be the one a
			// fresh collection holding the same registrations gets (the permutations below are
			// registered into fresh collections and carry no intermediate Build).
			if hs := removeRequiredAfterBuild(rng, s); hs != nil {
				s, kind = hs, "removed-after-build"
				c.R.Count("removed_after_build_specs", 1)
			}
		}
		c.R.Begin(idx)
		check(idx, s, kind)
	}
}

// removeRequiredAfterBuild: spec + intermediate Build + Remove of an identity that some
// registration requires (plain or keyed, not optional, not a group).
func removeRequiredAfterBuild(rng *rand.Rand, s *Spec) *Spec {
	if s.RebuildAfter > 0 {
		return nil
	}
	for _, r := range s.Regs {
		if r.Remove || r.Tail {
			return nil
		}
	}
	m := NewModel(s)
	if m.Class != ClsOK {
		return nil
	}
	var cands []IdentKey
	seen := map[IdentKey]bool{}
	for i := range m.Regs {
		for _, b := range m.Regs[i].Binds {
			if b.Kind == BindSingle && !b.Dep.Optional {
				ik := IdentKey{b.Dep.Target, b.Dep.Key}
				if !seen[ik] {
					seen[ik] = true
					cands = append(cands, ik)
				}
			}
		}
	}
	if len(cands) == 0 {
		return nil
	}
	sort.Slice(cands, func(i, j int) bool { return cands[i].Type+"\x00"+cands[i].Key < cands[j].Type+"\x00"+cands[j].Key })
	ik := cands[rng.Intn(len(cands))]
	out := &Spec{Regs: append([]Reg{}, s.Regs...), RebuildAfter: len(s.Regs)}
	out.Regs = append(out.Regs, Reg{Remove: true, RmType: ik.Type, RmKey: ik.Key, Tail: true})
	return out
}

func trimTo(s string, n int) string {
	if len(s) > n {
		return s[:n] + " …"
	}
	return s
}
