package core

import (
	"errors"
	"fmt"

	"github.com/junioryono/godi/v4"
	"github.com/junioryono/godi/v4/verifh/eng"
	"github.com/junioryono/godi/v4/verifh/pool"
)

// Variadic constructors that fail. A variadic constructor is called through another door of
// package reflect than an ordinary one; "a constructor that panics or returns an error is
// reported as an error exposing the panic value / wrapping the constructor's own error" - and
// asking again after the failure behaves like a first attempt - holds for it like for any other:
// through Resolve on a scope and on the provider, and through every way of building (singleton).

type vfPart struct{ n int }
type vfEngine struct{ parts []*vfPart }
type vfBoom struct{ code int }

var errVf = errors.New("variadic fixture: the constructor's own error")

// RunVariadicFailures runs the catalogue for C15.
func RunVariadicFailures(c *eng.Ctx, next func() (int, bool)) {
	_ = pool.Ctors
	for _, how := range []string{"panics-with-a-struct", "panics-with-an-error", "returns-an-error"} {
		for _, life := range allLifetimes {
			for _, door := range []string{"direct", "modules"} {
				idx, mine := next()
				if !mine {
					continue
				}
				c.R.Begin(idx)
				feat := how + ":" + lifeName(life) + ":" + door
				viol := func(clause, detail string) {
					c.R.Violation(eng.Violation{Prop: "C15", Clause: clause, Sig: "C15/" + clause + ":variadic-constructor:" + feat, Case: idx, CaseID: "variadic-failure-" + feat,
						Detail: feat + ": " + detail, Replay: map[string]any{"fixture": "variadic-failures", "how": how, "lifetime": lifeName(life), "door": door}})
				}
				calls := 0
				failFirst := 1
				ctor := func(parts ...*vfPart) (*vfEngine, error) {
					calls++
					if calls <= failFirst {
						switch how {
						case "panics-with-a-struct":
							panic(vfBoom{42})
						case "panics-with-an-error":
							panic(errVf)
						default:
							return nil, errVf
						}
					}
					return &vfEngine{parts}, nil
				}
				newParts := func() []*vfPart { return []*vfPart{{1}, {2}} }
				coll := godi.NewCollection()
				var rerr error
				func() {
					defer func() {
						if p := recover(); p != nil {
							rerr = fmt.Errorf("panic: %v", p)
						}
					}()
					if door == "modules" {
						switch life {
						case godi.Singleton:
							rerr = coll.AddModules(godi.NewModule("engine", godi.AddSingleton(newParts), godi.AddSingleton(ctor)))
						case godi.Scoped:
							rerr = coll.AddModules(godi.NewModule("engine", godi.AddSingleton(newParts), godi.AddScoped(ctor)))
						default:
							rerr = coll.AddModules(godi.NewModule("engine", godi.AddSingleton(newParts), godi.AddTransient(ctor)))
						}
					} else {
						if rerr = coll.AddSingleton(newParts); rerr == nil {
							rerr = eqAdd(coll, life, ctor)
						}
					}
				}()
				if rerr != nil {
					c.R.Inconclusive(idx, "fixture registration refused: "+rerr.Error())
					continue
				}
				judge := func(what string, err error, pan any) {
					switch {
					case pan != nil:
						viol("api-call-panics", fmt.Sprintf("%s panicked (%v) instead of returning an error: the variadic constructor's failure went straight through", what, pan))
					case err == nil:
						viol("ctor-failure-swallowed", what+" succeeded although the constructor failed")
					case how == "returns-an-error":
						if !errors.Is(err, errVf) {
							viol("ctor-error-not-wrapped", fmt.Sprintf("%s: the constructor's own error is not reachable: %v", what, trimErr(err)))
						}
					default:
						var pe *godi.ConstructorPanicError
						var pv godi.ConstructorPanicError
						var got any
						switch {
						case errors.As(err, &pe):
							got = pe.Panic
						case errors.As(err, &pv):
							got = pv.Panic
						default:
							viol("ctor-panic-not-classifiable", fmt.Sprintf("%s: errors.As(ConstructorPanicError) fails: %v", what, trimErr(err)))
							return
						}
						if (how == "panics-with-a-struct" && got != any(vfBoom{42})) || (how == "panics-with-an-error" && got != any(errVf)) {
							viol("ctor-panic-value-lost", fmt.Sprintf("%s: Panic is %T %v", what, got, got))
						}
					}
				}
				guard := func(f func() error) (err error, pan any) {
					defer func() { pan = recover() }()
					return f(), nil
				}
				if life == godi.Singleton {
					// every way of building; the k-th Build fails, the next one is a first attempt again
					builds := []func() (godi.Provider, error){
						coll.Build,
						func() (godi.Provider, error) { return coll.BuildWithOptions(nil) },
					}
					for bi, b := range builds {
						failFirst = calls + 1
						var prov godi.Provider
						err, pan := guard(func() error { var e error; prov, e = b(); return e })
						judge(fmt.Sprintf("Build (door %d)", bi), err, pan)
						if prov != nil {
							_ = prov.Close()
						}
						if pan != nil {
							break
						}
					}
					failFirst = 0
					prov, err := coll.Build()
					if err != nil {
						viol("retry-fails", fmt.Sprintf("a Build after the failed ones, with a constructor that now succeeds, fails: %v", trimErr(err)))
					} else {
						if e, err := godi.Resolve[*vfEngine](prov); err != nil || e == nil || len(e.parts) != 2 {
							viol("retry-fails", fmt.Sprintf("after the successful Build: %v", trimErr(err)))
						}
						_ = prov.Close()
					}
				} else {
					prov, err := coll.Build()
					if err != nil {
						c.R.Inconclusive(idx, "fixture does not build: "+err.Error())
						continue
					}
					for _, where := range []string{"scope", "provider"} {
						var p godi.Provider = prov
						if where == "scope" {
							sc, err := prov.CreateScope(nil)
							if err != nil {
								viol("scope-creation-failed", err.Error())
								break
							}
							p = sc
						}
						failFirst = calls + 1
						err, pan := guard(func() error { _, e := godi.Resolve[*vfEngine](p); return e })
						judge("Resolve on the "+where, err, pan)
						if pan != nil {
							break
						}
						// asked again: like a first attempt
						if e, err := godi.Resolve[*vfEngine](p); err != nil || e == nil || len(e.parts) != 2 {
							viol("retry-fails", fmt.Sprintf("asked again on the %s after the failure: %v", where, trimErr(err)))
						}
					}
					_ = prov.Close()
				}
				c.R.Count("variadic_failure_cases", 1)
				c.R.End(idx, eng.Hash("c15-variadic-failure", feat), true)
			}
		}
	}
}
