package core

import (
	"fmt"
	"reflect"
	"sync"
	"time"

	"github.com/junioryono/godi/v4"
)

// FK is the product of the function-value-kind constructors (C04): Tag says which function
// value produced it.
type FK struct{ Tag int }

// FKDep is a dependency used by the different-signature variants.
type FKDep struct{ N int }

func newFKDep() *FKDep { return &FKDep{N: 99} }

func fkTop0() *FK { return &FK{Tag: 0} }
func fkTop1() *FK { return &FK{Tag: 1} }
func fkTop2() *FK { return &FK{Tag: 2} }

//go:noinline
func mkClosure(tag int) func() *FK { return func() *FK { return &FK{Tag: tag} } }

//go:noinline
func mkClosureDep(tag int) func(*FKDep) *FK {
	return func(d *FKDep) *FK { return &FK{Tag: tag + d.N - 99} }
}

type fkRecv struct{ tag int }

func (r *fkRecv) New() *FK { return &FK{Tag: r.tag} }

type fkTagger interface{ Tag() int }
type fkT0 struct{}
type fkT1 struct{}
type fkT2 struct{}

func (fkT0) Tag() int { return 0 }
func (fkT1) Tag() int { return 1 }
func (fkT2) Tag() int { return 2 }

func fkGeneric[T fkTagger]() *FK { var t T; return &FK{Tag: t.Tag()} }

func mkMakeFunc(tag int) any {
	return reflect.MakeFunc(reflect.TypeOf(func() *FK { return nil }), func([]reflect.Value) []reflect.Value {
		return []reflect.Value{reflect.ValueOf(&FK{Tag: tag})}
	}).Interface()
}

func mkMakeFuncDep(tag int) any {
	return reflect.MakeFunc(reflect.TypeOf(func(*FKDep) *FK { return nil }), func(args []reflect.Value) []reflect.Value {
		d := args[0].Interface().(*FKDep)
		return []reflect.Value{reflect.ValueOf(&FK{Tag: tag + d.N - 99})}
	}).Interface()
}

type funcKindCase struct {
	name  string
	fns   func() []any // function values, the i-th must produce Tag i
	dep   bool         // register FKDep too
	slice bool         // register []*FKDep too (what a variadic constructor's last parameter asks for)
}

func newFKDepSlice() []*FKDep { return []*FKDep{{N: 99}} }

// variadic twins of the shared-code kinds: reflect calls them through another door (CallSlice)
//
//go:noinline
func mkClosureVariadic(tag int) func(...*FKDep) *FK {
	return func(ds ...*FKDep) *FK { return &FK{Tag: tag + len(ds) - 1} }
}

type fkRecvVariadic struct{ tag int }

func (r *fkRecvVariadic) New(ds ...*FKDep) *FK { return &FK{Tag: r.tag + len(ds) - 1} }

func mkMakeFuncVariadic(tag int) any {
	return reflect.MakeFunc(reflect.TypeOf(func(...*FKDep) *FK { return nil }), func(args []reflect.Value) []reflect.Value {
		return []reflect.Value{reflect.ValueOf(&FK{Tag: tag + args[0].Len() - 1})}
	}).Interface()
}

func (fk funcKindCase) run() ([]Finding, int) {
	var fs []Finding
	n := 0
	for _, life := range allLifetimes {
		fns := fk.fns()
		coll := godi.NewCollection()
		if fk.dep {
			if err := coll.AddSingleton(newFKDep); err != nil {
				fs = append(fs, Finding{"funckind-registration", fk.name, fmt.Sprintf("registering the dependency failed: %v", err)})
				continue
			}
		}
		if fk.slice {
			if err := coll.AddSingleton(newFKDepSlice); err != nil {
				fs = append(fs, Finding{"funckind-registration", fk.name, fmt.Sprintf("registering the slice dependency failed: %v", err)})
				continue
			}
		}
		failed := false
		for i, fn := range fns {
			var err error
			func() {
				defer func() {
					if p := recover(); p != nil {
						err = fmt.Errorf("panic: %v", p)
					}
				}()
				switch life {
				case godi.Singleton:
					err = coll.AddSingleton(fn, godi.Name(fmt.Sprintf("n%d", i)))
				case godi.Scoped:
					err = coll.AddScoped(fn, godi.Name(fmt.Sprintf("n%d", i)))
				default:
					err = coll.AddTransient(fn, godi.Name(fmt.Sprintf("n%d", i)))
				}
			}()
			if err != nil {
				fs = append(fs, Finding{"funckind-registration", fk.name, fmt.Sprintf("%s: registering function value %d (%s) failed: %v", fk.name, i, lifeName(life), err)})
				failed = true
			}
		}
		if failed {
			continue
		}
		var prov godi.Provider
		var err error
		func() {
			defer func() {
				if p := recover(); p != nil {
					err = fmt.Errorf("panic: %v", p)
				}
			}()
			prov, err = coll.Build()
		}()
		if err != nil {
			fs = append(fs, Finding{"funckind-build", fk.name, fmt.Sprintf("%s (%s): Build failed: %v", fk.name, lifeName(life), err)})
			continue
		}
		sc, err := prov.CreateScope(nil)
		if err != nil {
			fs = append(fs, Finding{"funckind-build", fk.name, fmt.Sprintf("%s: CreateScope failed: %v", fk.name, err)})
			_ = prov.Close()
			continue
		}
		for i := range fns {
			var v *FK
			var err error
			func() {
				defer func() {
					if p := recover(); p != nil {
						err = fmt.Errorf("panic: %v", p)
					}
				}()
				v, err = godi.ResolveKeyed[*FK](sc, fmt.Sprintf("n%d", i))
			}()
			n++
			if err != nil {
				fs = append(fs, Finding{"funckind-resolution", fk.name, fmt.Sprintf("%s (%s): resolving the service registered with function value %d failed: %v", fk.name, lifeName(life), i, err)})
				continue
			}
			if v == nil || v.Tag != i {
				got := -1
				if v != nil {
					got = v.Tag
				}
				fs = append(fs, Finding{"wrong-function-value-called", fk.name, fmt.Sprintf("%s (%s): the service registered with function value %d was produced by function value %d", fk.name, lifeName(life), i, got)})
			}
		}
		_ = sc.Close()
		_ = prov.Close()
	}
	return fs, n
}

var funcKindCases = []funcKindCase{
	{name: "top-level", fns: func() []any { return []any{fkTop0, fkTop1, fkTop2} }},
	{name: "closures-of-one-literal", fns: func() []any { return []any{mkClosure(0), mkClosure(1), mkClosure(2)} }},
	{name: "closures-with-dependency", dep: true, fns: func() []any { return []any{mkClosureDep(0), mkClosureDep(1)} }},
	{name: "method-values", fns: func() []any { return []any{(&fkRecv{0}).New, (&fkRecv{1}).New, (&fkRecv{2}).New} }},
	{name: "generic-instantiations", fns: func() []any { return []any{fkGeneric[fkT0], fkGeneric[fkT1], fkGeneric[fkT2]} }},
	{name: "makefunc-same-signature", fns: func() []any { return []any{mkMakeFunc(0), mkMakeFunc(1), mkMakeFunc(2)} }},
	{name: "makefunc-different-signatures", dep: true, fns: func() []any { return []any{mkMakeFunc(0), mkMakeFuncDep(1), mkMakeFunc(2)} }},
	{name: "variadic-closures-of-one-literal", slice: true, fns: func() []any { return []any{mkClosureVariadic(0), mkClosureVariadic(1), mkClosureVariadic(2)} }},
	{name: "variadic-method-values", slice: true, fns: func() []any {
		return []any{(&fkRecvVariadic{0}).New, (&fkRecvVariadic{1}).New, (&fkRecvVariadic{2}).New}
	}},
	{name: "variadic-makefunc", slice: true, fns: func() []any { return []any{mkMakeFuncVariadic(0), mkMakeFuncVariadic(1), mkMakeFuncVariadic(2)} }},
	{name: "closure-then-makefunc-mixed", dep: true, fns: func() []any { return []any{mkClosure(0), mkMakeFuncDep(1), (&fkRecv{2}).New, fkTop0ish(3)} }},
}

//go:noinline
func fkTop0ish(tag int) func() *FK { return func() *FK { return &FK{Tag: tag} } }

// ---- overlapping resolutions of constructors that share code ---------------------------

// FKGateDep is a transient dependency whose FIRST construction of a round parks until released.
type FKGateDep struct{}

var fkGate struct {
	mu      sync.Mutex
	armed   bool
	entered chan struct{}
	release chan struct{}
}

func newFKGateDep() *FKGateDep {
	fkGate.mu.Lock()
	park := fkGate.armed
	fkGate.armed = false
	entered, release := fkGate.entered, fkGate.release
	fkGate.mu.Unlock()
	if park {
		entered <- struct{}{}
		<-release
	}
	return &FKGateDep{}
}

//go:noinline
func mkClosureGate(tag int) func(*FKGateDep) *FK {
	return func(*FKGateDep) *FK { return &FK{Tag: tag} }
}

type fkRecvGate struct{ tag int }

func (r *fkRecvGate) New(*FKGateDep) *FK { return &FK{Tag: r.tag} }

// overlappingSharedCode: resolution of "n0" is parked inside its dependency's constructor,
// "n1" (same code pointer, same func type) is resolved completely, then "n0" resumes. Each
// must have been produced by its own function value.
func overlappingSharedCode(kind string, life godi.Lifetime) ([]Finding, int) {
	var fns []any
	switch kind {
	case "closures":
		fns = []any{mkClosureGate(0), mkClosureGate(1)}
	default:
		fns = []any{(&fkRecvGate{0}).New, (&fkRecvGate{1}).New}
	}
	coll := godi.NewCollection()
	if err := coll.AddTransient(newFKGateDep); err != nil {
		return []Finding{{"funckind-registration", kind, err.Error()}}, 0
	}
	for i, fn := range fns {
		var err error
		if life == godi.Scoped {
			err = coll.AddScoped(fn, godi.Name(fmt.Sprintf("n%d", i)))
		} else {
			err = coll.AddTransient(fn, godi.Name(fmt.Sprintf("n%d", i)))
		}
		if err != nil {
			return []Finding{{"funckind-registration", kind, err.Error()}}, 0
		}
	}
	prov, err := coll.Build()
	if err != nil {
		return []Finding{{"funckind-build", kind, err.Error()}}, 0
	}
	defer prov.Close()
	sc, err := prov.CreateScope(nil)
	if err != nil {
		return []Finding{{"funckind-build", kind, err.Error()}}, 0
	}
	defer sc.Close()
	fkGate.mu.Lock()
	fkGate.armed = true
	fkGate.entered = make(chan struct{}, 1)
	fkGate.release = make(chan struct{})
	entered, release := fkGate.entered, fkGate.release
	fkGate.mu.Unlock()
	type res struct {
		v   *FK
		err error
	}
	first := make(chan res, 1)
	go func() {
		v, err := godi.ResolveKeyed[*FK](sc, "n0")
		first <- res{v, err}
	}()
	select {
	case <-entered:
	case <-time.After(10 * time.Second):
		close(release)
		return nil, 0 // the gate was never reached: nothing observed
	}
	v1, err1 := godi.ResolveKeyed[*FK](sc, "n1")
	close(release)
	r0 := <-first
	var fs []Finding
	feat := "overlapping-" + kind + ":" + lifeName(life)
	if r0.err != nil || err1 != nil {
		fs = append(fs, Finding{"funckind-resolution", feat, fmt.Sprintf("resolution failed: %v / %v", r0.err, err1)})
		return fs, 2
	}
	if r0.v.Tag != 0 {
		fs = append(fs, Finding{"wrong-function-value-called", feat, fmt.Sprintf("the service registered with function value 0 was produced by function value %d (its resolution overlapped the resolution of a registration sharing its code pointer)", r0.v.Tag)})
	}
	if v1.Tag != 1 {
		fs = append(fs, Finding{"wrong-function-value-called", feat, fmt.Sprintf("the service registered with function value 1 was produced by function value %d", v1.Tag)})
	}
	return fs, 2
}
