package core

import (
	"context"
	"errors"
	"fmt"
	"strings"

	"github.com/junioryono/godi/v4"
	"github.com/junioryono/godi/v4/verifh/eng"
)

// One collection, several providers alive at the same time.
//
// A collection may be built more than once (a provider per tenant, per test, a retry after a
// failed Build). "For EVERY provider returned by a successful Build the constructor behind each
// singleton registration has run exactly once, during that Build, and every way of obtaining the
// service from that provider yields that one instance": what a later Build of the same collection
// constructs - or fails to construct - belongs to the later provider and never shows through the
// earlier one, also after the later provider has been closed.

type tbA struct {
	gen    int
	closed int
}

func (a *tbA) Close() error { a.closed++; return nil }

type tbB struct{ a *tbA }
type tbKeyed struct{ gen int }
type tbMember struct{ gen int }
type tbOut struct {
	godi.Out
	X *tbX
	Y *tbY `name:"y"`
}
type tbX struct{ gen int }
type tbY struct{ gen int }
type tbScoped struct{ a *tbA }
type tbTransient struct {
	a *tbA
	b *tbB
}
type tbLate struct{}

// a singleton that keeps the built-ins it was constructed with
type tbBI struct {
	ctx context.Context
	sc  godi.Scope
	p   godi.Provider
}
type tbBIIn struct {
	godi.In
	Ctx context.Context
	Sc  godi.Scope
	P   godi.Provider
}
type tbBI2 struct{ in tbBIIn }

func tbNewBI(ctx context.Context, sc godi.Scope, p godi.Provider) *tbBI { return &tbBI{ctx, sc, p} }
func tbNewBI2(in tbBIIn) *tbBI2                                         { return &tbBI2{in} }

type tbWorld struct {
	builds   int // Build attempts started so far (constructors stamp what they make with it)
	aCalls   int
	failLate int // the Build attempt in which tbLate's constructor fails (0 = never)
}

var tbCur *tbWorld

func tbNewA() *tbA                 { tbCur.aCalls++; return &tbA{gen: tbCur.builds} }
func tbNewB(a *tbA) *tbB           { return &tbB{a} }
func tbNewKeyed() *tbKeyed         { return &tbKeyed{tbCur.builds} }
func tbNewMember() *tbMember       { return &tbMember{tbCur.builds} }
func tbNewMember2() *tbMember      { return &tbMember{tbCur.builds} }
func tbNewOut() tbOut              { return tbOut{X: &tbX{tbCur.builds}, Y: &tbY{tbCur.builds}} }
func tbNewScoped(a *tbA) *tbScoped { return &tbScoped{a} }
func tbNewTransient(a *tbA, b *tbB) *tbTransient {
	return &tbTransient{a, b}
}
func tbNewLate(b *tbB, x *tbX) (*tbLate, error) {
	if tbCur.failLate == tbCur.builds {
		return nil, errors.New("late singleton fails in this Build")
	}
	return &tbLate{}, nil
}

// RunTwoBuilds: second Build succeeds / fails; the second provider stays open / is closed. prop
// C01 judges identity and constructor counts, prop C18 the built-ins the singletons received.
func RunTwoBuilds(c *eng.Ctx, prop string, next func() (int, bool)) {
	for _, variant := range []string{"second-build-succeeds", "second-build-succeeds-and-is-closed", "second-build-fails", "three-builds"} {
		idx, mine := next()
		if !mine {
			continue
		}
		c.R.Begin(idx)
		viol := func(clause, detail string) {
			if (prop == "C18") != strings.HasPrefix(clause, "injected-") {
				return
			}
			c.R.Violation(eng.Violation{Prop: prop, Clause: clause, Sig: prop + "/" + clause + ":collection-built-again-while-the-first-provider-is-in-use:" + variant, Case: idx, CaseID: "two-builds-" + variant,
				Detail: variant + ": " + detail, Replay: map[string]any{"fixture": "two-builds", "variant": variant}})
		}
		func() {
			defer func() {
				if p := recover(); p != nil {
					viol("panic", fmt.Sprintf("panic: %v", p))
				}
			}()
			w := &tbWorld{}
			tbCur = w
			coll := godi.NewCollection()
			must := func(err error) {
				if err != nil {
					panic("two-builds fixture: " + err.Error())
				}
			}
			must(coll.AddSingleton(tbNewA))
			must(coll.AddSingleton(tbNewB))
			must(coll.AddSingleton(tbNewKeyed, godi.Name("k")))
			must(coll.AddSingleton(tbNewMember, godi.Group("g")))
			must(coll.AddSingleton(tbNewMember2, godi.Group("g")))
			must(coll.AddSingleton(tbNewOut))
			must(coll.AddSingleton(tbNewLate))
			must(coll.AddSingleton(tbNewBI))
			must(coll.AddSingleton(tbNewBI2))
			must(coll.AddScoped(tbNewScoped))
			must(coll.AddTransient(tbNewTransient))
			if variant == "second-build-fails" {
				w.failLate = 2
			}
			build := func() (godi.Provider, error) { w.builds++; return coll.Build() }
			p1, err := build()
			if err != nil {
				panic("two-builds fixture does not build: " + err.Error())
			}
			defer p1.Close()
			type snap struct {
				a    *tbA
				b    *tbB
				k    *tbKeyed
				g    []*tbMember
				x    *tbX
				y    *tbY
				sa   *tbA // through a scoped service of a fresh scope
				ta   *tbA // through a transient
				tb   *tbB
				deep *tbA // from a nested scope
			}
			take := func(p godi.Provider, who string) (s snap, ok bool) {
				var e [9]error
				s.a, e[0] = godi.Resolve[*tbA](p)
				s.b, e[1] = godi.Resolve[*tbB](p)
				s.k, e[2] = godi.ResolveKeyed[*tbKeyed](p, "k")
				s.g, e[3] = godi.ResolveGroup[*tbMember](p, "g")
				s.x, e[4] = godi.Resolve[*tbX](p)
				s.y, e[5] = godi.ResolveKeyed[*tbY](p, "y")
				sc, err := p.CreateScope(nil)
				if err != nil {
					viol("singleton-unavailable", fmt.Sprintf("%s: CreateScope: %v", who, err))
					return s, false
				}
				defer sc.Close()
				var ss *tbScoped
				ss, e[6] = godi.Resolve[*tbScoped](sc)
				var tt *tbTransient
				tt, e[7] = godi.Resolve[*tbTransient](sc)
				ch, err := sc.CreateScope(nil)
				if err == nil {
					s.deep, e[8] = godi.Resolve[*tbA](ch)
					ch.Close()
				}
				for i, x := range e {
					if x != nil {
						viol("singleton-unavailable", fmt.Sprintf("%s: resolution %d failed: %v", who, i, x))
						return s, false
					}
				}
				s.sa, s.ta, s.tb = ss.a, tt.a, tt.b
				return s, true
			}
			same := func(a, b snap, who string) {
				diff := ""
				switch {
				case a.a != b.a:
					diff = "*tbA by type"
				case a.b != b.b:
					diff = "*tbB by type"
				case a.k != b.k:
					diff = "*tbKeyed by key"
				case len(a.g) != len(b.g) || len(a.g) != 2 || a.g[0] != b.g[0] || a.g[1] != b.g[1]:
					diff = "group g"
				case a.x != b.x || a.y != b.y:
					diff = "result-object outputs"
				case b.sa != a.a || b.ta != a.a || b.deep != a.a:
					diff = "*tbA injected into a scoped / transient service or resolved from a nested scope"
				case b.tb != a.b || a.b.a != a.a:
					diff = "*tbB injected into a transient service"
				}
				if diff != "" {
					viol("identity", fmt.Sprintf("%s: %s is no longer the instance this provider's own Build constructed (generation %d; now generation %d for *tbA)", who, diff, a.a.gen, b.a.gen))
				}
			}
			checkBI := func(p godi.Provider, who string) {
				root, e1 := godi.Resolve[godi.Scope](p)
				rctx, e2 := godi.Resolve[context.Context](p)
				bi, e3 := godi.Resolve[*tbBI](p)
				bi2, e4 := godi.Resolve[*tbBI2](p)
				if e1 != nil || e2 != nil || e3 != nil || e4 != nil {
					viol("injected-unavailable", fmt.Sprintf("%s: %v %v %v %v", who, e1, e2, e3, e4))
					return
				}
				for i, got := range []struct {
					ctx context.Context
					sc  godi.Scope
					p   godi.Provider
				}{{bi.ctx, bi.sc, bi.p}, {bi2.in.Ctx, bi2.in.Sc, bi2.in.P}} {
					form := []string{"parameters", "parameter-object fields"}[i]
					if got.sc != root {
						viol("injected-scope-wrong", fmt.Sprintf("%s: the singleton (%s) holds a scope that is not this provider's root scope", who, form))
					}
					if got.p != p {
						viol("injected-provider-wrong", fmt.Sprintf("%s: the singleton (%s) holds another provider", who, form))
					}
					if got.ctx != rctx {
						viol("injected-context-wrong", fmt.Sprintf("%s: the singleton (%s) holds a context that is not this provider's root context", who, form))
					} else if got.ctx.Err() != nil {
						viol("injected-context-wrong", fmt.Sprintf("%s: the singleton's context is done (%v) while its provider is open", who, got.ctx.Err()))
					} else if fs, err := godi.FromContext(got.ctx); err != nil || fs != root {
						viol("injected-context-wrong", fmt.Sprintf("%s: FromContext on the singleton's context does not return this provider's root scope (%v)", who, err))
					}
				}
			}
			s1, ok := take(p1, "first provider, before the second Build")
			if !ok {
				return
			}
			if s1.a.gen != 1 || s1.sa != s1.a || s1.ta != s1.a || s1.deep != s1.a {
				viol("identity", "the first provider does not serve one instance of *tbA everywhere")
			}
			p2, err2 := build()
			c.R.Count("two_build_cases", 1)
			switch variant {
			case "second-build-fails":
				if err2 == nil {
					panic("two-builds fixture: the second Build was meant to fail")
				}
			default:
				if err2 != nil {
					viol("ctor-count", fmt.Sprintf("the second Build of the same collection failed: %v", err2))
					return
				}
				s2, ok := take(p2, "second provider")
				if !ok {
					return
				}
				if s2.a == s1.a || s2.a.gen != 2 {
					viol("ctor-count", fmt.Sprintf("the second provider serves the *tbA of generation %d: its own Build did not construct its singleton (constructor calls so far: %d)", s2.a.gen, w.aCalls))
				}
				if s2.sa != s2.a || s2.ta != s2.a || s2.k == s1.k || s2.x == s1.x || len(s2.g) != 2 || s2.g[0] == s1.g[0] {
					viol("identity", "the second provider shares instances with the first or does not serve its own everywhere")
				}
				if variant == "second-build-succeeds-and-is-closed" {
					if err := p2.Close(); err != nil {
						viol("panic", fmt.Sprintf("closing the second provider: %v", err))
					}
					if s2.a.closed != 1 {
						viol("ctor-count", fmt.Sprintf("the second provider's *tbA was closed %d times by its provider", s2.a.closed))
					}
				} else {
					defer p2.Close()
				}
				if variant == "three-builds" {
					p3, err3 := build()
					if err3 == nil {
						defer p3.Close()
						if s3, ok := take(p3, "third provider"); ok && (s3.a.gen != 3 || s3.a == s2.a) {
							viol("ctor-count", fmt.Sprintf("the third provider serves the *tbA of generation %d", s3.a.gen))
						}
						if again, ok := take(p2, "second provider, after the third Build"); ok {
							same(s2, again, "second provider after the third Build")
						}
					}
				}
			}
			checkBI(p1, "first provider, after the later Build(s)")
			again, ok := take(p1, "first provider, after the later Build(s)")
			if !ok {
				return
			}
			same(s1, again, "first provider after the later Build(s)")
			if s1.a.closed != 0 {
				viol("identity", fmt.Sprintf("the first provider's *tbA was closed %d times although the first provider is open", s1.a.closed))
			}
			wantCalls := map[string]int{"second-build-succeeds": 2, "second-build-succeeds-and-is-closed": 2, "second-build-fails": 2, "three-builds": 3}[variant]
			if w.aCalls != wantCalls {
				viol("ctor-count", fmt.Sprintf("the constructor of *tbA ran %d times over %d Builds (want once per Build)", w.aCalls, w.builds))
			}
		}()
		c.R.End(idx, eng.Hash("c01-two-builds", variant), true)
	}
}
