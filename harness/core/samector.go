package core

import (
	"errors"
	"fmt"
	"sort"

	"github.com/junioryono/godi/v4"
	"github.com/junioryono/godi/v4/verifh/eng"
)

// One constructor, several registrations.
//
// Nothing forbids registering the same constructor function more than once - under different
// names, in a group and plainly, with different lifetimes. The pool cannot express that (one
// constructor = one registration, which is what the event log keys on), so this fixture does:
// the registrations share whatever godi derives per constructor (analysis, dependency lists),
// and still each registration is judged by ITS OWN lifetime; the verdict of Build depends on the
// set only - not on registration order, not on map iteration order, not on the attempt.

type scDB struct{ n int }
type scRepo struct{ db *scDB }
type scSvc struct{ repo *scRepo }

var scCounter int

func scNewDB() *scDB             { scCounter++; return &scDB{scCounter} }
func scNewRepo(db *scDB) *scRepo { return &scRepo{db} }

type scSvcIn struct {
	godi.In
	Repo *scRepo `name:"a"`
}

func scNewSvc(in scSvcIn) *scSvc { return &scSvc{in.Repo} }

type scReg struct {
	what string
	add  func(c godi.Collection) error
}

type scCase struct {
	name string
	regs []scReg
	want string // "ok" | "lifetime"
}

func scCases() []scCase {
	db := func(l godi.Lifetime) scReg {
		return scReg{"AddX(newDB) " + lifeName(l), func(c godi.Collection) error { return eqAdd(c, l, scNewDB) }}
	}
	repo := func(l godi.Lifetime, opt godi.AddOption, label string) scReg {
		return scReg{"AddX(newRepo, " + label + ") " + lifeName(l), func(c godi.Collection) error { return eqAdd(c, l, scNewRepo, opt) }}
	}
	svc := func(l godi.Lifetime) scReg {
		return scReg{"AddX(newSvc) " + lifeName(l), func(c godi.Collection) error { return eqAdd(c, l, scNewSvc) }}
	}
	return []scCase{
		{"scoped+singleton-of-one-constructor-over-scoped-dependency", []scReg{db(godi.Scoped), repo(godi.Scoped, godi.Name("a"), `Name("a")`), repo(godi.Singleton, godi.Name("b"), `Name("b")`)}, "lifetime"},
		{"scoped+transient-of-one-constructor-over-scoped-dependency", []scReg{db(godi.Scoped), repo(godi.Scoped, godi.Name("a"), `Name("a")`), repo(godi.Transient, godi.Name("b"), `Name("b")`), svc(godi.Scoped)}, "lifetime"},
		{"group+keyed-of-one-constructor-over-scoped-dependency", []scReg{db(godi.Scoped), repo(godi.Scoped, godi.Group("g"), `Group("g")`), repo(godi.Scoped, godi.Name("a"), `Name("a")`), repo(godi.Singleton, godi.Group("g"), `Group("g")`)}, "lifetime"},
		{"scoped+singleton-of-one-constructor-over-singleton-dependency", []scReg{db(godi.Singleton), repo(godi.Scoped, godi.Name("a"), `Name("a")`), repo(godi.Singleton, godi.Name("b"), `Name("b")`), svc(godi.Scoped)}, "ok"},
		{"three-lifetimes-of-one-constructor-over-singleton-dependency", []scReg{db(godi.Singleton), repo(godi.Scoped, godi.Name("a"), `Name("a")`), repo(godi.Singleton, godi.Name("b"), `Name("b")`), repo(godi.Transient, godi.Name("c"), `Name("c")`)}, "ok"},
	}
}

// RunSameConstructor: every permutation of the registrations x R rebuilds; reports for C06
// (verdict stability) and C07 (the verdict itself / captive instances).
func RunSameConstructor(c *eng.Ctx, prop string, next func() (int, bool)) {
	rebuilds := c.Pick(24, 96)
	for _, sc := range scCases() {
		idx, mine := next()
		if !mine {
			continue
		}
		c.R.Begin(idx)
		verdicts := map[string]int{}
		var witness = map[string]string{}
		perms := permutations(len(sc.regs))
		for _, perm := range perms {
			for k := 0; k < rebuilds/len(perms)+1; k++ {
				coll := godi.NewCollection()
				desc := ""
				addFailed := false
				for _, i := range perm {
					if err := sc.regs[i].add(coll); err != nil {
						addFailed = true
						desc += sc.regs[i].what + " -> " + err.Error() + "; "
						break
					}
					desc += sc.regs[i].what + "; "
				}
				if addFailed {
					verdicts["add-rejected"]++
					witness["add-rejected"] = desc
					continue
				}
				p, err := coll.Build()
				cls := "ok"
				if err != nil {
					cls = "other:" + trimErr(err)
					var lc *godi.LifetimeConflictError
					var lcv godi.LifetimeConflictError
					if errors.As(err, &lc) || errors.As(err, &lcv) {
						cls = "lifetime"
					}
				} else {
					// captive check on the accepted provider: the singleton registration of the
					// shared constructor must not hold a scoped DB that differs per scope
					s1, _ := p.CreateScope(nil)
					s2, _ := p.CreateScope(nil)
					if s1 != nil && s2 != nil {
						d1, _ := godi.Resolve[*scDB](s1)
						d2, _ := godi.Resolve[*scDB](s2)
						rb, e := godi.ResolveKeyed[*scRepo](s1, "b")
						if e == nil && rb != nil && d1 != nil && d2 != nil && d1 != d2 && (rb.db == d1 || rb.db == d2) {
							cls = "ok-but-captive"
						}
					}
					_ = p.Close()
				}
				verdicts[cls]++
				if _, ok := witness[cls]; !ok {
					witness[cls] = desc
				}
				c.R.Count("same_constructor_builds", 1)
			}
		}
		var keys []string
		for k := range verdicts {
			keys = append(keys, k)
		}
		sort.Strings(keys)
		summary := ""
		for _, k := range keys {
			summary += fmt.Sprintf("%q x%d (e.g. order: %s) ", k, verdicts[k], witness[k])
		}
		viol := func(clause, detail string) {
			c.R.Violation(eng.Violation{Prop: prop, Clause: clause, Sig: prop + "/" + clause + ":same-constructor-several-registrations:" + sc.name, Case: idx, CaseID: "samector-" + sc.name, Detail: detail,
				Replay: map[string]any{"fixture": "same-constructor", "case": sc.name}})
		}
		switch prop {
		case "C06":
			if len(verdicts) > 1 {
				viol("verdict-differs", fmt.Sprintf("the same registration set (one constructor registered several times) got different Build verdicts over %d orders x rebuilds: %s", len(perms), summary))
			}
		case "C07":
			for _, k := range keys {
				if k != sc.want {
					clause := "invalid-set-accepted"
					if sc.want == "ok" {
						clause = "valid-set-rejected"
					}
					if k == "ok-but-captive" {
						clause = "captive-instance"
					}
					viol(clause, fmt.Sprintf("expected verdict %q for every build; observed: %s", sc.want, summary))
					break
				}
			}
		}
		c.R.End(idx, eng.Hash("samector", prop, sc.name), true)
	}
}

func permutations(n int) [][]int {
	var out [][]int
	var rec func(cur []int, used []bool)
	rec = func(cur []int, used []bool) {
		if len(cur) == n {
			out = append(out, append([]int{}, cur...))
			return
		}
		for i := 0; i < n; i++ {
			if !used[i] {
				used[i] = true
				rec(append(cur, i), used)
				used[i] = false
			}
		}
	}
	rec(nil, make([]bool, n))
	return out
}
