package core

import (
	"context"
	"fmt"
	"sync"

	"github.com/junioryono/godi/v4"
	"github.com/junioryono/godi/v4/verifh/eng"
)

// A singleton that opens a scope while the provider is being built, next to scope initializers
// that need singletons.
//
// The opener takes only the built-in Provider, so nothing orders it relative to the singletons
// the scope initializers depend on: where it lands in the creation order is up to the container's
// internal iteration. "Whether Build succeeds ... depends only on the set of registrations ... not
// on any internal iteration order" and "creates dependencies first": every one of the 24
// registration orders, built repeatedly, gives the same verdict and wiring; no initializer runs
// before the singleton it declares as a dependency exists, and each scope runs it once.

type boConfig struct{ n int }
type boStore struct{ cfg *boConfig }
type boCache struct{ st *boStore }
type boOpener struct{ sc godi.Scope }

type boWorld struct {
	mu        sync.Mutex
	log       []string
	initRuns  map[string]int
	earlyInit int
	stores    int
}

// RunBuildTimeOpener runs the catalogue (C06).
func RunBuildTimeOpener(c *eng.Ctx, next func() (int, bool)) {
	perms := permutations4()
	repeats := c.Pick(6, 24)
	for variant := 0; variant < 4; variant++ {
		for pi, perm := range perms {
			idx, mine := next()
			if !mine {
				continue
			}
			c.R.Begin(idx)
			feat := []string{"opener-keeps-the-scope", "opener-closes-the-scope", "opener-keeps-the-scope:initializer-needs-two-singletons",
				// two scopes are open when the singletons are done; the initializer run for the first
				// of them closes the other (a job that finished in the meantime): nothing is left to
				// initialize there, and nothing is wrong with the set
				"opener-keeps-two-scopes:the-initializer-of-one-closes-the-other"}[variant]
			viol := func(clause, detail string) {
				c.R.Violation(eng.Violation{Prop: "C06", Clause: clause, Sig: "C06/" + clause + ":scope-opened-during-build:" + feat, Case: idx, CaseID: fmt.Sprintf("build-time-opener-%d-%d", variant, pi),
					Detail: feat + ": " + detail, Replay: map[string]any{"fixture": "build-time-opener", "variant": variant, "order": perm}})
			}
			verdicts := map[string]int{}
			firstErr := ""
			for rep := 0; rep < repeats; rep++ {
				w := &boWorld{initRuns: map[string]int{}}
				newConfig := func() *boConfig { return &boConfig{1} }
				newStore := func(cfg *boConfig) *boStore {
					w.mu.Lock()
					w.stores++
					w.mu.Unlock()
					return &boStore{cfg}
				}
				newCache := func(st *boStore) *boCache { return &boCache{st} }
				var pair [2]godi.Scope
				newOpener := func(p godi.Provider) (*boOpener, error) {
					sc, err := p.CreateScope(context.Background())
					if err != nil {
						return nil, err
					}
					if variant == 3 {
						sc2, err := p.CreateScope(context.Background())
						if err != nil {
							return nil, err
						}
						w.mu.Lock()
						pair = [2]godi.Scope{sc, sc2}
						w.mu.Unlock()
					}
					if variant == 1 {
						_ = sc.Close()
						return &boOpener{}, nil
					}
					return &boOpener{sc}, nil
				}
				initStore := func(st *boStore, s godi.Scope) {
					w.mu.Lock()
					w.initRuns[s.ID()]++
					if st == nil || st.cfg == nil {
						w.earlyInit++
					}
					var other godi.Scope
					for i, x := range pair {
						if x != nil && x.ID() == s.ID() {
							other = pair[1-i]
						}
					}
					w.mu.Unlock()
					if other != nil {
						_ = other.Close()
					}
				}
				initBoth := func(st *boStore, ca *boCache, s godi.Scope) {
					w.mu.Lock()
					defer w.mu.Unlock()
					w.initRuns[s.ID()]++
					if st == nil || ca == nil || ca.st != st {
						w.earlyInit++
					}
				}
				adds := []func(coll godi.Collection) error{
					func(coll godi.Collection) error { return coll.AddSingleton(newConfig) },
					func(coll godi.Collection) error { return coll.AddSingleton(newStore) },
					func(coll godi.Collection) error { return coll.AddSingleton(newOpener) },
					func(coll godi.Collection) error {
						if variant == 2 {
							if err := coll.AddSingleton(newCache); err != nil {
								return err
							}
							return coll.AddScoped(initBoth)
						}
						return coll.AddScoped(initStore)
					},
				}
				coll := godi.NewCollection()
				bad := false
				for _, k := range perm {
					if err := adds[k](coll); err != nil {
						bad = true
					}
				}
				if bad {
					c.R.Inconclusive(idx, "fixture registration refused")
					break
				}
				var prov godi.Provider
				var err error
				func() {
					defer func() {
						if p := recover(); p != nil {
							err = fmt.Errorf("panic: %v", p)
						}
					}()
					prov, err = coll.Build()
				}()
				c.R.Count("build_time_opener_builds", 1)
				if err != nil {
					verdicts["fails:"+Classify(err)]++
					if firstErr == "" {
						firstErr = trimErr(err)
					}
					continue
				}
				verdicts["ok"]++
				scopes := 1 // root
				if variant != 1 {
					scopes++
				}
				w.mu.Lock()
				runs, early, stores := len(w.initRuns), w.earlyInit, w.stores
				twice := ""
				for id, n := range w.initRuns {
					if n != 1 {
						twice = fmt.Sprintf("scope %s: %d runs", id, n)
					}
				}
				w.mu.Unlock()
				if early > 0 {
					viol("dependency-constructed-late", fmt.Sprintf("a scope initializer ran %d time(s) without the singleton it depends on", early))
				}
				// a scope the opener closed again may or may not have run the initializers; scopes
				// that are open when Build returns have, once
				if variant != 1 && variant != 3 && runs != scopes {
					viol("initializer-count", fmt.Sprintf("%d scopes are open when Build returns (root and the one the singleton opened); the scope initializer ran in %d of them", scopes, runs))
				}
				if twice != "" {
					viol("initializer-count", "the scope initializer ran more than once for one scope: "+twice)
				}
				if stores != 1 {
					viol("singleton-constructed-again", fmt.Sprintf("the singleton the initializer depends on was constructed %d times", stores))
				}
				_ = prov.Close()
			}
			if len(verdicts) > 1 {
				viol("verdict-differs", fmt.Sprintf("the same registrations in the same order, built %d times: %v (first error: %s)", repeats, verdicts, firstErr))
			} else if verdicts["ok"] == 0 && len(verdicts) == 1 {
				viol("buildable-set-rejected", fmt.Sprintf("Build refused an acyclic set without conflicts: %v (%s)", verdicts, firstErr))
			}
			c.R.End(idx, eng.Hash("c06-build-opener", variant, pi), true)
		}
	}
}

func permutations4() [][]int {
	var out [][]int
	var rec func(cur []int, used [4]bool)
	rec = func(cur []int, used [4]bool) {
		if len(cur) == 4 {
			out = append(out, append([]int{}, cur...))
			return
		}
		for i := 0; i < 4; i++ {
			if !used[i] {
				used[i] = true
				rec(append(cur, i), used)
				used[i] = false
			}
		}
	}
	rec(nil, [4]bool{})
	return out
}
