package core

import (
	"fmt"
	"time"

	"github.com/junioryono/godi/v4"
	"github.com/junioryono/godi/v4/verifh/eng"
)

// Value-typed services whose value happens to be the zero value.
//
// A result object or a multi-return constructor may provide services of non-pointer types:
// flags, counters, names, durations, small structs. `Verbose: false`, `Retries: 0`, `Region: ""`,
// `Backoff: 0`, `Limits{}` are values like any other - the services exist, are resolvable under
// exactly their identities, and a consumer's parameter object receives them ("exactly its outputs
// are what is resolved"). Only nil (pointer, interface, map, slice, func, chan) means "not
// produced".

type ZvVerbose bool
type ZvRetries int
type ZvRegion string
type ZvLimits struct{ MaxConns, MaxIdle int }
type zvLogger struct{ n int }

type zvWorld struct {
	calls     int
	zero      bool // produce zero values
	consCalls int
}

var zvCur *zvWorld

type zvOut struct {
	godi.Out
	Verbose  ZvVerbose     `name:"verbose"`
	Retries  ZvRetries     `name:"retries"`
	Region   ZvRegion      `name:"region"`
	Backoffs time.Duration `group:"backoff"`
	Backoff2 time.Duration `group:"backoff"`
	Limits   ZvLimits
}

func zvCtorOut() zvOut {
	zvCur.calls++
	if zvCur.zero {
		return zvOut{Backoff2: 5 * time.Second}
	}
	return zvOut{Verbose: true, Retries: 3, Region: "eu", Backoffs: time.Second, Backoff2: 5 * time.Second, Limits: ZvLimits{4, 2}}
}

func zvCtorMR() (ZvLimits, *zvLogger, error) {
	zvCur.calls++
	if zvCur.zero {
		return ZvLimits{}, &zvLogger{zvCur.calls}, nil
	}
	return ZvLimits{4, 2}, &zvLogger{zvCur.calls}, nil
}

type zvIn struct {
	godi.In
	Verbose  ZvVerbose       `name:"verbose"`
	Retries  ZvRetries       `name:"retries"`
	Region   ZvRegion        `name:"region"`
	Backoffs []time.Duration `group:"backoff"`
	Limits   ZvLimits
}

type zvClient struct{ in zvIn }

func zvNewClient(in zvIn) *zvClient { zvCur.consCalls++; return &zvClient{in} }

type zvMRUser struct {
	l   ZvLimits
	log *zvLogger
}

func zvNewMRUser(l ZvLimits, log *zvLogger) *zvMRUser { zvCur.consCalls++; return &zvMRUser{l, log} }

// RunZeroValuedOutputs: forms x lifetimes x {zero values, non-zero control}.
func RunZeroValuedOutputs(c *eng.Ctx, next func() (int, bool)) {
	for _, form := range []string{"result-object", "multi-return"} {
		for _, life := range []godi.Lifetime{godi.Singleton, godi.Scoped, godi.Transient} {
			for _, zero := range []bool{true, false} {
				idx, mine := next()
				if !mine {
					continue
				}
				c.R.Begin(idx)
				val := "non-zero-values"
				if zero {
					val = "zero-values"
				}
				viol := func(clause, detail string) {
					c.R.Violation(eng.Violation{Prop: "C04", Clause: clause, Sig: "C04/" + clause + ":value-typed-outputs:" + form + ":" + lifeName(life) + ":" + val, Case: idx, CaseID: fmt.Sprintf("zero-valued-outputs-%s-%s-%s", form, lifeName(life), val),
						Detail: fmt.Sprintf("%s, %s, %s: %s", form, lifeName(life), val, detail), Replay: map[string]any{"fixture": "zero-valued-outputs", "form": form, "lifetime": lifeName(life), "zero": zero}})
				}
				func() {
					defer func() {
						if p := recover(); p != nil {
							viol("api-call-panics", fmt.Sprintf("panic: %v", p))
						}
					}()
					zvCur = &zvWorld{zero: zero}
					coll := godi.NewCollection()
					var err error
					if form == "result-object" {
						err = eqAdd(coll, life, zvCtorOut)
						if err == nil {
							err = eqAdd(coll, life, zvNewClient)
						}
					} else {
						err = eqAdd(coll, life, zvCtorMR)
						if err == nil {
							err = eqAdd(coll, life, zvNewMRUser)
						}
					}
					if err != nil {
						panic("zero-valued-outputs fixture: registration refused: " + err.Error())
					}
					prov, err := coll.Build()
					c.R.Count("zero_valued_output_cases", 1)
					if err != nil {
						viol("registered-identity-fails", fmt.Sprintf("Build failed although every service is provided (a value-typed output equal to its zero value is a value, not a missing output): %v", err))
						return
					}
					defer prov.Close()
					sc, err := prov.CreateScope(nil)
					if err != nil {
						viol("registered-identity-fails", fmt.Sprintf("CreateScope: %v", err))
						return
					}
					defer sc.Close()
					want := zvOut{Verbose: true, Retries: 3, Region: "eu", Backoffs: time.Second, Backoff2: 5 * time.Second, Limits: ZvLimits{4, 2}}
					if zero {
						want = zvOut{Backoff2: 5 * time.Second}
					}
					if form == "result-object" {
						if v, err := godi.ResolveKeyed[ZvVerbose](sc, "verbose"); err != nil || v != want.Verbose {
							viol("registered-identity-fails", fmt.Sprintf("ResolveKeyed[ZvVerbose](\"verbose\") = %v, %v; the constructor produced %v", v, err, want.Verbose))
						}
						if v, err := godi.ResolveKeyed[ZvRetries](sc, "retries"); err != nil || v != want.Retries {
							viol("registered-identity-fails", fmt.Sprintf("ResolveKeyed[ZvRetries](\"retries\") = %v, %v; the constructor produced %v", v, err, want.Retries))
						}
						if v, err := godi.ResolveKeyed[ZvRegion](sc, "region"); err != nil || v != want.Region {
							viol("registered-identity-fails", fmt.Sprintf("ResolveKeyed[ZvRegion](\"region\") = %q, %v; the constructor produced %q", v, err, want.Region))
						}
						if vs, err := godi.ResolveGroup[time.Duration](sc, "backoff"); err != nil || len(vs) != 2 || vs[0] != want.Backoffs || vs[1] != want.Backoff2 {
							viol("group-wrong", fmt.Sprintf("ResolveGroup[time.Duration](\"backoff\") = %v, %v; the constructor produced [%v %v]", vs, err, want.Backoffs, want.Backoff2))
						}
						if v, err := godi.Resolve[ZvLimits](sc); err != nil || v != want.Limits {
							viol("registered-identity-fails", fmt.Sprintf("Resolve[ZvLimits] = %v, %v; the constructor produced %v", v, err, want.Limits))
						}
						cl, err := godi.Resolve[*zvClient](sc)
						if err != nil || cl == nil {
							viol("registered-identity-fails", fmt.Sprintf("the consumer whose parameter object names these services cannot be resolved: %v", err))
						} else if cl.in.Verbose != want.Verbose || cl.in.Retries != want.Retries || cl.in.Region != want.Region || cl.in.Limits != want.Limits || len(cl.in.Backoffs) != 2 {
							viol("arg-wrong", fmt.Sprintf("the consumer's parameter object received %+v", cl.in))
						}
					} else {
						if v, err := godi.Resolve[ZvLimits](sc); err != nil || v != want.Limits {
							viol("registered-identity-fails", fmt.Sprintf("Resolve[ZvLimits] = %v, %v; the constructor produced %v", v, err, want.Limits))
						}
						if v, err := godi.Resolve[*zvLogger](sc); err != nil || v == nil {
							viol("registered-identity-fails", fmt.Sprintf("Resolve[*zvLogger] = %v, %v", v, err))
						}
						if u, err := godi.Resolve[*zvMRUser](sc); err != nil || u == nil {
							viol("registered-identity-fails", fmt.Sprintf("the consumer of both outputs cannot be resolved: %v", err))
						} else if u.l != want.Limits || u.log == nil {
							viol("arg-wrong", fmt.Sprintf("the consumer received %+v / %v", u.l, u.log))
						}
					}
					if life != godi.Transient && zvCur.calls != 1 {
						viol("ctor-count", fmt.Sprintf("the %s multi-output constructor ran %d times for one scope (want 1)", lifeName(life), zvCur.calls))
					}
				}()
				c.R.End(idx, eng.Hash("c04-zero-valued-outputs", form, int(life), zero), true)
			}
		}
	}
}
