package core

import (
	"math/rand"
	"reflect"
	"strings"

	"github.com/junioryono/godi/v4"
	"github.com/junioryono/godi/v4/verifh/eng"
)

// Exported helpers for the concurrency engine (package conc).

// Report turns findings into violations of the given property.
func Report(c *eng.Ctx, prop string, idx int, r *Run, fs []Finding) { report(c, prop, idx, r, fs) }

// MkReg builds a registration from a pool constructor name.
func MkReg(name string, life godi.Lifetime, opts ...func(*Reg)) Reg {
	return mkReg(name, life, opts...)
}

// WithName / WithGroup / WithAs are registration options for MkReg.
func WithName(n string) func(*Reg)   { return withName(n) }
func WithGroup(g string) func(*Reg)  { return withGroup(g) }
func WithAs(as ...string) func(*Reg) { return withAs(as...) }

// SampleOf renders a run as an evidence sample.
func SampleOf(r *Run, extra map[string]any) map[string]any { return sampleOf(r, extra) }

// CaseRng derives the deterministic PRNG of a case.
func CaseRng(seed int64, prop string, idx int) *rand.Rand {
	return rand.New(rand.NewSource(seed*7_368_787 + int64(idx)*104_729 + int64(len(prop))*31))
}

// LifeName renders a lifetime.
func LifeName(l godi.Lifetime) string { return lifeName(l) }

// OwnedDisposables lists the container-created disposable instances of a run.
func OwnedDisposables(r *Run, o *Obs) []Owned {
	var out []Owned
	for _, x := range ownedDisposables(r, o) {
		out = append(out, Owned{ID: x.id, Reg: x.reg, Out: x.out, Run: x.run, Owner: x.owner})
	}
	return out
}

// Owned is the exported form of an owned disposable instance.
type Owned struct {
	ID    int64
	Reg   int
	Out   int
	Run   *CtorRun
	Owner int
}

// TrimErr shortens an error for witnesses.
func TrimErr(err error) string { return trimErr(err) }

// ScopeHandle returns the handle of harness scope i (safe while other goroutines create scopes).
func (r *Run) ScopeHandle(i int) *ScopeH {
	r.mu.Lock()
	defer r.mu.Unlock()
	if i < 0 || i >= len(r.Scopes) {
		return nil
	}
	return r.Scopes[i]
}

// AncestorOrSelf reports whether scope a is s or an ancestor of s.
func (r *Run) AncestorOrSelf(a, s int) bool { return r.ancestorOrSelf(a, s) }

// TypeOf is reflect.TypeOf for a type parameter.
func TypeOf[T any]() reflect.Type { return reflect.TypeOf((*T)(nil)).Elem() }

// FuncKindFinding is one finding of the function-value-kind catalogue (constructors that are
// distinct function values sharing code: closures of one literal, method values, MakeFunc,
// variadic ones among them).
type FuncKindFinding struct{ Case, Clause, Detail string }

// RunFuncKinds runs the catalogue and returns the findings whose detail mentions the given
// lifetime name ("singleton", "scoped", "transient"; "" = all), and the number of resolutions.
func RunFuncKinds(lifetime string) (out []FuncKindFinding, n int) {
	for _, fk := range funcKindCases {
		fs, k := fk.run()
		n += k
		for _, f := range fs {
			if lifetime == "" || strings.Contains(f.Detail, "("+lifetime+")") {
				out = append(out, FuncKindFinding{fk.name, f.Clause, f.Detail})
			}
		}
	}
	return out, n
}
