package core

import (
	"fmt"
	"reflect"
	"time"

	"github.com/junioryono/godi/v4"
	"github.com/junioryono/godi/v4/verifh/eng"
)

// Dependency cycles that pass through a function WITHOUT a service result.
//
// Such a function registered under a Name is an identity (struct{}, name) that a parameter
// object can depend on (`Ready struct{} `name:"x"“). The dependency relation of C05 - "plain,
// keyed ... and parameter-object dependencies" - therefore contains edges into and out of
// initializers, for every lifetime, and a cycle through one is a cycle: Build must refuse it with
// the circular-dependency error (and must return at all: an undetected cycle re-enters the
// non-reentrant creation of the service it is already constructing).

type icSvc struct{}

type icDepA struct {
	godi.In
	A struct{} `name:"a"`
}
type icDepB struct {
	godi.In
	B struct{} `name:"b"`
}
type icDepC struct {
	godi.In
	C struct{} `name:"c"`
}

// RunInitializerCycles runs the catalogue for C05.
func RunInitializerCycles(c *eng.Ctx, next func() (int, bool)) {
	type reg struct {
		fn   any
		name string
	}
	shapes := []struct {
		name   string
		cyclic bool
		regs   []reg
	}{
		{"initializer<->service", true, []reg{{func(*icSvc) {}, "a"}, {func(icDepA) *icSvc { return &icSvc{} }, ""}}},
		{"initializer<->service:error-result", true, []reg{{func(*icSvc) error { return nil }, "a"}, {func(icDepA) *icSvc { return &icSvc{} }, ""}}},
		{"two-initializers", true, []reg{{func(icDepB) {}, "a"}, {func(icDepA) {}, "b"}}},
		{"three-initializers", true, []reg{{func(icDepB) {}, "a"}, {func(icDepC) {}, "b"}, {func(icDepA) error { return nil }, "c"}}},
		{"initializer-on-itself", true, []reg{{func(icDepA) {}, "a"}}},
		{"initializer->service->initializer->initializer", true, []reg{{func(*icSvc) {}, "a"}, {func(icDepB) *icSvc { return &icSvc{} }, ""}, {func(icDepA) {}, "b"}}},
		// controls: the same edges without the closing one
		{"control:chain-of-initializers", false, []reg{{func() {}, "a"}, {func(icDepA) {}, "b"}, {func(icDepB) error { return nil }, "c"}}},
		{"control:service-after-initializer", false, []reg{{func() {}, "a"}, {func(icDepA) *icSvc { return &icSvc{} }, ""}, {func(*icSvc) {}, "b"}}},
	}
	for _, sh := range shapes {
		for _, life := range allLifetimes {
			for order := 0; order < 2; order++ {
				idx, mine := next()
				if !mine {
					continue
				}
				c.R.Begin(idx)
				feat := sh.name + ":" + lifeName(life)
				viol := func(clause, detail string) {
					c.R.Violation(eng.Violation{Prop: "C05", Clause: clause, Sig: "C05/" + clause + ":through-initializer:" + feat, Case: idx, CaseID: fmt.Sprintf("initializer-cycle-%s-%d", feat, order),
						Detail: feat + ": " + detail, Replay: map[string]any{"fixture": "initializer-cycles", "shape": sh.name, "lifetime": lifeName(life), "order": order}})
				}
				coll := godi.NewCollection()
				regs := append([]reg{}, sh.regs...)
				if order == 1 {
					for i, j := 0, len(regs)-1; i < j; i, j = i+1, j-1 {
						regs[i], regs[j] = regs[j], regs[i]
					}
				}
				refused := false
				for _, r := range regs {
					var opts []godi.AddOption
					if r.name != "" {
						opts = append(opts, godi.Name(r.name))
					}
					if err := eqAdd(coll, life, r.fn, opts...); err != nil {
						refused = true
					}
				}
				if refused {
					c.R.Inconclusive(idx, "fixture registration refused")
					continue
				}
				var prov godi.Provider
				var err error
				var pan any
				done := make(chan struct{})
				go func() {
					defer close(done)
					defer func() { pan = recover() }()
					prov, err = coll.Build()
				}()
				if v := eng.AwaitOrDiagnose(done, 20*time.Second); !v.Done {
					if v.Deadlock {
						viol("build-hangs", "Build never returned; goroutines stuck inside godi:\n"+v.Dump)
					} else {
						c.R.Inconclusive(idx, "Build did not return within the watchdog and no goroutine is provably stuck inside godi")
					}
					c.R.Abandon(idx)
					continue
				}
				cls := Classify(err)
				switch {
				case pan != nil:
					viol("build-panics", fmt.Sprintf("Build panicked: %v", pan))
				case sh.cyclic && err == nil:
					viol("cycle-accepted", "Build succeeded although the registrations contain a dependency cycle through a named function without a service result")
				case sh.cyclic && cls != "circular":
					viol("cycle-wrong-error", fmt.Sprintf("Build failed, but not with a circular-dependency error (%s): %v", cls, trimErr(err)))
				case !sh.cyclic && err != nil:
					viol("acyclic-rejected", fmt.Sprintf("Build refused an acyclic set: %v", trimErr(err)))
				}
				if prov != nil {
					// "every resolution terminates": one scope, which runs the scoped initializers
					d2 := make(chan struct{})
					go func() {
						defer close(d2)
						defer func() { _ = recover() }()
						if sc, e := prov.CreateScope(nil); e == nil {
							_, _ = godi.Resolve[*icSvc](sc)
							_ = sc.Close()
						}
						_ = prov.Close()
					}()
					if v := eng.AwaitOrDiagnose(d2, 20*time.Second); !v.Done {
						if v.Deadlock {
							viol("resolution-hangs", "scope creation / resolution on the built provider never returned:\n"+v.Dump)
						} else {
							c.R.Inconclusive(idx, "scope creation did not return within the watchdog")
						}
						c.R.Abandon(idx)
						continue
					}
				}
				c.R.Count("initializer_cycle_cases", 1)
				c.R.End(idx, eng.Hash("c05-init-cycle", feat, order), true)
			}
		}
	}
}

// ---- a live provider, a failed Build, and an edit that closes a cycle ---------------------

type lcRepo struct{ svc *lcSvc }
type lcSvc struct{ repo *lcRepo }
type lcFlaky struct{}

// RunLiveProviderVsCyclicEdit: "every resolution on a successfully built provider terminates".
// Provider p1 is built from an acyclic collection and stays alive. A later Build of the same
// collection fails AFTER validation (a singleton constructor returns an error / panics), or is
// refused; then the collection is edited so that it contains a cycle among scoped / transient
// services (Build of the edited collection is refused, as it must be). p1 was validated acyclic
// and is unaffected by all of this: resolving the services in a fresh scope of p1 returns.
func RunLiveProviderVsCyclicEdit(c *eng.Ctx, next func() (int, bool)) {
	for _, between := range []string{"nothing", "build-fails-in-a-singleton-constructor", "build-panics-in-a-singleton-constructor", "build-refused-for-a-missing-dependency"} {
		for _, life := range []godi.Lifetime{godi.Scoped, godi.Transient} {
			idx, mine := next()
			if !mine {
				continue
			}
			c.R.Begin(idx)
			feat := between + ":" + lifeName(life)
			viol := func(clause, detail string) {
				c.R.Violation(eng.Violation{Prop: "C05", Clause: clause, Sig: "C05/" + clause + ":live-provider-after-cyclic-edit:" + feat, Case: idx, CaseID: "live-provider-vs-cyclic-edit-" + feat,
					Detail: feat + ": " + detail, Replay: map[string]any{"fixture": "live-provider-vs-cyclic-edit", "between": between, "lifetime": lifeName(life)}})
			}
			flaky := ""
			coll := godi.NewCollection()
			errs := []error{
				eqAdd(coll, life, func() *lcRepo { return &lcRepo{} }),
				eqAdd(coll, life, func(r *lcRepo) *lcSvc { return &lcSvc{r} }),
				coll.AddSingleton(func() (*lcFlaky, error) {
					switch flaky {
					case "error":
						return nil, fmt.Errorf("live-provider fixture: this singleton fails to start")
					case "panic":
						panic("live-provider fixture: this singleton panics")
					}
					return &lcFlaky{}, nil
				}),
			}
			bad := false
			for _, e := range errs {
				bad = bad || e != nil
			}
			p1, err := coll.Build()
			if bad || err != nil {
				c.R.Inconclusive(idx, "fixture does not build")
				continue
			}
			switch between {
			case "build-fails-in-a-singleton-constructor":
				flaky = "error"
			case "build-panics-in-a-singleton-constructor":
				flaky = "panic"
			case "build-refused-for-a-missing-dependency":
				_ = eqAdd(coll, life, func(*icSvc) *orC { return &orC{} })
			}
			if between != "nothing" {
				func() {
					defer func() { _ = recover() }()
					if p, err := coll.Build(); err == nil {
						_ = p.Close()
						viol("fixture", "the Build that must fail succeeded")
					}
				}()
				flaky = ""
				if between == "build-refused-for-a-missing-dependency" {
					coll.Remove(reflect.TypeOf((*orC)(nil)))
				}
			}
			// the edit: Repo now needs Svc
			coll.Remove(reflect.TypeOf((*lcRepo)(nil)))
			if err := eqAdd(coll, life, func(s *lcSvc) *lcRepo { return &lcRepo{s} }); err != nil {
				c.R.Inconclusive(idx, "fixture edit refused: "+err.Error())
				_ = p1.Close()
				continue
			}
			if p, err := coll.Build(); err == nil {
				_ = p.Close()
				viol("cycle-accepted", "Build succeeded on the edited collection although Svc -> Repo -> Svc")
			} else if Classify(err) != "circular" {
				viol("cycle-wrong-error", fmt.Sprintf("Build of the edited collection failed, but not with a circular-dependency error: %v", trimErr(err)))
			}
			done := make(chan struct{})
			var rerr error
			var svc *lcSvc
			go func() {
				defer close(done)
				defer func() {
					if p := recover(); p != nil {
						rerr = fmt.Errorf("panic: %v", p)
					}
				}()
				sc, err := p1.CreateScope(nil)
				if err != nil {
					rerr = err
					return
				}
				svc, rerr = godi.Resolve[*lcSvc](sc)
				_, _ = godi.Resolve[*lcRepo](sc)
				_ = sc.Close()
			}()
			if v := eng.AwaitOrDiagnose(done, 15*time.Second); !v.Done {
				if v.Deadlock {
					viol("resolution-hangs", "a resolution on the provider built BEFORE the edit never returned; goroutines stuck inside godi:\n"+v.Dump)
				} else {
					c.R.Inconclusive(idx, "resolution on the live provider did not return within the watchdog")
				}
				c.R.Abandon(idx)
				continue
			}
			if rerr != nil || svc == nil || svc.repo == nil || svc.repo.svc != nil {
				viol("earlier-provider-changed", fmt.Sprintf("the provider built before the edit no longer resolves its acyclic services as registered then: %v", rerr))
			}
			_ = p1.Close()
			c.R.Count("live_provider_vs_cyclic_edit_cases", 1)
			c.R.End(idx, eng.Hash("c05-live-provider", feat), true)
		}
	}
}

// ---- a construction that failed, asked for again -------------------------------------------

type rtDep struct{}
type rtSvc struct{ d *rtDep }
type rtOptIn struct {
	godi.In
	D *rtDep `optional:"true"`
}
type rtUser struct{ d *rtDep }
type rtUser2 struct{ d *rtDep }

// RunRetryTerminates: "every resolution on a successfully built provider terminates" - also the
// resolution that comes AFTER one that failed: a scoped (or transient) service whose constructor
// returned an error or panicked is asked for again in the same scope, directly, through a
// consumer, and through the optional field of a parameter object (where the first failure was
// not even visible). Each call runs under a watchdog.
func RunRetryTerminates(c *eng.Ctx, next func() (int, bool)) {
	for _, how := range []string{"error", "panic"} {
		for _, life := range []godi.Lifetime{godi.Scoped, godi.Transient} {
			for _, where := range []string{"scope", "provider"} {
				idx, mine := next()
				if !mine {
					continue
				}
				c.R.Begin(idx)
				feat := how + ":" + lifeName(life) + ":" + where
				viol := func(clause, detail string) {
					c.R.Violation(eng.Violation{Prop: "C05", Clause: clause, Sig: "C05/" + clause + ":asked-again-after-a-failed-construction:" + feat, Case: idx, CaseID: "retry-terminates-" + feat,
						Detail: feat + ": " + detail, Replay: map[string]any{"fixture": "retry-terminates", "how": how, "lifetime": lifeName(life), "where": where}})
				}
				failing := true
				coll := godi.NewCollection()
				errs := []error{
					eqAdd(coll, life, func() (*rtDep, error) {
						if failing {
							if how == "panic" {
								panic("retry fixture: the constructor panics")
							}
							return nil, fmt.Errorf("retry fixture: the constructor fails")
						}
						return &rtDep{}, nil
					}),
					eqAdd(coll, life, func(d *rtDep) *rtSvc { return &rtSvc{d} }),
					eqAdd(coll, life, func(in rtOptIn) *rtUser { return &rtUser{in.D} }),
					eqAdd(coll, life, func(in rtOptIn) *rtUser2 { return &rtUser2{in.D} }),
				}
				bad := false
				for _, e := range errs {
					bad = bad || e != nil
				}
				prov, err := coll.Build()
				if bad || err != nil {
					c.R.Inconclusive(idx, "fixture does not build")
					continue
				}
				var p godi.Provider = prov
				if where == "scope" {
					sc, err := prov.CreateScope(nil)
					if err != nil {
						c.R.Inconclusive(idx, "scope creation failed")
						_ = prov.Close()
						continue
					}
					p = sc
				}
				steps := []struct {
					name string
					run  func() error
				}{
					{"Resolve[*Dep] (fails)", func() error { _, e := godi.Resolve[*rtDep](p); return e }},
					{"Resolve[*Dep] again (fails)", func() error { _, e := godi.Resolve[*rtDep](p); return e }},
					{"Resolve[*Svc] (its dependency fails)", func() error { _, e := godi.Resolve[*rtSvc](p); return e }},
					{"Resolve[*User] (optional field, dependency fails)", func() error { _, e := godi.Resolve[*rtUser](p); return e }},
					{"Resolve[*User2] (optional field, same dependency)", func() error { _, e := godi.Resolve[*rtUser2](p); return e }},
					{"Resolve[*Dep] after the constructor was repaired", func() error { failing = false; _, e := godi.Resolve[*rtDep](p); return e }},
					{"Resolve[*Svc] after the constructor was repaired", func() error { _, e := godi.Resolve[*rtSvc](p); return e }},
				}
				hung := false
				for _, st := range steps {
					done := make(chan struct{})
					go func() {
						defer close(done)
						defer func() { _ = recover() }()
						_ = st.run()
					}()
					if v := eng.AwaitOrDiagnose(done, 15*time.Second); !v.Done {
						if v.Deadlock {
							viol("resolution-hangs", fmt.Sprintf("%s never returned; goroutines stuck inside godi:\n%s", st.name, v.Dump))
						} else {
							c.R.Inconclusive(idx, st.name+" did not return within the watchdog")
						}
						hung = true
						break
					}
					c.R.Count("retry_terminates_calls", 1)
				}
				if hung {
					c.R.Abandon(idx)
					continue
				}
				_ = prov.Close()
				c.R.End(idx, eng.Hash("c05-retry-terminates", feat), true)
			}
		}
	}
}
